(* QR: the lemmas exported to props/C01.v and props/C10.v .. C13.v.
   The Reed-Solomon premise of the composition is discharged here with theorem
   rs_encode_valid of proofs/RSP.v (property C17). *)
From Verif Require Import Prelude Barcode BitListM GFM GFP RSP TabQr QRMBits QRMBlocks QRMRender QRM QRSpec
  QRP1Tables QRP2Layout QRP3Bits QRP3Seg QRP3Pad QRP4Blocks QRP5Place QRP6Compose.

Local Ltac Zify.zify_post_hook ::= Z.div_mod_to_equations.
#[local] Arguments Z.mul : simpl never.
#[local] Arguments Z.add : simpl never.
#[local] Arguments Z.sub : simpl never.
#[local] Arguments Z.div : simpl never.
#[local] Arguments Z.modulo : simpl never.

Lemma rs_holds : rs_statement.
Proof. exact rs_encode_valid. Qed.

Definition is_bytes (content : list Z) : Prop := Forall (fun c => 0 <= c < 256) content.

(* ================= C01 ================= *)
(* layer 1: the source tables are the ISO tables *)
Theorem qr_c01_tables :
  qr_version_infos = iso_rows
  /\ qr_format_infos
     = map (fun l => (level_Z l, map (fun m => (m, word_bits 15 (format_word l m))) (sseq 0 8))) all_levels
  /\ qr_version_bits = map (fun v => (v, word_bits 18 (version_word v))) (sseq 7 34)
  /\ qr_charset = iso_alnum
  /\ (forall v, 1 <= v <= 40 -> alignment_placements v = Ok (alignment_centres v))
  /\ (forall v, 1 <= v <= 40 ->
        char_count_bits v qr_numeric_mode = spec_ccb SNumeric v
        /\ char_count_bits v qr_alphanumeric_mode = spec_ccb SAlnum v
        /\ char_count_bits v qr_byte_mode = spec_ccb SByte v)
  /\ (forall vi m n, In vi version_infos -> 0 <= n ->
        4 + spec_ccb m (vi_version vi) + spec_data_bits m n <= 8 * total_data_bytes vi ->
        n < 2 ^ spec_ccb m (vi_version vi)).
Proof.
  split; [exact qr_version_infos_iso|]. split; [exact qr_format_infos_bch|].
  split; [exact qr_version_bits_golay|]. split; [exact qr_charset_iso|].
  split; [exact alignment_placements_spec|]. split; [exact qr_char_count_bits_iso|].
  intros vi m n. apply count_fits.
Qed.

(* layer 2: layout of all 40 versions, masks for all coordinates *)
Theorem qr_c01_layout :
  (forall v, 1 <= v <= 40 ->
     exists occ res0 order,
       base_matrix v = Ok (occ, res0) /\ iterate_modules occ = Ok order
       /\ layout_facts v occ res0 order)
  /\ (forall mask x y, 0 <= mask < 8 -> 0 <= x -> 0 <= y -> mask_bit mask x y = spec_mask mask x y).
Proof. split; [exact layout_facts_of_version|exact qr_masks_table10]. Qed.

(* layer 3: the mode encoders against the segment parser; blocks; placement *)
Theorem qr_c01_segments m content level bits vi :
  (m = SByte -> is_bytes content) ->
  encoder_of m content level = Ok (bits, vi) ->
  in_mode_alphabet m content = true
  /\ zlength bits = 8 * total_data_bytes vi
  /\ exists rest, parse_segments (S (length bits)) (vi_version vi) bits = Some (content, rest)
       /\ padding_ok rest = true.
Proof.
  intros Hb H. destruct (encoder_ok m content level bits vi Hb H) as (_ & Ha & Hl & Hp).
  rewrite <- alphabet_ok_iso. auto.
Qed.

Theorem qr_c01_blocks bits vi l :
  In vi version_infos -> level_of_Z (vi_level vi) = Some l ->
  zlength bits = 8 * total_data_bytes vi ->
  exists data, codewords_of_bits bits vi = Ok data /\ blocks_facts (vi_version vi) l bits data.
Proof. apply codewords_of_bits_spec. exact rs_holds. Qed.

(* the bytes the block splitter receives are the byte view of the boolean-sequence
   specification of the BitList (theorem C18: GetBytes / IterateBytes = pack8) *)
Theorem qr_c01_bitlist_bytes bits : (exists n, length bits = (8 * n)%nat) ->
  bytes_of_bits bits = pack8 bits.
Proof. intros [n Hn]. apply bytes_of_bits_pack8. apply (octets_of_length n). exact Hn. Qed.

(* layer 3, general forms: de-interleaving inverts interleaving for an arbitrary block
   structure (n1 blocks of k1 data codewords, n2 blocks of k1+1, e check codewords each;
   r = 1 extra pass iff there is a second group); writing bits at a duplicate-free list of
   in-range cells and unmasking reads them back and disturbs no other cell *)
Theorem qr_c01_interleave (g1 g2 : list (list Z * list Z)) (k1 : nat) (e : Z) (r : nat) layout :
  Forall (good_block k1 e) g1 -> Forall (good_block (S k1) e) g2 ->
  (g2 = [] /\ r = 0%nat) \/ r = 1%nat ->
  0 <= e ->
  bl_e layout = e -> bl_n1 layout = Z.of_nat (length g1) -> bl_k1 layout = Z.of_nat k1 ->
  bl_n2 layout = Z.of_nat (length g2) ->
  forall ecs, interleave_ecc (Z.to_nat e) (map snd (g1 ++ g2)) = Ok ecs ->
  deinterleave layout (interleave_data (k1 + r) (map fst (g1 ++ g2)) ++ ecs) = g1 ++ g2.
Proof. apply deinterleave_interleave. Qed.

Theorem qr_c01_placement dim order bits mask m :
  qm_dim m = dim -> Forall (in_range dim) order -> NoDup (map (cell_key dim) order) ->
  exists m', place_bits order bits mask m = Ok m' /\ qm_dim m' = dim
    /\ (forall q, ~ In (cell_key dim q) (map (cell_key dim) order) -> peek m' q = peek m q)
    /\ map (fun p => xorb (peek m' p) (mask_bit mask (fst p) (snd p))) order
       = take_pad (length order) bits.
Proof. apply place_bits_spec. Qed.

(* layer 4: the composition *)
Theorem qr_c01_roundtrip content level mode mask bc :
  is_bytes content -> valid_encoding mode -> 0 <= mask < 8 ->
  qr_encode content level mode mask = Ok bc ->
  qr_valid_rows (bc_rows bc) = true /\ qr_decode_rows (bc_rows bc) = Some content.
Proof.
  intros Hb Hm Hk H.
  destruct (qr_encode_read_modulo_rs rs_holds content level mode mask bc Hb Hm Hk H)
    as (vi & l & data & bits & r & _ & _ & _ & _ & _ & _ & _ & _ & _ & _ & Hread & Hr & Hvalid).
  split; [exact Hvalid|].
  unfold qr_read_rows in Hread. unfold qr_decode_rows, qr_decode.
  destruct (rows_square (bc_rows bc)); [|discriminate]. rewrite Hread.
  destruct Hr as (_ & _ & _ & _ & Hc & _). rewrite Hc. reflexivity.
Qed.

(* what the reader finds in detail: version, level, mask, blocks *)
Theorem qr_c01_reading content level mode mask bc :
  is_bytes content -> valid_encoding mode -> 0 <= mask < 8 ->
  qr_encode content level mode mask = Ok bc ->
  exists r l v,
    qr_read_rows (bc_rows bc) = Some r /\ level_of_Z level = Some l
    /\ bc_width bc = spec_size v /\ 1 <= v <= 40
    /\ rd_version r = v /\ rd_level r = l /\ rd_mask r = mask /\ rd_content r = content
    /\ rd_padding_ok r = true /\ rd_remainder_ok r = true
    /\ forallb (block_ok (bl_e (spec_blocks v l))) (rd_blocks r) = true.
Proof.
  intros Hb Hm Hk H.
  destruct (qr_encode_read_modulo_rs rs_holds content level mode mask bc Hb Hm Hk H)
    as (vi & l & data & bits & r & _ & Hin & Hl & _ & Hw & _ & _ & _ & _ & BF & Hread & Hr & _).
  destruct (row_facts vi Hin) as (_ & _ & Hv & _).
  exists r, l, (vi_version vi).
  destruct Hr as (H1 & H2 & H3 & H4 & H5 & H6 & H7).
  repeat (split; [assumption|]). rewrite H4. apply (bf_syndromes _ _ _ _ BF).
Qed.

(* ================= C10 ================= *)
(* qr_representable (spec/QRSpec.v): the level exists, the content is in the alphabet of
   the mode and some version up to 40 has room for it *)
Lemma existsb_find {A} (P : A -> bool) (l : list A) :
  existsb P l = match find P l with Some _ => true | None => false end.
Proof. induction l as [|x l IH]; [reflexivity|]. cbn. destruct (P x); [reflexivity|exact IH]. Qed.

Lemma find_ext_in {A} (P Q : A -> bool) (l : list A) :
  (forall x, In x l -> P x = Q x) -> find P l = find Q l.
Proof.
  induction l as [|x l IH]; intros H; [reflexivity|]. cbn.
  rewrite (H x (or_introl eq_refl)). destruct (Q x); [reflexivity|]. apply IH. intros y Hy. apply H. right. exact Hy.
Qed.

(* the version search against the specification's capacity *)
Lemma find_smallest_capacity m level n :
  find_smallest_version_info level (mode_of_smode m) (spec_data_bits m n) =
  match level_of_Z level with
  | None => None
  | Some l =>
    match find (spec_fits m l n) all_versions with
    | Some v => Some (row_of v l)
    | None => None
    end
  end.
Proof.
  rewrite find_smallest_spec. destruct (level_of_Z level) as [l|] eqn:El; [|reflexivity].
  apply level_of_Z_some in El. subst level.
  rewrite (find_ext_in _ (spec_fits m l n) all_versions); [reflexivity|].
  intros v Hv. apply sseq_in in Hv. apply fits_row_spec. lia.
Qed.

Lemma encoder_representable m content level :
  match level_of_Z level with
  | Some l =>
    if mode_representable m l content
    then exists bits vi, encoder_of m content level = Ok (bits, vi)
    else encoder_of m content level = Err
  | None => encoder_of m content level = Err
  end.
Proof.
  pose proof (encoder_total m content level) as Ht.
  rewrite find_smallest_capacity in Ht.
  destruct (level_of_Z level) as [l|] eqn:El.
  - unfold mode_representable, spec_fits_some. rewrite <- alphabet_ok_iso, existsb_find.
    fold all_versions. destruct (find (spec_fits m l (zlength content)) all_versions) as [v|] eqn:Ef.
    + destruct (alphabet_ok m content) eqn:Ea; cbn [andb].
      * destruct Ht as [Ht|[_ [Hf|Hf]]]; [exact Ht|discriminate|discriminate].
      * destruct Ht as [(bits & vi & Ht)|[Ht _]]; [|exact Ht].
        apply encoder_ok_shape in Ht. destruct Ht as (_ & Ht & _). congruence.
    + rewrite andb_false_r.
      destruct Ht as [(bits & vi & Ht)|[Ht _]]; [|exact Ht].
      apply encoder_ok_shape in Ht. destruct Ht as (Ht & _).
      rewrite find_smallest_capacity, El, Ef in Ht. discriminate.
  - destruct Ht as [(bits & vi & Ht)|[Ht _]]; [|exact Ht].
    apply encoder_ok_shape in Ht. destruct Ht as (Ht & _).
    rewrite find_smallest_capacity, El in Ht. discriminate.
Qed.

Lemma encode_bits_representable content level mode : valid_encoding mode ->
  if qr_representable content level mode
  then exists bits vi, encode_bits content level mode = Ok (bits, vi)
  else encode_bits content level mode = Err.
Proof.
  intros Hm. unfold qr_representable, encode_bits.
  pose proof (encoder_representable SNumeric content level) as Hn.
  pose proof (encoder_representable SAlnum content level) as Ha.
  pose proof (encoder_representable SByte content level) as Hb.
  cbn [encoder_of] in Hn, Ha, Hb.
  destruct Hm as [->|[->|[->| ->]]];
    cbn [Z.eqb Pos.eqb qr_enc_auto qr_enc_numeric qr_enc_alphanumeric qr_enc_unicode];
    destruct (level_of_Z level) as [l|]; try assumption.
  - unfold encode_auto.
    destruct (mode_representable SNumeric l content).
    + destruct Hn as (bits & vi & ->). cbn [orb]. eauto.
    + rewrite Hn. destruct (mode_representable SAlnum l content).
      * destruct Ha as (bits & vi & ->). cbn [orb]. eauto.
      * rewrite Ha. destruct (mode_representable SByte l content).
        -- destruct Hb as (bits & vi & ->). cbn [orb]. eauto.
        -- rewrite Hb. reflexivity.
  - unfold encode_auto. rewrite Hn, Ha, Hb. reflexivity.
Qed.

Lemma qr_encode_of_bits content level mode mask bits vi :
  valid_encoding mode -> 0 <= mask < 8 ->
  encode_bits content level mode = Ok (bits, vi) ->
  exists bc, qr_encode content level mode mask = Ok bc.
Proof.
  intros Hm Hk Ebits.
  destruct (encode_bits_cases content level mode bits vi Hm Ebits) as (sm & Eenc).
  destruct (encoder_ok_shape sm content level bits vi Eenc) as (Hfind & _ & Hblen).
  destruct (find_smallest_some _ _ _ _ Hfind) as (Hin & Hlvl & _).
  destruct (row_facts vi Hin) as (l & Hl & Hv & _).
  destruct (codewords_of_bits_spec rs_holds bits vi l Hin Hl Hblen) as (data & Ecw & BF).
  destruct (render_spec vi l mask data Hin Hl Hk (bf_length _ _ _ _ BF)) as (m & Er & _).
  unfold qr_encode, qr_encode_data. rewrite Ebits. cbn [obind]. rewrite Ecw. cbn [obind].
  rewrite Er. cbn [obind]. eauto.
Qed.

(* C10 for QR: for the four defined modes, every level value and every content the
   model terminates without Panic / OutOfFuel, returns a barcode exactly when the
   content is representable and the error otherwise *)
Theorem qr_c10 content level mode mask : valid_encoding mode -> 0 <= mask < 8 ->
  if qr_representable content level mode
  then exists bc, qr_encode content level mode mask = Ok bc
  else qr_encode content level mode mask = Err.
Proof.
  intros Hm Hk. pose proof (encode_bits_representable content level mode Hm) as H.
  destruct (qr_representable content level mode).
  - destruct H as (bits & vi & E). apply (qr_encode_of_bits content level mode mask bits vi Hm Hk E).
  - unfold qr_encode, qr_encode_data. rewrite H. reflexivity.
Qed.

(* an Encoding value that is none of the four constants: getEncoder() returns nil and
   the call panics (outside the parameter domain of C10; reported as a finding) *)
Theorem qr_c10_unknown_mode content level mode mask : ~ valid_encoding mode ->
  qr_encode content level mode mask = Panic.
Proof.
  intros Hm. unfold qr_encode, qr_encode_data, encode_bits.
  destruct (mode =? qr_enc_auto) eqn:E0; [exfalso; apply Hm; left; lia|].
  destruct (mode =? qr_enc_numeric) eqn:E1; [exfalso; apply Hm; right; left; lia|].
  destruct (mode =? qr_enc_alphanumeric) eqn:E2; [exfalso; apply Hm; right; right; left; lia|].
  destruct (mode =? qr_enc_unicode) eqn:E3; [exfalso; apply Hm; right; right; right; lia|].
  reflexivity.
Qed.

(* sanity: the capacity limits of version 40-L *)
Example qr_c10_capacity_examples :
  mode_representable SNumeric LvL (repeat 48 (Z.to_nat 7089)) = true
  /\ mode_representable SNumeric LvL (repeat 48 (Z.to_nat 7090)) = false
  /\ mode_representable SAlnum LvL (repeat 65 (Z.to_nat 4296)) = true
  /\ mode_representable SAlnum LvL (repeat 65 (Z.to_nat 4297)) = false
  /\ mode_representable SByte LvL (repeat 200 (Z.to_nat 2953)) = true
  /\ mode_representable SByte LvL (repeat 200 (Z.to_nat 2954)) = false.
Proof. vm_compute. repeat split; reflexivity. Qed.

(* ================= C11 ================= *)
Theorem qr_c11 content level mode mask bc :
  is_bytes content -> valid_encoding mode -> 0 <= mask < 8 ->
  qr_encode content level mode mask = Ok bc ->
  bc_kind bc = KQR /\ kind_dims (bc_kind bc) = 2 /\ bc_content bc = content /\ bc_checksum bc = None
  /\ (exists v, 1 <= v <= 40 /\ bc_width bc = 17 + 4 * v /\ bc_height bc = 17 + 4 * v)
  /\ zlength (bc_rows bc) = bc_height bc
  /\ Forall (fun row => zlength row = bc_width bc) (bc_rows bc)
  /\ (forall (C : Type) (scheme : C),
        qr_encode_with_color content level mode mask scheme = Ok (bc, scheme)).
Proof.
  intros Hb Hm Hk H.
  destruct (qr_encode_read_modulo_rs rs_holds content level mode mask bc Hb Hm Hk H)
    as (vi & l & data & bits & r & _ & Hin & _ & _ & Hw & Hh & Hc & Hkind & Hcs & _).
  destruct (row_facts vi Hin) as (_ & _ & Hv & _).
  split; [exact Hkind|]. split; [rewrite Hkind; reflexivity|]. split; [exact Hc|]. split; [exact Hcs|].
  split; [exists (vi_version vi); unfold spec_size in *; auto|].
  assert (Hbc : exists m, bc = qr_barcode content m).
  { unfold qr_encode in H. destruct (qr_encode_data content level mode) as [[d vi']| | |]; try discriminate.
    cbn [obind] in H. destruct (render d vi' mask) as [m| | |]; try discriminate.
    cbn [obind] in H. exists m. congruence. }
  destruct Hbc as (m & Hbc).
  assert (Hd : 0 <= qm_dim m).
  { rewrite Hbc in Hw. cbn [qr_barcode bc_width] in Hw. rewrite Hw. unfold spec_size. lia. }
  split; [rewrite Hbc; cbn [qr_barcode bc_rows bc_height]; unfold zlength; rewrite rows_of_length; lia|].
  split.
  - rewrite Hbc. cbn [qr_barcode bc_rows bc_width].
    apply Forall_forall. intros row Hrow. unfold rows_of in Hrow. apply in_map_iff in Hrow.
    destruct Hrow as (y & <- & _). unfold zlength. rewrite map_length, zseq_length. lia.
  - intros C scheme. unfold qr_encode_with_color. rewrite H. reflexivity.
Qed.

(* ================= C12 ================= *)
Theorem qr_c12 content level mode mask bc :
  is_bytes content -> valid_encoding mode -> 0 <= mask < 8 ->
  qr_encode content level mode mask = Ok bc ->
  exists r l,
    qr_read_rows (bc_rows bc) = Some r /\ level_of_Z level = Some l
    /\ rd_level r = l
    /\ Forall (fun b => zlength (snd b) = table_at ecc_per_block l (rd_version r)) (rd_blocks r)
    /\ zlength (rd_blocks r) = table_at num_blocks l (rd_version r)
    /\ forallb (block_ok (table_at ecc_per_block l (rd_version r))) (rd_blocks r) = true.
Proof.
  intros Hb Hm Hk H.
  destruct (qr_encode_read_modulo_rs rs_holds content level mode mask bc Hb Hm Hk H)
    as (vi & l & data & bits & r & _ & Hin & Hl & _ & _ & _ & _ & _ & _ & BF & Hread & Hr & _).
  exists r, l. destruct Hr as (H1 & H2 & H3 & H4 & _).
  split; [exact Hread|]. split; [exact Hl|]. split; [exact H2|].
  rewrite H1, H4. destruct BF as [_ _ Bsyn _ Becc Bcnt].
  split; [exact Becc|]. split; [|exact Bsyn].
  rewrite Bcnt. unfold spec_blocks. cbn [bl_n1 bl_n2]. lia.
Qed.

(* ================= C13 ================= *)
Lemma fits_some_mono m1 m2 l n :
  (forall v, spec_fits m1 l n v = true -> spec_fits m2 l n v = true) ->
  spec_fits_some m1 l n = true -> spec_fits_some m2 l n = true.
Proof.
  intros H. unfold spec_fits_some. intros E. apply existsb_exists in E. destruct E as (v & Hv & Hf).
  apply existsb_exists. exists v. split; [exact Hv|apply H; exact Hf].
Qed.

(* Auto ends up with the densest mode whose alphabet contains the content *)
Lemma auto_densest content level bits vi :
  encode_auto content level = Ok (bits, vi) ->
  encoder_of (smode_of_encoding qr_enc_auto content) content level = Ok (bits, vi).
Proof.
  intros H. unfold smode_of_encoding.
  cbn [Z.eqb Pos.eqb qr_enc_auto qr_enc_numeric qr_enc_alphanumeric qr_enc_unicode].
  pose proof (encoder_representable SNumeric content level) as Hn.
  pose proof (encoder_representable SAlnum content level) as Ha.
  pose proof (encoder_representable SByte content level) as Hb.
  cbn [encoder_of] in Hn, Ha, Hb. unfold encode_auto in H.
  pose proof (zlength_nonneg content) as Hlen.
  destruct (level_of_Z level) as [l|]; [|rewrite Hn, Ha, Hb in H; discriminate].
  unfold mode_representable in Hn, Ha, Hb. rewrite <- !alphabet_ok_iso in Hn, Ha, Hb.
  assert (Man : spec_fits_some SAlnum l (zlength content) = true -> spec_fits_some SNumeric l (zlength content) = true).
  { apply fits_some_mono. intros v. apply spec_fits_alnum_numeric. exact Hlen. }
  assert (Mba : spec_fits_some SByte l (zlength content) = true -> spec_fits_some SAlnum l (zlength content) = true).
  { apply fits_some_mono. intros v. apply spec_fits_byte_alnum. exact Hlen. }
  destruct (alphabet_ok SNumeric content) eqn:An; cbn [andb] in Hn.
  - (* all digits *)
    destruct (spec_fits_some SNumeric l (zlength content)) eqn:Fn.
    + destruct Hn as (b1 & v1 & E1). rewrite E1 in H. cbn [encoder_of]. congruence.
    + exfalso. rewrite Hn in H.
      destruct (alphabet_ok SAlnum content && spec_fits_some SAlnum l (zlength content)) eqn:Ra.
      * apply andb_true_iff in Ra. destruct Ra as [_ Ra]. apply Man in Ra. congruence.
      * rewrite Ha in H. cbn [alphabet_ok andb] in Hb.
        destruct (spec_fits_some SByte l (zlength content)) eqn:Fb.
        -- pose proof (Mba eq_refl) as Fa2. apply Man in Fa2. congruence.
        -- rewrite Hb in H. discriminate.
  - rewrite Hn in H.
    destruct (alphabet_ok SAlnum content) eqn:Aa; cbn [andb] in Ha.
    + destruct (spec_fits_some SAlnum l (zlength content)) eqn:Fa.
      * destruct Ha as (b2 & v2 & E2). rewrite E2 in H. cbn [encoder_of]. congruence.
      * exfalso. rewrite Ha in H. cbn [alphabet_ok andb] in Hb.
        destruct (spec_fits_some SByte l (zlength content)) eqn:Fb.
        -- pose proof (Mba eq_refl) as Fa2. congruence.
        -- rewrite Hb in H. discriminate.
    + rewrite Ha in H. cbn [encoder_of].
      destruct (encode_unicode content level) as [r| | |]; try discriminate. congruence.
Qed.

Lemma encode_bits_mode content level mode bits vi : valid_encoding mode ->
  encode_bits content level mode = Ok (bits, vi) ->
  encoder_of (smode_of_encoding mode content) content level = Ok (bits, vi).
Proof.
  intros Hm H. destruct Hm as [->|[->|[->| ->]]].
  - apply auto_densest. exact H.
  - exact H.
  - exact H.
  - exact H.
Qed.

Lemma smode_of_encoding_spec mode content : valid_encoding mode ->
  smode_of_encoding mode content = spec_mode_used mode content.
Proof.
  intros Hm. unfold smode_of_encoding, spec_mode_used. rewrite <- !alphabet_ok_iso.
  destruct Hm as [->|[->|[->| ->]]]; reflexivity.
Qed.

(* the version is the smallest whose capacity at the level holds the content in the
   mode used; for Auto the mode used is the densest one that can express the content *)
Theorem qr_c13 content level mode mask bc :
  is_bytes content -> valid_encoding mode -> 0 <= mask < 8 ->
  qr_encode content level mode mask = Ok bc ->
  exists l v,
    level_of_Z level = Some l /\ bc_width bc = spec_size v /\ 1 <= v <= 40
    /\ in_mode_alphabet (spec_mode_used mode content) content = true
    /\ spec_min_version (spec_mode_used mode content) l (zlength content) = Some v
    /\ spec_fits (spec_mode_used mode content) l (zlength content) v = true
    /\ forall v', 1 <= v' < v ->
         spec_fits (spec_mode_used mode content) l (zlength content) v' = false.
Proof.
  intros Hb Hm Hk H.
  destruct (qr_encode_read_modulo_rs rs_holds content level mode mask bc Hb Hm Hk H)
    as (vi & l & data & bits & r & Ebits & Hin & Hl & _ & Hw & _).
  pose proof (encode_bits_mode content level mode bits vi Hm Ebits) as Eenc.
  rewrite (smode_of_encoding_spec mode content Hm) in Eenc.
  set (sm := spec_mode_used mode content) in *.
  destruct (encoder_ok_shape sm content level bits vi Eenc) as (Hfind & Halpha & _).
  rewrite find_smallest_capacity, Hl in Hfind.
  destruct (find (spec_fits sm l (zlength content)) all_versions) as [v|] eqn:Ef; [|discriminate].
  inversion Hfind as [Hvi]. clear Hfind.
  destruct (find_sseq_some _ _ _ _ Ef) as (Hv & Hfit & Hmin).
  exists l, v. split; [exact Hl|]. split; [rewrite Hw, <- Hvi; reflexivity|].
  split; [lia|]. split; [rewrite <- alphabet_ok_iso; exact Halpha|]. split; [exact Ef|].
  split; [exact Hfit|]. intros v' Hv'. apply Hmin. lia.
Qed.

(* ================= non-vacuity ================= *)
Example qr_example_hello :
  match qr_encode [104; 101; 108; 108; 111] 1 0 3 with
  | Ok bc => qr_decode_rows (bc_rows bc) = Some [104; 101; 108; 108; 111]
             /\ qr_valid_rows (bc_rows bc) = true /\ bc_width bc = 21
  | _ => False
  end.
Proof. vm_compute. repeat split; reflexivity. Qed.

Example qr_example_versions :
  forallb (fun p =>
    match qr_encode (repeat 55 (Z.to_nat (fst p))) 0 1 (snd p) with
    | Ok bc => match qr_decode_rows (bc_rows bc) with
               | Some c => (zlength c =? fst p) && qr_valid_rows (bc_rows bc)
               | None => false
               end
    | _ => false
    end) [(41, 0); (42, 1); (300, 2); (1000, 5)] = true.
Proof. vm_compute. reflexivity. Qed.
