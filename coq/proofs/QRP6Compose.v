(* QR layer 4: composition.  render of the interleaved codewords of an accepted
   content gives a matrix that the reference reader reads back: format
   information (level, mask), version information, unmasked data modules =
   codewords followed by zero remainder bits, all fixed patterns in place; the
   de-interleaved blocks are syndrome-free and the segment parser returns the
   content.  Premise: rs_statement (discharged in QRProps.v). *)
From Coq Require Import FMapPositive.
From Verif Require Import Prelude Barcode BitListM GFM GFP TabQr QRMBits QRMBlocks QRMRender QRM QRSpec
  QRP1Tables QRP2Layout QRP3Bits QRP3Seg QRP3Pad QRP4Blocks QRP5Place.

Local Ltac Zify.zify_post_hook ::= Z.div_mod_to_equations.
#[local] Arguments Z.mul : simpl never.
#[local] Arguments Z.add : simpl never.
#[local] Arguments Z.sub : simpl never.
#[local] Arguments Z.div : simpl never.
#[local] Arguments Z.modulo : simpl never.
#[local] Arguments Z.of_nat : simpl never.
#[local] Arguments Z.to_nat : simpl never.

(* ---------- small list facts ---------- *)
Lemma app_inv_length {A} (a c b d : list A) : a ++ b = c ++ d -> length a = length c -> a = c /\ b = d.
Proof.
  revert c. induction a as [|x a IH]; intros [|y c] H Hl; cbn in *; try lia; [auto|].
  inversion H; subst. destruct (IH c H2 ltac:(lia)) as [-> ->]. auto.
Qed.

Lemma not_in_keys dim q L : in_range dim q -> (forall p, In p L -> in_range dim p) -> ~ In q L ->
  ~ In (cell_key dim q) (map (cell_key dim) L).
Proof.
  intros Hq HL Hn Hin. apply in_map_iff in Hin. destruct Hin as (p & Hk & Hp).
  apply Hn. rewrite (cell_key_inj dim q p Hq (HL p Hp) (eq_sym Hk)). exact Hp.
Qed.

Lemma read_at_ext (px1 px2 : pixels) L :
  (forall p, In p L -> px1 (fst p) (snd p) = px2 (fst p) (snd p)) -> read_at px1 L = read_at px2 L.
Proof. intros H. unfold read_at. apply map_ext_in. exact H. Qed.

Lemma version_of_size_spec v : 1 <= v <= 40 -> version_of_size (spec_size v) = Some v.
Proof.
  intros Hv. unfold version_of_size, spec_size.
  replace ((17 + 4 * v - 17) / 4) with v by lia.
  replace ((1 <=? v) && (v <=? 40) && (17 + 4 * v =? 17 + 4 * v)) with true by lia. reflexivity.
Qed.

Lemma format_cells_lengths size : length format_coords1 = 15%nat /\ length (format_coords2 size) = 15%nat.
Proof. split; reflexivity. Qed.

(* ---------- what the reader sees in a rendered matrix ---------- *)
Record rendered (v : Z) (l : qlevel) (mask : Z) (data : list Z) (px : pixels) : Prop := {
  rn_format : read_format px (spec_size v) = Some (l, mask);
  rn_version : version_info_ok px v (spec_size v) = true;
  rn_data : unmask px mask (spec_order v)
            = bits_of_bytes data ++ repeat false (Z.to_nat (remainder_bits v));
  rn_patterns : patterns_ok px v = true
}.

Theorem render_spec vi l mask data :
  In vi version_infos -> level_of_Z (vi_level vi) = Some l -> 0 <= mask < 8 ->
  zlength data = total_codewords (vi_version vi) ->
  exists m, render data vi mask = Ok m /\ qm_dim m = spec_size (vi_version vi)
    /\ forall px : pixels,
         (forall x y, 0 <= x < spec_size (vi_version vi) -> 0 <= y < spec_size (vi_version vi) ->
                      px x y = qm_peek m x y) ->
         rendered (vi_version vi) l mask data px.
Proof.
  intros Hin Hl Hmask Hlen.
  destruct (row_facts vi Hin) as (l' & Hl' & Hv & _). rewrite Hl in Hl'. inversion Hl'; subst l'. clear Hl'.
  set (v := vi_version vi) in *. set (size := spec_size v).
  destruct (layout_facts_of_version v Hv) as (occ & res0 & order & Ebase & Eiter & LF).
  destruct LF as [Ldo Ldr Lord Llen Lnd Lcells Locc Lpat Ltg Lfnd Lfc Lver Lvc].
  fold size in Ldo, Ldr, Llen, Lnd, Lcells, Locc, Lpat, Ltg, Lfnd, Lfc, Lver, Lvc.
  (* render unfolds to: format information, then placement *)
  unfold render. fold v. rewrite Ebase. cbn [obind fst]. rewrite Eiter. cbn [obind].
  unfold render_on. cbn [snd]. fold v. rewrite modul_width_spec. fold size.
  apply level_of_Z_some in Hl. rewrite Hl.
  destruct (format_entry l mask Hmask) as (Hf15 & Hfw & Hfd).
  set (f := format_lookup (level_Z l) mask) in *.
  destruct Ltg as [Ltg1 Ltg2].
  assert (Hfr : Forall (in_range size) (format_cells size)).
  { apply Forall_forall. intros p Hp. apply (Lfc p Hp). }
  destruct (draw_format_spec v f res0 ltac:(unfold zlength; lia) Ldr Ltg1 Ltg2 Hfr Lfnd)
    as (res1 & E1 & D1 & F1 & R1). fold size in E1, D1, F1, R1.
  rewrite E1. cbn [obind].
  assert (Hor : Forall (in_range size) order).
  { apply Forall_forall. intros p Hp. apply (Lcells p Hp). }
  destruct (place_bits_spec size order (bits_of_bytes data) mask res1 D1 Hor Lnd)
    as (m & E2 & D2 & F2 & R2).
  rewrite E2. exists m. split; [reflexivity|]. split; [exact D2|].
  intros px Hpx.
  (* membership facts *)
  assert (Hfo : forall q, In q (format_cells size) -> ~ In q order).
  { intros q Hq Ho. destruct (Lfc q Hq) as (_ & Ht & _). destruct (Lcells q Ho) as (_ & Hf & _). congruence. }
  assert (Hcells_range : forall p, In p order -> in_range size p) by (intros p Hp; apply (Lcells p Hp)).
  assert (Hfmt_range : forall p, In p (format_cells size) -> in_range size p) by (intros p Hp; apply (Lfc p Hp)).
  (* a cell outside the placement order and the format cells keeps its base value *)
  assert (Hkeep : forall q, in_range size q -> ~ In q order -> ~ In q (format_cells size) ->
                            peek m q = peek res0 q).
  { intros q Hq Hno Hnf. rewrite F2 by (apply not_in_keys; assumption).
    apply F1. apply not_in_keys; assumption. }
  assert (Hpx' : forall p, in_range size p -> px (fst p) (snd p) = peek m p).
  { intros [x y] [Hx Hy]. cbn [fst snd] in *. apply Hpx; assumption. }
  constructor; fold size.
  - (* format information *)
    unfold read_format.
    assert (Hrd : read_at px (format_cells size) = f ++ f).
    { rewrite <- R1. unfold read_at. apply map_ext_in. intros p Hp.
      rewrite Hpx' by (apply Hfmt_range; exact Hp).
      apply F2. apply not_in_keys; [apply Hfmt_range; exact Hp|exact Hcells_range|apply Hfo; exact Hp]. }
    unfold format_cells, read_at in Hrd. rewrite map_app in Hrd.
    apply app_inv_length in Hrd; [|rewrite map_length; destruct (format_cells_lengths size); lia].
    destruct Hrd as [Hr1 Hr2]. unfold read_at. rewrite Hr1, Hr2, Hfw, Z.eqb_refl. exact Hfd.
  - (* version information *)
    unfold version_info_ok in *. destruct (v <? 7) eqn:E7; [reflexivity|].
    assert (Hvr : forall p, In p (version_cells size) -> px (fst p) (snd p) = qm_peek res0 (fst p) (snd p)).
    { intros p Hp. destruct (Lvc ltac:(lia) p Hp) as (Hr & Ho & Hnf).
      rewrite Hpx' by exact Hr. apply Hkeep; [exact Hr| |exact Hnf].
      intros Hin'. destruct (Lcells p Hin') as (_ & Hf & _). congruence. }
    rewrite (read_at_ext px (qm_peek res0) (version_coords1 size))
      by (intros p Hp; apply Hvr; unfold version_cells; apply in_or_app; left; exact Hp).
    rewrite (read_at_ext px (qm_peek res0) (version_coords2 size))
      by (intros p Hp; apply Hvr; unfold version_cells; apply in_or_app; right; exact Hp).
    exact Lver.
  - (* data modules *)
    rewrite <- Lord. unfold unmask.
    assert (Hum : map (fun p => xorb (px (fst p) (snd p)) (spec_mask mask (fst p) (snd p))) order
                  = map (fun p => xorb (peek m p) (mask_bit mask (fst p) (snd p))) order).
    { apply map_ext_in. intros p Hp. pose proof (Hcells_range p Hp) as Hr.
      rewrite Hpx' by exact Hr. destruct Hr as [Hx Hy].
      rewrite qr_masks_table10 by lia. reflexivity. }
    rewrite Hum, R2.
    assert (Hlo : length order = (length (bits_of_bytes data) + Z.to_nat (remainder_bits v))%nat).
    { rewrite bits_of_bytes_length. unfold zlength in Llen, Hlen.
      assert (0 <= remainder_bits v) by (unfold remainder_bits; lia). lia. }
    rewrite Hlo. apply take_pad_app.
  - (* fixed patterns *)
    unfold patterns_ok. fold size. apply forallb_forall. intros y Hy. apply sseq_in in Hy.
    apply forallb_forall. intros x Hx. apply sseq_in in Hx.
    destruct (fixed_pattern v x y) as [b|] eqn:Efp; [|reflexivity].
    assert (Hxr : 0 <= x < size) by lia. assert (Hyr : 0 <= y < size) by lia.
    destruct (Lpat x y b Hxr Hyr Efp) as [Hb Hnf].
    rewrite Hpx by assumption.
    assert (Hk : peek m (x, y) = peek res0 (x, y)).
    { apply Hkeep; [split; assumption| |exact Hnf].
      intros Ho. destruct (Lcells (x, y) Ho) as (_ & _ & Hnone). cbn [fst snd] in Hnone. congruence. }
    unfold peek in Hk. cbn [fst snd] in Hk. rewrite Hk, Hb. apply Bool.eqb_reflx.
Qed.

(* ---------- the reader on a rendered symbol ---------- *)
Definition reading_of (v : Z) (l : qlevel) (mask : Z) (data content : list Z) (r : qr_reading) : Prop :=
  rd_version r = v /\ rd_level r = l /\ rd_mask r = mask
  /\ rd_blocks r = deinterleave (spec_blocks v l) data
  /\ rd_content r = content /\ rd_padding_ok r = true /\ rd_remainder_ok r = true.

Lemma skipn_bits_rem (B : list bool) n rem : length B = (8 * n)%nat ->
  skipn (8 * n) (B ++ repeat false rem) = repeat false rem.
Proof. intros H. rewrite <- H. apply skipn_app_exact. Qed.

Theorem qr_read_spec v l mask bits data content px :
  1 <= v <= 40 ->
  blocks_facts v l bits data ->
  octets bits ->
  (exists rest, parse_segments (S (length bits)) v bits = Some (content, rest) /\ padding_ok rest = true) ->
  rendered v l mask data px ->
  exists r, qr_read px (spec_size v) = Some r /\ reading_of v l mask data content r
    /\ patterns_ok px v = true.
Proof.
  intros Hv BF Hoct (rest & Hparse & Hpad) RN.
  destruct BF as [Bbytes Blen Bsyn Bdata Becc Bcnt]. destruct RN as [Rfmt Rver Rdata Rpat].
  unfold qr_read. rewrite version_of_size_spec by exact Hv. rewrite Rfmt, Rver, Rdata.
  set (B := bits_of_bytes data). set (rem := Z.to_nat (remainder_bits v)).
  assert (Hrem : (rem < 8)%nat) by (unfold rem, remainder_bits; lia).
  assert (HB : octets B) by apply octets_bits_of_bytes.
  assert (Hn : Z.to_nat (total_codewords v) = length data) by (unfold zlength in Blen; lia).
  assert (Hcw : codewords_of (B ++ repeat false rem) = data).
  { rewrite codewords_of_app_short by (rewrite ?repeat_length; assumption).
    rewrite codewords_of_octets by exact HB. apply bytes_of_bits_of_bytes. exact Bbytes. }
  rewrite Hcw, Hn, firstn_all, Nat.eqb_refl. cbn [andb].
  rewrite skipn_bits_rem by (unfold B; apply bits_of_bytes_length).
  rewrite Bsyn, Bdata, bits_of_codewords_eq, bits_of_bytes_of_bits by exact Hoct.
  rewrite Hparse. eexists. split; [reflexivity|]. split; [|exact Rpat].
  unfold reading_of. cbn. repeat split; try reflexivity; try assumption.
  apply forallb_negb_repeat.
Qed.

(* ---------- from the model's top level to the reader ---------- *)
Definition smode_of_encoding (mode : Z) (content : list Z) : smode :=
  if mode =? qr_enc_numeric then SNumeric
  else if mode =? qr_enc_alphanumeric then SAlnum
  else if mode =? qr_enc_unicode then SByte
  else (* Auto *)
    if alphabet_ok SNumeric content then SNumeric
    else if alphabet_ok SAlnum content then SAlnum else SByte.

Definition valid_encoding (mode : Z) : Prop :=
  mode = qr_enc_auto \/ mode = qr_enc_numeric \/ mode = qr_enc_alphanumeric \/ mode = qr_enc_unicode.

(* whichever encoder Auto ends up with, the result is that encoder's result *)
Lemma encode_bits_cases content level mode bits vi : valid_encoding mode ->
  encode_bits content level mode = Ok (bits, vi) ->
  exists m, encoder_of m content level = Ok (bits, vi).
Proof.
  intros Hm H. unfold encode_bits in H.
  destruct Hm as [->|[->|[->| ->]]]; cbn [Z.eqb Pos.eqb qr_enc_auto qr_enc_numeric qr_enc_alphanumeric qr_enc_unicode] in H.
  - unfold encode_auto in H.
    destruct (encode_numeric content level) as [[b1 v1]| | |] eqn:E1.
    + exists SNumeric. rewrite <- H. exact E1.
    + destruct (encode_alphanumeric content level) as [[b2 v2]| | |] eqn:E2.
      * exists SAlnum. rewrite <- H. exact E2.
      * destruct (encode_unicode content level) as [[b3 v3]| | |] eqn:E3; try discriminate.
        exists SByte. rewrite <- H. exact E3.
      * discriminate.
      * discriminate.
    + discriminate.
    + discriminate.
  - exists SNumeric. exact H.
  - exists SAlnum. exact H.
  - exists SByte. exact H.
Qed.

(* the main composition, still with the Reed-Solomon premise *)
Theorem qr_encode_read_modulo_rs (RS : rs_statement) content level mode mask bc :
  Forall (fun c => 0 <= c < 256) content -> valid_encoding mode -> 0 <= mask < 8 ->
  qr_encode content level mode mask = Ok bc ->
  exists vi l data m r,
    encode_bits content level mode = Ok (m, vi) /\ In vi version_infos
    /\ level_of_Z level = Some l /\ vi_level vi = level
    /\ bc_width bc = spec_size (vi_version vi)
    /\ bc_height bc = spec_size (vi_version vi) /\ bc_content bc = content /\ bc_kind bc = KQR
    /\ bc_checksum bc = None
    /\ blocks_facts (vi_version vi) l m data
    /\ qr_read_rows (bc_rows bc) = Some r
    /\ reading_of (vi_version vi) l mask data content r
    /\ qr_valid_rows (bc_rows bc) = true.
Proof.
  intros Hbytes Hmode Hmask H. unfold qr_encode, qr_encode_data in H.
  destruct (encode_bits content level mode) as [[bits vi]| | |] eqn:Ebits; try discriminate.
  cbn [obind] in H.
  destruct (encode_bits_cases content level mode bits vi Hmode Ebits) as (sm & Eenc).
  destruct (encoder_ok sm content level bits vi (fun _ => Hbytes) Eenc) as (Hfind & Halpha & Hblen & Hparse).
  destruct (find_smallest_some _ _ _ _ Hfind) as (Hin & Hlvl & _).
  destruct (row_facts vi Hin) as (l & Hl & Hv & _).
  destruct (codewords_of_bits_spec RS bits vi l Hin Hl Hblen) as (data & Ecw & BF).
  rewrite Ecw in H. cbn [obind] in H.
  destruct (render_spec vi l mask data Hin Hl Hmask (bf_length _ _ _ _ BF)) as (m & Er & Dm & Hrn).
  rewrite Er in H. cbn [obind] in H. inversion H; subst bc. clear H.
  assert (Hoct : octets bits).
  { apply (octets_of_length (Z.to_nat (total_data_bytes vi))). unfold zlength in Hblen. lia. }
  assert (Hsz : 0 <= spec_size (vi_version vi)) by (unfold spec_size; lia).
  assert (Hzl : zlength (rows_of m) = spec_size (vi_version vi)).
  { unfold zlength. rewrite rows_of_length, Dm. lia. }
  specialize (Hrn (px_of_rows (rows_of m))
                  (fun x y Hx Hy => px_of_rows_of m x y ltac:(rewrite Dm; exact Hx) ltac:(rewrite Dm; exact Hy))).
  destruct (qr_read_spec (vi_version vi) l mask bits data content _ Hv BF Hoct Hparse Hrn)
    as (r & Eread & Hr & Hpat).
  exists vi, l, data, bits, r. cbn [qr_barcode bc_rows bc_width bc_height bc_content bc_kind bc_checksum].
  rewrite Hlvl in Hl.
  split; [reflexivity|]. split; [exact Hin|]. split; [exact Hl|]. split; [exact Hlvl|].
  split; [exact Dm|]. split; [exact Dm|]. split; [reflexivity|]. split; [reflexivity|].
  split; [reflexivity|]. split; [exact BF|].
  unfold qr_read_rows, qr_valid_rows, qr_valid. rewrite rows_of_square, Hzl, Eread.
  split; [reflexivity|]. split; [exact Hr|].
  destruct Hr as (Hrv & _ & _ & _ & _ & Hp & Hq). rewrite Hrv, Hpat, Hp, Hq. reflexivity.
Qed.
