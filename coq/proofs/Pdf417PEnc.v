(* PDF417 layer 4a: encoder.go from the data codewords to the pixel matrix:
   encodeData (padding, length descriptor, check words), the grid of rows, row
   assembly (start, left indicator, data, right indicator, stop), renderBarcode,
   Bounds/At.  Result: an explicit description of the pixel matrix of every
   symbol the model returns. *)
From Verif Require Import Prelude Barcode BitListM TabPdf417 Pdf417M Pdf417Spec Pdf417PTab Pdf417PRow
  Pdf417PRS Pdf417PNum Pdf417PText Pdf417PSeg Pdf417PHL.

(* ---------- encodeData ---------- *)
Lemma in929_range c : in929 c -> 0 <= c < 929.
Proof. unfold in929. auto. Qed.

Lemma zlength_app {A} (l l' : list A) : zlength (l ++ l') = zlength l + zlength l'.
Proof. unfold zlength; rewrite app_length; lia. Qed.

Lemma zlength_repeat {A} (x : A) n : zlength (repeat x n) = Z.of_nat n.
Proof. unfold zlength; rewrite repeat_length; reflexivity. Qed.

(* the transmitted codeword sequence: n, data, pads, check words *)
Lemma pdf_encode_data_spec dw c level r :
  Forall cw_range dw -> 0 <= level <= 8 -> 0 < c ->
  c * (r - 1) < zlength dw + 1 + pdf_ec_count level <= c * r -> c * r <= 928 ->
  exists p ec,
    pdf_encode_data dw c level =
      Ok ((zlength dw + Z.of_nat p + 1) :: dw ++ repeat 900 p ++ ec) /\
    Z.of_nat p < c /\ zlength ec = pdf_ec_count level /\ Forall in929 ec /\
    zlength dw + Z.of_nat p + 1 + pdf_ec_count level = c * r /\
    pdfs_syndromes_zero (Z.to_nat (pdf_ec_count level)) 3
      ((zlength dw + Z.of_nat p + 1) :: dw ++ repeat 900 p ++ ec) = true.
Proof.
  intros Hdw Hl Hc Hr H928. unfold pdf_encode_data.
  pose proof (pdf_ec_count_range level Hl) as Hk.
  pose proof (zlength_nonneg dw) as Hm.
  destruct (pdf_get_padding_spec (zlength dw) (pdf_ec_count level) c r Hm ltac:(lia) Hc Hr)
    as (p & Ep & Hp & Htot).
  rewrite Ep. cbn [obind].
  destruct pdf_tab_consts as (_ & _ & _ & _ & _ & Cpad). rewrite Cpad.
  rewrite zlength_app, zlength_repeat. rewrite Z2Nat.id by lia.
  set (full := (zlength dw + p + 1) :: dw ++ repeat 900 (Z.to_nat p)).
  assert (Forall (fun v => 0 <= v) full) as Hnn.
  { unfold full. constructor; [lia|]. apply Forall_app. split.
    - eapply Forall_impl; [|exact Hdw]. unfold cw_range. intros; lia.
    - apply Forall_forall. intros x Hx. apply repeat_spec in Hx. lia. }
  destruct (pdf_compute_valid level full Hl Hnn) as (ec & Ec & Lec & Rec & Syn).
  rewrite Ec. cbn [obind].
  exists (Z.to_nat p), ec. rewrite Z2Nat.id by lia.
  split; [unfold full; cbn [app]; rewrite <- app_assoc; reflexivity|].
  split; [lia|]. split; [exact Lec|]. split; [exact Rec|]. split; [lia|].
  unfold full in Syn. cbn [app] in Syn. rewrite <- app_assoc in Syn. exact Syn.
Qed.

(* ---------- the grid ---------- *)
Lemma pdf_grid_spec c : (0 < c)%nat -> forall r cws fuel,
  length cws = (c * r)%nat -> (length cws <= fuel)%nat ->
  exists grid, pdf_grid fuel cws c = Ok grid /\ length grid = r /\
    Forall (fun row => length row = c) grid /\ concat grid = cws.
Proof.
  intros Hc. induction r as [|r IH]; intros cws fuel Hlen Hf.
  - rewrite Nat.mul_0_r in Hlen. destruct cws; [|discriminate].
    exists []. destruct fuel; repeat split; constructor.
  - assert (length cws = (c + c * r)%nat) as Hlen' by lia.
    destruct cws as [|x xs] eqn:Ecws; [simpl in Hlen'; lia|]. rewrite <- Ecws in *.
    destruct fuel as [|f]; [rewrite Ecws in Hf; simpl in Hf; lia|].
    assert (pdf_grid (S f) cws c =
            (do rest <- pdf_grid f (skipn c cws) c; Ok (firstn c cws :: rest))) as Eg
      by (rewrite Ecws; reflexivity).
    rewrite Eg.
    destruct (IH (skipn c cws) f) as (g & E & L & F & C).
    + rewrite skipn_length. lia.
    + rewrite skipn_length. lia.
    + rewrite E. cbn [obind]. eexists. split; [reflexivity|].
      split; [simpl; lia|]. split.
      * constructor; [rewrite firstn_length; lia | exact F].
      * cbn [concat]. rewrite C. apply firstn_skipn.
Qed.

(* ---------- getCodeword ---------- *)
Definition pat (t v : Z) : Z := nth (Z.to_nat v) (pdfs_cluster t) 0.

Lemma zget_nth {A} (l : list A) i d : 0 <= i < zlength l -> zget l i = Some (nth (Z.to_nat i) l d).
Proof.
  intros H. unfold zget. replace (i <? 0) with false by lia.
  apply nth_error_nth'. unfold zlength in H. lia.
Qed.

Lemma pdf_get_codeword_ok t v : 0 <= t < 3 -> 0 <= v < 929 ->
  pdf_get_codeword t v = Ok (pat t v).
Proof.
  intros Ht Hv. unfold pdf_get_codeword. rewrite pdf_tab_patterns_pinned.
  unfold zget at 1. replace (t <? 0) with false by lia.
  rewrite pdfs_patterns_nth by exact Ht.
  rewrite (zget_nth _ _ 0); [reflexivity|].
  unfold zlength. rewrite pdf_tab_patterns_length by exact Ht. lia.
Qed.

Lemma pdf_get_codewords_ok t row : 0 <= t < 3 -> Forall in929 row ->
  pdf_get_codewords t row = Ok (map (pat t) row).
Proof.
  intros Ht. induction 1 as [|w row Hw Hrow IH]; [reflexivity|].
  cbn [pdf_get_codewords map]. rewrite pdf_get_codeword_ok by (auto using in929_range).
  cbn [obind]. rewrite IH. reflexivity.
Qed.

Lemma pat_In t v : 0 <= t < 3 -> 0 <= v < 929 -> In (pat t v) (pdfs_cluster t).
Proof.
  intros Ht Hv. unfold pat. apply nth_In. rewrite pdf_tab_patterns_length by exact Ht. lia.
Qed.

(* ---------- row assembly ---------- *)
Definition row_code (i r c l : Z) (ws : list Z) : list Z :=
  pdfs_start :: pat (i mod 3) (pdfs_left_indicator i r c l) ::
  map (pat (i mod 3)) ws ++ [pat (i mod 3) (pdfs_right_indicator i r c l); pdfs_stop].

Fixpoint row_codes_spec (grid : list (list Z)) (i r c l : Z) : list (list Z) :=
  match grid with
  | [] => []
  | ws :: t => row_code i r c l ws :: row_codes_spec t (i + 1) r c l
  end.

Lemma pdf_row_codes_spec grid : forall i r c l,
  0 <= i -> i + zlength grid <= r -> r <= 90 -> 1 <= c <= 30 -> 0 <= l <= 8 ->
  Forall (Forall in929) grid ->
  pdf_row_codes grid i r c l = Ok (row_codes_spec grid i r c l).
Proof.
  induction grid as [|ws grid IH]; intros i r c l Hi Hr H90 Hc Hl Hg; [reflexivity|].
  inversion Hg as [|? ? Hws Hg']; subst. rewrite zlength_cons in Hr.
  pose proof (zlength_nonneg grid) as Hz.
  cbn [pdf_row_codes row_codes_spec].
  rewrite pdf_go_mod_nonneg by lia.
  assert (0 <= i mod 3 < 3) as Ht by (apply Z.mod_pos_bound; lia).
  rewrite pdf_left_codeword_spec, pdf_right_codeword_spec by lia.
  destruct (pdfs_indicator_range i r c l ltac:(lia) H90 Hc Hl) as [RL RR].
  rewrite !pdf_get_codeword_ok by assumption. cbn [obind].
  rewrite pdf_get_codewords_ok by assumption. cbn [obind].
  rewrite (IH (i + 1) r c l) by (try assumption; lia). cbn [obind].
  destruct pdf_tab_start_stop as (Es & Et & _). rewrite Es, Et. reflexivity.
Qed.

(* ---------- rendering ---------- *)
Lemma msb_bits_length k v : length (msb_bits k v) = k.
Proof. induction k as [|k IH]; simpl; [reflexivity | rewrite IH; reflexivity]. Qed.

(* a row of n+1 codes renders to 17n+18 modules *)
Lemma pdf_row_bits_snoc row x : pdf_row_bits (row ++ [x]) = flat_map (msb_bits 17) row ++ msb_bits 18 x.
Proof.
  induction row as [|c row IH]; [reflexivity|].
  change ((c :: row) ++ [x]) with (c :: (row ++ [x])).
  destruct (row ++ [x]) as [|y ys] eqn:E; [destruct row; discriminate|].
  change (pdf_row_bits (c :: y :: ys)) with (msb_bits 17 c ++ pdf_row_bits (y :: ys)).
  rewrite IH. cbn [flat_map]. rewrite <- app_assoc. reflexivity.
Qed.

Lemma flat_map_length17 row : length (flat_map (msb_bits 17) row) = (17 * length row)%nat.
Proof.
  induction row as [|c row IH]; [reflexivity|].
  cbn [flat_map]. rewrite app_length, msb_bits_length, IH. simpl length. lia.
Qed.

Definition row_pix (i r c l : Z) (ws : list Z) : list bool := pdf_row_bits (row_code i r c l ws).

Lemma row_code_snoc i r c l ws :
  row_code i r c l ws =
  (pdfs_start :: pat (i mod 3) (pdfs_left_indicator i r c l) :: map (pat (i mod 3)) ws ++
   [pat (i mod 3) (pdfs_right_indicator i r c l)]) ++ [pdfs_stop].
Proof.
  unfold row_code. cbn [app]. rewrite <- app_assoc. reflexivity.
Qed.

(* the modules of row i *)
Lemma row_pix_eq i r c l ws :
  row_pix i r c l ws =
  msb_bits 17 pdfs_start ++
  flat_map (msb_bits 17)
    (pat (i mod 3) (pdfs_left_indicator i r c l) :: map (pat (i mod 3)) ws ++
     [pat (i mod 3) (pdfs_right_indicator i r c l)]) ++
  msb_bits 18 pdfs_stop.
Proof.
  unfold row_pix. rewrite row_code_snoc, pdf_row_bits_snoc.
  cbn [flat_map]. rewrite <- app_assoc. reflexivity.
Qed.

Lemma row_pix_length i r c l ws : length (row_pix i r c l ws) = (17 * (length ws + 4) + 1)%nat.
Proof.
  rewrite row_pix_eq. rewrite !app_length, flat_map_length17, !msb_bits_length.
  cbn [length]. rewrite app_length, map_length. simpl length. lia.
Qed.

Lemma pdf_chunks_concat W (ls : list (list bool)) :
  Forall (fun x => length x = W) ls -> pdf_chunks (length ls) W (concat ls) = ls.
Proof.
  induction 1 as [|x ls Hx Hls IH]; [reflexivity|].
  subst W. cbn [length pdf_chunks concat].
  rewrite firstn_app, Nat.sub_diag, firstn_all, firstn_O, app_nil_r.
  rewrite skipn_app, Nat.sub_diag, skipn_all, skipn_O. cbn [app]. rewrite IH. reflexivity.
Qed.

Lemma concat_length_const {A} W (ls : list (list A)) :
  Forall (fun x => length x = W) ls -> length (concat ls) = (W * length ls)%nat.
Proof.
  induction 1 as [|x ls Hx Hls IH]; [simpl; lia|].
  cbn [concat length]. rewrite app_length, Hx, IH. lia.
Qed.

Lemma row_codes_spec_length grid : forall i r c l, length (row_codes_spec grid i r c l) = length grid.
Proof. induction grid; intros; simpl; [reflexivity | rewrite IHgrid; reflexivity]. Qed.

(* the rows of modules *)
Fixpoint rows_pix (grid : list (list Z)) (i r c l : Z) : list (list bool) :=
  match grid with
  | [] => []
  | ws :: t => row_pix i r c l ws :: rows_pix t (i + 1) r c l
  end.

Lemma rows_pix_map grid : forall i r c l,
  map pdf_row_bits (row_codes_spec grid i r c l) = rows_pix grid i r c l.
Proof. induction grid; intros; simpl; [reflexivity | rewrite IHgrid; reflexivity]. Qed.

Lemma rows_pix_length grid : forall i r c l, length (rows_pix grid i r c l) = length grid.
Proof. induction grid; intros; simpl; [reflexivity | rewrite IHgrid; reflexivity]. Qed.

Lemma rows_pix_widths grid cn : Forall (fun row => length row = cn) grid -> forall i r c l,
  Forall (fun x => length x = (17 * (cn + 4) + 1)%nat) (rows_pix grid i r c l).
Proof.
  induction 1 as [|ws grid Hws Hg IH]; intros; simpl; constructor.
  - rewrite row_pix_length, Hws. reflexivity.
  - apply IH.
Qed.

(* Bounds / At: the image rows are the module rows, each moduleHeight times *)
Lemma pdf_pixels_spec grid cn i r c l :
  Forall (fun row => length row = cn) grid ->
  pdf_pixels (pdf_render (row_codes_spec grid i r c l)) (Z.of_nat (17 * (cn + 4) + 1)) =
  flat_map (fun row => repeat row (Z.to_nat pdf_module_height)) (rows_pix grid i r c l) /\
  go_div (zlength (pdf_render (row_codes_spec grid i r c l))) (Z.of_nat (17 * (cn + 4) + 1)) =
  zlength grid.
Proof.
  intros Hg. unfold pdf_pixels, pdf_render.
  rewrite !(flat_map_concat_map pdf_row_bits), !rows_pix_map.
  pose proof (rows_pix_widths grid cn Hg i r c l) as Hw.
  set (W := (17 * (cn + 4) + 1)%nat) in *.
  assert (go_div (zlength (concat (rows_pix grid i r c l))) (Z.of_nat W) = zlength grid) as Eh.
  { unfold zlength. rewrite (concat_length_const W) by exact Hw. rewrite rows_pix_length.
    rewrite pdf_go_div_nonneg by (unfold W; lia).
    rewrite Nat2Z.inj_mul. rewrite Z.mul_comm. apply Z.div_mul. unfold W. lia. }
  split; [|exact Eh]. rewrite Eh. unfold zlength. rewrite !Nat2Z.id.
  rewrite <- (rows_pix_length grid i r c l). rewrite pdf_chunks_concat by exact Hw. reflexivity.
Qed.
