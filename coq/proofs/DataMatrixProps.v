(* DataMatrix: the property-level lemmas.  The Reed-Solomon fact that P2/P4
   carry as a section hypothesis is discharged here with RSP.rs_encode_valid, so
   everything below is closed.
     dm_c02_*  (C02: every accepted content decodes back; layers 1-4)
     dm_c10    (accept exactly the representable contents; never Panic/OutOfFuel)
     dm_c11    (rendering contract)
     dm_c12    (ECC 200 number of check codewords, every block a valid codeword)
     dm_c13    (smallest symbol) *)
From Coq Require Import FMapPositive Sorting.Sorted.
From Verif Require Import Prelude Barcode GFM GFP RSP TabDataMatrix DataMatrixM DataMatrixSpec
  DataMatrixP1 DataMatrixP2 DataMatrixP3 DataMatrixP4.

(* ---------- the Reed-Solomon hypothesis, discharged ---------- *)
Lemma dm_field_ok : gf_ok dm_field = true.
Proof. vm_compute. reflexivity. Qed.

Lemma dm_rs_valid : forall data k,
  1 <= k -> 1 + k <= 256 -> Forall (fun c => 0 <= c < 256) data ->
  exists ecc, rs_encode_fresh dm_field data k = Ok ecc /\ zlength ecc = k /\
    Forall (fun c => 0 <= c < 256) ecc /\
    forall i, 0 <= i < k ->
      poly_eval dm_field (data ++ ecc) (tget (gf_alog dm_field) (1 + i)) = 0.
Proof.
  intros data k H1 H2 H3.
  exact (rs_encode_valid dm_field data k dm_field_ok H1 H2 H3).
Qed.

(* ---------- C02, layer 1: tables ---------- *)
Definition dm_c02_tables := dm_tables_iso.
Definition dm_c02_tables_ascending := iso_table_ascending.
Definition dm_c02_capacities := dm_code_sizes_capacities.
Definition dm_c02_gf_tables := dm_gf_tables.

(* ---------- C02, layer 2: placement ---------- *)
Definition dm_c02_placement := dm_placement.
Definition dm_c02_special_cases := dm_special_cases.

(* ---------- C02, layer 3: unbounded ---------- *)
Lemma dm_c02_ascii_roundtrip : forall s, bytes s ->
  dm_ascii (encode_text s) 1 = Some (s, true).
Proof.
  intros s Hb. pose proof (dm_ascii_encode_text s Hb [] 1) as H.
  rewrite app_nil_r in H. rewrite H. cbn [dm_ascii prepend]. now rewrite app_nil_r.
Qed.

Definition dm_c02_ascii_roundtrip_ctx := dm_ascii_encode_text.
Definition dm_c02_ascii_length := encode_text_len.

Lemma dm_c02_padding : forall s n, bytes s -> zlength (encode_text s) <= n ->
  zlength (add_padding (encode_text s) n) = n
  /\ dm_ascii (add_padding (encode_text s) n) 1 = Some (s, true).
Proof.
  intros s n Hb Hn. split; [now apply add_padding_length | now apply dm_ascii_padded].
Qed.

(* calcECC for a generated size s matching the ISO row e: the data codewords are
   kept, the result has data+ecc codewords, and every interleaved block is a
   valid Reed-Solomon codeword (incl. the 156/155 split of 144x144) *)
Lemma dm_c02_blocks_valid : forall s e data,
  static_ok s e = true -> zlength data = iso_data e -> bytes data ->
  exists cws, calc_ecc data s = Ok cws
    /\ zlength cws = iso_data e + iso_ecc e /\ bytes cws
    /\ firstn (Z.to_nat (iso_data e)) cws = data
    /\ rs_ok e cws = true.
Proof.
  intros s e data Hs Hl Hb.
  destruct (static_ok_inv s e Hs) as (_ & _ & _ & _ & _ & _ & Hes & _).
  exact (calc_ecc_correct dm_rs_valid s e Hes data Hl Hb).
Qed.

Definition dm_c02_static_all := static_all_Forall2.

(* region split/merge, finder and clock, placement: any data+ecc codewords
   rendered for a size are read back unchanged by the reference reader, and the
   finder / clock / fixed modules are where the specification expects them *)
Definition dm_c02_render_read := render_read.

(* ---------- C02, layer 4: composition ---------- *)
Theorem dm_c02_roundtrip : forall content bc, bytes content ->
  dm_encode content = Ok bc ->
  dm_valid (bc_rows bc) = true /\ dm_decode (bc_rows bc) = Some content.
Proof. exact (dm_roundtrip dm_rs_valid). Qed.

(* ---------- C10 ---------- *)
Lemma find_none_all {A} (f : A -> bool) l : (forall x, In x l -> f x = false) -> find f l = None.
Proof.
  induction l as [|a l IH]; intros H; cbn [find]; [reflexivity|].
  rewrite (H a (or_introl eq_refl)). apply IH. intros; apply H; now right.
Qed.

Lemma dm_smallest_none n : dm_smallest n = None <-> iso_max_data < n.
Proof.
  unfold dm_smallest. split.
  - intros H. pose proof (find_none _ _ H (iso 144 22 6 1558 620 10)) as Hl.
    cbn beta in Hl. unfold iso_max_data.
    assert (Hin : In (iso 144 22 6 1558 620 10) iso_table).
    { unfold iso_table. repeat (try (left; reflexivity); right). }
    specialize (Hl Hin). cbn in Hl. lia.
  - intros H. apply find_none_all. intros e He.
    assert (Hall : forallb (fun e => iso_data e <=? iso_max_data) iso_table = true)
      by (vm_compute; reflexivity).
    rewrite forallb_forall in Hall. specialize (Hall e He). lia.
Qed.

Theorem dm_c10 : forall content, bytes content ->
  dm_encode content <> Panic /\ dm_encode content <> OutOfFuel
  /\ (dm_encode content = Err <-> iso_max_data < dm_ascii_len content)
  /\ ((exists bc, dm_encode content = Ok bc) <-> dm_ascii_len content <= iso_max_data).
Proof.
  intros content Hb.
  destruct (dm_smallest_total (dm_ascii_len content)) as [[e He]|Hn].
  - destruct (dm_encode_ok dm_rs_valid content e Hb He) as (s & cws & rows & exps & _ & Henc & _).
    assert (Hle : dm_ascii_len content <= iso_max_data).
    { destruct (Z_lt_le_dec iso_max_data (dm_ascii_len content)) as [Hlt|]; [|assumption].
      apply dm_smallest_none in Hlt. rewrite Hlt in He. discriminate. }
    rewrite Henc. repeat split; try discriminate; try lia.
    intros _. eexists. reflexivity.
  - pose proof (dm_encode_err content Hn) as Herr.
    apply dm_smallest_none in Hn.
    rewrite Herr. repeat split; try discriminate; try lia.
    intros [bc Hbc]. discriminate.
Qed.

(* ---------- C11 ---------- *)
Theorem dm_c11 : forall content bc, bytes content -> dm_encode content = Ok bc ->
  bc_kind bc = KDataMatrix /\ kind_dims (bc_kind bc) = 2
  /\ bc_content bc = content /\ bc_checksum bc = None
  /\ exists e, dm_smallest (dm_ascii_len content) = Some e
       /\ bc_width bc = iso_size e /\ bc_height bc = iso_size e
       /\ zlength (bc_rows bc) = bc_height bc
       /\ Forall (fun r => zlength r = bc_width bc) (bc_rows bc).
Proof.
  intros content bc Hb Henc.
  destruct (dm_smallest_total (dm_ascii_len content)) as [[e He]|Hn];
    [|rewrite (dm_encode_err _ Hn) in Henc; discriminate].
  destruct (dm_encode_ok dm_rs_valid content e Hb He)
    as (s & cws & rows & exps & Hs & Henc' & _ & _ & _ & _ & _ & _ & Hh & Hw).
  rewrite Henc' in Henc. injection Henc as <-. cbn.
  destruct (static_ok_inv s e Hs) as (_ & _ & _ & _ & _ & Hm & _).
  apply size_matches_inv in Hm. destruct Hm as (Hr & Hc & _).
  repeat split; auto. exists e. rewrite Hr, Hc. repeat split; auto.
Qed.

(* ---------- C12 ---------- *)
Theorem dm_c12 : forall content bc, bytes content -> dm_encode content = Ok bc ->
  exists e cws, In e iso_table
    /\ dm_symbol_entry (bc_rows bc) = Some e
    /\ dm_codewords (bc_rows bc) = Some cws
    /\ zlength cws = iso_data e + iso_ecc e
    /\ rs_ok e cws = true.
Proof.
  intros content bc Hb Henc.
  destruct (dm_smallest_total (dm_ascii_len content)) as [[e He]|Hn];
    [|rewrite (dm_encode_err _ Hn) in Henc; discriminate].
  destruct (dm_encode_ok dm_rs_valid content e Hb He)
    as (s & cws & rows & exps & _ & Henc' & Hl & _ & _ & Hrs & Hread & _).
  rewrite Henc' in Henc. injection Henc as <-. cbn [bc_rows].
  exists e, cws. unfold dm_symbol_entry, dm_codewords. rewrite Hread.
  repeat split; auto. unfold dm_smallest in He. now apply find_some in He.
Qed.

(* ---------- C13 ---------- *)
Fixpoint ssorted_b (l : list Z) : bool :=
  match l with
  | [] => true
  | x :: t => forallb (fun y => x <=? y) t && ssorted_b t
  end.

Lemma ssorted_b_ok {A} (k : A -> Z) l : ssorted_b (map k l) = true ->
  StronglySorted (fun a b => k a <= k b) l.
Proof.
  induction l as [|a l IH]; cbn [map ssorted_b]; intros H; constructor.
  - apply IH. apply andb_prop in H. tauto.
  - apply andb_prop in H. destruct H as [H _]. rewrite forallb_forall in H.
    apply Forall_forall. intros b Hb. specialize (H (k b) (in_map k _ _ Hb)). lia.
Qed.

Lemma find_first_le {A} (f : A -> bool) (k : A -> Z) l :
  StronglySorted (fun a b => k a <= k b) l ->
  forall e e', find f l = Some e -> In e' l -> f e' = true -> k e <= k e'.
Proof.
  induction 1 as [|a l Hs IH Hall]; intros e e' Hf Hin He'; [discriminate|].
  cbn [find] in Hf. destruct (f a) eqn:Ea.
  - injection Hf as <-. destruct Hin as [<-|Hin]; [lia|].
    rewrite Forall_forall in Hall. now apply Hall.
  - destruct Hin as [<-|Hin]; [congruence|]. now apply (IH e e').
Qed.

Theorem dm_c13 : forall content bc, bytes content -> dm_encode content = Ok bc ->
  exists e, dm_symbol_entry (bc_rows bc) = Some e
    /\ bc_width bc = iso_size e /\ bc_height bc = iso_size e
    /\ dm_ascii_len content <= iso_data e
    /\ forall e', In e' iso_table -> dm_ascii_len content <= iso_data e' ->
         iso_size e <= iso_size e'.
Proof.
  intros content bc Hb Henc.
  destruct (dm_c11 content bc Hb Henc) as (_ & _ & _ & _ & e & He & Hw & Hh & _).
  destruct (dm_encode_ok dm_rs_valid content e Hb He)
    as (s & cws & rows & exps & _ & Henc' & _ & _ & _ & _ & Hread & _).
  exists e. split.
  { rewrite Henc' in Henc. injection Henc as <-. cbn [bc_rows].
    unfold dm_symbol_entry. now rewrite Hread. }
  split; [exact Hw|]. split; [exact Hh|].
  unfold dm_smallest in He. split; [apply find_some in He; lia|].
  intros e' Hin Hfit.
  apply (find_first_le (fun e => dm_ascii_len content <=? iso_data e) iso_size iso_table) with (e := e);
    auto; [|lia].
  apply ssorted_b_ok. vm_compute. reflexivity.
Qed.

(* ---------- non-vacuity ---------- *)
Example dm_example_hello :
  exists bc, dm_encode [72; 101; 108; 108; 111; 32; 49; 50; 51; 52] = Ok bc
    /\ bc_width bc = 14 /\ dm_decode (bc_rows bc) = Some [72; 101; 108; 108; 111; 32; 49; 50; 51; 52].
Proof. eexists. split; [vm_compute; reflexivity|]. split; vm_compute; reflexivity. Qed.

Example dm_example_bytes : bytes [72; 101; 108; 108; 111; 32; 49; 50; 51; 52; 200; 255; 0].
Proof. repeat constructor; unfold is_byte; lia. Qed.

Example dm_example_too_long : dm_encode (repeat 65 1559) = Err.
Proof. vm_compute. reflexivity. Qed.

Example dm_example_largest :
  exists bc, dm_encode (repeat 65 1558) = Ok bc /\ bc_width bc = 144.
Proof. eexists. split; vm_compute; reflexivity. Qed.
