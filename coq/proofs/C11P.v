(* C11: the rendering contract of the result records. *)
From Verif Require Import Prelude Barcode Utf8M.
From Verif Require Import Code128M Code128Spec Code128P3 Code39M Code39Spec Code39P Code93M Code93Spec Code93P TabCode93.

(* what every 1-D result looks like: one row, width = module count, height 1 *)
Definition is_1d (bc : barcode) (k : kind) (content : list Z) : Prop :=
  bc_kind bc = k /\ kind_dims k = 1 /\ bc_content bc = content /\ bc_height bc = 1
  /\ exists bits, bc_rows bc = [bits] /\ bc_width bc = zlength bits.

Lemma mk1d_is_1d k content cs bits : kind_dims k = 1 -> is_1d (mk1d k content cs bits) k content.
Proof. intros Hk. unfold is_1d, mk1d; cbn. repeat split; auto. exists bits. auto. Qed.

Lemma c128_c11 content bc : c128_encode content = Ok bc -> is_1d bc KCode128 content /\ bc_checksum bc <> None.
Proof.
  intros H. destruct (c128_encode_roundtrip content bc H) as (_ & _ & bits & cs & vals & -> & _).
  split; [apply mk1d_is_1d; reflexivity|discriminate].
Qed.

Lemma c128n_c11 content bc : c128_encode_nocs content = Ok bc -> is_1d bc KCode128 content /\ bc_checksum bc = None.
Proof.
  intros H. destruct (c128_encode_nocs_roundtrip content bc H) as (_ & _ & bits & -> & _).
  split; [apply mk1d_is_1d; reflexivity|reflexivity].
Qed.

(* Code 39: Content() is the text, in full-ASCII mode its basic-alphabet spelling *)
Lemma c39_c11 s cs full bc : c39_encode s cs full = Ok bc ->
  is_1d bc KCode39 (if full then c39_spell s else s).
Proof.
  intros H. destruct (c39_roundtrip s cs full bc H) as (vals & _ & -> & Hc & _).
  rewrite <- Hc. apply mk1d_is_1d; reflexivity.
Qed.

(* Code 93: Content() is the text, in full-ASCII mode the source's spelling (extendedTable) *)
Lemma c93_c11 s cs full bc : c93_encode s cs full = Ok bc ->
  is_1d bc KCode93 (if full
                    then flat_map (fun b => match zget code93_extended_table b with Some e => e | None => [] end) s
                    else s)
  /\ bc_checksum bc = None.
Proof.
  intros H. destruct (c93_roundtrip_stmt s cs full bc H) as (vals & _ & -> & Hc & _).
  split; [|reflexivity].
  destruct full; [destruct Hc as [Hc _]|]; rewrite <- Hc; apply mk1d_is_1d; reflexivity.
Qed.

(* ---------- the colour scheme ---------- *)
(* A rendered barcode = module matrix + the scheme stored by the constructor.  Every
   encoder model is a function of the content only; the WithColor entry points store the
   scheme they are given, the plain entry points store ColorScheme16. *)
Record rendered (S : Type) := { rd_bc : barcode; rd_scheme : S }.
Arguments rd_bc {S}. Arguments rd_scheme {S}.

Definition with_color {S} (r : outcome barcode) (scheme : S) : outcome (rendered S) :=
  match r with Ok bc => Ok {| rd_bc := bc; rd_scheme := scheme |} | Err => Err | Panic => Panic | OutOfFuel => OutOfFuel end.

(* pixel colour of a rendered barcode: foreground where the module is set, else background *)
Definition rd_pixel {C} (r : rendered (C * C)) (x y : nat) : option C :=
  match nth_error (bc_rows (rd_bc r)) y with
  | Some row => match nth_error row x with
                | Some true => Some (fst (rd_scheme r))
                | Some false => Some (snd (rd_scheme r))
                | None => None
                end
  | None => None
  end.

Lemma with_color_contract {C} (r : outcome barcode) (s1 s2 : C * C) r1 r2 :
  with_color r s1 = Ok r1 -> with_color r s2 = Ok r2 ->
  (* same modules, accessors, whatever the scheme; the scheme reported is the one passed *)
  rd_bc r1 = rd_bc r2 /\ rd_scheme r1 = s1 /\ rd_scheme r2 = s2
  (* every pixel inside the bounds is exactly foreground or background of the scheme in force *)
  /\ (forall x y c, rd_pixel r1 x y = Some c -> c = fst s1 \/ c = snd s1).
Proof.
  destruct r as [bc| | |]; cbn; try discriminate. intros H1 H2. inversion H1; inversion H2; subst; cbn.
  repeat split; auto. intros x y c. unfold rd_pixel; cbn.
  destruct (nth_error (bc_rows bc) y) as [row|]; [|discriminate].
  destruct (nth_error row x) as [[|]|]; intros H; inversion H; auto.
Qed.
