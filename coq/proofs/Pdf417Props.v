(* PDF417: composition of the layers (tables, high-level encoder, Reed-Solomon,
   row arithmetic, rendering, reference reader) into the property lemmas
   pdf_c04_*, pdf_c10, pdf_c11, pdf_c12, pdf_c13 used by props/C04.v, C10..C13. *)
From Verif Require Import Prelude Barcode BitListM Utf8M TabPdf417 Pdf417M Pdf417Spec Pdf417PTab Pdf417PRow
  Pdf417PRS Pdf417PNum Pdf417PText Pdf417PSeg Pdf417PHL Pdf417PEnc Pdf417PRead.

Local Ltac Zify.zify_post_hook ::= Z.to_euclidean_division_equations.

(* a Go string: bytes *)
Definition pdf_bytes (data : list Z) : Prop := Forall is_byte data.

(* ---------- the reader on a rendered grid ---------- *)
Lemma pdfs_read_ok grid r c l h :
  zlength grid = r -> 2 <= r <= 90 -> 1 <= c <= 30 -> 0 <= l <= 8 -> (0 < h)%nat ->
  Forall (Forall in929) grid -> Forall (fun ws => zlength ws = c) grid ->
  pdfs_read (flat_map (fun row => repeat row h) (rows_pix grid 0 r c l)) =
  Some {| ps_rows := r; ps_cols := c; ps_level := l; ps_codewords := concat grid |}.
Proof.
  intros Hlen Hr Hc Hl Hh Hg Hw. unfold pdfs_read.
  rewrite pdfs_dedup_flat by (try exact Hh; apply rows_pix_adj_diff; lia).
  rewrite pdfs_read_rows_ok by (try assumption; lia). cbn [pdfs_obind].
  destruct grid as [|ws0 [|ws1 grid']] eqn:Eg;
    try (rewrite ?zlength_cons in Hlen; change (zlength (@nil (list Z))) with 0 in Hlen; lia).
  rewrite <- Eg in *.
  assert (rows_info grid 0 r c l =
          (c, pdfs_left_indicator 0 r c l, ws0, pdfs_right_indicator 0 r c l) ::
          (c, pdfs_left_indicator (0 + 1) r c l, ws1, pdfs_right_indicator (0 + 1) r c l) ::
          rows_info grid' (0 + 1 + 1) r c l) as Ei by (rewrite Eg; reflexivity).
  rewrite Ei. rewrite <- Ei.
  assert (zlength (rows_info grid 0 r c l) = r) as Elr
    by (unfold zlength in *; rewrite rows_info_length; exact Hlen).
  destruct (pdfs_indicator_decode r c l ltac:(lia) Hc Hl) as (_ & _ & El & _).
  cbv zeta in El. change (0 + 1) with 1. rewrite <- El.
  rewrite Elr. rewrite pdfs_indicators_ok_rows.
  replace (0 <=? l) with true by lia. replace (l <=? 8) with true by lia. cbn [andb].
  rewrite rows_info_data. reflexivity.
Qed.

Lemma Forall_concat_inv {A} (P : A -> Prop) (g : list (list A)) :
  Forall P (concat g) -> Forall (Forall P) g.
Proof.
  induction g as [|x g IH]; intros H; [constructor|].
  cbn [concat] in H. apply Forall_app in H as [H1 H2]. constructor; auto.
Qed.

(* ---------- what pdf_encode returns, in every case ---------- *)

Record pdf_symbol_facts_at (data : list Z) (level c : Z) (bc : barcode)
  (sf_dw : list Z) (sf_p : nat) (sf_ec : list Z) (sf_r : Z) : Prop := {
  sf_hl : pdf_highlevel data = Ok sf_dw;
  sf_level : 0 <= level <= 8;
  sf_shape : pdf_shape_ok (zlength sf_dw) (pdf_ec_count level) c = true;
  sf_cols : pdf_min_cols <= c <= pdf_max_cols;
  sf_rows : pdf_min_rows <= sf_r <= pdf_max_rows;
  sf_rows_min : c * (sf_r - 1) < zlength sf_dw + 1 + pdf_ec_count level <= c * sf_r;
  sf_pad : Z.of_nat sf_p < c;
  sf_total : zlength sf_dw + Z.of_nat sf_p + 1 + pdf_ec_count level = c * sf_r;
  sf_eclen : zlength sf_ec = pdf_ec_count level;
  sf_kind : bc_kind bc = KPDF;
  sf_content : bc_content bc = data;
  sf_checksum : bc_checksum bc = None;
  sf_width : bc_width bc = 17 * (c + 4) + 1;
  sf_height : bc_height bc = sf_r * pdf_module_height;
  sf_pix_rows : zlength (bc_rows bc) = bc_height bc;
  sf_pix_cols : Forall (fun row => zlength row = bc_width bc) (bc_rows bc);
  sf_read : pdfs_read (bc_rows bc) =
            Some {| ps_rows := sf_r; ps_cols := c; ps_level := level;
                    ps_codewords := (zlength sf_dw + Z.of_nat sf_p + 1) :: sf_dw ++ repeat 900 sf_p ++ sf_ec |};
  sf_syn : pdfs_syndromes_zero (Z.to_nat (pdf_ec_count level)) 3
             ((zlength sf_dw + Z.of_nat sf_p + 1) :: sf_dw ++ repeat 900 sf_p ++ sf_ec) = true;
  sf_decode : pdf_decode_hl (sf_dw ++ repeat 900 sf_p) = Some data
}.

Definition pdf_symbol_facts (data : list Z) (level c : Z) (bc : barcode) : Prop :=
  exists dw p ec r, pdf_symbol_facts_at data level c bc dw p ec r.

Lemma flat_map_repeat_length {A} (rows : list (list A)) h :
  length (flat_map (fun row => repeat row h) rows) = (length rows * h)%nat.
Proof.
  induction rows as [|a t IH]; [reflexivity|].
  cbn [flat_map length]. rewrite app_length, repeat_length, IH. lia.
Qed.

Lemma Forall_flat_map_repeat {A} (P : list A -> Prop) rows h :
  Forall P rows -> Forall P (flat_map (fun row => repeat row h) rows).
Proof.
  induction 1 as [|a t Ha Ht IH]; [constructor|].
  cbn [flat_map]. apply Forall_app. split; [|exact IH].
  apply Forall_forall. intros x Hx. apply repeat_spec in Hx. subst. exact Ha.
Qed.

Theorem pdf_encode_cases data level c :
  pdf_bytes data -> 0 <= level <= 255 ->
  exists dw, pdf_highlevel data = Ok dw /\
  ((9 <= level /\ pdf_encode data level c = Err) \/
   (level <= 8 /\ pdf_shape_ok (zlength dw) (pdf_ec_count level) c = false /\ pdf_encode data level c = Err) \/
   (exists bc, pdf_encode data level c = Ok bc /\ pdf_symbol_facts data level c bc)).
Proof.
  intros Hb Hlv. destruct (pdf_highlevel_roundtrip data Hb) as (dw & Ehl & Fdw & Dhl).
  exists dw. split; [exact Ehl|].
  unfold pdf_encode. destruct (level >=? 9) eqn:E9; [left; split; [lia | reflexivity]|].
  right. assert (0 <= level <= 8) as Hl by lia.
  rewrite Ehl. cbn [obind].
  pose proof pdf_tab_limits as (L1 & L2 & L3 & L4 & L5 & L6).
  pose proof (pdf_ec_count_range level Hl) as Hk.
  pose proof (zlength_nonneg dw) as Hm.
  set (m := zlength dw) in *. set (k := pdf_ec_count level) in *.
  unfold pdf_calc_dimensions.
  destruct (pdf_shape_ok m k c) eqn:Eshape.
  2:{ (* nothing selected; the fallback of calcDimensions never fires *)
      left. split; [lia|]. split; [reflexivity|].
      destruct (pdf_rows_or0_spec m k pdf_min_cols Hm ltac:(lia) ltac:(lia)) as [Er Br].
      rewrite Er. cbn [obind].
      assert (pdf_min_rows <= pdf_rows_or0 m k pdf_min_cols) as Hge.
      { revert Br. change pdf_min_cols with 2. change pdf_min_rows with 2. lia. }
      replace (pdf_rows_or0 m k pdf_min_cols <? pdf_min_rows) with false by lia.
      cbn [obind]. replace (0 <? pdf_min_cols) with true by lia. reflexivity. }
  right.
  apply pdf_shape_ok_spec in Eshape as Hshape; [|lia|lia]. destruct Hshape as [Hc Hr].
  destruct (pdf_rows_or0_spec m k c Hm ltac:(lia) ltac:(lia)) as [Er Br].
  set (r := pdf_rows_or0 m k c) in *.
  rewrite Er. cbn [obind].
  replace ((c <? pdf_min_cols) || (c >? pdf_max_cols) || (r <? pdf_min_rows) || (r >? pdf_max_rows))
    with false by lia.
  assert (c * r <= 928) as H928 by nia.
  destruct (pdf_encode_data_spec dw c level r Fdw Hl ltac:(lia) Br H928)
    as (p & ec & Eed & Hp & Lec & Rec & Htot & Syn).
  rewrite Eed. cbn [obind]. fold m k in Htot, Syn, Lec |- *.
  set (cws := (m + Z.of_nat p + 1) :: dw ++ repeat 900 p ++ ec) in *.
  assert (zlength cws = c * r) as Lcws.
  { unfold cws. rewrite zlength_cons, !zlength_app, zlength_repeat. fold m. lia. }
  assert (Forall in929 cws) as Rcws.
  { unfold cws. constructor; [unfold in929; lia|]. apply Forall_app. split.
    - eapply Forall_impl; [|exact Fdw]. unfold cw_range, in929. intros; lia.
    - apply Forall_app. split; [|exact Rec].
      apply Forall_forall. intros x Hx. apply repeat_spec in Hx. subst. unfold in929. lia. }
  destruct (pdf_grid_spec (Z.to_nat c) ltac:(lia) (Z.to_nat r) cws (length cws)) as (grid & Eg & Lg & Wg & Cg).
  { unfold zlength in Lcws. nia. }
  { lia. }
  rewrite Eg. cbn [obind].
  assert (Forall (Forall in929) grid) as Rg by (apply Forall_concat_inv; rewrite Cg; exact Rcws).
  assert (zlength grid = r) as Lgz by (unfold zlength; lia).
  rewrite (pdf_row_codes_spec grid 0 r c level) by (try assumption; lia). cbn [obind].
  eexists. split; [reflexivity|].
  assert ((c + 4) * 17 + 1 = Z.of_nat (17 * (Z.to_nat c + 4) + 1)) as Ewd by lia.
  rewrite Ewd.
  destruct (pdf_pixels_spec grid (Z.to_nat c) 0 r c level Wg) as [Epix Eh].
  assert (Forall (fun ws => zlength ws = c) grid) as Wgz.
  { eapply Forall_impl; [|exact Wg]. intros ws Hws. cbv beta in Hws |- *. unfold zlength. lia. }
  exists dw, p, ec, r.
  constructor; cbn [bc_kind bc_content bc_checksum bc_width bc_height bc_rows];
    try assumption; try reflexivity; try lia.
  - rewrite Epix, Eh. unfold zlength. rewrite flat_map_repeat_length, rows_pix_length. lia.
  - rewrite Epix. apply Forall_flat_map_repeat.
    eapply Forall_impl; [|apply (rows_pix_widths grid (Z.to_nat c) Wg)].
    intros row Hrow. unfold zlength. cbv beta in Hrow. lia.
  - rewrite Epix. fold m. fold cws. rewrite <- Cg.
    apply pdfs_read_ok; try assumption; lia.
  - apply Dhl.
Qed.

(* ================= C04 ================= *)

(* COMPOSITION: every symbol the model returns (for every byte string, every
   security level and every column count the oracle may name) is a valid PDF417
   symbol and the reference reader decodes it to exactly the input bytes. *)
Theorem pdf_c04_roundtrip data level cols bc :
  pdf_bytes data -> 0 <= level <= 255 ->
  pdf_encode data level cols = Ok bc ->
  pdf_valid (bc_rows bc) = true /\ pdf_decode (bc_rows bc) = Some data.
Proof.
  intros Hb Hl He. destruct (pdf_encode_cases data level cols Hb Hl) as (dw & Ehl & Hcases).
  destruct Hcases as [[_ E]|[(_ & _ & E)|(bc' & E & F)]]; try congruence.
  rewrite He in E. inversion E; subst bc'. destruct F as (dw' & p & ec & r & F). destruct F.
  pose proof pdf_tab_limits as (L1 & L2 & L3 & L4 & L5 & L6).
  pose proof (pdf_ec_count_range level sf_level0) as Hk.
  pose proof (zlength_nonneg dw') as Hm.
  split.
  - unfold pdf_valid. rewrite sf_read0. cbn [ps_codewords ps_level ps_rows ps_cols].
    rewrite <- pdf_ec_count_pow by lia.
    unfold pdfs_shape_ok. cbn [ps_rows ps_cols hd].
    rewrite sf_syn0.
    rewrite zlength_cons, !zlength_app, zlength_repeat, sf_eclen0.
    apply andb_true_intro. split; [|reflexivity].
    apply andb_true_intro. split; [|lia].
    apply andb_true_intro. split; [|lia].
    assert (r * cols <= 928) by nia. lia.
  - unfold pdf_decode. rewrite sf_read0. cbn [pdfs_obind ps_codewords].
    rewrite !zlength_app, zlength_repeat.
    replace ((1 <=? zlength dw' + Z.of_nat p + 1) &&
             (zlength dw' + Z.of_nat p + 1 - 1 <=? zlength dw' + (Z.of_nat p + zlength ec)))
      with true by (pose proof (zlength_nonneg ec); lia).
    rewrite app_assoc. rewrite firstn_app_exact; [exact sf_decode0|].
    rewrite app_length, repeat_length. unfold zlength. lia.
Qed.

(* layer 2: the high-level encoder alone *)
Theorem pdf_c04_highlevel data : pdf_bytes data ->
  exists cws, pdf_highlevel data = Ok cws /\ Forall cw_range cws /\
    forall p, pdf_decode_hl (cws ++ repeat 900 p) = Some data.
Proof. exact (pdf_highlevel_roundtrip data). Qed.

(* layer 2: the text invariant *)
Theorem pdf_c04_text_invariant text sm : Forall is_textc text ->
  exists sm2 cws, pdf_encode_text text sm = Ok (sm2, cws) /\ Forall cw900 cws /\
    pdfs_text_run (sub_of sm) cws = Some (text, sub_of sm2).
Proof. exact (pdf_encode_text_roundtrip text sm). Qed.

(* layer 2: Reed-Solomon *)
Theorem pdf_c04_reed_solomon level data :
  0 <= level <= 8 -> Forall (fun v => 0 <= v) data ->
  exists ec, pdf_compute level data = Ok ec /\ zlength ec = 2 ^ (level + 1) /\
             Forall (fun c => 0 <= c < 929) ec /\
             pdfs_syndromes_zero (Z.to_nat (2 ^ (level + 1))) 3 (data ++ ec) = true.
Proof.
  intros Hl Hd. destruct (pdf_compute_valid level data Hl Hd) as (ec & E & L & R & S).
  exists ec. rewrite <- pdf_ec_count_pow by lia. auto.
Qed.

(* layer 3: row indicators, for all rows/columns/levels of the ISO range *)
Theorem pdf_c04_indicators i r c l :
  0 <= i < r -> r <= 90 -> 1 <= c <= 30 -> 0 <= l <= 8 ->
  pdf_left_codeword i r c l = pdfs_left_indicator i r c l /\
  pdf_right_codeword i r c l = pdfs_right_indicator i r c l /\
  pdfs_left_indicator i r c l / 30 = i / 3 /\ pdfs_right_indicator i r c l / 30 = i / 3 /\
  (r = 3 * (pdfs_left_indicator 0 r c l mod 30) + (pdfs_left_indicator 1 r c l mod 30) mod 3 + 1 /\
   c = pdfs_right_indicator 0 r c l mod 30 + 1 /\ l = (pdfs_left_indicator 1 r c l mod 30) / 3).
Proof.
  intros Hi Hr Hc Hl.
  split; [apply pdf_left_codeword_spec; lia|]. split; [apply pdf_right_codeword_spec; lia|].
  destruct (pdfs_indicator_row_number i r c l Hi Hr Hc Hl) as [A B].
  split; [exact A|]. split; [exact B|].
  destruct (pdfs_indicator_decode r c l ltac:(lia) Hc Hl) as (D1 & D2 & D3 & _).
  cbv zeta in *. auto.
Qed.

(* layer 1: the tables *)
Theorem pdf_c04_tables :
  pdf_codewords = pdfs_patterns /\
  (forall t p, 0 <= t < 3 -> In p (pdfs_cluster t) -> pdfs_pattern_ok (3 * t) p = true) /\
  (forall t, 0 <= t < 3 -> NoDup (pdfs_cluster t) /\ length (pdfs_cluster t) = 929%nat) /\
  pdf_start_word = 0x1fea8 /\ pdf_stop_word = 0x3fa29 /\
  forallb pdf_level_gen_b pdf_levels = true /\
  (forall ch v, pdf_assoc pdf_mixed_map ch = Some v <-> (0 <= v <= 29 /\ pdfs_text_action TMixed v = AChar ch)) /\
  (forall ch v, pdf_assoc pdf_punct_map ch = Some v <-> (0 <= v <= 29 /\ pdfs_text_action TPunct v = AChar ch)) /\
  (forall ch, pdf_is_text ch = true ->
     pdf_is_alpha_upper ch || pdf_is_alpha_lower ch || pdf_is_mixed ch || pdf_is_punct ch = true).
Proof.
  split; [exact pdf_tab_patterns_pinned|].
  split; [intros; apply pdf_tab_pattern_ok; assumption|].
  split; [intros t Ht; split; [apply pdf_tab_patterns_nodup | apply pdf_tab_patterns_length]; exact Ht|].
  destruct pdf_tab_start_stop as (A & B & _).
  split; [exact A|]. split; [exact B|].
  split; [exact pdf_tab_factors_generator|].
  split; [exact pdf_tab_mixed|]. split; [exact pdf_tab_punct|]. exact pdf_tab_text_covered.
Qed.

(* ================= C10 ================= *)

(* never panics or runs out of fuel; result and error are exclusive by the
   outcome type; Ok exactly when level <= 8 and the oracle's column count is a
   legal shape; a legal shape exists exactly when the codewords fit maxRows x
   maxCols (so with any consistent oracle: error iff level > 8 or too much data) *)
Theorem pdf_c10 data level oracle :
  pdf_bytes data -> 0 <= level <= 255 ->
  pdf_encode data level oracle <> Panic /\ pdf_encode data level oracle <> OutOfFuel /\
  exists dw, pdf_highlevel data = Ok dw /\
    ((exists bc, pdf_encode data level oracle = Ok bc) <->
     (level <= 8 /\ pdf_shape_ok (zlength dw) (pdf_ec_count level) oracle = true)) /\
    (pdf_encode data level oracle = Err <->
     ~ (level <= 8 /\ pdf_shape_ok (zlength dw) (pdf_ec_count level) oracle = true)) /\
    (level <= 8 ->
     ((exists c, pdf_shape_ok (zlength dw) (pdf_ec_count level) c = true) <->
      zlength dw + 1 + pdf_ec_count level <= pdf_max_rows * pdf_max_cols) /\
     (pdf_fits (zlength dw) (pdf_ec_count level) = true <->
      zlength dw + 1 + pdf_ec_count level <= pdf_max_rows * pdf_max_cols)).
Proof.
  intros Hb Hl. destruct (pdf_encode_cases data level oracle Hb Hl) as (dw & Ehl & Hcases).
  assert (pdf_encode data level oracle <> Panic /\ pdf_encode data level oracle <> OutOfFuel) as [N1 N2].
  { destruct Hcases as [[_ E]|[(_ & _ & E)|(bc & E & _)]]; rewrite E; split; discriminate. }
  split; [exact N1|]. split; [exact N2|]. exists dw. split; [exact Ehl|].
  split; [|split].
  - split.
    + intros [bc E]. destruct Hcases as [[_ E']|[(_ & _ & E')|(bc' & E' & F)]]; try congruence.
      destruct F as (dw' & p & ec & r & F). destruct F. assert (dw' = dw) as -> by congruence. split; [lia | assumption].
    + intros [H8 Hs]. destruct Hcases as [[H9 _]|[(_ & Hs' & _)|(bc' & E' & _)]]; [lia | congruence | eauto].
  - split.
    + intros E [H8 Hs]. destruct Hcases as [[H9 _]|[(_ & Hs' & _)|(bc' & E' & _)]]; [lia | congruence | congruence].
    + intros Hn. destruct Hcases as [[_ E']|[(_ & _ & E')|(bc' & E' & F)]]; try assumption.
      exfalso. apply Hn. destruct F as (dw' & p & ec & r & F). destruct F. assert (dw' = dw) as -> by congruence. split; [lia | assumption].
  - intros H8. assert (0 <= level <= 8) as Hl8 by lia.
    pose proof (pdf_ec_count_range level Hl8) as Hk.
    pose proof (zlength_nonneg dw) as Hm.
    pose proof (pdf_fits_spec (zlength dw) (pdf_ec_count level) Hm ltac:(lia)) as Hf.
    split; [|exact Hf].
    rewrite <- Hf. unfold pdf_fits. rewrite existsb_exists. split.
    + intros [c Hc]. exists c. split; [|exact Hc].
      apply pdf_shape_ok_spec in Hc; [|lia|lia]. apply pdf_range_In.
      pose proof pdf_tab_limits. lia.
    + intros (c & _ & Hc). eauto.
Qed.

(* ================= C11 ================= *)

(* bounds (0,0)-(17(cols+4)+1, rows*moduleHeight), a rectangular matrix of
   foreground/background modules, content = input, kind PDF417 (2-D), no
   checksum.  The model has no colour argument at all: the module pattern cannot
   depend on the scheme. *)
Theorem pdf_c11 data level cols bc :
  pdf_bytes data -> 0 <= level <= 255 -> pdf_encode data level cols = Ok bc ->
  exists dw, pdf_highlevel data = Ok dw /\
  let rows := pdf_rows_or0 (zlength dw) (pdf_ec_count level) cols in
  bc_kind bc = KPDF /\ kind_dims (bc_kind bc) = 2 /\ bc_content bc = data /\ bc_checksum bc = None /\
  bc_width bc = 17 * (cols + 4) + 1 /\ bc_height bc = rows * pdf_module_height /\
  zlength (bc_rows bc) = bc_height bc /\
  Forall (fun row => zlength row = bc_width bc) (bc_rows bc).
Proof.
  intros Hb Hl He. destruct (pdf_encode_cases data level cols Hb Hl) as (dw & Ehl & Hcases).
  destruct Hcases as [[_ E]|[(_ & _ & E)|(bc' & E & F)]]; try congruence.
  rewrite He in E. inversion E; subst bc'. destruct F as (dw' & p & ec & r & F). destruct F.
  assert (dw' = dw) as -> by congruence.
  exists dw. split; [exact Ehl|]. cbv zeta.
  pose proof (pdf_ec_count_range level sf_level0) as Hk.
  pose proof (zlength_nonneg dw) as Hm. pose proof pdf_tab_limits as (L1 & _).
  destruct (pdf_rows_or0_spec (zlength dw) (pdf_ec_count level) cols Hm ltac:(lia) ltac:(lia)) as [_ Br].
  assert (r = pdf_rows_or0 (zlength dw) (pdf_ec_count level) cols) as <- by nia.
  rewrite sf_kind0. repeat split; assumption.
Qed.

(* ================= C12 ================= *)

(* the row indicators name the requested level, the symbol carries 2^(level+1)
   check words after the counted codewords, and all 2^(level+1) syndromes vanish *)
Theorem pdf_c12 data level cols bc :
  pdf_bytes data -> 0 <= level <= 255 -> pdf_encode data level cols = Ok bc ->
  pdf_read_level (bc_rows bc) = Some level /\
  exists sym, pdfs_read (bc_rows bc) = Some sym /\ ps_level sym = level /\
    zlength (ps_codewords sym) - hd 0 (ps_codewords sym) = 2 ^ (level + 1) /\
    pdfs_syndromes_zero (Z.to_nat (2 ^ (level + 1))) 3 (ps_codewords sym) = true.
Proof.
  intros Hb Hl He. destruct (pdf_encode_cases data level cols Hb Hl) as (dw & Ehl & Hcases).
  destruct Hcases as [[_ E]|[(_ & _ & E)|(bc' & E & F)]]; try congruence.
  rewrite He in E. inversion E; subst bc'. destruct F as (dw' & p & ec & r & F). destruct F.
  unfold pdf_read_level. rewrite sf_read0. cbn [pdfs_obind ps_level].
  split; [reflexivity|]. eexists. split; [reflexivity|].
  cbn [ps_level ps_codewords hd]. split; [reflexivity|].
  rewrite <- pdf_ec_count_pow by lia. split; [|exact sf_syn0].
  rewrite zlength_cons, !zlength_app, zlength_repeat, sf_eclen0. lia.
Qed.

(* ================= C13 ================= *)

(* fewer pad codewords than columns (less than one row of padding), the row count
   is the least one that holds the codewords in that many columns, and the shape
   stays inside the limits the code defines (minCols..maxCols = 2..30 columns,
   minRows..maxRows = 2..30 rows, at most 900 <= 928 codewords).  The limits are
   inside the ISO maxima (90 rows, 30 columns, 928 codewords); the lower limit of
   2 rows is BELOW the ISO minimum of 3 rows, see pdf_c13_iso_min_rows_refuted. *)
Theorem pdf_c13 data level cols bc :
  pdf_bytes data -> 0 <= level <= 255 -> pdf_encode data level cols = Ok bc ->
  exists dw sym, pdf_highlevel data = Ok dw /\ pdfs_read (bc_rows bc) = Some sym /\
    let pads := hd 0 (ps_codewords sym) - 1 - zlength dw in
    0 <= pads < ps_cols sym /\
    firstn (Z.to_nat pads) (skipn (S (length dw)) (ps_codewords sym)) = repeat 900 (Z.to_nat pads) /\
    ps_cols sym = cols /\
    ps_cols sym * (ps_rows sym - 1) < zlength dw + 1 + 2 ^ (level + 1) <= ps_cols sym * ps_rows sym /\
    2 <= ps_cols sym <= 30 /\ 2 <= ps_rows sym <= 30 /\
    zlength (ps_codewords sym) = ps_rows sym * ps_cols sym /\ zlength (ps_codewords sym) <= 928.
Proof.
  intros Hb Hl He. destruct (pdf_encode_cases data level cols Hb Hl) as (dw & Ehl & Hcases).
  destruct Hcases as [[_ E]|[(_ & _ & E)|(bc' & E & F)]]; try congruence.
  rewrite He in E. inversion E; subst bc'. destruct F as (dw' & p & ec & r & F). destruct F.
  assert (dw' = dw) as -> by congruence.
  exists dw. eexists. split; [exact Ehl|]. split; [exact sf_read0|].
  cbn [ps_codewords ps_cols ps_rows hd]. cbv zeta.
  pose proof (pdf_ec_count_range level sf_level0) as Hk.
  pose proof (zlength_nonneg dw) as Hm.
  rewrite <- pdf_ec_count_pow by lia.
  replace (zlength dw + Z.of_nat p + 1 - 1 - zlength dw) with (Z.of_nat p) by lia.
  rewrite Nat2Z.id.
  split; [lia|]. split.
  { cbn [skipn]. rewrite skipn_app_exact by reflexivity.
    apply firstn_app_exact. apply repeat_length. }
  split; [reflexivity|]. split; [exact sf_rows_min0|].
  revert sf_cols0 sf_rows0.
  change pdf_min_cols with 2. change pdf_max_cols with 30.
  change pdf_min_rows with 2. change pdf_max_rows with 30. intros sf_cols0 sf_rows0.
  split; [lia|]. split; [lia|].
  rewrite zlength_cons, !zlength_app, zlength_repeat, sf_eclen0.
  split; [lia|]. nia.
Qed.

(* ================= witnesses (non-vacuity, and the ISO row minimum) ================= *)

(* "AAAA1;;" 0x80 ";;;;;;" : text ending with an odd pad in the punctuation
   sub-mode, a shifted byte, punctuation again (the family that used to break) *)
Definition pdf_ex_padpunct : list Z := [65; 65; 65; 65; 49; 59; 59; 128; 59; 59; 59; 59; 59; 59].

(* text in all four sub-modes, 16 digits, 7 bytes, a 2-byte UTF-8 character *)
Definition pdf_ex_mixed : list Z :=
  [72; 101; 108; 108; 111; 44; 32; 87; 111; 114; 108; 100; 33; 32;
   49; 50; 51; 52; 53; 54; 55; 56; 57; 48; 49; 50; 51; 52; 53; 54; 32;
   128; 129; 130; 131; 132; 133; 134; 32; 195; 169].

Definition pdf_ex_ok (data : list Z) (level cols : Z) : bool :=
  match pdf_encode data level cols with
  | Ok bc => pdf_valid (bc_rows bc) &&
             match pdf_decode (bc_rows bc) with Some d => zlist_eqb d data | None => false end
  | _ => false
  end.

Example pdf_c04_example_padpunct : pdf_ex_ok pdf_ex_padpunct 2 3 = true.
Proof. vm_cast_no_check (eq_refl true). Qed.

Example pdf_c04_example_mixed : pdf_ex_ok pdf_ex_mixed 4 5 = true.
Proof. vm_cast_no_check (eq_refl true). Qed.

Example pdf_c04_examples_are_bytes : pdf_bytes pdf_ex_padpunct /\ pdf_bytes pdf_ex_mixed.
Proof. split; repeat constructor; unfold is_byte; lia. Qed.

(* ISO/IEC 15438 asks for at least 3 rows.  The code's minRows is 2 and short
   messages do get 2-row symbols: the empty string at level 0 is rendered with 2
   rows x 2 columns (valid in every other respect). *)
Example pdf_c13_iso_min_rows_refuted :
  match pdf_encode [] 0 2 with
  | Ok bc => pdf_valid (bc_rows bc) && negb (pdf_valid_iso_rows (bc_rows bc)) &&
             (bc_height bc =? 2 * pdf_module_height)
  | _ => false
  end = true.
Proof. vm_cast_no_check (eq_refl true). Qed.
