(* PDF417: calcDimensions inside the model (model/Pdf417DimM.v).
   - the loop never panics and returns either nothing (0,0) or a column count
     the oracle model accepts, with the row count calculateNumberOfRows gives;
   - for dataWords >= 0 and eccWords >= 2 (in particular 2,4,...,512): a shape is
     chosen exactly when dataWords + 1 + eccWords <= maxRows*maxCols = 900, it is
     inside 2..30 x 2..30 and its row count is minimal for its columns;
   - pdf_encode_go (EncodeWithColor with calcDimensions inside) = pdf_encode_auto
     = pdf_encode at the chosen column count, so every theorem quantified over
     the column count holds for it. *)
From Verif Require Import Prelude Barcode TabPdf417 Pdf417M Pdf417Spec Pdf417PTab Pdf417PRow
  Pdf417PSeg Pdf417PEnc Pdf417Props Pdf417DimM.

Section Dim.
Variables m k : Z.
Hypothesis Hm : 0 <= m.
Hypothesis Hk : 2 <= k.

(* state of the loop: nothing chosen, or a legal column count with its rows *)
Definition pdf_dim_inv (cols rows : Z) : Prop :=
  (cols = 0 /\ rows = 0) \/
  (pdf_shape_ok m k cols = true /\ rows = pdf_rows_or0 m k cols).

Lemma pdf_dim_rows_eq c : 0 < c ->
  pdf_calculate_number_of_rows m k c = Ok (pdf_rows_or0 m k c).
Proof. intros Hc. apply pdf_rows_or0_spec; lia. Qed.

Lemma pdf_dim_inv_nonzero cols rows : pdf_dim_inv cols rows -> rows <> 0 ->
  pdf_shape_ok m k cols = true /\ rows = pdf_rows_or0 m k cols.
Proof. intros [[_ H]|H] Hn; [contradiction | exact H]. Qed.

Lemma pdf_dim_shape_rows c : pdf_shape_ok m k c = true -> pdf_rows_or0 m k c <> 0.
Proof.
  intros H. apply pdf_shape_ok_spec in H; [|lia|lia].
  pose proof pdf_tab_limits. lia.
Qed.

(* the loop: total, keeps the invariant, never un-chooses *)
Lemma pdf_dim_loop_inv n : forall c ratio cols rows,
  pdf_min_cols <= c -> c + Z.of_nat n <= pdf_max_cols + 1 -> pdf_dim_inv cols rows ->
  exists ratio' cols' rows',
    pdf_dim_loop n c m k ratio cols rows = Ok (ratio', cols', rows') /\
    pdf_dim_inv cols' rows' /\ (rows <> 0 -> rows' <> 0).
Proof.
  pose proof pdf_tab_limits as L.
  induction n as [|n IH]; intros c ratio cols rows Hc Hn Hinv.
  - exists ratio, cols, rows. split; [reflexivity|]. split; [exact Hinv | auto].
  - cbn [pdf_dim_loop]. rewrite pdf_dim_rows_eq by lia. cbn [obind].
    set (r := pdf_rows_or0 m k c).
    destruct (r <? pdf_min_rows) eqn:E1.
    { exists ratio, cols, rows. split; [reflexivity|]. split; [exact Hinv | auto]. }
    destruct (r >? pdf_max_rows) eqn:E2.
    { apply IH; [lia | lia | exact Hinv]. }
    destruct (negb (rows =? 0) &&
              pdf_rgt (pdf_abs_dev (pdf_fdiv (17 * cols + 69) (rows * pdf_module_height))) (pdf_abs_dev ratio)).
    { apply IH; [lia | lia | exact Hinv]. }
    assert (pdf_shape_ok m k c = true) as Hs
      by (apply pdf_shape_ok_spec; [lia | lia |]; fold r; lia).
    destruct (IH (c + 1) (pdf_fdiv (17 * cols + 69) (rows * pdf_module_height)) c r) as (ra & co & ro & E & I & N);
      [lia | lia | right; split; [exact Hs | reflexivity] |].
    exists ra, co, ro. split; [exact E|]. split; [exact I|].
    intros _. apply N. unfold r. apply pdf_dim_shape_rows. exact Hs.
Qed.

(* more columns never need more rows *)
Lemma pdf_dim_rows_antitone c c' : 0 < c' -> c' <= c -> 1 <= pdf_rows_or0 m k c ->
  pdf_rows_or0 m k c <= pdf_rows_or0 m k c'.
Proof.
  intros Hc' Hle H1.
  destruct (pdf_rows_or0_spec m k c) as [_ B]; [lia..|].
  destruct (pdf_rows_or0_spec m k c') as [_ B']; [lia..|].
  set (r := pdf_rows_or0 m k c) in *. set (r' := pdf_rows_or0 m k c') in *.
  destruct (Z_lt_le_dec r' r) as [Hlt|]; [|assumption]. exfalso.
  assert (c' * r' <= c' * (r - 1)) by (apply Z.mul_le_mono_nonneg_l; lia).
  assert (c' * (r - 1) <= c * (r - 1)) by (apply Z.mul_le_mono_nonneg_r; lia).
  lia.
Qed.

(* nothing chosen yet and a legal column count c0 is still ahead: something is chosen *)
Lemma pdf_dim_loop_complete n : forall c c0 ratio,
  pdf_min_cols <= c -> c + Z.of_nat n <= pdf_max_cols + 1 ->
  c <= c0 < c + Z.of_nat n -> pdf_shape_ok m k c0 = true ->
  exists ratio' cols' rows',
    pdf_dim_loop n c m k ratio 0 0 = Ok (ratio', cols', rows') /\ rows' <> 0.
Proof.
  pose proof pdf_tab_limits as L.
  induction n as [|n IH]; intros c c0 ratio Hc Hn Hc0 Hs0; [lia|].
  apply pdf_shape_ok_spec in Hs0 as Hs0'; [|lia|lia]. destruct Hs0' as [Hcr Hrr].
  assert (pdf_rows_or0 m k c0 <= pdf_rows_or0 m k c) as Hmono
    by (apply pdf_dim_rows_antitone; lia).
  cbn [pdf_dim_loop]. rewrite pdf_dim_rows_eq by lia. cbn [obind].
  set (r := pdf_rows_or0 m k c) in *.
  destruct (r <? pdf_min_rows) eqn:E1; [lia|].
  destruct (r >? pdf_max_rows) eqn:E2.
  { assert (c <> c0) by (intros ->; lia). apply IH with (c0 := c0); [lia | lia | lia | exact Hs0]. }
  change (0 =? 0) with true. cbn [negb andb].
  assert (pdf_shape_ok m k c = true) as Hs
    by (apply pdf_shape_ok_spec; [lia | lia |]; fold r; lia).
  destruct (pdf_dim_loop_inv n (c + 1) (pdf_fdiv (17 * 0 + 69) (0 * pdf_module_height)) c r)
    as (ra & co & ro & E & _ & N); [lia | lia | right; split; [exact Hs | reflexivity] |].
  exists ra, co, ro. split; [exact E|]. apply N. unfold r. apply pdf_dim_shape_rows. exact Hs.
Qed.

(* with two columns at least two rows are needed (eccWords >= 2): the
   `r < minRows` fallback of calcDimensions is dead code on this domain *)
Lemma pdf_dim_min_cols_rows : pdf_min_rows <= pdf_rows_or0 m k pdf_min_cols.
Proof.
  destruct (pdf_rows_or0_spec m k pdf_min_cols) as [_ B]; [lia | lia | vm_compute; reflexivity |].
  revert B. change pdf_min_cols with 2. change pdf_min_rows with 2. lia.
Qed.

(* calcDimensions: total; the result is what the oracle model returns for the
   chosen column count; a shape is chosen iff the codewords fit *)
Lemma pdf_calc_dimensions_auto_spec :
  exists cols rows,
    pdf_calc_dimensions_auto m k = Ok (cols, rows) /\
    pdf_calc_dimensions cols m k = Ok (cols, rows) /\
    ((m + 1 + k <= pdf_max_rows * pdf_max_cols /\
      pdf_shape_ok m k cols = true /\ rows = pdf_rows_or0 m k cols) \/
     (pdf_max_rows * pdf_max_cols < m + 1 + k /\ cols = 0 /\ rows = 0)).
Proof.
  pose proof pdf_tab_limits as L. unfold pdf_calc_dimensions_auto.
  set (n := Z.to_nat (pdf_max_cols - pdf_min_cols + 1)).
  destruct (pdf_dim_loop_inv n pdf_min_cols (RFrac 0 1) 0 0) as (ra & cols & rows & E & I & _);
    [lia | unfold n; lia | left; auto |].
  pose proof (pdf_fits_spec m k Hm Hk) as Hfit.
  rewrite E. cbn [obind]. destruct (rows =? 0) eqn:Er.
  - (* nothing chosen *)
    assert (rows = 0) as -> by lia.
    assert (cols = 0) as ->.
    { destruct I as [[? _]|[Hs Hr]]; [assumption|]. exfalso. apply (pdf_dim_shape_rows cols Hs). auto. }
    rewrite pdf_dim_rows_eq by lia. cbn [obind].
    pose proof pdf_dim_min_cols_rows as H2.
    replace (pdf_rows_or0 m k pdf_min_cols <? pdf_min_rows) with false by lia.
    exists 0, 0. split; [reflexivity|]. split.
    + unfold pdf_calc_dimensions.
      replace (pdf_shape_ok m k 0) with false
        by (unfold pdf_shape_ok; change (0 =? 0) with true; rewrite !andb_false_r; reflexivity).
      fold (pdf_calculate_number_of_rows m k pdf_min_cols).
      rewrite pdf_dim_rows_eq by lia. cbn [obind].
      replace (pdf_rows_or0 m k pdf_min_cols <? pdf_min_rows) with false by lia. reflexivity.
    + right. split; [|auto].
      destruct (Z_lt_le_dec (pdf_max_rows * pdf_max_cols) (m + 1 + k)) as [|Hle]; [assumption|]. exfalso.
      apply Hfit in Hle. unfold pdf_fits in Hle. apply existsb_exists in Hle as (c0 & Hin & Hs0).
      apply pdf_range_In in Hin.
      destruct (pdf_dim_loop_complete n pdf_min_cols c0 (RFrac 0 1)) as (ra' & co' & ro' & E' & N);
        [lia | unfold n; lia | unfold n; lia | exact Hs0 |].
      rewrite E in E'. inversion E'; subst. contradiction.
  - (* a column count was chosen *)
    destruct (pdf_dim_inv_nonzero cols rows I ltac:(lia)) as [Hs Hr].
    exists cols, rows. split; [reflexivity|]. split.
    + unfold pdf_calc_dimensions. rewrite Hs.
      apply pdf_shape_ok_spec in Hs; [|lia|lia].
      fold (pdf_calculate_number_of_rows m k cols).
      rewrite pdf_dim_rows_eq by lia. cbn [obind]. subst rows. reflexivity.
    + left. split; [|auto]. apply Hfit. unfold pdf_fits. apply existsb_exists.
      exists cols. split; [|exact Hs].
      apply pdf_shape_ok_spec in Hs; [|lia|lia]. apply pdf_range_In. lia.
Qed.

End Dim.

(* ================= (a) + (b): what calcDimensions + the size test guarantee ================= *)

(* For every number of data codewords and every number of check words >= 2 (the
   levels give 2,4,...,512) calcDimensions returns (never panics), and
   - if dataWords + 1 + eccWords <= 900 the size test of EncodeWithColor accepts
     the result: 2 <= cols <= 30, 2 <= rows <= 30, and rows is the minimal row
     count for cols: cols*(rows-1) < dataWords+1+eccWords <= cols*rows (fewer pad
     codewords than columns), at most 900 <= 928 codewords in the symbol;
   - otherwise the result is (0,0), which the size test rejects ("Unable to fit
     data in barcode").  There is no other limit on the number of data codewords
     in the code: the guard is dataWords <= 899 - eccWords (897 at level 0, 387
     at level 8). *)
Theorem pdf_dim_choice m k : 0 <= m -> 2 <= k ->
  exists cols rows, pdf_calc_dimensions_auto m k = Ok (cols, rows) /\
    ((m + 1 + k <= 900 /\
      2 <= cols <= 30 /\ 2 <= rows <= 30 /\
      cols * (rows - 1) < m + 1 + k <= cols * rows /\
      0 <= cols * rows - (m + 1 + k) < cols /\ cols * rows <= 900) \/
     (900 < m + 1 + k /\ cols = 0 /\ rows = 0)).
Proof.
  intros Hm Hk. destruct (pdf_calc_dimensions_auto_spec m k Hm Hk) as (cols & rows & E & _ & H).
  exists cols, rows. split; [exact E|]. pose proof pdf_tab_limits as L.
  revert H L. change pdf_max_rows with 30. change pdf_max_cols with 30.
  change pdf_min_rows with 2. change pdf_min_cols with 2. change (30 * 30) with 900. intros H L.
  destruct H as [(Hfit & Hs & Hr)|H]; [left | right; exact H].
  apply pdf_shape_ok_spec in Hs; [|lia|lia].
  revert Hs. change pdf_max_rows with 30. change pdf_max_cols with 30.
  change pdf_min_rows with 2. change pdf_min_cols with 2. intros [Hc Hrr].
  destruct (pdf_rows_or0_spec m k cols) as [_ B]; [lia..|]. rewrite <- Hr in *.
  split; [exact Hfit|]. split; [exact Hc|]. split; [exact Hrr|]. split; [exact B|].
  split; [|nia].
  replace (cols * (rows - 1)) with (cols * rows - cols) in B by ring. lia.
Qed.

(* the size test of EncodeWithColor as a boolean *)
Definition pdf_size_test_rejects (cols rows : Z) : bool :=
  (cols <? pdf_min_cols) || (cols >? pdf_max_cols) || (rows <? pdf_min_rows) || (rows >? pdf_max_rows).

(* (a)+(b) in the form "if the size test accepts then ..." *)
Theorem pdf_dim_accepted m k cols rows : 0 <= m -> 2 <= k ->
  pdf_calc_dimensions_auto m k = Ok (cols, rows) ->
  pdf_size_test_rejects cols rows = false ->
  2 <= cols <= 30 /\ 2 <= rows <= 30 /\
  cols * (rows - 1) < m + 1 + k <= cols * rows /\
  0 <= cols * rows - (m + 1 + k) < cols /\
  m + 1 + k <= 900 /\ cols * rows <= 900.
Proof.
  intros Hm Hk E Hacc. destruct (pdf_dim_choice m k Hm Hk) as (c & r & E' & H).
  rewrite E in E'. inversion E'; subst c r.
  destruct H as [H|(_ & -> & ->)]; [|vm_compute in Hacc; discriminate]. tauto.
Qed.

(* ================= (c): the encoder with calcDimensions inside ================= *)

(* EncodeWithColor with the modelled calcDimensions is the per-column-count
   model at the chosen column count *)
Theorem pdf_encode_go_auto data level : 0 <= level <= 255 ->
  pdf_encode_go data level = pdf_encode_auto data level.
Proof.
  intros Hl. unfold pdf_encode_go, pdf_encode_auto, pdf_encode, pdf_auto_cols.
  destruct (level >=? 9) eqn:E9; [reflexivity|].
  destruct (pdf_highlevel data) as [dw| | |]; cbn [obind]; try reflexivity.
  pose proof (pdf_ec_count_range level ltac:(lia)) as Hk.
  destruct (pdf_calc_dimensions_auto_spec (zlength dw) (pdf_ec_count level) (zlength_nonneg dw) ltac:(lia))
    as (cols & rows & E & Eo & _).
  rewrite E, Eo. reflexivity.
Qed.

(* the corollary: the main theorem of C04 at the chosen shape *)
Theorem pdf_c04_roundtrip_auto data level bc :
  pdf_bytes data -> 0 <= level <= 255 ->
  pdf_encode_auto data level = Ok bc ->
  pdf_valid (bc_rows bc) = true /\ pdf_decode (bc_rows bc) = Some data.
Proof. intros Hb Hl He. exact (pdf_c04_roundtrip data level _ bc Hb Hl He). Qed.

Theorem pdf_c04_roundtrip_go data level bc :
  pdf_bytes data -> 0 <= level <= 255 ->
  pdf_encode_go data level = Ok bc ->
  pdf_valid (bc_rows bc) = true /\ pdf_decode (bc_rows bc) = Some data.
Proof. intros Hb Hl He. rewrite pdf_encode_go_auto in He by exact Hl. exact (pdf_c04_roundtrip_auto data level bc Hb Hl He). Qed.

(* accept/reject with calcDimensions inside (C10 at the chosen shape): never a
   panic; a symbol exactly when level <= 8 and the codewords fit 30 x 30 *)
Theorem pdf_encode_go_accepts data level : pdf_bytes data -> 0 <= level <= 255 ->
  pdf_encode_go data level <> Panic /\ pdf_encode_go data level <> OutOfFuel /\
  exists dw, pdf_highlevel data = Ok dw /\
    ((exists bc, pdf_encode_go data level = Ok bc) <->
     (level <= 8 /\ zlength dw + 1 + pdf_ec_count level <= 900)) /\
    (pdf_encode_go data level = Err <->
     ~ (level <= 8 /\ zlength dw + 1 + pdf_ec_count level <= 900)).
Proof.
  intros Hb Hl. rewrite pdf_encode_go_auto by exact Hl. unfold pdf_encode_auto.
  destruct (pdf_c10 data level (pdf_auto_cols data level) Hb Hl) as (N1 & N2 & dw & Ehl & Hok & Herr & _).
  split; [exact N1|]. split; [exact N2|]. exists dw. split; [exact Ehl|].
  assert (level <= 8 ->
          (pdf_shape_ok (zlength dw) (pdf_ec_count level) (pdf_auto_cols data level) = true <->
           zlength dw + 1 + pdf_ec_count level <= 900)) as Hiff.
  { intros H8. pose proof (pdf_ec_count_range level ltac:(lia)) as Hk.
    destruct (pdf_calc_dimensions_auto_spec (zlength dw) (pdf_ec_count level) (zlength_nonneg dw) ltac:(lia))
      as (cols & rows & E & _ & H).
    unfold pdf_auto_cols. rewrite Ehl, E.
    revert H. change pdf_max_rows with 30. change pdf_max_cols with 30. change (30 * 30) with 900.
    intros [(Hfit & Hs & _)|(Hno & -> & _)].
    - split; auto.
    - split; [|lia]. unfold pdf_shape_ok. change (0 =? 0) with true.
      rewrite !andb_false_r. discriminate. }
  split.
  - rewrite Hok. split; intros [H8 H]; (split; [exact H8|]); apply (Hiff H8); exact H.
  - rewrite Herr. split; intros H [H8 H']; apply H; (split; [exact H8|]); apply (Hiff H8); exact H'.
Qed.

(* the symbol has exactly the shape calcDimensions chose (C11/C13 at the chosen
   shape): bounds, and the reference reader sees cols x rows with rows minimal *)
Theorem pdf_encode_go_shape data level bc :
  pdf_bytes data -> 0 <= level <= 255 -> pdf_encode_go data level = Ok bc ->
  exists dw cols rows sym,
    pdf_highlevel data = Ok dw /\
    pdf_calc_dimensions_auto (zlength dw) (pdf_ec_count level) = Ok (cols, rows) /\
    bc_width bc = 17 * (cols + 4) + 1 /\ bc_height bc = rows * pdf_module_height /\
    pdfs_read (bc_rows bc) = Some sym /\ ps_cols sym = cols /\ ps_rows sym = rows /\
    2 <= cols <= 30 /\ 2 <= rows <= 30 /\
    cols * (rows - 1) < zlength dw + 1 + 2 ^ (level + 1) <= cols * rows /\
    let pads := hd 0 (ps_codewords sym) - 1 - zlength dw in
    0 <= pads < cols /\ zlength (ps_codewords sym) = rows * cols.
Proof.
  intros Hb Hl He. rewrite pdf_encode_go_auto in He by exact Hl. unfold pdf_encode_auto in He.
  destruct (pdf_c11 data level _ bc Hb Hl He) as (dw & Ehl & H11). cbv zeta in H11.
  destruct H11 as (_ & _ & _ & _ & Hw & Hh & _).
  destruct (pdf_c13 data level _ bc Hb Hl He) as (dw' & sym & Ehl' & Hrd & H13). cbv zeta in H13.
  assert (dw' = dw) as -> by congruence.
  destruct H13 as (Hp & _ & Hcols & Hmin & Hc & Hr & Hlen & _).
  assert (level <= 8) as H8.
  { destruct (pdf_c10 data level (pdf_auto_cols data level) Hb Hl) as (_ & _ & dw2 & _ & Hok & _). apply Hok. eauto. }
  pose proof (pdf_ec_count_range level ltac:(lia)) as Hk.
  pose proof (zlength_nonneg dw) as Hm.
  destruct (pdf_calc_dimensions_auto_spec (zlength dw) (pdf_ec_count level) Hm ltac:(lia))
    as (cols & rows & E & _ & H).
  assert (pdf_auto_cols data level = cols) as Ec by (unfold pdf_auto_cols; rewrite Ehl, E; reflexivity).
  rewrite Ec in *.
  destruct H as [(_ & Hs & Hrows)|(_ & -> & _)]; [|lia].
  destruct (pdf_rows_or0_spec (zlength dw) (pdf_ec_count level) cols) as [_ B]; [lia..|].
  rewrite <- Hrows in B. rewrite pdf_ec_count_pow in B by lia.
  assert (ps_rows sym = rows) as Er by (rewrite Hcols in *; nia).
  exists dw, cols, rows, sym. rewrite <- Hrows in Hh. rewrite Hcols, Er in *.
  split; [exact Ehl|]. split; [exact E|]. split; [exact Hw|]. split; [exact Hh|].
  split; [exact Hrd|]. split; [reflexivity|]. split; [reflexivity|].
  split; [exact Hc|]. split; [exact Hr|]. split; [exact Hmin|].
  cbv zeta. split; [exact Hp | exact Hlen].
Qed.

(* the model of calcDimensions evaluated in the kernel: 10 data codewords at
   level 1 give 3 columns x 5 rows; 897 data codewords at level 0 fill 30 x 30;
   898 do not fit *)
Lemma pdf_dim_examples :
  pdf_calc_dimensions_auto 10 4 = Ok (3, 5) /\
  pdf_calc_dimensions_auto 897 2 = Ok (30, 30) /\
  pdf_calc_dimensions_auto 898 2 = Ok (0, 0).
Proof. vm_compute. auto. Qed.
