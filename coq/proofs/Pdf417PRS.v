(* PDF417 layer 2a: errorcorrection.go Compute.  The shift-register loop keeps the
   remainder of data(x)*x^k modulo the generator g, and returns its negation, so the
   transmitted codeword polynomial (data followed by the check words) vanishes at
   every root of g, i.e. at 3^1 .. 3^k (mod 929).  Proved by an invariant AT THE
   ROOTS (no polynomial algebra): for g(a) = 0,  E(step ec v)(a) = a*E(ec)(a) + v*a^k. *)
From Coq Require Import Zdiv Morphisms Setoid.
From Verif Require Import Prelude Barcode TabPdf417 Pdf417M Pdf417Spec Pdf417PTab Pdf417PRow.

Local Notation "x == y" := (eqm 929 x y) (at level 70).

#[local] Instance pdf_eqm_equiv : Equivalence (eqm 929) := eqm_setoid 929.
#[local] Instance pdf_eqm_add : Proper (eqm 929 ==> eqm 929 ==> eqm 929) Z.add := Zplus_eqm 929.
#[local] Instance pdf_eqm_sub : Proper (eqm 929 ==> eqm 929 ==> eqm 929) Z.sub := Zminus_eqm 929.
#[local] Instance pdf_eqm_mul : Proper (eqm 929 ==> eqm 929 ==> eqm 929) Z.mul := Zmult_eqm 929.
#[local] Instance pdf_eqm_opp : Proper (eqm 929 ==> eqm 929) Z.opp := Zopp_eqm 929.

Lemma pdf_mod_eqm a : a mod 929 == a.
Proof. apply Zmod_eqm. Qed.

Lemma pdf_eqm_plus929 u v : u = v + 929 -> u == v.
Proof. intros ->. unfold eqm. replace (v + 929) with (v + 1 * 929) by ring. apply Z_mod_plus_full. Qed.

(* integer Horner evaluation, first element = highest power *)
Definition hz (l : list Z) (a acc : Z) : Z := fold_left (fun x c => x * a + c) l acc.

Lemma hz_app l1 l2 a acc : hz (l1 ++ l2) a acc = hz l2 a (hz l1 a acc).
Proof. apply fold_left_app. Qed.

Lemma hz_acc l a acc : hz l a acc = acc * a ^ zlength l + hz l a 0.
Proof.
  revert acc; induction l as [|c l IH]; intros acc.
  - simpl. change (zlength (@nil Z)) with 0. ring.
  - change (hz (c :: l) a acc) with (hz l a (acc * a + c)).
    change (hz (c :: l) a 0) with (hz l a (0 * a + c)).
    rewrite (IH (acc * a + c)), (IH (0 * a + c)).
    replace (zlength (c :: l)) with (zlength l + 1) by (unfold zlength; simpl length; lia).
    rewrite Z.pow_add_r by (unfold zlength; lia). ring.
Qed.

Lemma hz_eqm l a x y : x == y -> hz l a x == hz l a y.
Proof.
  revert x y; induction l as [|c l IH]; intros x y H; simpl; [exact H|].
  apply IH. rewrite H. reflexivity.
Qed.

(* the modular Horner evaluation of the spec agrees with the integer one *)
Lemma pdf_fold_eval_eqm l a x :
  fold_left (fun acc c => (acc * a + c) mod 929) l x == hz l a x.
Proof.
  revert x; induction l as [|c l IH]; intros x; simpl; [reflexivity|].
  rewrite IH. apply hz_eqm. apply pdf_mod_eqm.
Qed.

Lemma pdf_fold_eval_reduced l a :
  (fold_left (fun acc c => (acc * a + c) mod 929) l 0) mod 929 =
  fold_left (fun acc c => (acc * a + c) mod 929) l 0.
Proof.
  destruct l as [|c l] using rev_ind; [reflexivity|].
  rewrite fold_left_app. simpl. apply Z.mod_mod. lia.
Qed.

Lemma pdfs_poly_eval_zero cws a : hz cws a 0 == 0 -> pdfs_poly_eval cws a = 0.
Proof.
  intros H. unfold pdfs_poly_eval. rewrite <- pdf_fold_eval_reduced.
  pose proof (pdf_fold_eval_eqm cws a 0) as E. rewrite H in E. exact E.
Qed.

(* ---------- the inner loop ---------- *)
Definition in929 (x : Z) : Prop := 0 <= x < 929.

Lemma pdf_ec_inner_spec temp a : 0 <= temp ->
  forall adds fr x x' y,
  length adds = length fr -> Forall in929 adds -> Forall in929 fr ->
  x' == x - temp * y ->
  hz (pdf_ec_inner temp adds fr) a x' == hz adds a x - temp * hz fr a y /\
  Forall in929 (pdf_ec_inner temp adds fr) /\
  length (pdf_ec_inner temp adds fr) = length adds.
Proof.
  intros Ht. induction adds as [|ad adds IH]; intros fr x x' y Hlen Ha Hf Hx;
    destruct fr as [|f fr]; simpl in Hlen; try discriminate.
  - simpl. auto.
  - inversion Ha as [|? ? Ha1 Ha2]; subst. inversion Hf as [|? ? Hf1 Hf2]; subst.
    unfold in929 in Ha1, Hf1.
    assert (go_mod (temp * f) 929 = (temp * f) mod 929) as E1
      by (apply pdf_go_mod_nonneg; nia).
    assert (0 <= (temp * f) mod 929 < 929) as B1 by (apply Z.mod_pos_bound; lia).
    assert (go_mod (ad + 929 - go_mod (temp * f) 929) 929 = (ad + 929 - (temp * f) mod 929) mod 929) as E2
      by (rewrite E1; apply pdf_go_mod_nonneg; lia).
    cbn [pdf_ec_inner]. rewrite E2.
    change (hz (?c :: ?l) a ?acc) with (hz l a (acc * a + c)).
    destruct (IH fr (x * a + ad) (x' * a + (ad + 929 - (temp * f) mod 929) mod 929) (y * a + f))
      as (H1 & H2 & H3); [lia | assumption | assumption | |].
    + rewrite pdf_mod_eqm. rewrite pdf_mod_eqm. rewrite Hx.
      apply pdf_eqm_plus929. ring.
    + split; [exact H1|]. split.
      * constructor; [unfold in929; apply Z.mod_pos_bound; lia | exact H2].
      * simpl. rewrite H3. reflexivity.
Qed.

(* ---------- one data codeword ---------- *)

(* f = factors (f_i the coefficient of x^i), a a root of g = x^k + sum f_i x^i *)
Lemma pdf_ec_step_spec f a ec v :
  Forall in929 f -> Forall in929 ec -> length ec = length f -> (0 < length f)%nat ->
  0 <= v -> hz (rev f) a 1 == 0 ->
  hz (pdf_ec_step (rev f) ec v) a 0 == a * hz ec a 0 + v * a ^ zlength f /\
  Forall in929 (pdf_ec_step (rev f) ec v) /\
  length (pdf_ec_step (rev f) ec v) = length f.
Proof.
  intros Hf Hec Hlen Hk Hv Hroot.
  destruct ec as [|e0 ec']; [simpl in Hlen; lia|].
  inversion Hec as [|? ? He0 Hec']; subst. unfold in929 in He0.
  unfold pdf_ec_step. cbn [hd tl].
  assert (go_mod (v + e0) 929 = (v + e0) mod 929) as Et by (apply pdf_go_mod_nonneg; lia).
  rewrite Et. set (temp := (v + e0) mod 929).
  assert (0 <= temp < 929) as Bt by (apply Z.mod_pos_bound; lia).
  destruct (pdf_ec_inner_spec temp a ltac:(lia) (ec' ++ [0]) (rev f) 0 0 0) as (H1 & H2 & H3).
  - rewrite app_length, rev_length. simpl in *. lia.
  - apply Forall_app. split; [exact Hec'|]. constructor; [unfold in929; lia | constructor].
  - apply Forall_rev. exact Hf.
  - replace (0 - temp * 0) with 0 by ring. reflexivity.
  - split; [|split; [exact H2|]].
    + rewrite H1. rewrite hz_app. change (hz [0] a (hz ec' a 0)) with (hz ec' a 0 * a + 0).
      (* hz (rev f) a 0 == - a^k *)
      assert (hz (rev f) a 0 == - a ^ zlength f) as Hg.
      { pose proof (hz_acc (rev f) a 1) as E. rewrite E in Hroot.
        replace (zlength (rev f)) with (zlength f) in Hroot by (unfold zlength; rewrite rev_length; reflexivity).
        transitivity (1 * a ^ zlength f + hz (rev f) a 0 - a ^ zlength f); [|rewrite Hroot; reflexivity].
        replace (1 * a ^ zlength f + hz (rev f) a 0 - a ^ zlength f) with (hz (rev f) a 0) by ring. reflexivity. }
      rewrite Hg.
      change (hz (e0 :: ec') a 0) with (hz ec' a (0 * a + e0)).
      rewrite (hz_acc ec' a (0 * a + e0)).
      assert (zlength f = zlength ec' + 1) as Hl by (unfold zlength; simpl in Hlen; lia).
      rewrite Hl. rewrite Z.pow_add_r by (unfold zlength; lia).
      unfold temp. rewrite pdf_mod_eqm.
      replace (hz ec' a 0 * a + 0 - (v + e0) * - (a ^ zlength ec' * a ^ 1))
        with (a * ((0 * a + e0) * a ^ zlength ec' + hz ec' a 0) + v * (a ^ zlength ec' * a ^ 1)) by ring.
      reflexivity.
    + rewrite H3, app_length. simpl in *. lia.
Qed.

(* ---------- the whole loop ---------- *)
Lemma pdf_ec_fold_spec f a : Forall in929 f -> (0 < length f)%nat -> hz (rev f) a 1 == 0 ->
  forall data ec p,
  Forall (fun v => 0 <= v) data -> Forall in929 ec -> length ec = length f ->
  hz ec a 0 == p * a ^ zlength f ->
  let ec' := fold_left (pdf_ec_step (rev f)) data ec in
  hz ec' a 0 == hz data a p * a ^ zlength f /\ Forall in929 ec' /\ length ec' = length f.
Proof.
  intros Hf Hk Hroot. induction data as [|v data IH]; intros ec p Hd Hec Hlen Hinv; cbn zeta.
  - simpl. auto.
  - inversion Hd as [|? ? Hv Hd']; subst.
    destruct (pdf_ec_step_spec f a ec v Hf Hec Hlen Hk Hv Hroot) as (S1 & S2 & S3).
    cbn [fold_left]. change (hz (v :: data) a p) with (hz data a (p * a + v)).
    apply IH; auto.
    rewrite S1, Hinv. replace (a * (p * a ^ zlength f) + v * a ^ zlength f) with ((p * a + v) * a ^ zlength f) by ring.
    reflexivity.
Qed.

Lemma hz_zeros n a : hz (repeat 0 n) a 0 = 0.
Proof. induction n as [|n IH]; simpl; [reflexivity|]. exact IH. Qed.

(* version with the range hypothesis *)
Lemma hz_neg_map l a x y : Forall in929 l -> x == - y ->
  hz (map (fun w => if w >? 0 then 929 - w else w) l) a x == - hz l a y.
Proof.
  revert x y; induction l as [|c l IH]; intros x y Hr H; [exact H|].
  inversion Hr as [|? ? Hc Hr']; subst. unfold in929 in Hc.
  cbn [map]. change (hz (?c :: ?l) a ?acc) with (hz l a (acc * a + c)).
  apply IH; [exact Hr'|]. destruct (c >? 0) eqn:E.
  - rewrite H. apply pdf_eqm_plus929. ring.
  - assert (c = 0) as -> by lia. rewrite H.
    replace (- y * a + 0) with (- (y * a + 0)) by ring. reflexivity.
Qed.

Lemma pdf_neg_map_range l : Forall in929 l ->
  Forall in929 (map (fun w => if w >? 0 then 929 - w else w) l).
Proof.
  induction 1 as [|c l Hc Hl IH]; cbn [map]; constructor; [|exact IH].
  unfold in929 in *. destruct (c >? 0) eqn:E; lia.
Qed.

(* factors of a level, from the kernel-checked table facts *)
Lemma pdf_factors_facts l : 0 <= l <= 8 ->
  exists f, zget pdf_correction_factors l = Some f /\ zlength f = pdf_ec_count l /\
            pdf_roots_b (Z.to_nat (pdf_ec_count l)) 3 f = true /\ Forall in929 f.
Proof.
  intros Hl. pose proof (pdf_tab_level_roots l Hl) as H. unfold pdf_level_roots_b in H.
  destruct (zget pdf_correction_factors l) as [f|]; [|discriminate].
  exists f. apply andb_prop in H as [H H3]. apply andb_prop in H as [H1 H2].
  split; [reflexivity|]. split; [lia|]. split; [exact H2|].
  apply Forall_forall. intros x Hx. rewrite forallb_forall in H3. specialize (H3 x Hx).
  unfold in929. lia.
Qed.

(* roots_b -> every checked point is a root -> the syndrome there vanishes *)
Lemma pdf_roots_syndromes f cws :
  (forall a, pdf_g_eval f a = 0 -> pdfs_poly_eval cws a = 0) ->
  forall n a, pdf_roots_b n a f = true -> pdfs_syndromes_zero n a cws = true.
Proof.
  intros H. induction n as [|n IH]; intros a Hr; simpl in *; [reflexivity|].
  apply andb_prop in Hr as [H1 H2]. apply andb_true_intro. split.
  - apply Z.eqb_eq. apply H. lia.
  - apply IH. exact H2.
Qed.

(* ---------- Compute ---------- *)

(* For every level 0..8 and every list of codeword values: Compute returns
   2^(level+1) check words in 0..928 and the transmitted sequence data ++ check
   words has zero syndromes at 3^1 .. 3^k. *)
Theorem pdf_compute_valid level data :
  0 <= level <= 8 -> Forall (fun v => 0 <= v) data ->
  exists ec, pdf_compute level data = Ok ec /\
             zlength ec = pdf_ec_count level /\ Forall in929 ec /\
             pdfs_syndromes_zero (Z.to_nat (pdf_ec_count level)) 3 (data ++ ec) = true.
Proof.
  intros Hl Hd. destruct (pdf_factors_facts level Hl) as (f & Hz & Hlen & Hroots & Hf).
  pose proof (pdf_ec_count_range level Hl) as Hk.
  unfold pdf_compute. rewrite Hz.
  replace (zlength f <? pdf_ec_count level) with false by lia. cbn [andb].
  assert (firstn (Z.to_nat (pdf_ec_count level)) f = f) as Efn.
  { apply firstn_all2. unfold zlength in Hlen. lia. }
  rewrite Efn.
  set (k := pdf_ec_count level) in *.
  assert (length f = Z.to_nat k) as Hlf by (unfold zlength in Hlen; lia).
  assert (0 < length f)%nat as Hpos by lia.
  set (ec0 := fold_left (pdf_ec_step (rev f)) data (repeat 0 (Z.to_nat k))).
  eexists. split; [reflexivity|].
  (* range and length, independent of the root *)
  assert (Forall in929 ec0 /\ length ec0 = length f) as [Hr0 Hl0].
  { (* use the fold lemma with a = 0; the root hypothesis is only needed for the
       congruence, so establish range/length by a direct induction instead *)
    clear Hroots. unfold ec0.
    assert (Forall in929 (repeat 0 (Z.to_nat k)) /\ length (repeat 0 (Z.to_nat k)) = length f) as Hinit.
    { split; [apply Forall_forall; intros x Hx; apply repeat_spec in Hx; subst; unfold in929; lia
             | rewrite repeat_length; lia]. }
    revert Hinit. generalize (repeat 0 (Z.to_nat k)) as ec. clear ec0.
    induction data as [|v data IH]; intros ec [H1 H2]; cbn [fold_left]; [auto|].
    inversion Hd as [|? ? Hv Hd']; subst.
    apply IH; [exact Hd'|].
    (* range/length of a step do not depend on the root: re-prove from the inner lemma *)
    destruct ec as [|e0 ec']; [simpl in H2; lia|].
    inversion H1 as [|? ? He0 Hec']; subst. unfold in929 in He0.
    unfold pdf_ec_step. cbn [hd tl].
    destruct (pdf_ec_inner_spec (go_mod (v + e0) 929) 0
                ltac:(rewrite pdf_go_mod_nonneg by lia; apply Z.mod_pos_bound; lia)
                (ec' ++ [0]) (rev f) 0 0 0) as (_ & A2 & A3).
    - rewrite app_length, rev_length. simpl in *. lia.
    - apply Forall_app. split; [exact Hec'|]. constructor; [unfold in929; lia | constructor].
    - apply Forall_rev. exact Hf.
    - replace (0 - go_mod (v + e0) 929 * 0) with 0 by ring. reflexivity.
    - split; [exact A2|]. rewrite A3, app_length. simpl in *. lia. }
  split; [|split].
  - unfold zlength. rewrite map_length, Hl0. unfold zlength in Hlen. exact Hlen.
  - apply pdf_neg_map_range. exact Hr0.
  - apply pdf_roots_syndromes with (f := f); [|exact Hroots].
    intros a Ha. apply pdfs_poly_eval_zero.
    assert (hz (rev f) a 1 == 0) as Hroot.
    { unfold pdf_g_eval in Ha. pose proof (pdf_fold_eval_eqm (rev f) a 1) as E.
      rewrite Ha in E. symmetry. exact E. }
    destruct (pdf_ec_fold_spec f a Hf Hpos Hroot data (repeat 0 (Z.to_nat k)) 0 Hd) as (F1 & _ & _).
    + apply Forall_forall; intros x Hx; apply repeat_spec in Hx; subst; unfold in929; lia.
    + rewrite repeat_length; lia.
    + rewrite hz_zeros. reflexivity.
    + fold ec0 in F1. rewrite hz_app.
      rewrite (hz_neg_map ec0 a (hz data a 0) (- hz data a 0)); [| exact Hr0 | ].
      * (* hz ec_out a D == -hz ec0 a (-D) = -( -D a^k + hz ec0 a 0) *)
        rewrite (hz_acc ec0 a (- hz data a 0)).
        replace (zlength ec0) with (zlength f) by (unfold zlength; rewrite Hl0; reflexivity).
        rewrite F1.
        replace (- (- hz data a 0 * a ^ zlength f + hz data a 0 * a ^ zlength f)) with 0 by ring.
        reflexivity.
      * replace (- - hz data a 0) with (hz data a 0) by ring. reflexivity.
Qed.
