(* DataMatrix, layers 1 and 2: finite facts about the 24 generated sizes,
   decided by vm_compute in the kernel:
   - the generated codeSizes rows are the ISO/IEC 16022 Table 7 rows,
   - the Galois field tables of the package's encoder are those of GF(256)/301,
   - the placement computed by the model of SetValues is the Annex F placement,
     no cell is written twice, every codeword is placed,
   - which corner cases / fixed pattern fire for which size. *)
From Coq Require Import FMapPositive.
From Verif Require Import Prelude Barcode GFM TabDataMatrix DataMatrixM DataMatrixSpec
  DataMatrixP1 DataMatrixP2.

Fixpoint forall2b {A B} (f : A -> B -> bool) (la : list A) (lb : list B) : bool :=
  match la, lb with
  | [], [] => true
  | a :: ta, b :: tb => f a b && forall2b f ta tb
  | _, _ => false
  end.

Lemma forall2b_Forall2 {A B} (f : A -> B -> bool) la : forall lb,
  forall2b f la lb = true -> Forall2 (fun a b => f a b = true) la lb.
Proof.
  induction la as [|a la IH]; intros [|b lb] H; cbn [forall2b] in H; try discriminate.
  - constructor.
  - apply andb_prop in H. destruct H. constructor; auto.
Qed.

(* ---------- layer 1: tables ---------- *)
Definition size_matches (s : dmsize) (e : iso_entry) : bool :=
  (sz_rows s =? iso_size e) && (sz_cols s =? iso_size e)
  && (sz_rch s =? iso_k e) && (sz_rcv s =? iso_k e) && (1 <=? iso_k e)
  && (region_rows s =? iso_region e) && (region_cols s =? iso_region e)
  && (matrix_rows s =? iso_map_side e) && (matrix_cols s =? iso_map_side e)
  && (data_codewords s =? iso_data e) && (sz_ecc s =? iso_ecc e)
  && (sz_blocks s =? iso_blocks e).

Theorem dm_tables_iso : forall2b size_matches code_sizes iso_table = true.
Proof. vm_compute. reflexivity. Qed.

Fixpoint ascending (l : list Z) : bool :=
  match l with
  | x :: ((y :: _) as t) => (x <? y) && ascending t
  | _ => true
  end.

Theorem iso_table_ascending :
  ascending (map iso_size iso_table) = true /\ ascending (map iso_data iso_table) = true
  /\ map iso_data iso_table =
     [3; 5; 8; 12; 18; 22; 30; 36; 44; 62; 86; 114; 144; 174; 204; 280; 368; 456; 576; 696;
      816; 1050; 1304; 1558].
Proof. repeat split; vm_compute; reflexivity. Qed.

Theorem dm_code_sizes_capacities :
  map data_codewords code_sizes =
  [3; 5; 8; 12; 18; 22; 30; 36; 44; 62; 86; 114; 144; 174; 204; 280; 368; 456; 576; 696;
   816; 1050; 1304; 1558]
  /\ ascending (map data_codewords code_sizes) = true.
Proof. split; vm_compute; reflexivity. Qed.

(* the tables of the encoder's field (read from the running package) are those
   of GF(256) with primitive polynomial 301 and generator base 1 *)
Theorem dm_gf_tables :
  dm_gf_size = gf_size dm_field /\ dm_gf_base = gf_base dm_field
  /\ dm_gf_alog = map (tget (gf_alog dm_field)) (zseq 0 256)
  /\ dm_gf_log = map (tget (gf_log dm_field)) (zseq 0 256).
Proof. repeat split; vm_compute; reflexivity. Qed.

(* ---------- layer 2: placement ---------- *)
Definition cell_eqb (a b : cell) : bool :=
  match a, b with
  | CConst x, CConst y => Bool.eqb x y
  | CBit i k, CBit j l => (i =? j) && (k =? l)
  | _, _ => false
  end.

Lemma cell_eqb_eq a b : cell_eqb a b = true -> a = b.
Proof.
  destruct a, b; cbn [cell_eqb]; intros H; try discriminate.
  - apply Bool.eqb_prop in H. now subst.
  - apply andb_prop in H. destruct H as [H1 H2].
    apply Z.eqb_eq in H1. apply Z.eqb_eq in H2. now subst.
Qed.

Definition opt_cell_eqb (a b : option cell) : bool :=
  match a, b with
  | Some x, Some y => cell_eqb x y
  | None, None => true
  | _, _ => false
  end.

Lemma opt_cell_eqb_eq a b : opt_cell_eqb a b = true -> a = b.
Proof.
  destruct a, b; cbn [opt_cell_eqb]; intros H; try discriminate; auto.
  f_equal. now apply cell_eqb_eq.
Qed.

(* the Annex F array entry 10*chr+bit (chr from 1, bit 1..8) as the model's
   cell (idx from 0, bitNum 0..7); 1 = dark fixed module; 0 = nothing placed *)
Definition spec_cell (v : Z) : option cell :=
  if v =? 0 then None
  else if v =? 1 then Some (CConst true)
  else Some (CBit (v / 10 - 1) (v mod 10 - 1)).

Fixpoint zlist_eqb (a b : list Z) : bool :=
  match a, b with
  | [], [] => true
  | x :: a', y :: b' => (x =? y) && zlist_eqb a' b'
  | _, _ => false
  end.

Lemma zlist_eqb_eq a : forall b, zlist_eqb a b = true -> a = b.
Proof.
  induction a as [|x a IH]; intros [|y b] H; cbn [zlist_eqb] in H; try discriminate; auto.
  apply andb_prop in H. destruct H as [H1 H2]. apply Z.eqb_eq in H1. subst. f_equal. auto.
Qed.

Definition total_codewords (s : dmsize) : Z := data_codewords s + sz_ecc s.

(* positions of the two light modules of the fixed lower-right pattern *)
Definition fixed_light (mr mc pos : Z) : bool :=
  (pos =? mr * mc - 2) || (pos =? mr * mc - mc - 1).

Definition placement_ok (s : dmsize) : bool :=
  let n := total_codewords s in
  let mr := matrix_rows s in
  let mc := matrix_cols s in
  match set_values s n, ecc200 mr mc with
  | Ok (m, idx, tr), Some (a, placed, fired, fx) =>
    (idx =? n) && (placed =? n) && zlist_eqb tr fired
    && forallb (fun pos =>
         opt_cell_eqb (PositiveMap.find (key pos) m) (spec_cell (aget a pos))
         && (match PositiveMap.find (key pos) m with
             | Some _ => true
             | None => fx && fixed_light mr mc pos
             end))
       (zseq 0 (Z.to_nat (mr * mc)))
  | _, _ => false
  end.

Theorem dm_placement_all : forallb placement_ok code_sizes = true.
Proof. vm_compute. reflexivity. Qed.

(* Prop form.  set_values returning Ok means in particular that the Go code's
   panic("Field already occupied") and every index panic are not reached
   (they are Panic outcomes of the model), i.e. every cell is written at most
   once; the last clause says every cell is written, except the two light
   modules of the fixed pattern where that pattern is used. *)
Theorem dm_placement : forall s, In s code_sizes ->
  exists m a fired fx,
    set_values s (total_codewords s) = Ok (m, total_codewords s, fired)
    /\ ecc200 (matrix_rows s) (matrix_cols s) = Some (a, total_codewords s, fired, fx)
    /\ forall pos, 0 <= pos < matrix_rows s * matrix_cols s ->
         PositiveMap.find (key pos) m = spec_cell (aget a pos)
         /\ (PositiveMap.find (key pos) m = None ->
             fx = true /\ fixed_light (matrix_rows s) (matrix_cols s) pos = true).
Proof.
  intros s Hs. pose proof dm_placement_all as H. rewrite forallb_forall in H.
  specialize (H s Hs). unfold placement_ok in H.
  destruct (set_values s (total_codewords s)) as [[[m idx] tr]| | |]; try discriminate.
  destruct (ecc200 (matrix_rows s) (matrix_cols s)) as [[[[a placed] fired] fx]|]; try discriminate.
  apply andb_prop in H. destruct H as [H Hall].
  apply andb_prop in H. destruct H as [H Htr].
  apply andb_prop in H. destruct H as [Hidx Hpl].
  apply Z.eqb_eq in Hidx. apply Z.eqb_eq in Hpl. apply zlist_eqb_eq in Htr. subst.
  exists m, a, fired, fx. split; [reflexivity|]. split; [reflexivity|].
  intros pos Hpos. rewrite forallb_forall in Hall. specialize (Hall pos).
  rewrite zseq_In in Hall. apply andb_prop in Hall; [|lia].
  destruct Hall as [H1 H2]. apply opt_cell_eqb_eq in H1. split; [exact H1|].
  intros Hn. rewrite Hn in H2. apply andb_prop in H2. exact H2.
Qed.

(* which special cases fire: (symbol size, corner cases in order, fixed pattern) *)
Definition special_cases (s : dmsize) : Z * list Z * bool :=
  match set_values s (total_codewords s) with
  | Ok (m, _, tr) =>
    (sz_rows s, tr,
     match PositiveMap.find (key (matrix_rows s * matrix_cols s - 2)) m with
     | None => true | Some _ => false end)
  | _ => (sz_rows s, [-1], false)
  end.

Theorem dm_special_cases :
  map special_cases code_sizes =
  [ (10, [], false);  (12, [], true);   (14, [1], false); (16, [2], true);
    (18, [], false);  (20, [], true);   (22, [1], false); (24, [2], true);
    (26, [], false);  (32, [1], false); (36, [], false);  (40, [1], false);
    (44, [], false);  (48, [1], false); (52, [], false);  (64, [], false);
    (72, [], false);  (80, [], false);  (88, [], false);  (96, [], false);
    (104, [], false); (120, [1], false); (132, [], false); (144, [1], false) ].
Proof. vm_compute. reflexivity. Qed.
