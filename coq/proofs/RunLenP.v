(* Run-length facts: measuring the runs of a row drawn from alternately coloured
   elements of positive width gives back exactly these elements. *)
From Verif Require Import Prelude RunLenSpec.

Lemma runs_aux_repeat c j : forall k l, runs_aux c k (repeat c j ++ l) = runs_aux c (k + j) l.
Proof.
  induction j as [|j IH]; intros k l; cbn [repeat app].
  - rewrite Nat.add_0_r. reflexivity.
  - cbn [runs_aux]. rewrite Bool.eqb_reflx. rewrite IH. f_equal. lia.
Qed.

Lemma eqb_negb_l c : Bool.eqb (negb c) c = false.
Proof. destruct c; reflexivity. Qed.

Lemma runs_aux_draw_alt ws : Forall (fun w => (0 < w)%nat) ws -> forall c k,
  runs_aux c k (draw_alt (negb c) ws) = (c, k) :: alt (negb c) ws.
Proof.
  induction 1 as [|w ws Hw _ IH]; intros c k; [reflexivity|].
  cbn [draw_alt alt]. destruct w as [|w]; [lia|].
  cbn [repeat app runs_aux]. rewrite eqb_negb_l. f_equal.
  rewrite runs_aux_repeat. rewrite (IH (negb c)). reflexivity.
Qed.

Lemma runs_draw_alt ws c : Forall (fun w => (0 < w)%nat) ws -> runs (draw_alt c ws) = alt c ws.
Proof.
  intros H. destruct H as [|w ws Hw Hws]; [reflexivity|].
  cbn [draw_alt alt]. destruct w as [|w]; [lia|].
  cbn [repeat app runs]. rewrite runs_aux_repeat. rewrite runs_aux_draw_alt by exact Hws.
  reflexivity.
Qed.

Definition flip_if_odd (a : list nat) (c : bool) : bool := if Nat.even (length a) then c else negb c.

Lemma draw_alt_app a : forall c b,
  draw_alt c (a ++ b) = draw_alt c a ++ draw_alt (flip_if_odd a c) b.
Proof.
  unfold flip_if_odd. induction a as [|w a IH]; intros c b; [reflexivity|].
  cbn [app draw_alt length]. rewrite IH, <- app_assoc.
  rewrite Nat.even_succ, <- Nat.negb_even.
  destruct (Nat.even (length a)); cbn [negb]; rewrite ?Bool.negb_involutive; reflexivity.
Qed.

Lemma alt_app a : forall c b,
  alt c (a ++ b) = alt c a ++ alt (flip_if_odd a c) b.
Proof.
  unfold flip_if_odd. induction a as [|w a IH]; intros c b; [reflexivity|].
  cbn [app alt length]. rewrite IH. cbn [app].
  rewrite Nat.even_succ, <- Nat.negb_even.
  destruct (Nat.even (length a)); cbn [negb]; rewrite ?Bool.negb_involutive; reflexivity.
Qed.

Lemma run_eqb_refl r : run_eqb r r = true.
Proof. unfold run_eqb. rewrite Bool.eqb_reflx, Nat.eqb_refl. reflexivity. Qed.

Lemma runs_eqb_refl l : runs_eqb l l = true.
Proof. induction l as [|r l IH]; [reflexivity|]. cbn [runs_eqb]. rewrite run_eqb_refl. exact IH. Qed.

Lemma strip_runs_app p l : strip_runs p (p ++ l) = Some l.
Proof.
  induction p as [|r p IH]; [destruct l; reflexivity|].
  cbn [app strip_runs]. rewrite run_eqb_refl. exact IH.
Qed.
