(* Extraction of the executable models and reference specifications to OCaml.
   Only ExtrOcamlBasic is used: bool, option, list, prod, unit, sumbool map to
   the OCaml types; N, Z, positive, nat stay the extracted inductives.  No
   Extract Constant, no other Extract Inductive. *)
Require Extraction.
Require Import ExtrOcamlBasic.
From Verif Require Import Prelude BitListM.
Extraction "Model.ml" bl_history bl_abs spec_run.
