(* Concurrency models for C16.  No proofs here.

   (i)  N goroutines calling ReedSolomonEncoder.getPolynomial on one shared
        encoder: a small-step interleaving semantics whose thread program is
        BUILT FROM the structural facts the gosync translator extracts from
        /repo's source (gen/TabSync.v): whether getPolynomial starts with
        rs.m.Lock(), defers rs.m.Unlock(), and whether the cache field is touched
        anywhere else.
   (ii) the unbuffered-channel producer/consumer protocol used by
        utils.IterateBytes, qr.stringToAlphaIdx and qr.iterateModules. *)
From Coq Require Import String.
From Verif Require Import Prelude GFM TabSync.
Import List ListNotations.
Notation length := List.length.

(* ---------- structural facts ---------- *)
Record sync_facts := {
  sf_locks_first : bool;
  sf_defers_unlock : bool;
  sf_cache_private : bool;         (* 'polynomes' only mentioned in getPolynomial *)
  sf_no_mutated_globals : bool;    (* no package-level variable assigned outside init *)
  sf_shared_objects : list string; (* globals through which pointer-receiver methods are called *)
  sf_go_statements : list string;
  sf_chan_makes : list string;
  sf_goroutines_close_last : bool
}.

Definition string_list_eqb (a b : list string) : bool :=
  (length a =? length b)%nat && forallb (fun p => String.eqb (fst p) (snd p)) (combine a b).

(* every entry of l is one of the known sites (with multiplicity): code that has FEWER shared objects /
   goroutines / channels than the analysed ones is covered by the same argument; a NEW site is not *)
Fixpoint remove_one (x : string) (k : list string) : option (list string) :=
  match k with
  | [] => None
  | y :: k' => if String.eqb x y then Some k' else option_map (cons y) (remove_one x k')
  end.
Fixpoint multi_incl (l k : list string) : bool :=
  match l with
  | [] => true
  | x :: l' => match remove_one x k with Some k' => multi_incl l' k' | None => false end
  end.

Definition facts_from_source : sync_facts := {|
  sf_locks_first := sync_getpoly_locks_first;
  sf_defers_unlock := sync_getpoly_defers_unlock;
  sf_cache_private := string_list_eqb sync_polynomes_accessed_in ["utils.getPolynomial"%string];
  sf_no_mutated_globals := match sync_globals_mutated with [] => true | _ => false end;
  sf_shared_objects := sync_globals_method_called;
  sf_go_statements := sync_go_statements;
  sf_chan_makes := sync_chan_makes;
  sf_goroutines_close_last := sync_goroutines_close_last
|}.

(* what the proofs need of the facts *)
Definition facts_good (s : sync_facts) : bool :=
  sf_locks_first s && sf_defers_unlock s && sf_cache_private s && sf_no_mutated_globals s
  && multi_incl (sf_shared_objects s) ["datamatrix.ec"; "qr.ec"]%string
  && multi_incl (sf_go_statements s)
       ["qr.iterateModules"; "qr.iterateModules"; "qr.stringToAlphaIdx"; "utils.IterateBytes"]%string
  && multi_incl (sf_chan_makes s)
       ["qr.iterateModules:unbuffered"; "qr.iterateModules:unbuffered";
        "qr.stringToAlphaIdx:unbuffered"; "utils.IterateBytes:unbuffered"]%string
  && sf_goroutines_close_last s.

(* the mutex protocol is in force iff lock/unlock bracket the whole function and
   nobody else touches the cache *)
Definition uses_lock (s : sync_facts) : bool :=
  sf_locks_first s && sf_defers_unlock s && sf_cache_private s.

(* ---------- (i) getPolynomial under interleaving ---------- *)
Inductive pc :=
| PStart            (* before rs.m.Lock() *)
| PExtend           (* inside: test degree >= len, maybe append one generator *)
| PRead             (* inside: read polynomes[degree] *)
| PUnlock (g : poly)  (* result read; deferred Unlock pending *)
| PDone (g : poly).

Record thread := { th_deg : nat; th_pc : pc }.

Record cstate := {
  cs_cache : rs_cache;
  cs_lock : option nat;       (* holder's thread index *)
  cs_threads : list thread
}.

Definition in_critical (p : pc) : bool :=
  match p with PExtend | PRead | PUnlock _ => true | _ => false end.

(* the next step of thread p accesses the shared cache *)
Definition accesses_cache (p : pc) : bool :=
  match p with PExtend | PRead => true | _ => false end.

Definition next_gen (f : gfield) (cache : rs_cache) : poly :=
  poly_mul f (last cache []) (poly_norm [1; tget (gf_alog f) (zlength cache - 1 + gf_base f)]).

Definition set_thread (ts : list thread) (t : nat) (p : pc) : list thread :=
  match nth_error ts t with
  | Some th => set_nth ts t {| th_deg := th_deg th; th_pc := p |}
  | None => ts
  end.

(* one step of thread t; None = not enabled (blocked on the mutex, finished, or no such thread) *)
Definition cstep (f : gfield) (lk : bool) (s : cstate) (t : nat) : option cstate :=
  match nth_error (cs_threads s) t with
  | None => None
  | Some th =>
    match th_pc th with
    | PStart =>
      if lk then
        match cs_lock s with
        | Some _ => None
        | None => Some {| cs_cache := cs_cache s; cs_lock := Some t;
                          cs_threads := set_thread (cs_threads s) t PExtend |}
        end
      else Some {| cs_cache := cs_cache s; cs_lock := cs_lock s;
                   cs_threads := set_thread (cs_threads s) t PExtend |}
    | PExtend =>
      if (length (cs_cache s) <=? th_deg th)%nat then
        Some {| cs_cache := cs_cache s ++ [next_gen f (cs_cache s)]; cs_lock := cs_lock s;
                cs_threads := cs_threads s |}
      else Some {| cs_cache := cs_cache s; cs_lock := cs_lock s;
                   cs_threads := set_thread (cs_threads s) t PRead |}
    | PRead =>
      match nth_error (cs_cache s) (th_deg th) with
      | Some g => Some {| cs_cache := cs_cache s; cs_lock := cs_lock s;
                          cs_threads := set_thread (cs_threads s) t (PUnlock g) |}
      | None => None   (* Go: index out of range panic; shown unreachable *)
      end
    | PUnlock g =>
      Some {| cs_cache := cs_cache s; cs_lock := if lk then None else cs_lock s;
              cs_threads := set_thread (cs_threads s) t (PDone g) |}
    | PDone _ => None
    end
  end.

(* run a schedule (a list of thread indices); steps of non-enabled threads are skipped *)
Fixpoint crun (f : gfield) (lk : bool) (s : cstate) (sched : list nat) : cstate :=
  match sched with
  | [] => s
  | t :: rest =>
    match cstep f lk s t with
    | Some s' => crun f lk s' rest
    | None => crun f lk s rest
    end
  end.

Definition cinit (cache : rs_cache) (degs : list nat) : cstate :=
  {| cs_cache := cache; cs_lock := None;
     cs_threads := map (fun d => {| th_deg := d; th_pc := PStart |}) degs |}.

Definition all_done (s : cstate) : bool :=
  forallb (fun th => match th_pc th with PDone _ => true | _ => false end) (cs_threads s).

(* ---------- (ii) unbuffered channel: one producer, one consumer ---------- *)
(* producer: sends the values of a list one by one, then closes the channel *)
Inductive consumer :=
| CRecv (k : nat)     (* performs exactly k more receives, then stops *)
| CRange.             (* for v := range ch : receives until the channel is closed *)

Record chstate := {
  ch_tosend : list Z;       (* values the producer still has to send *)
  ch_closed : bool;         (* producer executed close(ch) and returned *)
  ch_cons : consumer;
  ch_cons_done : bool;
  ch_received : list Z      (* values the consumer received so far, newest first *)
}.

(* one synchronisation step; None = nobody can move *)
Definition chstep (s : chstate) : option chstate :=
  if ch_cons_done s then
    (* consumer gone: the producer can only close if it has nothing left to send *)
    match ch_tosend s, ch_closed s with
    | [], false => Some {| ch_tosend := []; ch_closed := true; ch_cons := ch_cons s;
                           ch_cons_done := true; ch_received := ch_received s |}
    | _, _ => None     (* blocked forever on a send (goroutine leak) or finished *)
    end
  else
    match ch_cons s with
    | CRecv O => Some {| ch_tosend := ch_tosend s; ch_closed := ch_closed s; ch_cons := CRecv O;
                         ch_cons_done := true; ch_received := ch_received s |}
    | CRecv (S k) =>
      match ch_tosend s with
      | v :: rest => Some {| ch_tosend := rest; ch_closed := ch_closed s; ch_cons := CRecv k;
                             ch_cons_done := false; ch_received := v :: ch_received s |}
      | [] =>
        if ch_closed s
        then (* receive from a closed channel yields the zero value at once *)
             Some {| ch_tosend := []; ch_closed := true; ch_cons := CRecv k;
                     ch_cons_done := false; ch_received := 0 :: ch_received s |}
        else Some {| ch_tosend := []; ch_closed := true; ch_cons := CRecv (S k);
                     ch_cons_done := false; ch_received := ch_received s |}
      end
    | CRange =>
      match ch_tosend s with
      | v :: rest => Some {| ch_tosend := rest; ch_closed := ch_closed s; ch_cons := CRange;
                             ch_cons_done := false; ch_received := v :: ch_received s |}
      | [] =>
        if ch_closed s
        then Some {| ch_tosend := []; ch_closed := true; ch_cons := CRange;
                     ch_cons_done := true; ch_received := ch_received s |}
        else Some {| ch_tosend := []; ch_closed := true; ch_cons := CRange;
                     ch_cons_done := false; ch_received := ch_received s |}
      end
    end.

Fixpoint chrun (fuel : nat) (s : chstate) : chstate :=
  match fuel with
  | O => s
  | S n => match chstep s with Some s' => chrun n s' | None => s end
  end.

Definition chinit (vals : list Z) (c : consumer) : chstate :=
  {| ch_tosend := vals; ch_closed := false; ch_cons := c; ch_cons_done := false; ch_received := [] |}.

(* the producer goroutine has returned *)
Definition producer_finished (s : chstate) : bool := ch_closed s.

(* the consumers of the library, as receive counts *)
(* qr.encodeAlphaNumeric: len = byte length of the content; idxs = what the
   producer would send (strings.IndexRune results, up to and including the first
   negative one) *)
Fixpoint alpha_sends (idxs : list Z) : list Z :=
  match idxs with
  | [] => []
  | i :: rest => if i <? 0 then [i] else i :: alpha_sends rest
  end.

(* number of receives encodeAlphaNumeric performs for a content whose byte
   length is len, given the stream it will see.  Receiving the j-th value is
   nth j stream 0: after close a receive yields the zero value.  The loop reads
   pairs and returns as soon as a pair contains a negative index. *)
Fixpoint alpha_scan (pairs off : nat) (stream : list Z) : option nat :=
  match pairs with
  | O => None
  | S p =>
    if (nth off stream 0 <? 0) || (nth (S off) stream 0 <? 0) then Some (off + 2)%nat
    else alpha_scan p (off + 2) stream
  end.

Definition alpha_recv_count (len : nat) (stream : list Z) : nat :=
  match alpha_scan (len / 2) 0 stream with
  | Some n => n
  | None => (2 * (len / 2) + (if Nat.odd len then 1 else 0))%nat
  end.
