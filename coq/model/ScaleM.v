(* Executable model of /repo/scaledbarcode.go (Scale, ScaleWithFill, scale1DCode,
   scale2DCode, newScaledBC, the scaledBarcode / intCSscaledBC accessors).
   No proofs here.

   A barcode.Barcode value is modelled by what it exposes through its interfaces:
     Metadata().Dimensions / .CodeKind, Content(), ColorModel(), Bounds(), At(x,y),
     ColorScheme() when it implements barcode.BarcodeColor,
     CheckSum()    when it implements barcode.BarcodeIntCS.
   Colours (color.Color interface values) are an abstract type C; the only thing
   the code does with colours is to pass them around.  The colour model
   (color.Model interface value) is an opaque token of type Z.

   Domain of the correspondence model <-> code (the "guard"):
     1 <= width, height, orgWidth, orgHeight < 2^62.
   * Since the repair of the float64 factor computation (fix commit "Scale: compute the factor with
     integer division") the Go code computes the factor as width / orgWidth (1-D) resp. the minimum of
     width / orgWidth and height / orgHeight (2-D) in int arithmetic; the model uses go_div (Z.quot).
     Inside the guard no intermediate value can leave the int64 range (orgWidth*factor <= width,
     0 <= x - offset < width), so Z arithmetic is exact.  Before the repair the guard had to be 2^31
     (float64 exactness); the correspondence check still hammers the old boundary (widths k*w-1, k*w,
     k*w+1 for k up to 2^30 / w) and now also requests up to 2^62-1 whose products with the symbol
     size exceed 2^63 (a comparison by cross-multiplication would overflow there).
   * orgWidth = 0 or orgHeight = 0 (a barcode with an empty image) makes the float
     division yield +Inf (or NaN for 0/0); the conversion of +Inf to int is
     implementation specific in Go (observed on amd64: a 1-D source 0 wide gives
     an error; a 2-D source 0 wide and 1 high scaled to 3x2 gives factor
     int(min(+Inf, 2)) = 2 and an image of fill pixels only).  No encoder of /repo
     and no scaled barcode has an empty image; the model's value there
     (Z.quot _ 0 = 0, i.e. Err) carries no claim and differs from the code in the
     2-D case.  All theorems assume orgWidth, orgHeight >= 1.
   * wrap calls bc.At(x, y) with x in [0, orgWidth), y in [0, orgHeight): it
     ignores Bounds().Min.  The model keeps Bounds().Min (s_x0, s_y0) so that this
     is visible: for a source whose Min is not (0,0) the code samples the wrong
     pixels (ScaleP.scale_min_not_origin_counterexample).  Every encoder of /repo
     and every scaled barcode has Min = (0,0); the theorems assume it
     (ScaleSpec.origin_anchored). *)
From Verif Require Import Prelude.

Section ScaleModel.
Variable C : Type.          (* color.Color *)
Variable white : C.         (* color.White *)

Record source : Type := {
  s_dims : Z;                     (* Metadata().Dimensions, a byte 0..255 *)
  s_kind : list Z;                (* Metadata().CodeKind, bytes *)
  s_content : list Z;             (* Content(), bytes *)
  s_cmodel : Z;                   (* ColorModel(), opaque token *)
  s_x0 : Z; s_y0 : Z;             (* Bounds().Min *)
  s_x1 : Z; s_y1 : Z;             (* Bounds().Max *)
  s_px : Z -> Z -> C;             (* At(x, y) *)
  s_scheme : option (C * C);      (* Some (Foreground, Background) iff it is a BarcodeColor *)
  s_checksum : option Z           (* Some (CheckSum()) iff it is a BarcodeIntCS *)
}.

(* newScaledBC + accessors of scaledBarcode / intCSscaledBC.
   image.Rect(0, 0, width, height) canonicalises (swaps) negative extents.
   The result is an *intCSscaledBC exactly when wrapped is a BarcodeIntCS; its
   CheckSum() re-tests the interface and would return 0 otherwise.
   Neither struct has a ColorScheme method: a scaled barcode is not a BarcodeColor. *)
Definition new_scaled (wrapped : source) (wrapper : Z -> Z -> C) (width height : Z) : source :=
  {| s_dims := s_dims wrapped;
     s_kind := s_kind wrapped;
     s_content := s_content wrapped;
     s_cmodel := s_cmodel wrapped;
     s_x0 := Z.min 0 width; s_y0 := Z.min 0 height;
     s_x1 := Z.max 0 width; s_y1 := Z.max 0 height;
     s_px := wrapper;
     s_scheme := None;
     s_checksum :=
       match s_checksum wrapped with
       | Some _ => Some (match s_checksum wrapped with Some cs => cs | None => 0 end)
       | None => None
       end |}.

(* the closure `wrap` of scale2DCode *)
Definition wrap2 (bc : source) (fill : C) (factor offsetX offsetY orgWidth orgHeight : Z)
                 (x y : Z) : C :=
  if (x <? offsetX) || (y <? offsetY) then fill else
  let x' := go_div (x - offsetX) factor in
  let y' := go_div (y - offsetY) factor in
  if (x' >=? orgWidth) || (y' >=? orgHeight) then fill else
  s_px bc x' y'.

Definition scale2 (bc : source) (width height : Z) (fill : C) : outcome source :=
  let orgWidth := s_x1 bc - s_x0 bc in
  let orgHeight := s_y1 bc - s_y0 bc in
  (* int(math.Min(float64(width)/float64(orgWidth), float64(height)/float64(orgHeight))) *)
  let factor := Z.min (go_div width orgWidth) (go_div height orgHeight) in
  if factor <=? 0 then Err else
  let offsetX := go_div (width - orgWidth * factor) 2 in
  let offsetY := go_div (height - orgHeight * factor) 2 in
  Ok (new_scaled bc (wrap2 bc fill factor offsetX offsetY orgWidth orgHeight) width height).

(* the closure `wrap` of scale1DCode: y is ignored, row 0 of the source is read *)
Definition wrap1 (bc : source) (fill : C) (factor offsetX orgWidth : Z) (x y : Z) : C :=
  if x <? offsetX then fill else
  let x' := go_div (x - offsetX) factor in
  if x' >=? orgWidth then fill else
  s_px bc x' 0.

Definition scale1 (bc : source) (width height : Z) (fill : C) : outcome source :=
  let orgWidth := s_x1 bc - s_x0 bc in
  (* int(float64(width) / float64(orgWidth)) *)
  let factor := go_div width orgWidth in
  if factor <=? 0 then Err else
  let offsetX := go_div (width - orgWidth * factor) 2 in
  Ok (new_scaled bc (wrap1 bc fill factor offsetX orgWidth) width height).

(* ScaleWithFill: switch bc.Metadata().Dimensions *)
Definition scale_with_fill (bc : source) (width height : Z) (fill : C) : outcome source :=
  if s_dims bc =? 1 then scale1 bc width height fill
  else if s_dims bc =? 2 then scale2 bc width height fill
  else Err.

(* Scale: the fill is the Background of the colour scheme, or color.White *)
Definition default_fill (bc : source) : C :=
  match s_scheme bc with
  | Some (_, bg) => bg
  | None => white
  end.

Definition scale_default (bc : source) (width height : Z) : outcome source :=
  scale_with_fill bc width height (default_fill bc).

(* one request: Scale (None) or ScaleWithFill (Some fill) *)
Definition request : Type := (Z * Z * option C)%type.

Definition scale_req (bc : source) (r : request) : outcome source :=
  let '(width, height, f) := r in
  match f with
  | None => scale_default bc width height
  | Some fill => scale_with_fill bc width height fill
  end.

(* repeated scaling: each result is the next source *)
Fixpoint scale_chain (bc : source) (rs : list request) : outcome source :=
  match rs with
  | [] => Ok bc
  | r :: t => do bc1 <- scale_req bc r; scale_chain bc1 t
  end.

(* all intermediate results (the harness prints every stage); stops at the first error *)
Fixpoint scale_stages (bc : source) (rs : list request) : list (outcome source) :=
  match rs with
  | [] => []
  | r :: t =>
    match scale_req bc r with
    | Ok bc1 => Ok bc1 :: scale_stages bc1 t
    | o => [o]
    end
  end.

End ScaleModel.

Arguments s_dims {C} _.
Arguments s_kind {C} _.
Arguments s_content {C} _.
Arguments s_cmodel {C} _.
Arguments s_x0 {C} _.
Arguments s_y0 {C} _.
Arguments s_x1 {C} _.
Arguments s_y1 {C} _.
Arguments s_px {C} _ _ _.
Arguments s_scheme {C} _.
Arguments s_checksum {C} _.
Arguments new_scaled {C} _ _ _ _.
Arguments wrap1 {C} _ _ _ _ _ _ _.
Arguments wrap2 {C} _ _ _ _ _ _ _ _ _.
Arguments scale1 {C} _ _ _ _.
Arguments scale2 {C} _ _ _ _.
Arguments scale_with_fill {C} _ _ _ _.
Arguments default_fill {C} _ _.
Arguments scale_default {C} _ _ _ _.
Arguments scale_req {C} _ _ _.
Arguments scale_chain {C} _ _ _.
Arguments scale_stages {C} _ _ _.
