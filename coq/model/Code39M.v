(* Executable model of /repo/code39/encoder.go (as of the current tree: CheckSum()
   returns the numeric check value).  Tables come from gen/TabCode39.v.  No proofs.

   Strings are byte lists; every Go `range` over a string goes through
   utf8_decode (Utf8M).  The BitList is a list bool (theorem C18). *)
From Verif Require Import Prelude Barcode Utf8M TabCode39.

(* Go map lookup on a generated association list: absent key -> ok = false *)
Fixpoint map_get {A} (k : Z) (l : list (Z * A)) : option A :=
  match l with
  | [] => None
  | (k', v) :: t => if k =? k' then Some v else map_get k t
  end.

(* encodeTable[r] *)
Definition c39_lookup (r : Z) : option (Z * list bool) := map_get r code39_encode_table.

(* `for r, v := range encodeTable { if v.value == sum { return string(r) } }`
   Go's map iteration order is unspecified; the model searches the table in the
   listed order.  Theorem c39_value_search_order_independent (proofs/Code39P.v)
   shows the result is the same for every order, because the values are distinct. *)
Definition c39_find_value (tbl : list (Z * (Z * list bool))) (v : Z) : option Z :=
  match find (fun e => fst (snd e) =? v) tbl with
  | Some e => Some (fst e)
  | None => None
  end.

(* first loop of getChecksum: None = `return "#"` *)
Fixpoint c39_sum_runes (runes : list Z) (sum : Z) : option Z :=
  match runes with
  | [] => Some sum
  | r :: t =>
    match c39_lookup r with
    | None => None
    | Some (v, _) => if v <? 0 then None else c39_sum_runes t (sum + v)
    end
  end.

(* getChecksum(content string) string *)
Definition c39_get_checksum (content : list Z) : list Z :=
  match c39_sum_runes (utf8_decode content) 0 with
  | None => [35]                                    (* "#" *)
  | Some sum =>
    match c39_find_value code39_encode_table (go_mod sum 43) with
    | Some r => utf8_encode_rune r                  (* string(r) *)
    | None => [35]
    end
  end.

(* prepare(content): per rune r: r > 127 -> error; extendedTable[r] or string([]rune{r}).
   (`result += ...` is rendered as consing the pieces in order; an error discards
   everything, so evaluation order is unobservable) *)
Fixpoint c39_prepare_runes (runes : list Z) : outcome (list Z) :=
  match runes with
  | [] => Ok []
  | r :: t =>
    if r >? 127 then Err else
    do rest <- c39_prepare_runes t;
    match map_get r code39_extended_table with
    | Some v => Ok (v ++ rest)
    | None => Ok (utf8_encode_rune r ++ rest)
    end
  end.

Definition c39_prepare (content : list Z) : outcome (list Z) :=
  c39_prepare_runes (utf8_decode content).

(* strings.ContainsRune(content, '*'): for a rune below utf8.RuneSelf this is
   strings.IndexByte(content, '*') >= 0 *)
Definition c39_contains_star (content : list Z) : bool := existsb (fun b => b =? 42) content.

(* `for i, r := range data`: i = 0 exactly in the first iteration (every rune
   consumes at least one byte); `first` is that flag *)
Fixpoint c39_draw (first : bool) (runes : list Z) : outcome (list bool) :=
  match runes with
  | [] => Ok []
  | r :: t =>
    match c39_lookup r with
    | None => Err
    | Some (_, d) =>
      do rest <- c39_draw false t;
      Ok ((if first then [] else [false]) ++ d ++ rest)
    end
  end.

(* checkSum := 0; for _, r := range getChecksum(content) { if info, ok := encodeTable[r]; ok { checkSum = info.value } } *)
Definition c39_checksum_value (content : list Z) : Z :=
  fold_left (fun cs r => match c39_lookup r with Some (v, _) => v | None => cs end)
            (utf8_decode (c39_get_checksum content)) 0.

(* EncodeWithColor(content, includeChecksum, fullASCIIMode, color) *)
Definition c39_encode (content : list Z) (includeChecksum fullASCII : bool) : outcome barcode :=
  do content1 <- (if fullASCII then c39_prepare content
                  else if c39_contains_star content then Err else Ok content);
  let data := [42] ++ content1
              ++ (if includeChecksum then c39_get_checksum content1 else [])
              ++ [42] in
  do bits <- c39_draw true (utf8_decode data);
  Ok (mk1d KCode39 content1 (Some (c39_checksum_value content1)) bits).
