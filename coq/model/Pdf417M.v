(* Executable model of /repo/pdf417 (highlevel.go, errorcorrection.go,
   dimensions.go, encoder.go, codewords.go, pdfcode.go).  No proofs here.

   Strings are lists of bytes; `[]rune(string(bytes))` is Utf8M.utf8_decode.
   Tables and named constants are read from gen/TabPdf417.v (what the source
   says now).  Go's `/` and `%` are go_div / go_mod (truncation toward zero).

   The one thing that is NOT modelled is the choice of the column count in
   calcDimensions (a float aspect-ratio heuristic): the chosen column count is
   a parameter `oracle` of the model (DESIGN.md 2.2); what is modelled about
   calcDimensions is that it only ever returns a column count c in
   minCols..maxCols whose row count calculateNumberOfRows(m,k,c) lies in
   minRows..maxRows, together with that row count, and (0,0) if there is none. *)
From Verif Require Import Prelude Barcode BitListM Utf8M TabPdf417.

(* ---------- Go maps built by init(): absent key = zero value / ok=false ---------- *)
Fixpoint pdf_assoc (m : list (Z * Z)) (k : Z) : option Z :=
  match m with
  | [] => None
  | (k', v) :: t => if k' =? k then Some v else pdf_assoc t k
  end.

Definition pdf_map_has (m : list (Z * Z)) (k : Z) : bool :=
  match pdf_assoc m k with Some _ => true | None => false end.

Definition pdf_map_get (m : list (Z * Z)) (k : Z) : Z :=
  match pdf_assoc m k with Some v => v | None => 0 end.

Inductive pdf_encmode := EncText | EncNumeric | EncBinary.
Inductive pdf_submode := SubUpper | SubLower | SubMixed | SubPunct.

Definition pdf_encmode_is_text (m : pdf_encmode) : bool :=
  match m with EncText => true | _ => false end.

(* slices data[:n] and data[n:]; out of range is a run-time panic *)
Definition pdf_split_at {A} (n : Z) (l : list A) : outcome (list A * list A) :=
  if (n <? 0) || (n >? zlength l) then Panic
  else Ok (firstn (Z.to_nat n) l, skipn (Z.to_nat n) l).

(* ---------- highlevel.go ---------- *)

(* determineConsecutiveDigitCount(data []rune) *)
Fixpoint pdf_digit_count (data : list Z) : Z :=
  match data with
  | [] => 0
  | r :: t => if rune_to_int r =? -1 then 0 else 1 + pdf_digit_count t
  end.

(* chunkNum.SetString("1"+string(chunk), 10): ok iff every rune is an ASCII digit *)
Fixpoint pdf_parse_dec (ds : list Z) (acc : Z) : option Z :=
  match ds with
  | [] => Some acc
  | d :: t => if is_digit d then pdf_parse_dec t (acc * 10 + (d - 48)) else None
  end.

(* for chunkNum > 0 { chunkNum, cw = DivMod(chunkNum, 900); cws = [cw] ++ cws } *)
Fixpoint pdf_base900 (fuel : nat) (n : Z) (acc : list Z) : outcome (list Z) :=
  if n <=? 0 then Ok acc else
  match fuel with
  | O => OutOfFuel
  | S f => pdf_base900 f (n / 900) (n mod 900 :: acc)
  end.

(* encodeNumeric: chunks of 44 digits *)
Fixpoint pdf_encode_numeric_fuel (fuel : nat) (digits : list Z) : outcome (list Z) :=
  match digits with
  | [] => Ok []
  | _ =>
    match fuel with
    | O => OutOfFuel
    | S f =>
      let chunk := firstn 44 digits in
      match pdf_parse_dec chunk 1 with
      | None => Err
      | Some v =>
        do cws <- pdf_base900 (S (length chunk)) v [];
        do rest <- pdf_encode_numeric_fuel f (skipn 44 digits);
        Ok (cws ++ rest)
      end
    end
  end.

Definition pdf_encode_numeric (digits : list Z) : outcome (list Z) :=
  pdf_encode_numeric_fuel (length digits) digits.

Definition pdf_is_text (ch : Z) : bool :=
  (ch =? 9) || (ch =? 10) || (ch =? 13) || ((32 <=? ch) && (ch <=? 126)).

(* determineConsecutiveTextCount(msg []rune) *)
Fixpoint pdf_text_count (msg : list Z) : Z :=
  match msg with
  | [] => 0
  | ch :: t =>
    let n := pdf_digit_count msg in
    if (n >=? pdf_min_numeric_count) || ((n =? 0) && negb (pdf_is_text ch)) then 0
    else 1 + pdf_text_count t
  end.

Definition pdf_is_alpha_upper (ch : Z) : bool := (ch =? 32) || ((65 <=? ch) && (ch <=? 90)).
Definition pdf_is_alpha_lower (ch : Z) : bool := (ch =? 32) || ((97 <=? ch) && (ch <=? 122)).
Definition pdf_is_mixed (ch : Z) : bool := pdf_map_has pdf_mixed_map ch.
Definition pdf_is_punct (ch : Z) : bool := pdf_map_has pdf_punct_map ch.

(* encodeText, first loop, the body of `switch submode` for the character ch
   (rest = text[idx+1:]): the new sub-mode, the values appended to tmp, and
   whether idx is advanced (false = `continue` without idx++) *)
Definition pdf_text_step (sm : pdf_submode) (ch : Z) (rest : list Z)
  : pdf_submode * list Z * bool :=
  match sm with
  | SubUpper =>
    if pdf_is_alpha_upper ch then
      (sm, [if ch =? 32 then 26 else ch - 65], true)
    else if pdf_is_alpha_lower ch then (SubLower, [27], false)       (* lower latch *)
    else if pdf_is_mixed ch then (SubMixed, [28], false)             (* mixed latch *)
    else (sm, [29; pdf_map_get pdf_punct_map ch], true)              (* punctuation switch *)
  | SubLower =>
    if pdf_is_alpha_lower ch then
      (sm, [if ch =? 32 then 26 else ch - 97], true)
    else if pdf_is_alpha_upper ch then (sm, [27; ch - 65], true)     (* upper switch *)
    else if pdf_is_mixed ch then (SubMixed, [28], false)             (* mixed latch *)
    else (sm, [29; pdf_map_get pdf_punct_map ch], true)              (* punctuation switch *)
  | SubMixed =>
    if pdf_is_mixed ch then (sm, [pdf_map_get pdf_mixed_map ch], true)
    else if pdf_is_alpha_upper ch then (SubUpper, [28], false)       (* upper latch *)
    else if pdf_is_alpha_lower ch then (SubLower, [27], false)       (* lower latch *)
    else
      match rest with
      | next :: _ =>
        if pdf_is_punct next then (SubPunct, [25], false)            (* punctuation latch *)
        else (sm, [29; pdf_map_get pdf_punct_map ch], true)
      | [] => (sm, [29; pdf_map_get pdf_punct_map ch], true)         (* punctuation switch *)
      end
  | SubPunct =>
    if pdf_is_punct ch then (sm, [pdf_map_get pdf_punct_map ch], true)
    else (SubUpper, [29], false)                                     (* upper latch *)
  end.

(* `for idx < len(text)`: a `continue` re-enters with the same character (at most
   twice per character), hence the fuel.  Returns the final sub-mode and tmp. *)
Fixpoint pdf_text_values (fuel : nat) (text : list Z) (sm : pdf_submode)
  : outcome (pdf_submode * list Z) :=
  match text with
  | [] => Ok (sm, [])
  | ch :: rest =>
    match fuel with
    | O => OutOfFuel
    | S f =>
      let '(sm1, vals, advance) := pdf_text_step sm ch rest in
      do (sm', t) <- pdf_text_values f (if advance then rest else text) sm1;
      Ok (sm', vals ++ t)
    end
  end.

(* second loop: pairs h*30+l; odd count: pad with 29.  Returns the codewords
   and whether a pad was added. *)
Fixpoint pdf_pair_values (tmp : list Z) : list Z * bool :=
  match tmp with
  | [] => ([], false)
  | [h] => ([h * 30 + 29], true)
  | h :: l :: t => let '(r, odd) := pdf_pair_values t in ((h * 30 + l) :: r, odd)
  end.

(* encodeText(text, submode) (subMode, []int) *)
Definition pdf_encode_text (text : list Z) (sm : pdf_submode) : outcome (pdf_submode * list Z) :=
  do (sm1, tmp) <- pdf_text_values (3 * length text) text sm;
  let '(result, odd) := pdf_pair_values tmp in
  let sm2 := if odd then match sm1 with SubPunct => SubUpper | _ => sm1 end else sm1 in
  Ok (sm2, result).

(* determineConsecutiveBinaryCount(msg []byte): msg[i:] is converted to runes at
   every position, so a multi-byte sequence may be cut in the middle *)
Fixpoint pdf_binary_count (msg : list Z) : Z :=
  match msg with
  | [] => 0
  | _ :: t =>
    let runes := utf8_decode msg in
    if pdf_digit_count runes >=? pdf_min_numeric_count then 0
    else if pdf_text_count runes >? 5 then 0
    else 1 + pdf_binary_count t
  end.

(* six bytes -> five base-900 words (int64 arithmetic, all operands < 2^48) *)
Definition pdf_sixpack (b0 b1 b2 b3 b4 b5 : Z) : list Z :=
  let t := ((((b0 * 256 + b1) * 256 + b2) * 256 + b3) * 256 + b4) * 256 + b5 in
  let w4 := go_mod t 900 in let t1 := go_div t 900 in
  let w3 := go_mod t1 900 in let t2 := go_div t1 900 in
  let w2 := go_mod t2 900 in let t3 := go_div t2 900 in
  let w1 := go_mod t3 900 in let t4 := go_div t3 900 in
  let w0 := go_mod t4 900 in
  [w0; w1; w2; w3; w4].

(* `for (count-idx) >= 6 {...}` then one codeword per remaining byte *)
Fixpoint pdf_sixpacks (data : list Z) : list Z :=
  match data with
  | b0 :: b1 :: b2 :: b3 :: b4 :: b5 :: rest => pdf_sixpack b0 b1 b2 b3 b4 b5 ++ pdf_sixpacks rest
  | _ => data
  end.

(* encodeBinary(data, startmode) *)
Definition pdf_encode_binary (data : list Z) (startmode : pdf_encmode) : list Z :=
  let count := zlength data in
  let head :=
    if (count =? 1) && pdf_encmode_is_text startmode then pdf_shift_to_byte
    else if go_mod count 6 =? 0 then pdf_latch_to_byte
    else pdf_latch_to_byte_padded in
  head :: pdf_sixpacks data.

(* highlevelEncode: `for len(data) > 0`; every iteration consumes at least one
   byte (theorem), fuel = len(data) *)
Fixpoint pdf_highlevel_loop (fuel : nat) (data : list Z) (mode : pdf_encmode) (sm : pdf_submode)
  : outcome (list Z) :=
  match data with
  | [] => Ok []
  | _ =>
    match fuel with
    | O => OutOfFuel
    | S f =>
      let runes := utf8_decode data in
      let numericCount := pdf_digit_count runes in
      if (numericCount >=? pdf_min_numeric_count) || (numericCount =? zlength data) then
        do (pre, post) <- pdf_split_at numericCount data;
        do numData <- pdf_encode_numeric (utf8_decode pre);
        do rest <- pdf_highlevel_loop f post EncNumeric SubUpper;
        Ok (pdf_latch_to_numeric :: numData ++ rest)
      else
        let textCount := pdf_text_count runes in
        if (textCount >=? 5) || (textCount =? zlength data) then
          let '(latch, sm0) :=
            if pdf_encmode_is_text mode then ([], sm) else ([pdf_latch_to_text], SubUpper) in
          do (pre, post) <- pdf_split_at textCount data;
          do (sm1, txtData) <- pdf_encode_text (utf8_decode pre) sm0;
          do rest <- pdf_highlevel_loop f post EncText sm1;
          Ok (latch ++ txtData ++ rest)
        else
          let bc0 := pdf_binary_count data in
          let binaryCount := if bc0 =? 0 then 1 else bc0 in
          do (bytes, post) <- pdf_split_at binaryCount data;
          let '(mode1, sm1) :=
            if negb (zlength bytes =? 1) || negb (pdf_encmode_is_text mode)
            then (EncBinary, SubUpper) else (mode, sm) in
          do rest <- pdf_highlevel_loop f post mode1 sm1;
          Ok (pdf_encode_binary bytes mode1 ++ rest)
    end
  end.

Definition pdf_highlevel (data : list Z) : outcome (list Z) :=
  pdf_highlevel_loop (length data) data EncText SubUpper.

(* ---------- errorcorrection.go ---------- *)

(* ErrorCorrectionWordCount: 1 << (uint(level)+1) *)
Definition pdf_ec_count (level : Z) : Z := Z.shiftl 1 (level + 1).

(* one iteration of `for _, value := range data`: the inner loop writes
   ecWords[count-1-i] from ecWords[count-i] (not yet overwritten) and factors[i],
   for i = count-1 .. 0; frev = factors[0..count-1] reversed *)
Fixpoint pdf_ec_inner (temp : Z) (shifted frev : list Z) : list Z :=
  match shifted, frev with
  | add :: s', f :: f' =>
    go_mod (add + 929 - go_mod (temp * f) 929) 929 :: pdf_ec_inner temp s' f'
  | _, _ => []
  end.

Definition pdf_ec_step (frev : list Z) (ec : list Z) (value : Z) : list Z :=
  let temp := go_mod (value + hd 0 ec) 929 in
  pdf_ec_inner temp (tl ec ++ [0]) frev.

(* Compute(data) *)
Definition pdf_compute (level : Z) (data : list Z) : outcome (list Z) :=
  match zget pdf_correction_factors level with
  | None => Panic
  | Some factors =>
    let count := pdf_ec_count level in
    (* factors[i] for i < count: index out of range panics (only when data is non-empty) *)
    if (zlength factors <? count) && negb (zlength data =? 0) then Panic else
    let frev := rev (firstn (Z.to_nat count) factors) in
    let ec := fold_left (pdf_ec_step frev) data (repeat 0 (Z.to_nat count)) in
    Ok (map (fun w => if w >? 0 then 929 - w else w) ec)
  end.

(* ---------- dimensions.go ---------- *)

Definition pdf_number_of_rows (m k c : Z) : outcome Z :=
  if c =? 0 then Panic else
  let r := go_div (m + 1 + k) c + 1 in
  Ok (if c * r >=? m + 1 + k + c then r - 1 else r).

Definition pdf_rows_or0 (m k c : Z) : Z :=
  match pdf_number_of_rows m k c with Ok r => r | _ => 0 end.

(* c is a column count the loop of calcDimensions may select *)
Definition pdf_shape_ok (m k c : Z) : bool :=
  (pdf_min_cols <=? c) && (c <=? pdf_max_cols) && negb (c =? 0) &&
  (pdf_min_rows <=? pdf_rows_or0 m k c) && (pdf_rows_or0 m k c <=? pdf_max_rows).

Fixpoint pdf_range (lo : Z) (n : nat) : list Z :=
  match n with O => [] | S m => lo :: pdf_range (lo + 1) m end.

(* some column count qualifies *)
Definition pdf_fits (m k : Z) : bool :=
  existsb (pdf_shape_ok m k) (pdf_range pdf_min_cols (Z.to_nat (pdf_max_cols - pdf_min_cols + 1))).

(* calcDimensions with the column choice as an oracle *)
Definition pdf_calc_dimensions (oracle m k : Z) : outcome (Z * Z) :=
  if pdf_shape_ok m k oracle then
    do r <- pdf_number_of_rows m k oracle; Ok (oracle, r)
  else
    (* nothing selected: `if rows == 0 { r := calculateNumberOfRows(.., minCols); if r < minRows {...} }` *)
    do r <- pdf_number_of_rows m k pdf_min_cols;
    if r <? pdf_min_rows then Ok (pdf_min_cols, pdf_min_rows) else Ok (0, 0).

(* ---------- encoder.go ---------- *)

Definition pdf_get_padding (dataCount ecCount columns : Z) : outcome (list Z) :=
  if columns =? 0 then Panic else
  let totalCount := dataCount + ecCount + 1 in
  let md := go_mod totalCount columns in
  if md >? 0 then
    let padCount := columns - md in
    if padCount <? 0 then Panic else Ok (repeat pdf_padding_codeword (Z.to_nat padCount))
  else Ok [].

Definition pdf_encode_data (dataWords : list Z) (columns level : Z) : outcome (list Z) :=
  let dataCount := zlength dataWords in
  let ecCount := pdf_ec_count level in
  do padWords <- pdf_get_padding dataCount ecCount columns;
  let dw1 := dataWords ++ padWords in
  let dw2 := (zlength dw1 + 1) :: dw1 in
  do ecWords <- pdf_compute level dw2;
  Ok (dw2 ++ ecWords).

Definition pdf_left_codeword (rowNum rows columns level : Z) : Z :=
  let tableId := go_mod rowNum 3 in
  let x :=
    if tableId =? 0 then go_div (rows - 1) 3
    else if tableId =? 1 then level * 3 + go_mod (rows - 1) 3
    else if tableId =? 2 then columns - 1
    else 0 in
  30 * go_div rowNum 3 + x.

Definition pdf_right_codeword (rowNum rows columns level : Z) : Z :=
  let tableId := go_mod rowNum 3 in
  let x :=
    if tableId =? 0 then columns - 1
    else if tableId =? 1 then go_div (rows - 1) 3
    else if tableId =? 2 then level * 3 + go_mod (rows - 1) 3
    else 0 in
  30 * go_div rowNum 3 + x.

(* getCodeword(tableId, word) = codewords[tableId][word] *)
Definition pdf_get_codeword (tableId word : Z) : outcome Z :=
  match zget pdf_codewords tableId with
  | None => Panic
  | Some t => match zget t word with None => Panic | Some p => Ok p end
  end.

Fixpoint pdf_get_codewords (tableId : Z) (row : list Z) : outcome (list Z) :=
  match row with
  | [] => Ok []
  | w :: t =>
    do p <- pdf_get_codeword tableId w;
    do ps <- pdf_get_codewords tableId t;
    Ok (p :: ps)
  end.

(* for i := 0; i < len(codeWords); i += columns { grid = append(grid, codeWords[i:min(i+columns,len)]) } *)
Fixpoint pdf_grid (fuel : nat) (cws : list Z) (columns : nat) : outcome (list (list Z)) :=
  match cws with
  | [] => Ok []
  | _ =>
    match fuel with
    | O => OutOfFuel
    | S f =>
      do rest <- pdf_grid f (skipn columns cws) columns;
      Ok (firstn columns cws :: rest)
    end
  end.

(* for rowNum, row := range grid {...} *)
Fixpoint pdf_row_codes (grid : list (list Z)) (rowNum rows columns level : Z)
  : outcome (list (list Z)) :=
  match grid with
  | [] => Ok []
  | row :: t =>
    let table := go_mod rowNum 3 in
    do l <- pdf_get_codeword table (pdf_left_codeword rowNum rows columns level);
    do ws <- pdf_get_codewords table row;
    do r <- pdf_get_codeword table (pdf_right_codeword rowNum rows columns level);
    do rest <- pdf_row_codes t (rowNum + 1) rows columns level;
    Ok ((pdf_start_word :: l :: ws ++ [r; pdf_stop_word]) :: rest)
  end.

(* renderBarcode: AddBits(col, 17), the last code of a row AddBits(col, 18);
   the BitList is a list bool (theorem C18) *)
Fixpoint pdf_row_bits (row : list Z) : list bool :=
  match row with
  | [] => []
  | [c] => msb_bits 18 c
  | c :: t => msb_bits 17 c ++ pdf_row_bits t
  end.

Definition pdf_render (codes : list (list Z)) : list bool := flat_map pdf_row_bits codes.

(* pdfcode.go: Bounds = (0,0)-(width, (Len/width)*moduleHeight);
   At(x,y) = bit (y/moduleHeight)*width + x *)
Fixpoint pdf_chunks (n : nat) (w : nat) (bits : list bool) : list (list bool) :=
  match n with
  | O => []
  | S m => firstn w bits :: pdf_chunks m w (skipn w bits)
  end.

Definition pdf_pixels (bits : list bool) (width : Z) : list (list bool) :=
  let h := go_div (zlength bits) width in
  flat_map (fun row => repeat row (Z.to_nat pdf_module_height))
           (pdf_chunks (Z.to_nat h) (Z.to_nat width) bits).

(* EncodeWithColor(data, securityLevel, color) / Encode; the colour scheme is
   only stored (pixels are reported as foreground/background) *)
Definition pdf_encode (data : list Z) (level : Z) (oracle : Z) : outcome barcode :=
  if level >=? 9 then Err else
  do dataWords <- pdf_highlevel data;
  do (columns, rows) <- pdf_calc_dimensions oracle (zlength dataWords) (pdf_ec_count level);
  if (columns <? pdf_min_cols) || (columns >? pdf_max_cols) ||
     (rows <? pdf_min_rows) || (rows >? pdf_max_rows) then Err else
  do codeWords <- pdf_encode_data dataWords columns level;
  do grid <- pdf_grid (length codeWords) codeWords (Z.to_nat columns);
  do codes <- pdf_row_codes grid 0 rows columns level;
  let bits := pdf_render codes in
  let width := (columns + 4) * 17 + 1 in
  Ok {| bc_kind := KPDF; bc_content := data; bc_checksum := None;
        bc_width := width;
        bc_height := go_div (zlength bits) width * pdf_module_height;
        bc_rows := pdf_pixels bits width |}.
