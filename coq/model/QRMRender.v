(* Executable model of the rendering side of /repo/qr:
     qrcode.go    (the bit matrix: Get/Set on a BitList at index x*dimension+y)
     versioninfo.go (alignmentPatternPlacements)
     encoder.go   (render without the penalty-based mask selection, setMasked,
                   iterateModules, drawFinderPatterns, drawAlignmentPatterns,
                   drawFormatInfo, drawVersionInfo)
   No proofs here.  The mask is a parameter: render builds all 8 masked symbols
   and returns the one with the lowest penalty; the model builds the one it is
   asked for (DESIGN 2.2). *)
From Coq Require Import FMapPositive.
From Verif Require Import Prelude Barcode BitListM TabQr QRMBits QRMBlocks.

(* ---------- qrcode.go ---------- *)
(* dimension and the set bits of data (a utils.BitList of dimension^2 bits, all false
   initially).  Set/Get address bit x*dimension+y.  The BitList itself only panics
   when index/32 is outside its word array; the model is stricter and panics for
   every index outside 0..dimension^2-1 (theorems show it never happens). *)
Record qrmat := { qm_dim : Z; qm_bits : PositiveMap.t bool }.

Definition qm_new (dim : Z) : qrmat := {| qm_dim := dim; qm_bits := PositiveMap.empty bool |}.

Definition qm_index (m : qrmat) (x y : Z) : Z := x * qm_dim m + y.

Definition qm_in (m : qrmat) (i : Z) : bool := (0 <=? i) && (i <? qm_dim m * qm_dim m).

(* total read used for the final pixels and in proofs *)
Definition qm_peek (m : qrmat) (x y : Z) : bool :=
  match PositiveMap.find (Z.to_pos (qm_index m x y + 1)) (qm_bits m) with
  | Some b => b
  | None => false
  end.

Definition qm_get (m : qrmat) (x y : Z) : outcome bool :=
  if qm_in m (qm_index m x y) then Ok (qm_peek m x y) else Panic.

Definition qm_set (m : qrmat) (x y : Z) (v : bool) : outcome qrmat :=
  if qm_in m (qm_index m x y) then
    Ok {| qm_dim := qm_dim m;
          qm_bits := PositiveMap.add (Z.to_pos (qm_index m x y + 1)) v (qm_bits m) |}
  else Panic.

(* ---------- helpers ---------- *)
Fixpoint ofold {A S : Type} (f : S -> A -> outcome S) (l : list A) (s : S) : outcome S :=
  match l with
  | [] => Ok s
  | a :: t => do s' <- f s a; ofold f t s'
  end.

(* lo, lo+1, ..., lo+n-1 *)
Fixpoint zseq (lo : Z) (n : nat) : list Z :=
  match n with
  | O => []
  | S m => lo :: zseq (lo + 1) m
  end.

(* the pair (occupied, result matrix) that render's setAll closure updates *)
Definition layers := (qrmat * qrmat)%type.

Definition set_all (st : layers) (x y : Z) (v : bool) : outcome layers :=
  let '(occ, res) := st in
  do occ' <- qm_set occ x y true;
  do res' <- qm_set res x y v;
  Ok (occ', res').

(* ---------- versioninfo.go: alignmentPatternPlacements ---------- *)
(* float64 arithmetic replaced by exact integer arithmetic: ceil(a/b) for a >= 0,
   b > 0 is (a+b-1)/b; the fractional part of a/b is >= 0.5 iff 2*(a mod b) >= b.
   (All operands are below 200, far from any rounding issue of float64.) *)
Definition ceil_div (a b : Z) : Z := (a + b - 1) / b.

Definition alignment_placements (version : Z) : outcome (list Z) :=
  if version =? 1 then Ok [] else
  let first := 6 in
  let last := modul_width version - 7 in
  let space := last - first in
  if space <? 0 then Panic else       (* never: would make a negative-length slice *)
  let count := ceil_div space 28 + 1 in
  if count <? 1 then Panic else       (* result[0] on an empty slice *)
  if count =? 1 then Ok [last] else   (* result[0] = first; result[0] = last *)
  if count =? 2 then Ok [first; last] else
  let c := count - 1 in
  let step0 := ceil_div space c in
  let step :=
      if go_mod step0 2 =? 1 then
        let q := space / c in
        let r := space mod c in
        let rounded := if 2 * r >=? c then ceil_div space c else q in
        if go_mod rounded 2 =? 0 then step0 - 1 else step0 + 1
      else step0 in
  Ok (first :: map (fun i => last - step * (count - 1 - i)) (zseq 1 (Z.to_nat (count - 2)))
            ++ [last]).

(* ---------- encoder.go: drawFinderPatterns ---------- *)
Definition finder_val (x y : Z) : bool :=
  ((x =? 0) || (x =? 6) || (y =? 0) || (y =? 6)
   || ((x >? 1) && (x <? 5) && (y >? 1) && (y <? 5)))
  && ((x <=? 6) && (y <=? 6) && (x >=? 0) && (y >=? 0)).

Definition draw_finder (dim xoff yoff : Z) (st : layers) : outcome layers :=
  ofold (fun st x =>
    ofold (fun st y =>
      if (x + xoff >=? 0) && (x + xoff <? dim) && (y + yoff >=? 0) && (y + yoff <? dim)
      then set_all st (x + xoff) (y + yoff) (finder_val x y)
      else Ok st) (zseq (-1) 9) st) (zseq (-1) 9) st.

Definition draw_finder_patterns (dim : Z) (st : layers) : outcome layers :=
  do st1 <- draw_finder dim 0 0 st;
  do st2 <- draw_finder dim 0 (dim - 7) st1;
  draw_finder dim (dim - 7) 0 st2.

(* ---------- encoder.go: drawAlignmentPatterns ---------- *)
Definition align_val (x y : Z) : bool :=
  (x =? -2) || (x =? 2) || (y =? -2) || (y =? 2) || ((x =? 0) && (y =? 0)).

Definition draw_align (xoff yoff : Z) (st : layers) : outcome layers :=
  ofold (fun st x =>
    ofold (fun st y => set_all st (x + xoff) (y + yoff) (align_val x y)) (zseq (-2) 5) st)
    (zseq (-2) 5) st.

Definition draw_alignment_patterns (version : Z) (st : layers) : outcome layers :=
  do positions <- alignment_placements version;
  ofold (fun st x =>
    ofold (fun st y =>
      do o <- qm_get (fst st) x y;
      if o then Ok st else draw_align x y st) positions st) positions st.

(* ---------- encoder.go: render, timing pattern and dark module ---------- *)
Definition draw_timing (dim : Z) (st : layers) : outcome layers :=
  ofold (fun st i =>
    do o1 <- qm_get (fst st) i 6;
    do st1 <- (if o1 then Ok st else set_all st i 6 (go_mod i 2 =? 0));
    do o2 <- qm_get (fst st1) 6 i;
    if o2 then Ok st1 else set_all st1 6 i (go_mod i 2 =? 0)) (zseq 0 (Z.to_nat dim)) st.

(* ---------- encoder.go: drawVersionInfo ---------- *)
Fixpoint assoc {V : Type} (k : Z) (l : list (Z * V)) : option V :=
  match l with
  | [] => None
  | (k', v) :: t => if k' =? k then Some v else assoc k t
  end.

Definition draw_version_info (version dim : Z) (st : layers) : outcome layers :=
  match assoc version qr_version_bits with
  | None => Ok st
  | Some bits =>
    let n := zlength bits in
    ofold (fun st i =>
      let x := (dim - 11) + go_mod i 3 in
      let y := go_div i 3 in
      match zget bits (n - i - 1) with
      | None => Panic
      | Some b =>
        do st1 <- set_all st x y b;
        set_all st1 y x b
      end) (zseq 0 (Z.to_nat n)) st
  end.

(* ---------- encoder.go: drawFormatInfo ---------- *)
(* the 30 calls set(x, y, formatInfo[i]) in source order, as (x, y, i) *)
Definition format_targets (dim : Z) : list (Z * Z * Z) :=
  [(0, 8, 0); (1, 8, 1); (2, 8, 2); (3, 8, 3); (4, 8, 4); (5, 8, 5); (7, 8, 6); (8, 8, 7);
   (8, 7, 8); (8, 5, 9); (8, 4, 10); (8, 3, 11); (8, 2, 12); (8, 1, 13); (8, 0, 14);
   (8, dim - 1, 0); (8, dim - 2, 1); (8, dim - 3, 2); (8, dim - 4, 3); (8, dim - 5, 4);
   (8, dim - 6, 5); (8, dim - 7, 6); (dim - 8, 8, 7); (dim - 7, 8, 8); (dim - 6, 8, 9);
   (dim - 5, 8, 10); (dim - 4, 8, 11); (dim - 3, 8, 12); (dim - 2, 8, 13); (dim - 1, 8, 14)].

(* formatInfo for usedMask = -1 *)
Definition format_all_true : list bool := repeat true 15.

(* formatInfos[vi.Level][usedMask]: a missing key of either map yields a nil slice *)
Definition format_lookup (level mask : Z) : list bool :=
  match assoc level qr_format_infos with
  | None => []
  | Some m => match assoc mask m with None => [] | Some b => b end
  end.

Definition draw_format_info (dim : Z) (formatInfo : list bool) (m : qrmat) : outcome qrmat :=
  if zlength formatInfo =? 15 then
    ofold (fun m t =>
      let '(x, y, i) := t in
      match zget formatInfo i with
      | None => Panic
      | Some b => qm_set m x y b
      end) (format_targets dim) m
  else Ok m.

(* render up to and including drawFormatInfo(vi, -1, occupied.Set): everything
   that depends on the version only *)
Definition base_matrix (version : Z) : outcome layers :=
  let dim := modul_width version in
  if dim <? 0 then Panic else          (* NewBitList(dim*dim) of a negative size: never *)
  let st0 := (qm_new dim, qm_new dim) in
  do st1 <- draw_finder_patterns dim st0;
  do st2 <- draw_alignment_patterns version st1;
  do st3 <- draw_timing dim st2;
  do st4 <- set_all st3 8 (dim - 8) true;
  do st5 <- draw_version_info version dim st4;
  do occ <- draw_format_info dim format_all_true (fst st5);
  Ok (occ, snd st5).

(* ---------- encoder.go: setMasked ---------- *)
(* true = the module is inverted *)
Definition mask_bit (mask x y : Z) : bool :=
  if mask =? 0 then go_mod (y + x) 2 =? 0
  else if mask =? 1 then go_mod y 2 =? 0
  else if mask =? 2 then go_mod x 3 =? 0
  else if mask =? 3 then go_mod (y + x) 3 =? 0
  else if mask =? 4 then go_mod (go_div y 2 + go_div x 3) 2 =? 0
  else if mask =? 5 then go_mod (y * x) 2 + go_mod (y * x) 3 =? 0
  else if mask =? 6 then go_mod (go_mod (y * x) 2 + go_mod (y * x) 3) 2 =? 0
  else if mask =? 7 then go_mod (go_mod (y + x) 2 + go_mod (y * x) 3) 2 =? 0
  else false.

(* val = val != cond *)
Definition set_masked (x y : Z) (val : bool) (mask : Z) (m : qrmat) : outcome qrmat :=
  qm_set m x y (xorb val (mask_bit mask x y)).

(* ---------- encoder.go: iterateModules ---------- *)
(* the first goroutine: the zig-zag over all column pairs *)
Fixpoint all_points (fuel : nat) (dim curX curY : Z) (isUpward : bool)
  : outcome (list (Z * Z)) :=
  match fuel with
  | O => OutOfFuel
  | S f =>
    let p1 := (curX, curY) in
    let p2 := (curX - 1, curY) in
    if isUpward then
      let curY1 := curY - 1 in
      if curY1 <? 0 then
        let curX1 := curX - 2 in
        let curX2 := if curX1 =? 6 then curX1 - 1 else curX1 in
        if curX2 <? 0 then Ok [p1; p2]
        else do r <- all_points f dim curX2 0 false; Ok (p1 :: p2 :: r)
      else do r <- all_points f dim curX curY1 true; Ok (p1 :: p2 :: r)
    else
      let curY1 := curY + 1 in
      if curY1 >=? dim then
        let curX1 := curX - 2 in
        let curX2 := if curX1 =? 6 then curX1 - 1 else curX1 in
        if curX2 <? 0 then Ok [p1; p2]
        else do r <- all_points f dim curX2 (dim - 1) true; Ok (p1 :: p2 :: r)
      else do r <- all_points f dim curX curY1 false; Ok (p1 :: p2 :: r)
  end.

(* the second goroutine: keep the points that are not occupied *)
Fixpoint free_points (occ : qrmat) (pts : list (Z * Z)) : outcome (list (Z * Z)) :=
  match pts with
  | [] => Ok []
  | (x, y) :: t =>
    do o <- qm_get occ x y;
    do r <- free_points occ t;
    Ok (if o then r else (x, y) :: r)
  end.

Definition iterate_modules (occ : qrmat) : outcome (list (Z * Z)) :=
  let dim := qm_dim occ in
  do pts <- all_points (Z.to_nat (dim * dim)) dim (dim - 1) (dim - 1) true;
  free_points occ pts.

(* ---------- encoder.go: render, data placement ---------- *)
(* bit curBitNo of data, MSB first; false beyond len(data)*8 *)
Definition bits_of_bytes (data : list Z) : list bool := flat_map (msb_bits 8) data.

Fixpoint place_bits (order : list (Z * Z)) (bits : list bool) (mask : Z) (m : qrmat)
  : outcome qrmat :=
  match order with
  | [] => Ok m
  | (x, y) :: t =>
    let '(b, bits') := match bits with [] => (false, []) | b :: r => (b, r) end in
    do m' <- set_masked x y b mask m;
    place_bits t bits' mask m'
  end.

(* the part of render that depends on the data and the mask, given the
   version's function modules and placement order *)
Definition render_on (base : layers) (order : list (Z * Z)) (data : list Z) (vi : vinfo) (mask : Z)
  : outcome qrmat :=
  let dim := modul_width (vi_version vi) in
  do res1 <- draw_format_info dim (format_lookup (vi_level vi) mask) (snd base);
  place_bits order (bits_of_bytes data) mask res1.

(* render(data, vi, color) for the symbol results[mask] *)
Definition render (data : list Z) (vi : vinfo) (mask : Z) : outcome qrmat :=
  do base <- base_matrix (vi_version vi);
  do order <- iterate_modules (fst base);
  render_on base order data vi mask.

(* the rows [y][x] of a matrix as At(x, y) reports them *)
Definition rows_of (m : qrmat) : list (list bool) :=
  let idx := zseq 0 (Z.to_nat (qm_dim m)) in
  map (fun y => map (fun x => qm_peek m x y) idx) idx.
