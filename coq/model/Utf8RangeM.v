(* Go's `for i, r := range s` over a string WITH the byte offsets i, built on the
   one-step decoder utf8_decode1 of Utf8M (same semantic: invalid byte -> U+FFFD,
   one byte consumed).  Used by the EAN and Codabar models, whose loops test the
   byte offset (cpos < 4, cpos == 7, i > 0).  No proofs here. *)
From Verif Require Import Prelude Utf8M.

(* every step consumes at least one byte, so length s is enough fuel; the
   offset advances by the number of bytes the step consumed *)
Fixpoint utf8_range_fuel (fuel : nat) (off : Z) (s : list Z) : list (Z * Z) :=
  match fuel, s with
  | S f, b :: rest =>
    let '(r, rest') := utf8_decode1 b rest in
    (off, r) :: utf8_range_fuel f (off + 1 + (zlength rest - zlength rest')) rest'
  | _, _ => []
  end.

(* the (offset, rune) pairs visited by `for i, r := range s` *)
Definition utf8_range (s : list Z) : list (Z * Z) := utf8_range_fuel (length s) 0 s.

(* what the loop visits when every byte is its own rune (pure ASCII) *)
Fixpoint enum_from (off : Z) (s : list Z) : list (Z * Z) :=
  match s with
  | [] => []
  | b :: t => (off, b) :: enum_from (off + 1) t
  end.

(* byte-string equality (Go == on strings) *)
Fixpoint bytes_eqb (a b : list Z) : bool :=
  match a, b with
  | [], [] => true
  | x :: a', y :: b' => (x =? y) && bytes_eqb a' b'
  | _, _ => false
  end.
