(* Executable model of /repo/ean/encoder.go (calcCheckNum, encodeEAN8,
   encodeEAN13, EncodeWithColor) with utils/runeint.go and utils/base1dcode.go.
   No proofs here.

   Strings are byte lists; `for cpos, r := range code` is utf8_range (byte
   offsets + decoded runes, Utf8RangeM); len(code) is the BYTE length;
   code[0:len-1] and code[len-1] are byte operations; string(rune) is
   utf8_encode_rune.  The *utils.BitList result is a list bool (theorem C18);
   a nil *BitList is None.  encoderTable is read from gen/TabEan.v. *)
From Verif Require Import Prelude Barcode Utf8M Utf8RangeM TabEan.

(* encoderTable[r] : (LeftOdd, LeftEven, Right, CheckSum), ok *)
Fixpoint ean_assoc {A} (t : list (Z * A)) (r : Z) : option A :=
  match t with
  | [] => None
  | (k, v) :: t' => if k =? r then Some v else ean_assoc t' r
  end.

Definition ean_lookup (r : Z) : option (list bool * list bool * list bool * list bool) :=
  ean_assoc ean_encoder_table r.

(* calcCheckNum: the loop over the runes of code; 66 = 'B' *)
Fixpoint calc_check_loop (rs : list Z) (x3 : bool) (sum : Z) : Z :=
  match rs with
  | [] => int_to_rune (go_mod (10 - go_mod sum 10) 10)
  | r :: t =>
    let curNum := rune_to_int r in
    if (curNum <? 0) || (curNum >? 9) then 66
    else calc_check_loop t (negb x3) (sum + (if x3 then curNum * 3 else curNum))
  end.

Definition calc_check_num (code : list Z) : Z :=
  calc_check_loop (map snd (utf8_range code)) (zlength code =? 7) 0.

Definition ean_guard : list bool := [true; false; true].
Definition ean_centre : list bool := [false; true; false; true; false].

(* encodeEAN8: body of the loop; None = `return nil` *)
Fixpoint ean8_loop (rs : list (Z * Z)) : option (list bool) :=
  match rs with
  | [] => Some []
  | (cpos, r) :: t =>
    match ean_lookup r with
    | None => None
    | Some (lo, le, ri, cs) =>
      let data := if cpos <? 4 then lo else ri in
      match ean8_loop t with
      | None => None
      | Some rest => Some ((if cpos =? 4 then ean_centre else []) ++ data ++ rest)
      end
    end
  end.

Definition encode_ean8 (code : list Z) : option (list bool) :=
  match ean8_loop (utf8_range code) with
  | None => None
  | Some body => Some (ean_guard ++ body ++ ean_guard)
  end.

(* encodeEAN13: firstNum is the CheckSum (parity) row of the first rune; it is a
   nil slice until the iteration with cpos == 0 has run; indexing it out of
   range (or nil) panics. *)
Fixpoint ean13_loop (rs : list (Z * Z)) (firstNum : option (list bool))
  : outcome (option (list bool)) :=
  match rs with
  | [] => Ok (Some [])
  | (cpos, r) :: t =>
    match ean_lookup r with
    | None => Ok None
    | Some (lo, le, ri, cs) =>
      if cpos =? 0 then ean13_loop t (Some cs)
      else
        do data <- (if cpos <? 7 then
                      match firstNum with
                      | None => Panic
                      | Some fnum =>
                        match zget fnum (cpos - 1) with
                        | None => Panic
                        | Some b => Ok (if b then le else lo)
                        end
                      end
                    else Ok ri);
        do rest <- ean13_loop t firstNum;
        match rest with
        | None => Ok None
        | Some bits => Ok (Some ((if cpos =? 7 then ean_centre else []) ++ data ++ bits))
        end
    end
  end.

Definition encode_ean13 (code : list Z) : outcome (option (list bool)) :=
  do body <- ean13_loop (utf8_range code) None;
  match body with
  | None => Ok None
  | Some b => Ok (Some (ean_guard ++ b ++ ean_guard))
  end.

(* EncodeWithColor / Encode, first half: complete or validate the check digit.
   Result: the (possibly extended) code and the local variable checkSum. *)
Definition ean_prepare (code : list Z) : outcome (list Z * Z) :=
  let n := zlength code in
  if (n =? 7) || (n =? 12) then
    let check := calc_check_num code in
    Ok (code ++ utf8_encode_rune check, rune_to_int check)
  else if (n =? 8) || (n =? 13) then
    let check0 := firstn (Z.to_nat (n - 1)) code in                      (* code[0 : len(code)-1] *)
    let check := check0 ++ utf8_encode_rune (calc_check_num check0) in
    if negb (bytes_eqb check code) then Err                               (* checksum missmatch *)
    else match zget code (n - 1) with                                     (* rune(code[len(code)-1]) *)
         | None => Panic
         | Some c => Ok (code, rune_to_int c)
         end
  else Ok (code, 0).

(* second half: dispatch on the byte length of the completed code *)
Definition ean_finish (code1 : list Z) (checkSum : Z) : outcome barcode :=
  let n1 := zlength code1 in
  if n1 =? 8 then
    match encode_ean8 code1 with
    | Some bits => Ok (mk1d KEAN8 code1 (Some checkSum) bits)
    | None => Err                                                         (* invalid ean code data *)
    end
  else if n1 =? 13 then
    do res <- encode_ean13 code1;
    match res with
    | Some bits => Ok (mk1d KEAN13 code1 (Some checkSum) bits)
    | None => Err
    end
  else Err.

Definition ean_encode (code : list Z) : outcome barcode :=
  do (code1, checkSum) <- ean_prepare code;
  ean_finish code1 checkSum.
