(* Executable model of the mask selection of /repo/qr:
     qrcode.go   (calcPenalty, calcPenaltyRule1 .. calcPenaltyRule4)
     encoder.go  (the last loop of render: lowest calcPenalty(), first one wins ties)
   No proofs here (proofs/QRPenaltyP.v).

   Representation.  qr.Get(x, y) reads data[x*dimension+y]; QRMRender.rows_of m is the
   list over y of the list over x of Get(x, y).  The rules are written on such a row
   list `rows` (rows[y][x] = Get(x, y)) and on its transpose `cols` = transpose_rows rows
   (cols[x][y] = Get(x, y)), computed once; all scans are structural recursion over the
   lines, no indexing.

   Go's `uint` results: every rule value of a symbol of at most 177 x 177 modules is
   far below 2^32 (theorems penalty_bound / calc_penalty_bound of proofs/QRPenaltyP.v: the sum
   is at most 85*dim^2 + 100 <= 2 663 065), so neither 32- nor 64-bit uint arithmetic wraps
   and exact integers (Z) agree with it.  The order in which the Go loops add their terms to `result` is
   irrelevant for a sum; the model adds line by line. *)
From Verif Require Import Prelude Barcode TabQr QRMBits QRMBlocks QRMRender QRM.

(* ---------- transpose (once per symbol; proofs/QRPenaltyP.v transpose_rows_nth) ---------- *)
(* cons the elements of r onto the heads of acc; an exhausted acc starts new lines *)
Fixpoint cons_columns (r : list bool) (acc : list (list bool)) : list (list bool) :=
  match r with
  | [] => []
  | b :: r' =>
    match acc with
    | [] => [b] :: cons_columns r' []
    | c :: acc' => (b :: c) :: cons_columns r' acc'
    end
  end.

Fixpoint transpose_rows (rows : list (list bool)) : list (list bool) :=
  match rows with
  | [] => []
  | r :: t => cons_columns r (transpose_rows t)
  end.

Fixpoint zsum (l : list Z) : Z :=
  match l with
  | [] => 0
  | a :: t => a + zsum t
  end.

(* ---------- calcPenaltyRule1 ---------- *)
(* `if cnt >= 5 { result += cnt - 2 }` *)
Definition run_score (cnt : Z) : Z := if cnt >=? 5 then cnt - 2 else 0.

(* the inner loop over one line for one of the two (checkFor, cnt) pairs, and the
   `if cnt >= 5` after the loop; returns what is added to result *)
Fixpoint run_penalty (checkFor : bool) (cnt : Z) (line : list bool) : Z :=
  match line with
  | [] => run_score cnt
  | v :: t =>
    if Bool.eqb v checkFor then run_penalty checkFor (cnt + 1) t
    else run_score cnt + run_penalty (negb checkFor) 1 t
  end.

(* each outer iteration x starts with checkForX = checkForY = false, cntX = cntY = 0;
   the X pair follows Get(x, y) over y (line x of cols), the Y pair follows Get(y, x)
   over y (line x of rows) *)
Definition penalty_rule1 (rows cols : list (list bool)) : Z :=
  zsum (map (run_penalty false 0) cols) + zsum (map (run_penalty false 0) rows).

(* ---------- calcPenaltyRule2 ---------- *)
(* lines x and x+1: for every y with y+1 in range, check = a[y];
   a[y+1] == check && b[y] == check && b[y+1] == check *)
Fixpoint rule2_pair (a b : list bool) : Z :=
  match a, b with
  | a0 :: ta, b0 :: tb =>
    match ta, tb with
    | a1 :: _, b1 :: _ =>
      (if Bool.eqb a1 a0 && Bool.eqb b0 a0 && Bool.eqb b1 a0 then 3 else 0) + rule2_pair ta tb
    | _, _ => 0
    end
  | _, _ => 0
  end.

(* x from 0 to dimension-2 *)
Fixpoint penalty_rule2 (cols : list (list bool)) : Z :=
  match cols with
  | [] => 0
  | a :: t =>
    match t with
    | [] => 0
    | b :: _ => rule2_pair a b + penalty_rule2 t
    end
  end.

(* ---------- calcPenaltyRule3 ---------- *)
Definition pattern1 : list bool :=
  [true; false; true; true; true; false; true; false; false; false; false].
Definition pattern2 : list bool :=
  [false; false; false; false; true; false; true; true; true; false; true].

(* patternFound after the loop over i: every one of the len(pattern) cells equal;
   false when fewer than len(pattern) cells are left (the Go loop bound
   x <= dimension - len(pattern1) never starts such a window) *)
Fixpoint prefix_is (pat l : list bool) : bool :=
  match pat with
  | [] => true
  | p :: pt =>
    match l with
    | [] => false
    | b :: lt => Bool.eqb b p && prefix_is pt lt
    end
  end.

(* one line, all window starts x = 0 .. len - 11: 40 if pattern1 or pattern2 is there *)
Fixpoint rule3_line (l : list bool) : Z :=
  match l with
  | [] => 0
  | _ :: t => (if prefix_is pattern1 l || prefix_is pattern2 l then 40 else 0) + rule3_line t
  end.

(* for x <= dim-11, y < dim: the X flags read Get(x+i, y), a window of row y; the Y
   flags read Get(y, x+i), a window of column line y; same bounds for both *)
Definition penalty_rule3 (rows cols : list (list bool)) : Z :=
  zsum (map rule3_line rows) + zsum (map rule3_line cols).

(* ---------- calcPenaltyRule4 ---------- *)
Fixpoint count_true (l : list bool) : Z :=
  match l with
  | [] => 0
  | b :: t => (if b then 1 else 0) + count_true t
  end.

(* percDark/5 = (trueCnt*100/totalNum)/5 = 20*trueCnt/totalNum; floor and ceil of it,
   min(|floor-10|, |ceil-10|) * 10.
   Exact arithmetic agrees with the float64 computation: trueCnt*100 <= 3 132 900 is
   exact; if 20*trueCnt/totalNum is an integer k then trueCnt*100/totalNum = 5k is an
   integer, the correctly rounded division returns it exactly and 5k/5 = k exactly, so
   Floor = Ceil = k.  Otherwise the exact quotient is at least 1/totalNum >= 1/177^2 >
   3.1e-5 away from every integer, while the two roundings change a value below 20.0001
   by less than 1e-14: the computed percDark/5 lies strictly between the same two
   integers, Floor and Ceil are those of the exact quotient.  |.-10| <= 10 and *10 are
   exact, uint() of an integral float in 0..100 is that integer.
   (totalNum = dimension^2 = 0 would make percDark NaN; dimension >= 21 for every
   symbol.  Z division by 0 yields 0 here; never used.) *)
Definition penalty_rule4 (rows : list (list bool)) : Z :=
  let total := zlength rows * zlength rows in
  let dark := zsum (map count_true rows) in
  let fl := (20 * dark) / total in
  let cl := (20 * dark + total - 1) / total in
  Z.min (Z.abs (fl - 10)) (Z.abs (cl - 10)) * 10.

(* ---------- calcPenalty ---------- *)
Definition penalty_rules (rows : list (list bool)) : Z * Z * Z * Z :=
  let cols := transpose_rows rows in
  (penalty_rule1 rows cols, penalty_rule2 cols, penalty_rule3 rows cols, penalty_rule4 rows).

Definition penalty_rows (rows : list (list bool)) : Z :=
  let '(r1, r2, r3, r4) := penalty_rules rows in r1 + r2 + r3 + r4.

Definition calc_penalty (m : qrmat) : Z := penalty_rows (rows_of m).

(* ---------- encoder.go: render, the selection loop ---------- *)
(* lowestPenalty := ^uint(0); lowestPenaltyIdx := -1
   for i { p := results[i].calcPenalty(); if p < lowestPenalty { lowestPenalty = p; lowestPenaltyIdx = i } }
   `None` stands for ^uint(0): every penalty is below it (see the header), so the first
   candidate is always taken. *)
Fixpoint choose_loop (ps : list Z) (i : Z) (lowest : option Z) (idx : Z) : Z :=
  match ps with
  | [] => idx
  | p :: t =>
    if match lowest with None => true | Some lo => p <? lo end
    then choose_loop t (i + 1) (Some p) i
    else choose_loop t (i + 1) lowest idx
  end.

Definition choose_index (ps : list Z) : Z := choose_loop ps 0 None (-1).

(* index of the first candidate with the strictly lowest penalty; -1 for no candidates *)
Definition choose_mask (cands : list qrmat) : Z := choose_index (map calc_penalty cands).

(* ---------- render with the selection; Encode ---------- *)
(* results[0..7]: the same render_on calls as QRM.qr_encode_all *)
Definition qr_render_all (content : list Z) (level mode : Z) : outcome (list qrmat) :=
  do (data, vi) <- qr_encode_data content level mode;
  do base <- base_matrix (vi_version vi);
  do order <- iterate_modules (fst base);
  oseq (map (fun mask => render_on base order data vi mask) [0; 1; 2; 3; 4; 5; 6; 7]).

(* return results[lowestPenaltyIdx]: an index outside the slice panics *)
Definition qr_encode_auto (content : list Z) (level mode : Z) : outcome barcode :=
  do ms <- qr_render_all content level mode;
  match zget ms (choose_mask ms) with
  | Some m => Ok (qr_barcode content m)
  | None => Panic
  end.

(* the index render selects, for the correspondence run *)
Definition qr_chosen_mask (content : list Z) (level mode : Z) : outcome Z :=
  do ms <- qr_render_all content level mode; Ok (choose_mask ms).
