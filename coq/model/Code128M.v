(* Executable model of /repo/code128/encode.go (+ utils/base1dcode.go constructors).
   No proofs here.  Tables, table strings and symbol constants come from
   gen/TabCode128.v (regenerated from the source on every run).

   Representation: content string = list of bytes; []rune = list Z; the
   utils.BitList that getCodeIndexList fills with AddByte and Encode reads back
   with GetBytes is a list of byte values (justified by theorem C18); the result
   BitList is a list bool. *)
From Verif Require Import Prelude Barcode Utf8M TabCode128.

(* ---------- strToRunes ----------
   `for _, r := range str` visits the runes of model/Utf8M.v utf8_decode (an
   invalid or truncated sequence yields U+FFFD and consumes ONE byte).
   make([]rune, utf8.RuneCountInString(str)) has exactly one slot per range
   iteration (RuneCountInString counts an invalid byte as one rune of width 1
   as well), so result[i] = r never indexes out of range. *)
Definition c128_str_to_runes (content : list Z) : list Z := utf8_decode content.

(* ---------- strings.ContainsRune / strings.IndexRune on the table strings ----------
   The table strings are pure ASCII (theorem c128_tables_ascii), so the byte
   index IndexRune returns is the rune index, and a rune >= 128 (searched for
   by its multi-byte UTF-8 encoding) or RuneError is never found; searching
   the byte list for the value r is then exactly what Go computes. *)
Fixpoint c128_index_from (tbl : list Z) (r : Z) (i : Z) : Z :=
  match tbl with
  | [] => -1
  | c :: t => if c =? r then i else c128_index_from t r (i + 1)
  end.
Definition c128_index_rune (tbl : list Z) (r : Z) : Z := c128_index_from tbl r 0.
Definition c128_contains_rune (tbl : list Z) (r : Z) : bool := c128_index_rune tbl r >=? 0.

Definition c128_is_fnc (r : Z) : bool :=
  (r =? c128_FNC1) || (r =? c128_FNC2) || (r =? c128_FNC3) || (r =? c128_FNC4).

(* tableContainsRune *)
Definition c128_table_contains (tbl : list Z) (r : Z) : bool :=
  c128_contains_rune tbl r || c128_is_fnc r.

(* ---------- shouldUseCTable ----------
   the loop `for i := 0; i < requiredDigits; i++` with l = nextRunes[i:],
   len = len(nextRunes); nextRunes[i] out of range is a Panic. *)
Fixpoint c128_suc_loop (l : list Z) (i req len : Z) : outcome bool :=
  if i <? req then
    match l with
    | [] => Panic
    | r :: t =>
      if (go_mod i 2 =? 0) && (r =? c128_FNC1) then
        let req' := req + 1 in
        if len <? req' then Ok false else c128_suc_loop t (i + 1) req' len
      else if (r <? 48) || (r >? 57) then Ok false
      else c128_suc_loop t (i + 1) req len
    end
  else Ok true.

Definition c128_should_use_c (next : list Z) (cur : Z) : outcome bool :=
  let req := if cur =? c128_startC then 2 else 4 in
  let len := zlength next in
  if len <? req then Ok false else c128_suc_loop next 0 req len.

(* ---------- shouldUseATable ---------- *)
(* for _, r := range nextRunes { if in abTable continue; if in aOnlyTable return true; break } *)
Fixpoint c128_sua_loop (l : list Z) : bool :=
  match l with
  | [] => false
  | r :: t =>
    if c128_table_contains c128_abTable r then c128_sua_loop t
    else c128_contains_rune c128_aOnlyTable r
  end.

Definition c128_should_use_a (next : list Z) (cur : Z) : outcome bool :=
  match next with
  | [] => Panic                               (* nextRunes[0] *)
  | r :: _ =>
    if negb (c128_table_contains c128_bTable r) || (cur =? c128_startA)
    then Ok (c128_table_contains c128_aTable r)
    else if cur =? 0 then Ok (c128_sua_loop next)
    else Ok false
  end.

(* byte(x) conversion: low 8 bits *)
Definition c128_byte (x : Z) : Z := x mod 256.

(* symbols added when the code set changes to `target` *)
Definition c128_switch (cur target code : Z) : list Z :=
  if cur =? target then [] else if cur =? 0 then [target] else [code].

(* the `switch content[i]` of the A and B branches; fnc4 is 101 in A, 100 in B *)
Definition c128_ab_index (tbl : list Z) (fnc4 : Z) (r : Z) : Z :=
  if r =? c128_FNC1 then 102
  else if r =? c128_FNC2 then 97
  else if r =? c128_FNC3 then 96
  else if r =? c128_FNC4 then fnc4
  else c128_index_rune tbl r.

(* ---------- getCodeIndexList ----------
   l = content[i:], cur = curEncoding.  Result: Ok None = nil (some rune is in
   no table), Ok (Some vals) = the bytes added to the BitList from here on.
   The C branch reads content[i] and, unless it is FNC1, content[i+1]
   (after i++) -- out of range is a Panic. *)
Fixpoint c128_index_list (l : list Z) (cur : Z) : outcome (option (list Z)) :=
  match l with
  | [] => Ok (Some [])
  | r :: t =>
    do useC <- c128_should_use_c l cur;
    if useC then
      let pre := c128_switch cur c128_startC c128_codeC in
      if r =? c128_FNC1 then
        do rest <- c128_index_list t c128_startC;
        Ok (option_map (fun vs => pre ++ 102 :: vs) rest)
      else
        match t with
        | [] => Panic
        | r2 :: t2 =>
          let idx := (r - 48) * 10 + (r2 - 48) in
          do rest <- c128_index_list t2 c128_startC;
          Ok (option_map (fun vs => pre ++ c128_byte idx :: vs) rest)
        end
    else
      do useA <- c128_should_use_a l cur;
      if useA then
        let pre := c128_switch cur c128_startA c128_codeA in
        let idx := c128_ab_index c128_aTable 101 r in
        if idx <? 0 then Ok None else
        do rest <- c128_index_list t c128_startA;
        Ok (option_map (fun vs => pre ++ c128_byte idx :: vs) rest)
      else
        let pre := c128_switch cur c128_startB c128_codeB in
        let idx := c128_ab_index c128_bTable 100 r in
        if idx <? 0 then Ok None else
        do rest <- c128_index_list t c128_startB;
        Ok (option_map (fun vs => pre ++ c128_byte idx :: vs) rest)
  end.

Definition c128_get_code_index_list (content : list Z) : outcome (option (list Z)) :=
  c128_index_list content 0.

(* ---------- EncodeWithColor: the loop over idxList.GetBytes() ----------
   for i, idx := range ... { if i == 0 { sum = idx } else { sum += i*idx };
                             result.AddBit(encodingTable[idx]...) }
   encodingTable is a [107] array indexed by a byte: out of range is a Panic. *)
Fixpoint c128_cs_loop (idxs : list Z) (i sum : Z) : outcome (list bool * Z) :=
  match idxs with
  | [] => Ok ([], sum)
  | idx :: t =>
    let sum' := if i =? 0 then idx else sum + i * idx in
    match zget c128_encoding_table idx with
    | None => Panic
    | Some p =>
      do (bits, s) <- c128_cs_loop t (i + 1) sum';
      Ok (p ++ bits, s)
    end
  end.

(* EncodeWithoutChecksumWithColor: for _, idx := range ... { AddBit(encodingTable[idx]...) } *)
Fixpoint c128_plain_loop (idxs : list Z) : outcome (list bool) :=
  match idxs with
  | [] => Ok []
  | idx :: t =>
    match zget c128_encoding_table idx with
    | None => Panic
    | Some p => do bits <- c128_plain_loop t; Ok (p ++ bits)
    end
  end.

Definition c128_pattern (v : Z) : outcome (list bool) :=
  match zget c128_encoding_table v with
  | None => Panic
  | Some p => Ok p
  end.

(* Encode / EncodeWithColor (the colour scheme does not influence modules) *)
Definition c128_encode (content : list Z) : outcome barcode :=
  let runes := c128_str_to_runes content in
  let n := zlength runes in
  if (n <=? 0) || (n >? 80) then Err else
  do ol <- c128_get_code_index_list runes;
  match ol with
  | None => Err
  | Some idxs =>
    do (bits, sum0) <- c128_cs_loop idxs 0 0;
    let sum := go_mod sum0 103 in
    do pc <- c128_pattern sum;
    do ps <- c128_pattern c128_stop;
    Ok (mk1d KCode128 content (Some sum) (bits ++ pc ++ ps))
  end.

(* EncodeWithoutChecksum / EncodeWithoutChecksumWithColor: a plain base1DCode
   (no CheckSum method) *)
Definition c128_encode_nocs (content : list Z) : outcome barcode :=
  let runes := c128_str_to_runes content in
  let n := zlength runes in
  if (n <=? 0) || (n >? 80) then Err else
  do ol <- c128_get_code_index_list runes;
  match ol with
  | None => Err
  | Some idxs =>
    do bits <- c128_plain_loop idxs;
    do ps <- c128_pattern c128_stop;
    Ok (mk1d KCode128 content None (bits ++ ps))
  end.
