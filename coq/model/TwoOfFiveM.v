(* Executable model of /repo/twooffive/encoder.go (AddCheckSum, EncodeWithColor)
   with utils/runeint.go.  No proofs here.

   Strings are byte lists; `for _, r := range content` visits utf8_decode content
   (Utf8M); len(content) is the BYTE length.  encodingTable, modes,
   nonInterleavedSpace and patternWidth are read from gen/TabTwoOfFive.v; a
   missing map key gives the zero value / ok=false.  The BitList is a list bool
   (theorem C18).  Sums stay far below 2^63 (27 per character). *)
From Verif Require Import Prelude Barcode Utf8M Utf8RangeM TabTwoOfFive.

Fixpoint tof_assoc {A} (t : list (Z * A)) (r : Z) : option A :=
  match t with
  | [] => None
  | (k, v) :: t' => if k =? r then Some v else tof_assoc t' r
  end.

(* encodingTable[r] : pattern, ok *)
Definition tof_lookup (r : Z) : option (list bool) := tof_assoc tof_encoding_table r.

Fixpoint tof_assoc_bool {A} (t : list (bool * A)) (k : bool) : option A :=
  match t with
  | [] => None
  | (k', v) :: t' => if Bool.eqb k' k then Some v else tof_assoc_bool t' k
  end.

(* modes[interleaved]; a missing key would give the zero encodeInfo *)
Definition tof_mode (interleaved : bool) : list bool * list bool * list (bool * Z) :=
  match tof_assoc_bool tof_modes interleaved with
  | Some m => m
  | None => ([], [], [])
  end.

(* mode.widths[b]; 0 for a missing key *)
Definition tof_width (widths : list (bool * Z)) (b : bool) : Z :=
  match tof_assoc_bool widths b with
  | Some w => w
  | None => 0
  end.

(* for i := 0; i < patternWidth; i++ { widths[a[i]] bars; widths[b[i]] spaces }
   a and b are arrays of patternWidth flags (the table rows have that length) *)
Fixpoint tof_draw (widths : list (bool * Z)) (a b : list bool) : list bool :=
  match a, b with
  | ai :: a', bi :: b' =>
    repeat true (Z.to_nat (tof_width widths ai))
    ++ repeat false (Z.to_nat (tof_width widths bi))
    ++ tof_draw widths a' b'
  | _, _ => []
  end.

(* the loop of EncodeWithColor over the runes; lastRune is the pending rune of
   an interleaved pair.  Result: the modules added and the final lastRune. *)
Fixpoint tof_loop (interleaved : bool) (widths : list (bool * Z)) (rs : list Z)
                  (lastRune : option Z) : outcome (list bool * option Z) :=
  match rs with
  | [] => Ok ([], lastRune)
  | r :: t =>
    if interleaved then
      match lastRune with
      | None => tof_loop interleaved widths t (Some r)          (* remember, continue *)
      | Some l =>
        match tof_lookup l, tof_lookup r with
        | Some a, Some b =>
          do (rest, lst) <- tof_loop interleaved widths t None;
          Ok (tof_draw widths a b ++ rest, lst)
        | _, _ => Err
        end
      end
    else
      match tof_lookup r with
      | Some a =>
        do (rest, lst) <- tof_loop interleaved widths t lastRune;
        Ok (tof_draw widths a tof_non_interleaved_space ++ rest, lst)
      | None => Err
      end
  end.

(* EncodeWithColor / Encode.  After the loop a pending rune (interleaved mode, odd
   number of runes) is an error: `if lastRune != nil { return nil, error }`
   (fix commit 63bda0c). *)
Definition tof_encode (content : list Z) (interleaved : bool) : outcome barcode :=
  if bytes_eqb content [] then Err else
  if interleaved && (go_mod (zlength content) 2 =? 1) then Err else
  let '(start, stop, widths) := tof_mode interleaved in
  do (body, lst) <- tof_loop interleaved widths (utf8_decode content) None;
  match lst with
  | Some _ => Err
  | None => Ok (mk1d (if interleaved then K2of5I else K2of5) content None (start ++ body ++ stop))
  end.

(* AddCheckSum *)
Fixpoint tof_cs_loop (rs : list Z) (even : bool) (sum : Z) : option Z :=
  match rs with
  | [] => Some sum
  | r :: t =>
    match tof_lookup r with
    | Some _ =>
      let value := rune_to_int r in
      tof_cs_loop t (negb even) (if even then sum + value * 3 else sum + value)
    | None => None
    end
  end.

Definition tof_add_checksum (content : list Z) : outcome (list Z) :=
  if bytes_eqb content [] then Err else
  match tof_cs_loop (utf8_decode content) (go_mod (zlength content) 2 =? 1) 0 with
  | None => Err
  | Some sum => Ok (content ++ utf8_encode_rune (int_to_rune (go_mod (10 - go_mod sum 10) 10)))
  end.
