(* Models for C15 (purity).  No proofs here.

   (i)  The only mutable state shared between encode calls are the generator
        caches of the two package-level Reed-Solomon encoders (qr.ec, datamatrix.ec;
        structural facts from gosync, see ConcM.facts_good).  The library is
        modelled as a state machine over these two caches; an encode call is the
        list of Reed-Solomon requests it performs (one per block), everything else
        an encoder does is a pure function of its arguments and of these results.
   (ii) A small heap model for the one kind of entry point that receives caller
        memory ([]byte): aztec.Encode / EncodeWithColor. *)
From Coq Require Import String.
From Verif Require Import Prelude GFM TabSync ConcM.
Import List ListNotations.
Notation length := List.length.

(* ---------- (i) library state machine ---------- *)
Record libstate := { ls_qr : rs_cache; ls_dm : rs_cache }.

Definition lib_init : libstate := {| ls_qr := rs_init; ls_dm := rs_init |}.

Inductive libop :=
| LQR (reqs : list (list Z * Z))    (* qr.Encode: calcECC once per block, in block order *)
| LDM (reqs : list (list Z * Z))    (* datamatrix.Encode: calcECC once per block *)
| LOther.                           (* every other encoder and Scale: no shared state
                                       (aztec builds a fresh encoder inside each call) *)

(* run a list of requests against one encoder, threading its cache *)
Fixpoint rs_requests (f : gfield) (cache : rs_cache) (reqs : list (list Z * Z))
  : outcome (rs_cache * list (list Z)) :=
  match reqs with
  | [] => Ok (cache, [])
  | (d, k) :: t =>
    do (c1, ecc) <- rs_encode f cache d k;
    do (c2, rest) <- rs_requests f c1 t;
    Ok (c2, ecc :: rest)
  end.

(* the same requests, each answered by a brand-new encoder *)
Fixpoint rs_requests_fresh (f : gfield) (reqs : list (list Z * Z)) : outcome (list (list Z)) :=
  match reqs with
  | [] => Ok []
  | (d, k) :: t =>
    do ecc <- rs_encode_fresh f d k;
    do rest <- rs_requests_fresh f t;
    Ok (ecc :: rest)
  end.

Definition lib_step (fq fd : gfield) (s : libstate) (op : libop) : outcome (libstate * list (list Z)) :=
  match op with
  | LQR reqs => do (c, r) <- rs_requests fq (ls_qr s) reqs; Ok ({| ls_qr := c; ls_dm := ls_dm s |}, r)
  | LDM reqs => do (c, r) <- rs_requests fd (ls_dm s) reqs; Ok ({| ls_qr := ls_qr s; ls_dm := c |}, r)
  | LOther => Ok (s, [])
  end.

Fixpoint lib_run (fq fd : gfield) (s : libstate) (ops : list libop) : outcome libstate :=
  match ops with
  | [] => Ok s
  | o :: t => do (s1, _) <- lib_step fq fd s o; lib_run fq fd s1 t
  end.

(* what the same call returns in a freshly started process *)
Definition lib_fresh (fq fd : gfield) (op : libop) : outcome (list (list Z)) :=
  match op with
  | LQR reqs => rs_requests_fresh fq reqs
  | LDM reqs => rs_requests_fresh fd reqs
  | LOther => Ok []
  end.

(* ---------- (ii) caller memory ---------- *)
(* heap: buffers by address; a barcode object remembers either a private copy
   of the payload or the address it was given, depending on what the source does
   (structural fact: is a slice-typed parameter stored into a struct field?) *)
Definition heap := list (list Z).

Inductive content_ref :=
| CCopy (v : list Z)
| CAlias (addr : nat).

Record az_obj := { ao_content : content_ref; ao_pixels : list (list bool) }.

Record hstate := { hs_heap : heap; hs_objs : list az_obj }.

Inductive hop :=
| HEncode (addr : nat)                 (* bc := aztec.Encode(buf[addr], ...) *)
| HMutate (addr : nat) (i : nat) (b : Z) (* buf[addr][i] = b *)
| HContent (k : nat)                   (* objs[k].Content() *)
| HPixels (k : nat).                   (* all pixels of objs[k] *)

Inductive hout :=
| HONone
| HOBytes (v : list Z)
| HOPix (p : list (list bool))
| HOBad.   (* address / object does not exist, or the encoder rejected the payload *)

Section Heap.
(* the encoder proper: a pure function from payload to pixels (None = error) *)
Variable enc : list Z -> option (list (list bool)).
(* does the implementation keep the caller's slice? (from the structural facts) *)
Variable retains : bool.

Definition hstep (s : hstate) (o : hop) : hstate * hout :=
  match o with
  | HEncode a =>
    match nth_error (hs_heap s) a with
    | None => (s, HOBad)
    | Some buf =>
      match enc buf with
      | None => (s, HOBad)
      | Some px =>
        ({| hs_heap := hs_heap s;
            hs_objs := hs_objs s ++ [{| ao_content := if retains then CAlias a else CCopy buf;
                                        ao_pixels := px |}] |}, HONone)
      end
    end
  | HMutate a i b =>
    match nth_error (hs_heap s) a with
    | None => (s, HOBad)
    | Some buf => ({| hs_heap := set_nth (hs_heap s) a (set_nth buf i b); hs_objs := hs_objs s |}, HONone)
    end
  | HContent k =>
    match nth_error (hs_objs s) k with
    | None => (s, HOBad)
    | Some o =>
      match ao_content o with
      | CCopy v => (s, HOBytes v)
      | CAlias a => (s, match nth_error (hs_heap s) a with Some v => HOBytes v | None => HOBad end)
      end
    end
  | HPixels k =>
    match nth_error (hs_objs s) k with
    | None => (s, HOBad)
    | Some o => (s, HOPix (ao_pixels o))
    end
  end.

Fixpoint hrun (s : hstate) (ops : list hop) : hstate * list hout :=
  match ops with
  | [] => (s, [])
  | o :: t => let '(s1, out) := hstep s o in let '(s2, outs) := hrun s1 t in (s2, out :: outs)
  end.

(* the snapshot specification: every object is what it was when it was made *)
Record snap := { sn_content : list Z; sn_pixels : list (list bool) }.

Definition sstep (h : heap) (objs : list snap) (o : hop) : heap * list snap * hout :=
  match o with
  | HEncode a =>
    match nth_error h a with
    | None => (h, objs, HOBad)
    | Some buf =>
      match enc buf with
      | None => (h, objs, HOBad)
      | Some px => (h, objs ++ [{| sn_content := buf; sn_pixels := px |}], HONone)
      end
    end
  | HMutate a i b =>
    match nth_error h a with
    | None => (h, objs, HOBad)
    | Some buf => (set_nth h a (set_nth buf i b), objs, HONone)
    end
  | HContent k =>
    match nth_error objs k with None => (h, objs, HOBad) | Some o => (h, objs, HOBytes (sn_content o)) end
  | HPixels k =>
    match nth_error objs k with None => (h, objs, HOBad) | Some o => (h, objs, HOPix (sn_pixels o)) end
  end.

Fixpoint srun (h : heap) (objs : list snap) (ops : list hop) : heap * list snap * list hout :=
  match ops with
  | [] => (h, objs, [])
  | o :: t =>
    let '(h1, o1, out) := sstep h objs o in
    let '(h2, o2, outs) := srun h1 o1 t in (h2, o2, out :: outs)
  end.
End Heap.

Definition retains_from_source : bool :=
  match sync_slice_params_retained with [] => false | _ => true end.
Definition writes_params_from_source : bool :=
  match sync_slice_params_written with [] => false | _ => true end.
(* append on a slice parameter (which may write behind the argument into the caller's array) never
   happens on a slice that can come from a caller of the library: every function that appends to a
   parameter (gosync lists them in sync_slice_params_appended) only ever receives slices the library
   itself allocated (gosync follows the actual arguments of all call sites back to exported functions) *)
Definition appends_only_internal : bool :=
  match sync_api_slices_appended with [] => true | _ => false end.

(* ---------- (iii) searching a Go map by value ---------- *)
(* code39/code93 getChecksum range over a map (unspecified order) and return the
   first key whose value matches *)
Fixpoint find_by_value (tbl : list (Z * Z)) (v : Z) : option Z :=
  match tbl with
  | [] => None
  | (k, x) :: t => if x =? v then Some k else find_by_value t v
  end.
