(* C14: a barcode produced by an encoder model, seen as a source of Scale *)
From Verif Require Import Prelude Barcode ScaleM.

Definition src_of_bc (bc : barcode) : source bool :=
  {| s_dims := kind_dims (bc_kind bc);
     s_kind := [];
     s_content := bc_content bc;
     s_cmodel := 0;
     s_x0 := 0; s_y0 := 0; s_x1 := bc_width bc; s_y1 := bc_height bc;
     s_px := fun x y => nth (Z.to_nat x) (nth (Z.to_nat y) (bc_rows bc) []) false;
     s_scheme := Some (true, false);
     s_checksum := bc_checksum bc |}.

(* CheckSum() of the barcode and of every stage of a chain of Scale calls with
   default fill; None = that stage failed (too small) *)
Fixpoint checksums_along (s : source bool) (sizes : list (Z * Z)) : list (option (option Z)) :=
  match sizes with
  | [] => []
  | (w, h) :: t =>
    match scale_req false s (w, h, None) with
    | Ok s1 => Some (s_checksum s1) :: checksums_along s1 t
    | _ => [None]
    end
  end.

Definition c14_observe (bc : barcode) (sizes : list (Z * Z)) : option Z * list (option (option Z)) :=
  (bc_checksum bc, checksums_along (src_of_bc bc) sizes).
