(* Executable model of /repo/aztec (highlevel.go, state.go, token.go, encoder.go,
   errorcorrection.go, azteccode.go).  No proofs here.

   Conventions: BitList = list bool (theorem C18); encodingMode = Z with the
   values of the Go iota (0 upper, 1 lower, 2 digit, 3 mixed, 4 punct); tables
   charMap / latchTable / shiftTable / word_size come from gen/TabAztec.v (what
   init() builds in the current source).  Lookups in the generated tables that
   miss return the Go zero value (maps) or 0 (charMap rows; proofs/AztecPTab.v
   shows the rows are complete, so no modelled lookup is out of range).
   The symbol matrix is a set of dark cells keyed x*size+y (azteccode.go stores
   bit x*size+y); a set() outside the matrix is recorded and turns the result
   into Panic (this is stricter than Go, where only an index outside the
   backing array panics; the theorems show it never happens). *)
From Coq Require Import FMapPositive MSetPositive.
From Verif Require Import Prelude Barcode BitListM GFM TabAztec.

(* ------------------------------------------------------------------ *)
(* state.go: modes and tables                                          *)
Definition M_UPPER : Z := 0.
Definition M_LOWER : Z := 1.
Definition M_DIGIT : Z := 2.
Definition M_MIXED : Z := 3.
Definition M_PUNCT : Z := 4.

(* encodingMode.BitCount *)
Definition az_bitcount (m : Z) : Z := if m =? M_DIGIT then 4 else 5.

Fixpoint az_fill_row (t : table) (k : Z) (row : list Z) : table :=
  match row with
  | [] => t
  | v :: r => az_fill_row (tset t k v) (k + 1) r
  end.

(* charMap[mode][ch] as a table keyed mode*256+ch *)
Definition az_cm_table : table := Eval vm_compute in
  fold_left (fun t (e : Z * list Z) => az_fill_row t (fst e * 256) (snd e))
            az_char_map (PositiveMap.empty Z).

Definition az_cm (mode ch : Z) : Z := tget az_cm_table (mode * 256 + ch).

(* latchTable[a][b]; absent = 0 *)
Definition az_latch_tbl : table := Eval vm_compute in
  fold_left (fun t (e : (Z * Z) * Z) => tset t (fst (fst e) * 8 + snd (fst e)) (snd e))
            az_latch_table (PositiveMap.empty Z).

Definition az_latch (a b : Z) : Z := tget az_latch_tbl (a * 8 + b).

(* shiftTable[a][b] with the ok flag *)
Fixpoint az_assoc2 (l : list ((Z * Z) * Z)) (a b : Z) : option Z :=
  match l with
  | [] => None
  | ((x, y), v) :: t => if (x =? a) && (y =? b) then Some v else az_assoc2 t a b
  end.

Definition az_shift (a b : Z) : option Z := az_assoc2 az_shift_table a b.
Definition az_shift_val (a b : Z) : Z := match az_shift a b with Some v => v | None => 0 end.

(* ------------------------------------------------------------------ *)
(* token.go                                                            *)
Inductive token :=
| TSimple (value bitcount : Z)      (* simpleToken{value, bitCount byte} *)
| TShift (start cnt : Z).           (* binaryShiftToken{bShiftStart, bShiftByteCnt} *)

(* binaryShiftToken.appendTo: the loop over i with the header forms; [bytes]
   are text[start+i ..] *)
Fixpoint az_bshift_loop (bytes : list Z) (i cnt : Z) : list bool :=
  match bytes with
  | [] => []
  | b :: r =>
    (if (i =? 0) || ((i =? 31) && (cnt <=? 62)) then
       msb_bits 5 31 ++
       (if cnt >? 62 then msb_bits 16 (cnt - 31)
        else if i =? 0 then (if cnt <? 31 then msb_bits 5 cnt else msb_bits 5 31)
        else msb_bits 5 (cnt - 31))
     else []) ++ msb_bits 8 b ++ az_bshift_loop r (i + 1) cnt
  end.

(* text[bShiftStart+i] for i < cnt: an index outside the text panics *)
Definition az_bshift_bits (text : list Z) (start cnt : Z) : outcome (list bool) :=
  if cnt <=? 0 then Ok [] else
  if (start <? 0) || (zlength text <? start + cnt) then Panic else
  Ok (az_bshift_loop (firstn (Z.to_nat cnt) (skipn (Z.to_nat start) text)) 0 cnt).

Definition az_token_bits (text : list Z) (t : token) : outcome (list bool) :=
  match t with
  | TSimple v c => Ok (msb_bits (Z.to_nat c) v)
  | TShift start cnt => az_bshift_bits text start cnt
  end.

(* toBitList: tokens are linked newest-first; they are appended oldest-first.
   az_tokens_bits text toks acc = bits of (rev toks) ++ acc *)
Fixpoint az_tokens_bits (text : list Z) (toks : list token) (acc : list bool)
  : outcome (list bool) :=
  match toks with
  | [] => Ok acc
  | t :: r => do b <- az_token_bits text t; az_tokens_bits text r (b ++ acc)
  end.

(* ------------------------------------------------------------------ *)
(* state.go: states                                                    *)
Record state := {
  st_mode : Z;
  st_tokens : list token;     (* newest first *)
  st_bshift : Z;              (* bShiftByteCount *)
  st_bits : Z                 (* bitCount *)
}.

Definition az_initial_state : state :=
  {| st_mode := M_UPPER; st_tokens := []; st_bshift := 0; st_bits := 0 |}.

(* latchAndAppend; byte(latch>>16) is the conversion to byte *)
Definition az_latch_and_append (s : state) (mode value : Z) : state :=
  let latch := az_latch (st_mode s) mode in
  let tokens := if mode =? st_mode s then st_tokens s
                else TSimple (Z.land latch 65535) (Z.shiftr latch 16 mod 256) :: st_tokens s in
  let bitCount := if mode =? st_mode s then st_bits s else st_bits s + Z.shiftr latch 16 in
  {| st_mode := mode;
     st_tokens := TSimple value (az_bitcount mode) :: tokens;
     st_bshift := 0;
     st_bits := bitCount + az_bitcount mode |}.

(* shiftAndAppend *)
Definition az_shift_and_append (s : state) (mode value : Z) : state :=
  {| st_mode := st_mode s;
     st_tokens := TSimple value 5
                  :: TSimple (az_shift_val (st_mode s) mode) (az_bitcount (st_mode s))
                  :: st_tokens s;
     st_bshift := 0;
     st_bits := st_bits s + az_bitcount (st_mode s) + 5 |}.

(* endBinaryShift *)
Definition az_end_binary_shift (s : state) (index : Z) : state :=
  if st_bshift s =? 0 then s else
  {| st_mode := st_mode s;
     st_tokens := TShift (index - st_bshift s) (st_bshift s) :: st_tokens s;
     st_bshift := 0;
     st_bits := st_bits s |}.

(* addBinaryShiftChar *)
Definition az_add_binary_shift_char (s : state) (index : Z) : state :=
  let to_upper := (st_mode s =? M_PUNCT) || (st_mode s =? M_DIGIT) in
  let latch := az_latch (st_mode s) M_UPPER in
  let tokens := if to_upper
                then TSimple (Z.land latch 65535) (Z.shiftr latch 16 mod 256) :: st_tokens s
                else st_tokens s in
  let bitCnt := if to_upper then st_bits s + Z.shiftr latch 16 else st_bits s in
  let mode := if to_upper then M_UPPER else st_mode s in
  let delta := if (st_bshift s =? 0) || (st_bshift s =? 31) then 18
               else if st_bshift s =? 62 then 9 else 8 in
  let result := {| st_mode := mode; st_tokens := tokens;
                   st_bshift := st_bshift s + 1; st_bits := bitCnt + delta |} in
  if st_bshift result =? 2047 + 31 then az_end_binary_shift result (index + 1) else result.

(* isBetterThanOrEqualTo *)
Definition az_is_better (this other : state) : bool :=
  let mySize := st_bits this + Z.shiftr (az_latch (st_mode this) (st_mode other)) 16 in
  let mySize' :=
    if (st_bshift other >? 0) &&
       ((st_bshift this =? 0) || (st_bshift this >? st_bshift other))
    then mySize + 10 else mySize in
  mySize' <=? st_bits other.

(* ------------------------------------------------------------------ *)
(* highlevel.go                                                        *)
Definition az_is_some {A} (o : option A) : bool := match o with Some _ => true | None => false end.

(* updateStateForChar(s, data, index) with ch = data[index]; stateNoBinary is
   created lazily in Go, which is not observable *)
Definition az_update_state_for_char (s : state) (ch index : Z) : list state :=
  let inCur := az_cm (st_mode s) ch >? 0 in
  let snb := az_end_binary_shift s index in
  let per_mode (mode : Z) : list state :=
    let cim := az_cm mode ch in
    if cim >? 0 then
      (if negb inCur || (mode =? st_mode s) || (mode =? M_DIGIT)
       then [az_latch_and_append snb mode cim] else [])
      ++ (if negb inCur && az_is_some (az_shift (st_mode s) mode)
          then [az_shift_and_append snb mode cim] else [])
    else [] in
  flat_map per_mode [M_UPPER; M_LOWER; M_DIGIT; M_MIXED; M_PUNCT]
  ++ (if (st_bshift s >? 0) || (az_cm (st_mode s) ch =? 0)
      then [az_add_binary_shift_char s index] else []).

(* updateStateForPair *)
Definition az_update_state_for_pair (s : state) (index pairCode : Z) : list state :=
  let snb := az_end_binary_shift s index in
  [az_latch_and_append snb M_PUNCT pairCode]
  ++ (if negb (st_mode s =? M_PUNCT) then [az_shift_and_append snb M_PUNCT pairCode] else [])
  ++ (if (pairCode =? 3) || (pairCode =? 4)
      then [az_latch_and_append (az_latch_and_append snb M_DIGIT (16 - pairCode)) M_DIGIT 1]
      else [])
  ++ (if st_bshift s >? 0
      then [az_add_binary_shift_char (az_add_binary_shift_char s index) (index + 1)]
      else []).

(* simplifyStates: the inner loop over result, returning (add, newResult) *)
Fixpoint az_simplify_inner (newState : state) (olds : list state) (add : bool)
  : bool * list state :=
  match olds with
  | [] => (add, [])
  | old :: t =>
    let add1 := if add && az_is_better old newState then false else add in
    let keep := negb (add1 && az_is_better newState old) in
    let '(add2, rest) := az_simplify_inner newState t add1 in
    (add2, if keep then old :: rest else rest)
  end.

Fixpoint az_simplify_loop (states result : list state) : list state :=
  match states with
  | [] => result
  | newState :: t =>
    let '(add, newResult) := az_simplify_inner newState result true in
    az_simplify_loop t (if add then newResult ++ [newState] else newResult)
  end.

Definition az_simplify_states (states : list state) : list state :=
  az_simplify_loop states [].

Definition az_update_list_char (states : list state) (ch index : Z) : list state :=
  az_simplify_states (flat_map (fun s => az_update_state_for_char s ch index) states).

Definition az_update_list_pair (states : list state) (index pairCode : Z) : list state :=
  az_simplify_states (flat_map (fun s => az_update_state_for_pair s index pairCode) states).

(* the switch on (cur, nextChar); nextChar = 0 past the end *)
Definition az_pair_code (cur nxt : Z) : Z :=
  if (cur =? 13) && (nxt =? 10) then 2
  else if (cur =? 46) && (nxt =? 32) then 3
  else if (cur =? 44) && (nxt =? 32) then 4
  else if (cur =? 58) && (nxt =? 32) then 5
  else 0.

(* the main loop; [data] is data[index..] *)
Fixpoint az_hl_loop (data : list Z) (index : Z) (states : list state) : list state :=
  match data with
  | [] => states
  | cur :: rest =>
    match rest with
    | nxt :: rest2 =>
      let pc := az_pair_code cur nxt in
      if pc >? 0 then az_hl_loop rest2 (index + 2) (az_update_list_pair states index pc)
      else az_hl_loop rest (index + 1) (az_update_list_char states cur index)
    | [] => az_hl_loop rest (index + 1) (az_update_list_char states cur index)
    end
  end.

(* the final minimum: first state with the strictly smallest bitCount *)
Fixpoint az_min_state (states : list state) (minb : Z) (res : option state) : option state :=
  match states with
  | [] => res
  | s :: t => if st_bits s <? minb then az_min_state t (st_bits s) (Some s)
              else az_min_state t minb res
  end.

Definition az_max_int : Z := 9223372036854775807.

Definition az_to_bit_list (s : state) (text : list Z) : outcome (list bool) :=
  az_tokens_bits text (st_tokens (az_end_binary_shift s (zlength text))) [].

Definition az_highlevel (data : list Z) : outcome (list bool) :=
  match az_min_state (az_hl_loop data 0 [az_initial_state]) az_max_int None with
  | Some s => az_to_bit_list s data
  | None => Ok []
  end.

(* ------------------------------------------------------------------ *)
(* encoder.go                                                          *)
Definition az_total_bits (layers : Z) (compact : bool) : Z :=
  ((if compact then 88 else 112) + 16 * layers) * layers.

(* first n elements of l, missing ones replaced by true (i+j >= n reads as 1) *)
Fixpoint az_take_pad (n : nat) (l : list bool) : list bool :=
  match n with
  | O => []
  | S k => match l with
           | [] => true :: az_take_pad k []
           | b :: t => b :: az_take_pad k t
           end
  end.

(* stuffBits.  [rest] = bits[i..]; [first] = (out.Len() == 0).  The word is kept
   as its wordSize bits, MSB first: word&mask is the first wordSize-1 bits
   followed by 0, so (word&mask)==mask iff they are all 1 and (word&mask)==0 iff
   they are all 0; i-- followed by i += wordSize consumes wordSize-1 bits. *)
Fixpoint az_stuff_loop (fuel : nat) (w : nat) (rest : list bool) (first : bool)
  : outcome (list bool) :=
  match fuel with
  | O => OutOfFuel
  | S f =>
    match rest, first with
    | [], false => Ok []
    | _, _ =>
      let word := az_take_pad w rest in
      let hd := firstn (w - 1) word in
      if forallb (fun b => b) hd then
        do r <- az_stuff_loop f w (skipn (w - 1) rest) false; Ok (hd ++ false :: r)
      else if forallb negb hd then
        do r <- az_stuff_loop f w (skipn (w - 1) rest) false; Ok (hd ++ true :: r)
      else
        do r <- az_stuff_loop f w (skipn w rest) false; Ok (word ++ r)
    end
  end.

Definition az_stuff_bits (bits : list bool) (wordSize : Z) : outcome (list bool) :=
  if wordSize <? 2 then OutOfFuel   (* wordSize 0 or 1 loops forever in Go *)
  else az_stuff_loop (S (S (length bits))) (Z.to_nat wordSize) bits true.

(* ------------------------------------------------------------------ *)
(* errorcorrection.go                                                  *)
Definition az_gf4 : gfield := Eval vm_compute in gf_new 19 16 1.       (* 0x13 *)
Definition az_gf6 : gfield := Eval vm_compute in gf_new 67 64 1.       (* 0x43 *)
Definition az_gf8 : gfield := Eval vm_compute in gf_new 301 256 1.     (* 0x12D *)
Definition az_gf10 : gfield := Eval vm_compute in gf_new 1033 1024 1.  (* 0x409 *)
Definition az_gf12 : gfield := Eval vm_compute in gf_new 4201 4096 1.  (* 0x1069 *)

(* getGF; nil for any other word size *)
Definition az_get_gf (wordSize : Z) : option gfield :=
  if wordSize =? 4 then Some az_gf4
  else if wordSize =? 6 then Some az_gf6
  else if wordSize =? 8 then Some az_gf8
  else if wordSize =? 10 then Some az_gf10
  else if wordSize =? 12 then Some az_gf12
  else None.

Fixpoint az_bits_val (l : list bool) (acc : Z) : Z :=
  match l with
  | [] => acc
  | b :: t => az_bits_val t (2 * acc + (if b then 1 else 0))
  end.

(* bitsToWords: wordCount words of wordSize bits; running off the list is a
   Panic here (Go reads zeros inside the backing array, panics beyond it) *)
Fixpoint az_bits_to_words (n : nat) (w : nat) (bits : list bool) : outcome (list Z) :=
  match n with
  | O => Ok []
  | S m =>
    if Nat.ltb (length (firstn w bits)) w then Panic else
    do r <- az_bits_to_words m w (skipn w bits);
    Ok (az_bits_val (firstn w bits) 0 :: r)
  end.

Fixpoint az_words_bits (w : nat) (words : list Z) : list bool :=
  match words with
  | [] => []
  | x :: t => msb_bits w x ++ az_words_bits w t
  end.

(* generateCheckWords *)
Definition az_generate_check_words (bits : list bool) (totalBits wordSize : Z)
  : outcome (list bool) :=
  match az_get_gf wordSize with
  | None => Panic     (* nil field: division by zero / nil dereference *)
  | Some f =>
    let messageWordCount := go_div (zlength bits) wordSize in
    let totalWordCount := go_div totalBits wordSize in
    let eccWordCount := totalWordCount - messageWordCount in
    do messageWords <- az_bits_to_words (Z.to_nat messageWordCount) (Z.to_nat wordSize) bits;
    do eccWords <- rs_encode_fresh f messageWords eccWordCount;
    let startPad := go_mod totalBits wordSize in
    Ok (msb_bits (Z.to_nat (startPad mod 256)) 0
        ++ az_words_bits (Z.to_nat wordSize) messageWords
        ++ az_words_bits (Z.to_nat wordSize) eccWords)
  end.

(* generateModeMessage *)
Definition az_generate_mode_message (compact : bool) (layers words : Z) : outcome (list bool) :=
  if compact
  then az_generate_check_words (msb_bits 2 (layers - 1) ++ msb_bits 6 (words - 1)) 28 4
  else az_generate_check_words (msb_bits 5 (layers - 1) ++ msb_bits 11 (words - 1)) 40 4.

(* ------------------------------------------------------------------ *)
(* azteccode.go: the matrix                                            *)
Record azmat := {
  am_size : Z;
  am_cells : PositiveSet.t;    (* key x*size+y+1 *)
  am_bad : bool                (* a set() outside the matrix happened *)
}.

Definition az_key (size x y : Z) : positive := Z.to_pos (x * size + y + 1).

Definition az_set (m : azmat) (x y : Z) : azmat :=
  if (0 <=? x) && (x <? am_size m) && (0 <=? y) && (y <? am_size m)
  then {| am_size := am_size m;
          am_cells := PositiveSet.add (az_key (am_size m) x y) (am_cells m);
          am_bad := am_bad m |}
  else {| am_size := am_size m; am_cells := am_cells m; am_bad := true |}.

Definition az_get (m : azmat) (x y : Z) : bool :=
  PositiveSet.mem (az_key (am_size m) x y) (am_cells m).

(* a BitList with random access: the set of indices holding 1, and the length *)
Fixpoint az_bitset_from (l : list bool) (i : positive) (acc : PositiveSet.t) : PositiveSet.t :=
  match l with
  | [] => acc
  | b :: t => az_bitset_from t (Pos.succ i) (if b then PositiveSet.add i acc else acc)
  end.

Record bitarr := { ba_len : Z; ba_set : PositiveSet.t }.
Definition az_bitarr (l : list bool) : bitarr :=
  {| ba_len := zlength l; ba_set := az_bitset_from l 1%positive PositiveSet.empty |}.

(* GetBit(i); None outside [0,len) (Go: zero inside the backing array, panic beyond) *)
Definition az_getbit (a : bitarr) (i : Z) : option bool :=
  if (i <? 0) || (ba_len a <=? i) then None
  else Some (PositiveSet.mem (Z.to_pos (i + 1)) (ba_set a)).

(* run f on start, start+1, ..., n times, concatenating *)
Fixpoint az_zloop {A} (n : nat) (start : Z) (f : Z -> list A) : list A :=
  match n with
  | O => []
  | S m => f start ++ az_zloop m (start + 1) f
  end.

(* alignmentMap, as a table of baseMatrixSize entries; reading outside gives -1,
   which az_set then reports (Go panics on the index) *)
Fixpoint az_amap_fill (n : nat) (i origCenter center : Z) (t : table) : table :=
  match n with
  | O => t
  | S m =>
    let newOffset := i + go_div i 15 in
    let t1 := tset t (origCenter - i - 1) (center - newOffset - 1) in
    let t2 := tset t1 (origCenter + i) (center + newOffset + 1) in
    az_amap_fill m (i + 1) origCenter center t2
  end.

Fixpoint az_amap_id (n : nat) (i : Z) (t : table) : table :=
  match n with
  | O => t
  | S m => az_amap_id m (i + 1) (tset t i i)
  end.

Definition az_base_size (compact : bool) (layers : Z) : Z :=
  if compact then 11 + layers * 4 else 14 + layers * 4.

Definition az_matrix_size (compact : bool) (layers : Z) : Z :=
  let base := az_base_size compact layers in
  if compact then base else base + 1 + 2 * go_div (go_div base 2 - 1) 15.

Definition az_alignment_map (compact : bool) (layers : Z) : table :=
  let base := az_base_size compact layers in
  if compact then az_amap_id (Z.to_nat base) 0 (PositiveMap.empty Z)
  else
    let origCenter := go_div base 2 in
    let center := go_div (az_matrix_size compact layers) 2 in
    az_amap_fill (Z.to_nat origCenter) 0 origCenter center (PositiveMap.empty Z).

Definition az_amap_get (t : table) (base i : Z) : Z :=
  if (0 <=? i) && (i <? base) then tget t i else -1.

(* the data placement loop: (bit index, x, y) in the order of the Go loop *)
Fixpoint az_place_layers (n : nat) (i rowOffset layers base : Z) (compact : bool)
         (am : Z -> Z) : list (Z * Z * Z) :=
  match n with
  | O => []
  | S n' =>
    let rowSize := (layers - i) * 4 + (if compact then 9 else 12) in
    az_zloop (Z.to_nat rowSize) 0 (fun j =>
      let co := j * 2 in
      az_zloop 2 0 (fun k =>
        [ (rowOffset + co + k, am (i * 2 + k), am (i * 2 + j));
          (rowOffset + rowSize * 2 + co + k, am (i * 2 + j), am (base - 1 - i * 2 - k));
          (rowOffset + rowSize * 4 + co + k, am (base - 1 - i * 2 - k), am (base - 1 - i * 2 - j));
          (rowOffset + rowSize * 6 + co + k, am (base - 1 - i * 2 - j), am (i * 2 + k)) ]))
    ++ az_place_layers n' (i + 1) (rowOffset + rowSize * 8) layers base compact am
  end.

Definition az_data_triples (compact : bool) (layers : Z) : list (Z * Z * Z) :=
  let base := az_base_size compact layers in
  let t := az_alignment_map compact layers in
  az_place_layers (Z.to_nat layers) 0 0 layers base compact (az_amap_get t base).

(* drawModeMessage: (bit index, x, y) *)
Definition az_mode_triples (compact : bool) (matrixSize : Z) : list (Z * Z * Z) :=
  let center := go_div matrixSize 2 in
  if compact then
    az_zloop 7 0 (fun i =>
      let offset := center - 3 + i in
      [ (i, offset, center - 5); (i + 7, center + 5, offset);
        (20 - i, offset, center + 5); (27 - i, center - 5, offset) ])
  else
    az_zloop 10 0 (fun i =>
      let offset := center - 5 + i + go_div i 5 in
      [ (i, offset, center - 7); (i + 10, center + 7, offset);
        (29 - i, offset, center + 7); (39 - i, center - 7, offset) ]).

(* if bits.GetBit(idx) { matrix.set(x, y) } over a triple list *)
Definition az_draw_triples (a : bitarr) (ts : list (Z * Z * Z)) (m : azmat) : azmat :=
  fold_left (fun m (t : Z * Z * Z) =>
    let '(idx, x, y) := t in
    match az_getbit a idx with
    | Some true => az_set m x y
    | Some false => m
    | None => {| am_size := am_size m; am_cells := am_cells m; am_bad := true |}
    end) ts m.

Definition az_set_all (cells : list (Z * Z)) (m : azmat) : azmat :=
  fold_left (fun m (c : Z * Z) => az_set m (fst c) (snd c)) cells m.

(* drawBullsEye(matrix, center, size): the cells in the order they are set *)
Fixpoint az_bullseye_rings (n : nat) (i center size : Z) : list (Z * Z) :=
  match n with
  | O => []
  | S m =>
    if i <? size then
      az_zloop (Z.to_nat (2 * i + 1)) (center - i) (fun j =>
        [ (j, center - i); (j, center + i); (center - i, j); (center + i, j) ])
      ++ az_bullseye_rings m (i + 2) center size
    else []
  end.

Definition az_bullseye_cells (center size : Z) : list (Z * Z) :=
  az_bullseye_rings (Z.to_nat size) 0 center size
  ++ [ (center - size, center - size); (center - size + 1, center - size);
       (center - size, center - size + 1); (center + size, center - size);
       (center + size, center - size + 1); (center + size, center + size - 1) ].

(* the reference grid of a full-range symbol:
   for i, j := 0, 0; i <= baseMatrixSize/2-1; i, j = i+15, j+16 {
     for k := (matrixSize/2)&1; k < matrixSize; k += 2 { four sets } } *)
Fixpoint az_grid_k (n : nat) (k matrixSize c j : Z) : list (Z * Z) :=
  match n with
  | O => []
  | S m =>
    if k <? matrixSize then
      [ (c - j, k); (c + j, k); (k, c - j); (k, c + j) ] ++ az_grid_k m (k + 2) matrixSize c j
    else []
  end.

Fixpoint az_grid_lines (n : nat) (i j base matrixSize : Z) : list (Z * Z) :=
  match n with
  | O => []
  | S m =>
    if i <=? go_div base 2 - 1 then
      az_grid_k (Z.to_nat matrixSize) (Z.land (go_div matrixSize 2) 1) matrixSize
                (go_div matrixSize 2) j
      ++ az_grid_lines m (i + 15) (j + 16) base matrixSize
    else []
  end.

Definition az_grid_cells (base matrixSize : Z) : list (Z * Z) :=
  az_grid_lines (Z.to_nat base) 0 0 base matrixSize.

(* the function patterns drawn after the data and the mode message *)
Definition az_function_cells (compact : bool) (layers : Z) : list (Z * Z) :=
  let matrixSize := az_matrix_size compact layers in
  if compact then az_bullseye_cells (go_div matrixSize 2) 5
  else az_bullseye_cells (go_div matrixSize 2) 7
       ++ az_grid_cells (az_base_size compact layers) matrixSize.

(* rows of the image: row y, column x = At(x, y) = bit x*size+y *)
Fixpoint az_row (n : nat) (x : Z) (y : Z) (m : azmat) : list bool :=
  match n with
  | O => []
  | S k => az_get m x y :: az_row k (x + 1) y m
  end.

Fixpoint az_rows (n : nat) (y : Z) (m : azmat) : list (list bool) :=
  match n with
  | O => []
  | S k => az_row (Z.to_nat (am_size m)) 0 y m :: az_rows k (y + 1) m
  end.

(* the configuration chosen: (compact, layers, TotalBitsInLayer, wordSize, stuffedBits) *)
Definition azconfig : Type := bool * Z * Z * Z * list bool.

(* -x on a 64-bit int: the most negative value negates to itself.  (Before the
   fix that added `layers < 0 ||` to the range test, Encode(data, pct, MinInt64)
   indexed word_size with that value and panicked.) *)
Definition az_neg64 (x : Z) : Z := if x =? - 9223372036854775808 then x else - x.

(* user-specified layers *)
Definition az_user_config (bits : list bool) (eccBits userLayers : Z) : outcome azconfig :=
  let compact := userLayers <? 0 in
  let layers := if compact then az_neg64 userLayers else userLayers in
  if (layers <? 0) || (compact && (layers >? az_max_nb_bits_compact))
     || (negb compact && (layers >? az_max_nb_bits))
  then Err else
  let tb := az_total_bits layers compact in
  match zget az_word_size layers with
  | None => Panic
  | Some wordSize =>
    if wordSize =? 0 then Panic else
    let usable := tb - go_mod tb wordSize in
    do stuffed <- az_stuff_bits bits wordSize;
    if zlength stuffed + eccBits >? usable then Err
    else if compact && (zlength stuffed >? wordSize * 64) then Err
    else Ok (compact, layers, tb, wordSize, stuffed)
  end.

(* automatic: for i := 0; ; i++ *)
Fixpoint az_auto_loop (fuel : nat) (i wordSize : Z) (stuffed : list bool)
         (bits : list bool) (eccBits totalSizeBits : Z) : outcome azconfig :=
  match fuel with
  | O => OutOfFuel
  | S f =>
    if i >? az_max_nb_bits then Err else
    let compact := i <=? 3 in
    let layers := if compact then i + 1 else i in
    let tb := az_total_bits layers compact in
    if totalSizeBits >? tb then az_auto_loop f (i + 1) wordSize stuffed bits eccBits totalSizeBits
    else
      match zget az_word_size layers with
      | None => Panic
      | Some ws =>
        do ws_st <- (if negb (wordSize =? ws)
                     then do s <- az_stuff_bits bits ws; Ok (ws, s)
                     else Ok (wordSize, stuffed));
        let '(wordSize', stuffed') := ws_st in
        if wordSize' =? 0 then Panic else
        let usable := tb - go_mod tb wordSize' in
        if compact && (zlength stuffed' >? wordSize' * 64)
        then az_auto_loop f (i + 1) wordSize' stuffed' bits eccBits totalSizeBits
        else if zlength stuffed' + eccBits <=? usable
        then Ok (compact, layers, tb, wordSize', stuffed')
        else az_auto_loop f (i + 1) wordSize' stuffed' bits eccBits totalSizeBits
      end
  end.

Definition az_choose_config (bits : list bool) (pct userLayers : Z) : outcome azconfig :=
  let eccBits := go_div (zlength bits * pct) 100 + 11 in
  let totalSizeBits := zlength bits + eccBits in
  if negb (userLayers =? 0) then az_user_config bits eccBits userLayers
  else az_auto_loop (Z.to_nat (az_max_nb_bits + 2)) 0 0 [] bits eccBits totalSizeBits.

(* everything after the configuration is chosen: the matrix *)
Definition az_draw (compact : bool) (layers : Z) (messageBits modeMessage : list bool) : azmat :=
  let matrixSize := az_matrix_size compact layers in
  let m0 := {| am_size := matrixSize; am_cells := PositiveSet.empty; am_bad := false |} in
  let m1 := az_draw_triples (az_bitarr messageBits) (az_data_triples compact layers) m0 in
  let m2 := az_draw_triples (az_bitarr modeMessage) (az_mode_triples compact matrixSize) m1 in
  az_set_all (az_function_cells compact layers) m2.

Definition az_symbol (cfg : azconfig) : outcome azmat :=
  let '(compact, layers, tb, wordSize, stuffed) := cfg in
  do messageBits <- az_generate_check_words stuffed tb wordSize;
  let messageSizeInWords := go_div (zlength stuffed) wordSize in
  do modeMessage <- az_generate_mode_message compact layers messageSizeInWords;
  let m := az_draw compact layers messageBits modeMessage in
  if am_bad m then Panic else Ok m.

(* EncodeWithColor; the colour scheme is stored and not interpreted *)
Definition az_encode (data : list Z) (pct userLayers : Z) : outcome barcode :=
  do bits <- az_highlevel data;
  do cfg <- az_choose_config bits pct userLayers;
  do m <- az_symbol cfg;
  Ok {| bc_kind := KAztec; bc_content := data; bc_checksum := None;
        bc_width := am_size m; bc_height := am_size m;
        bc_rows := az_rows (Z.to_nat (am_size m)) 0 m |}.
