(* Executable model of /repo/code93/encoder.go (as of the current tree: the check
   characters C and K are added only when includeChecksum is true).  Tables come
   from gen/TabCode93.v.  No proofs.

   Strings are byte lists; `range` over a string and []rune(s) go through
   utf8_decode, string(rune) through utf8_encode_rune (Utf8M).  FNC1..FNC4 are
   the runes U+00F1..U+00F4 (two bytes each in a Go string). *)
From Verif Require Import Prelude Barcode BitListM Utf8M Code39M TabCode93.

(* encodeTable[r] *)
Definition c93_lookup (r : Z) : option (Z * Z) := map_get r code93_encode_table.

(* `for r, info := range encodeTable { if info.value == total { return r } }`
   searched in the listed order; order independence: c93_value_search_order_independent *)
Definition c93_find_value (tbl : list (Z * (Z * Z))) (v : Z) : option Z :=
  match find (fun e => fst (snd e) =? v) tbl with
  | Some e => Some (fst e)
  | None => None
  end.

(* the loop `for i := len(data)-1; i >= 0; i--` of getChecksum over the reversed
   rune slice; None = `return ' '` *)
Fixpoint c93_weighted (rrunes : list Z) (maxWeight weight total : Z) : option Z :=
  match rrunes with
  | [] => Some total
  | r :: t =>
    match c93_lookup r with
    | None => None
    | Some (v, _) =>
      let total := total + v * weight in
      let weight := weight + 1 in
      let weight := if weight >? maxWeight then 1 else weight in
      c93_weighted t maxWeight weight total
    end
  end.

(* getChecksum(content string, maxWeight int) rune *)
Definition c93_get_checksum (content : list Z) (maxWeight : Z) : Z :=
  match c93_weighted (rev' (utf8_decode content)) maxWeight 1 0 with
  | None => 32
  | Some total =>
    match c93_find_value code93_encode_table (go_mod total 47) with
    | Some r => r
    | None => 32
    end
  end.

(* prepare: r > 127 -> error; result += extendedTable[int(r)] (index out of range panics) *)
Fixpoint c93_prepare_runes (runes : list Z) : outcome (list Z) :=
  match runes with
  | [] => Ok []
  | r :: t =>
    if r >? 127 then Err else
    match zget code93_extended_table r with
    | None => Panic
    | Some v => do rest <- c93_prepare_runes t; Ok (v ++ rest)
    end
  end.

Definition c93_prepare (content : list Z) : outcome (list Z) :=
  c93_prepare_runes (utf8_decode content).

(* for _, r := range data { info, ok := encodeTable[r]; ...; result.AddBits(info.data, 9) } *)
Fixpoint c93_draw (runes : list Z) : outcome (list bool) :=
  match runes with
  | [] => Ok []
  | r :: t =>
    match c93_lookup r with
    | None => Err
    | Some (_, d) => do rest <- c93_draw t; Ok (msb_bits 9 d ++ rest)
    end
  end.

(* EncodeWithColor(content, includeChecksum, fullASCIIMode, color) *)
Definition c93_encode (content : list Z) (includeChecksum fullASCII : bool) : outcome barcode :=
  do content1 <- (if fullASCII then c93_prepare content
                  else if c39_contains_star content then Err else Ok content);
  let data :=
    if includeChecksum then
      let data1 := content1 ++ utf8_encode_rune (c93_get_checksum content1 20) in
      data1 ++ utf8_encode_rune (c93_get_checksum data1 15)
    else content1 in
  let data := [42] ++ data ++ [42] in
  do bits <- c93_draw (utf8_decode data);
  Ok (mk1d KCode93 content1 None (bits ++ [true])).
