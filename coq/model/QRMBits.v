(* Executable model of the bit-stream side of /repo/qr:
     versioninfo.go  (versionInfo, totalDataBytes, charCountBits, findSmallestVersionInfo)
     numeric.go      (encodeNumeric)
     alphanumeric.go (stringToAlphaIdx, encodeAlphaNumeric)
     unicode.go      (encodeUnicode)
     automatic.go    (encodeAuto)
     encoder.go      (Encoding.getEncoder, addPaddingAndTerminator)
   No proofs here.  The *utils.BitList is a list of booleans (theorem C18);
   AddBits(v, n) appends msb_bits n v (BitListM), AddByte(b) appends msb_bits 8 b.
   Strings are lists of bytes; where the Go code ranges over runes the UTF-8
   decoder of Utf8M is applied explicitly. *)
From Verif Require Import Prelude Barcode BitListM Utf8M TabQr.

(* ---------- versioninfo.go ---------- *)
Record vinfo := {
  vi_version : Z;   (* Version *)
  vi_level : Z;     (* Level *)
  vi_ecc : Z;       (* ErrorCorrectionCodewordsPerBlock *)
  vi_n1 : Z;        (* NumberOfBlocksInGroup1 *)
  vi_k1 : Z;        (* DataCodeWordsPerBlockInGroup1 *)
  vi_n2 : Z;        (* NumberOfBlocksInGroup2 *)
  vi_k2 : Z         (* DataCodeWordsPerBlockInGroup2 *)
}.

Definition vinfo_of_row (r : Z * Z * Z * Z * Z * Z * Z) : vinfo :=
  let '(v, l, e, n1, k1, n2, k2) := r in
  {| vi_version := v; vi_level := l; vi_ecc := e; vi_n1 := n1; vi_k1 := k1; vi_n2 := n2; vi_k2 := k2 |}.

(* var versionInfos, in source order *)
Definition version_infos : list vinfo := map vinfo_of_row qr_version_infos.

(* totalDataBytes *)
Definition total_data_bytes (vi : vinfo) : Z := vi_n1 vi * vi_k1 vi + vi_n2 vi * vi_k2 vi.

(* kanjiMode = 8 appears only in charCountBits and is never passed by an encoder *)
Definition qr_kanji_mode : Z := 8.

(* charCountBits: depends on the version only *)
Definition char_count_bits (version mode : Z) : Z :=
  if mode =? qr_numeric_mode then
    (if version <? 10 then 10 else if version <? 27 then 12 else 14)
  else if mode =? qr_alphanumeric_mode then
    (if version <? 10 then 9 else if version <? 27 then 11 else 13)
  else if mode =? qr_byte_mode then
    (if version <? 10 then 8 else 16)
  else if mode =? qr_kanji_mode then
    (if version <? 10 then 8 else if version <? 27 then 10 else 12)
  else 0.

(* modulWidth *)
Definition modul_width (version : Z) : Z := (version - 1) * 4 + 21.

(* findSmallestVersionInfo: first row in source order with the level and enough room *)
Definition fits_row (ecl mode dataBits : Z) (vi : vinfo) : bool :=
  (vi_level vi =? ecl)
  && (total_data_bytes vi * 8 >=? (dataBits + 4) + char_count_bits (vi_version vi) mode).

Definition find_smallest_version_info (ecl mode dataBits : Z) : option vinfo :=
  find (fits_row ecl mode dataBits) version_infos.

(* ---------- encoder.go: addPaddingAndTerminator ---------- *)
(* for i := 0; i < 4 && bl.Len() < cap; i++ { AddBit(false) } *)
Fixpoint term_loop (i : nat) (len cap : Z) : list bool :=
  match i with
  | O => []
  | S j => if len <? cap then false :: term_loop j (len + 1) cap else []
  end.

(* for bl.Len()%8 != 0 { AddBit(false) } : at most 7 iterations *)
Fixpoint align_loop (fuel : nat) (len : Z) : outcome (list bool) :=
  if go_mod len 8 =? 0 then Ok [] else
  match fuel with
  | O => OutOfFuel
  | S f => do r <- align_loop f (len + 1); Ok (false :: r)
  end.

(* for i := 0; bl.Len() < cap; i++ { AddByte(i%2 == 0 ? 236 : 17) } *)
Fixpoint pad_loop (fuel : nat) (len cap i : Z) : outcome (list bool) :=
  if len <? cap then
    match fuel with
    | O => OutOfFuel
    | S f =>
      do r <- pad_loop f (len + 8) cap (i + 1);
      Ok (msb_bits 8 (if go_mod i 2 =? 0 then 236 else 17) ++ r)
    end
  else Ok [].

Definition add_padding_and_terminator (bits : list bool) (vi : vinfo) : outcome (list bool) :=
  let cap := total_data_bytes vi * 8 in
  let l0 := zlength bits in
  let t := term_loop 4 l0 cap in
  let l1 := l0 + zlength t in
  do a <- align_loop 8 l1;
  let l2 := l1 + zlength a in
  do p <- pad_loop (S (Z.to_nat (total_data_bytes vi))) l2 cap 0;
  Ok (bits ++ t ++ a ++ p).

(* ---------- numeric.go ---------- *)
(* strconv.Atoi on a short string (fast path): optional sign, then one or more
   decimal digits; anything else is a syntax error *)
Fixpoint atoi_digits (s : list Z) (n : Z) : option Z :=
  match s with
  | [] => Some n
  | c :: t => if is_digit c then atoi_digits t (n * 10 + (c - 48)) else None
  end.

Definition go_atoi (s : list Z) : option Z :=
  match s with
  | [] => None
  | c :: t =>
    if (c =? 45) || (c =? 43) then
      match t with
      | [] => None
      | _ => match atoi_digits t 0 with
             | Some n => Some (if c =? 45 then - n else n)
             | None => None
             end
      end
    else atoi_digits s 0
  end.

(* one loop iteration on curStr (1..3 bytes): Atoi, then the rune loop that sets
   err = ErrSyntax for every rune outside '0'..'9', then err != nil || i < 0 *)
Definition numeric_chunk (cur : list Z) : outcome (list bool) :=
  let r := go_atoi cur in
  let r := if forallb is_digit (utf8_decode cur) then r else None in
  match r with
  | None => Err
  | Some i =>
    if i <? 0 then Err else
    let bitCnt := match go_mod (zlength cur) 3 with
                  | 0 => 10%nat
                  | 1 => 4%nat
                  | _ => 7%nat
                  end in
    Ok (msb_bits bitCnt i)
  end.

(* for pos := 0; pos < len(content); pos += 3 { curStr = content[pos:pos+3] or the rest } *)
Fixpoint numeric_groups (s : list Z) : outcome (list bool) :=
  match s with
  | [] => Ok []
  | [a] => numeric_chunk [a]
  | [a; b] => numeric_chunk [a; b]
  | a :: b :: c :: rest =>
    do g <- numeric_chunk [a; b; c];
    do r <- numeric_groups rest;
    Ok (g ++ r)
  end.

Definition encode_numeric (content : list Z) (ecl : Z) : outcome (list bool * vinfo) :=
  let n := zlength content in
  let contentBitCount :=
      go_div n 3 * 10 + (match go_mod n 3 with 1 => 4 | 2 => 7 | _ => 0 end) in
  match find_smallest_version_info ecl qr_numeric_mode contentBitCount with
  | None => Err
  | Some vi =>
    let hdr := msb_bits 4 qr_numeric_mode
               ++ msb_bits (Z.to_nat (char_count_bits (vi_version vi) qr_numeric_mode)) n in
    do groups <- numeric_groups content;
    do bits <- add_padding_and_terminator (hdr ++ groups) vi;
    Ok (bits, vi)
  end.

(* ---------- alphanumeric.go ---------- *)
Fixpoint index_byte (cs : list Z) (c : Z) (i : Z) : Z :=
  match cs with
  | [] => -1
  | x :: t => if x =? c then i else index_byte t c (i + 1)
  end.

(* strings.IndexRune(charSet, r).  For r < 0x80 this is IndexByte.  For every other
   rune (including utf8.RuneError, which `range` yields for an invalid byte) the
   result on an ASCII-only haystack is -1; charSet is ASCII-only (theorem
   qr_charset_iso compares it with the ISO string), so this is what the model returns. *)
Definition index_rune (cs : list Z) (r : Z) : Z :=
  if (0 <=? r) && (r <? 128) then index_byte cs r 0 else -1.

(* stringToAlphaIdx: the values the producer goroutine sends, in order; it stops
   after the first negative index and closes the channel *)
Fixpoint alpha_channel (runes : list Z) : list Z :=
  match runes with
  | [] => []
  | r :: t =>
    let idx := index_rune qr_charset r in
    if idx <? 0 then [idx] else idx :: alpha_channel t
  end.

(* <-encoder : a closed, drained channel yields the zero value *)
Definition recv (ch : list Z) : Z * list Z :=
  match ch with
  | [] => (0, [])
  | x :: t => (x, t)
  end.

(* for idx := 0; idx < len(content)/2; idx++ { c1 := <-encoder; c2 := <-encoder; ... } *)
Fixpoint alpha_pairs (n : nat) (ch : list Z) : outcome (list bool * list Z) :=
  match n with
  | O => Ok ([], ch)
  | S m =>
    let '(c1, ch1) := recv ch in
    let '(c2, ch2) := recv ch1 in
    if (c1 <? 0) || (c2 <? 0) then Err else
    do (r, chf) <- alpha_pairs m ch2;
    Ok (msb_bits 11 (c1 * 45 + c2) ++ r, chf)
  end.

Definition encode_alphanumeric (content : list Z) (ecl : Z) : outcome (list bool * vinfo) :=
  let n := zlength content in
  let odd := go_mod n 2 =? 1 in
  let contentBitCount := go_div n 2 * 11 + (if odd then 6 else 0) in
  match find_smallest_version_info ecl qr_alphanumeric_mode contentBitCount with
  | None => Err
  | Some vi =>
    let hdr := msb_bits 4 qr_alphanumeric_mode
               ++ msb_bits (Z.to_nat (char_count_bits (vi_version vi) qr_alphanumeric_mode)) n in
    let ch := alpha_channel (utf8_decode content) in
    do (pairs, ch') <- alpha_pairs (Z.to_nat (go_div n 2)) ch;
    do last <- (if odd then
                  let '(c, _) := recv ch' in
                  if c <? 0 then Err else Ok (msb_bits 6 c)
                else Ok []);
    do bits <- add_padding_and_terminator (hdr ++ pairs ++ last) vi;
    Ok (bits, vi)
  end.

(* ---------- unicode.go ---------- *)
Definition encode_unicode (content : list Z) (ecl : Z) : outcome (list bool * vinfo) :=
  let n := zlength content in
  match find_smallest_version_info ecl qr_byte_mode (n * 8) with
  | None => Err
  | Some vi =>
    let hdr := msb_bits 4 qr_byte_mode
               ++ msb_bits (Z.to_nat (char_count_bits (vi_version vi) qr_byte_mode)) n in
    do bits <- add_padding_and_terminator (hdr ++ flat_map (msb_bits 8) content) vi;
    Ok (bits, vi)
  end.

(* ---------- automatic.go ---------- *)
(* the error of each attempt is dropped; a panic would propagate *)
Definition encode_auto (content : list Z) (ecl : Z) : outcome (list bool * vinfo) :=
  match encode_numeric content ecl with
  | Ok r => Ok r
  | Panic => Panic
  | OutOfFuel => OutOfFuel
  | Err =>
    match encode_alphanumeric content ecl with
    | Ok r => Ok r
    | Panic => Panic
    | OutOfFuel => OutOfFuel
    | Err =>
      match encode_unicode content ecl with
      | Ok r => Ok r
      | Panic => Panic
      | OutOfFuel => OutOfFuel
      | Err => Err
      end
    end
  end.

(* ---------- encoder.go: mode.getEncoder()(content, level) ---------- *)
(* getEncoder returns nil for a value that is none of the four constants, and
   calling the nil function value panics *)
Definition encode_bits (content : list Z) (level mode : Z) : outcome (list bool * vinfo) :=
  if mode =? qr_enc_auto then encode_auto content level
  else if mode =? qr_enc_numeric then encode_numeric content level
  else if mode =? qr_enc_alphanumeric then encode_alphanumeric content level
  else if mode =? qr_enc_unicode then encode_unicode content level
  else Panic.
