(* Executable model of /repo/datamatrix (encoder.go, codesize.go, codelayout.go,
   datamatrixcode.go, errorcorrection.go).  No proofs here.

   Tables come from gen/TabDataMatrix.v (what the source says now).

   Modelling decisions
   * strings are byte lists (encodeText works on []byte(content)).
   * SetValues / Merge never look at the VALUE of a data byte: the byte is
     passed through Set(row, col, value, bitNum) untouched and used in the one
     expression ((value >> (7-bitNum)) & 1) == 1.  The model therefore follows
     the control flow of SetValues and Merge literally (same loops, same
     occupancy tests, same wrap-around, same panics: data[idx] out of range,
     "Field already occupied", BitList index out of range) but stores in each
     cell the SOURCE of the bit, [CBit idx bitNum] or a constant, and evaluates
     the expression above when the pixel rows are produced ([interp]).
   * BitList (justified by C18) is a finite map from index to value; an index
     outside [0, length) is a Panic (Go panics only beyond the last allocated
     word, so the model panics on a superset; the theorems show it never does).
   * the shared Reed-Solomon encoder is modelled history-free by
     rs_encode_fresh (its generator cache is property C15's business).
   * integer division by a zero region count panics in Go; [find_size] makes
     that explicit.  Byte conversions that cannot truncate for bytes 0..255
     are noted where they occur. *)
From Coq Require Import FMapPositive.
From Verif Require Import Prelude Barcode GFM TabDataMatrix.

(* ---------- codesize.go ---------- *)
Record dmsize := {
  sz_rows : Z; sz_cols : Z;
  sz_rch : Z;            (* RegionCountHorizontal *)
  sz_rcv : Z;            (* RegionCountVertical *)
  sz_ecc : Z;            (* ECCCount *)
  sz_blocks : Z          (* BlockCount *)
}.

Definition mk_size (t : Z * Z * Z * Z * Z * Z) : dmsize :=
  let '(r, c, h, v, e, b) := t in
  {| sz_rows := r; sz_cols := c; sz_rch := h; sz_rcv := v; sz_ecc := e; sz_blocks := b |}.

Definition code_sizes : list dmsize := map mk_size dm_code_sizes.

Definition region_rows (s : dmsize) : Z := go_div (sz_rows s - sz_rcv s * 2) (sz_rcv s).
Definition region_cols (s : dmsize) : Z := go_div (sz_cols s - sz_rch s * 2) (sz_rch s).
Definition matrix_rows (s : dmsize) : Z := region_rows s * sz_rcv s.
Definition matrix_cols (s : dmsize) : Z := region_cols s * sz_rch s.
Definition data_codewords (s : dmsize) : Z :=
  go_div (matrix_cols s * matrix_rows s) 8 - sz_ecc s.
Definition data_codewords_for_block (s : dmsize) (idx : Z) : Z :=
  if (sz_rows s =? 144) && (sz_cols s =? 144) then (if idx <? 8 then 156 else 155)
  else go_div (data_codewords s) (sz_blocks s).
Definition ecc_per_block (s : dmsize) : Z := go_div (sz_ecc s) (sz_blocks s).

(* ---------- encoder.go : encodeText ---------- *)
(* one byte that is not the first of a digit pair.  c-127 is in 1..128 and c+1
   in 1..128 for a byte c, so the byte arithmetic does not wrap. *)
Definition enc_single (c : Z) : list Z :=
  if c >? 127 then [235; c - 127] else [c + 1].

(* ((c-'0')*10 + (c2-'0')) + 130 is at most 229: no wrap *)
Definition enc_pair (c c2 : Z) : Z := (c - 48) * 10 + (c2 - 48) + 130.

Fixpoint encode_text (s : list Z) : list Z :=
  match s with
  | [] => []
  | c :: t =>
    match t with
    | c2 :: t2 =>
      if is_digit c && is_digit c2 then enc_pair c c2 :: encode_text t2
      else enc_single c ++ encode_text t
    | [] => enc_single c
    end
  end.

(* ---------- encoder.go : addPadding ---------- *)
(* the pad codeword appended when len(data) = len; byte(tmp) with tmp in 1..254 *)
Definition pad_codeword (len : Z) : Z :=
  let R := go_mod (149 * (len + 1)) 253 + 1 in
  let tmp := 129 + R in
  if tmp >? 254 then tmp - 254 else tmp.

Fixpoint pad_loop (n : nat) (len : Z) : list Z :=
  match n with
  | O => []
  | S m => pad_codeword len :: pad_loop m (len + 1)
  end.

Definition add_padding (data : list Z) (toCount : Z) : list Z :=
  let data1 := if zlength data <? toCount then data ++ [129] else data in
  data1 ++ pad_loop (Z.to_nat (toCount - zlength data1)) (zlength data1).

(* ---------- errorcorrection.go ---------- *)
Definition dm_field : gfield := gf_new 301 256 1.

(* elements k, k+B, k+2B, ... of l (for i := block; i < dataSize; i += BlockCount) *)
Fixpoint stride_cnt (k B : nat) (l : list Z) : list Z :=
  match l with
  | [] => []
  | x :: t =>
    match k with
    | O => x :: stride_cnt (B - 1) B t
    | S k' => stride_cnt k' B t
    end
  end.

Fixpoint zseq (start : Z) (n : nat) : list Z :=
  match n with
  | O => []
  | S m => start :: zseq (start + 1) m
  end.

Fixpoint omap {A B} (f : A -> outcome B) (l : list A) : outcome (list B) :=
  match l with
  | [] => Ok []
  | x :: t => do y <- f x; do r <- omap f t; Ok (y :: r)
  end.

(* one iteration of the block loop up to the call of rs.Encode: the ECC bytes
   of block b.  make([]int, dataCnt) panics for a negative count, buff[j] for
   j >= dataCnt.  byte(ecc[j]) is modelled by mod 256. *)
Definition calc_block (s : dmsize) (data : list Z) (b : Z) : outcome (list Z) :=
  let dataCnt := data_codewords_for_block s b in
  if dataCnt <? 0 then Panic else
  let picked := stride_cnt (Z.to_nat b) (Z.to_nat (sz_blocks s)) data in
  if zlength picked >? dataCnt then Panic else
  let buff := picked ++ repeat 0 (Z.to_nat (dataCnt - zlength picked)) in
  do ecc <- rs_encode_fresh dm_field buff (ecc_per_block s);
  Ok (map (fun x => x mod 256) ecc).

(* data[dataSize + b + j*B] = ecc_b[j] for all blocks b and j < eccPerBlock,
   written as the closed form of the write loops: word j of every block in turn *)
Fixpoint interleave (n : nat) (ls : list (list Z)) : list Z :=
  match n with
  | O => []
  | S m => map (hd 0) ls ++ interleave m (map (@tl Z) ls)
  end.

Definition calc_ecc (data : list Z) (s : dmsize) : outcome (list Z) :=
  if sz_ecc s <? 0 then Panic else
  do eccs <- omap (calc_block s data) (zseq 0 (Z.to_nat (sz_blocks s)));
  let area := interleave (Z.to_nat (ecc_per_block s)) eccs in
  if zlength area >? sz_ecc s then Panic else
  Ok (data ++ area ++ repeat 0 (Z.to_nat (sz_ecc s - zlength area))).

(* ---------- codelayout.go ---------- *)
(* where the bit of a cell comes from *)
Inductive cell :=
| CConst (b : bool)
| CBit (idx : Z) (bit : Z).   (* bit bitNum (0 = most significant) of data[idx] *)

Definition lay := PositiveMap.t cell.
Definition key (i : Z) : positive := Z.to_pos (i + 1).
Definition lempty : lay := PositiveMap.empty cell.

(* l.Occupied(row, col) = l.occupy.GetBit(col + row*MatrixColumns()) *)
Definition occupied (mr mc : Z) (m : lay) (row col : Z) : outcome bool :=
  let pos := col + row * mc in
  if (pos <? 0) || (pos >=? mr * mc) then Panic
  else Ok (match PositiveMap.find (key pos) m with Some _ => true | None => false end).

(* Set(row, col, value, bitNum) *)
Definition lset (mr mc : Z) (m : lay) (row col : Z) (v : cell) : outcome lay :=
  let '(row, col) :=
    if row <? 0 then (row + mr, col + (4 - go_mod (mr + 4) 8)) else (row, col) in
  let '(row, col) :=
    if col <? 0 then (row + (4 - go_mod (mc + 4) 8), col + mc) else (row, col) in
  do occ <- occupied mr mc m row col;
  if occ then Panic   (* panic("Field already occupied ...") *)
  else Ok (PositiveMap.add (key (col + row * mc)) v m).

Definition set_simple (mr mc : Z) (m : lay) (row col idx : Z) : outcome lay :=
  do m <- lset mr mc m (row - 2) (col - 2) (CBit idx 0);
  do m <- lset mr mc m (row - 2) (col - 1) (CBit idx 1);
  do m <- lset mr mc m (row - 1) (col - 2) (CBit idx 2);
  do m <- lset mr mc m (row - 1) (col - 1) (CBit idx 3);
  do m <- lset mr mc m (row - 1) (col - 0) (CBit idx 4);
  do m <- lset mr mc m (row - 0) (col - 2) (CBit idx 5);
  do m <- lset mr mc m (row - 0) (col - 1) (CBit idx 6);
  lset mr mc m (row - 0) (col - 0) (CBit idx 7).

Definition corner1 (mr mc : Z) (m : lay) (idx : Z) : outcome lay :=
  do m <- lset mr mc m (mr - 1) 0 (CBit idx 0);
  do m <- lset mr mc m (mr - 1) 1 (CBit idx 1);
  do m <- lset mr mc m (mr - 1) 2 (CBit idx 2);
  do m <- lset mr mc m 0 (mc - 2) (CBit idx 3);
  do m <- lset mr mc m 0 (mc - 1) (CBit idx 4);
  do m <- lset mr mc m 1 (mc - 1) (CBit idx 5);
  do m <- lset mr mc m 2 (mc - 1) (CBit idx 6);
  lset mr mc m 3 (mc - 1) (CBit idx 7).

Definition corner2 (mr mc : Z) (m : lay) (idx : Z) : outcome lay :=
  do m <- lset mr mc m (mr - 3) 0 (CBit idx 0);
  do m <- lset mr mc m (mr - 2) 0 (CBit idx 1);
  do m <- lset mr mc m (mr - 1) 0 (CBit idx 2);
  do m <- lset mr mc m 0 (mc - 4) (CBit idx 3);
  do m <- lset mr mc m 0 (mc - 3) (CBit idx 4);
  do m <- lset mr mc m 0 (mc - 2) (CBit idx 5);
  do m <- lset mr mc m 0 (mc - 1) (CBit idx 6);
  lset mr mc m 1 (mc - 1) (CBit idx 7).

Definition corner3 (mr mc : Z) (m : lay) (idx : Z) : outcome lay :=
  do m <- lset mr mc m (mr - 3) 0 (CBit idx 0);
  do m <- lset mr mc m (mr - 2) 0 (CBit idx 1);
  do m <- lset mr mc m (mr - 1) 0 (CBit idx 2);
  do m <- lset mr mc m 0 (mc - 2) (CBit idx 3);
  do m <- lset mr mc m 0 (mc - 1) (CBit idx 4);
  do m <- lset mr mc m 1 (mc - 1) (CBit idx 5);
  do m <- lset mr mc m 2 (mc - 1) (CBit idx 6);
  lset mr mc m 3 (mc - 1) (CBit idx 7).

Definition corner4 (mr mc : Z) (m : lay) (idx : Z) : outcome lay :=
  do m <- lset mr mc m (mr - 1) 0 (CBit idx 0);
  do m <- lset mr mc m (mr - 1) (mc - 1) (CBit idx 1);
  do m <- lset mr mc m 0 (mc - 3) (CBit idx 2);
  do m <- lset mr mc m 0 (mc - 2) (CBit idx 3);
  do m <- lset mr mc m 0 (mc - 1) (CBit idx 4);
  do m <- lset mr mc m 1 (mc - 3) (CBit idx 5);
  do m <- lset mr mc m 1 (mc - 2) (CBit idx 6);
  lset mr mc m 1 (mc - 1) (CBit idx 7).

(* data[idx] for a slice of length n *)
Definition data_at (n idx : Z) : outcome unit :=
  if (idx <? 0) || (idx >=? n) then Panic else Ok tt.

(* first inner loop of SetValues (sweep upward) *)
Fixpoint up_loop (fuel : nat) (mr mc n : Z) (m : lay) (idx row col : Z)
  : outcome (lay * Z * Z * Z) :=
  match fuel with
  | O => OutOfFuel
  | S f =>
    do (m, idx) <-
      (if (row <? mr) && (col >=? 0) then
         do occ <- occupied mr mc m row col;
         if occ then Ok (m, idx)
         else do _ <- data_at n idx;
              do m' <- set_simple mr mc m row col idx;
              Ok (m', idx + 1)
       else Ok (m, idx));
    let row := row - 2 in
    let col := col + 2 in
    if (row <? 0) || (col >=? mc) then Ok (m, idx, row, col)
    else up_loop f mr mc n m idx row col
  end.

(* second inner loop (sweep downward) *)
Fixpoint down_loop (fuel : nat) (mr mc n : Z) (m : lay) (idx row col : Z)
  : outcome (lay * Z * Z * Z) :=
  match fuel with
  | O => OutOfFuel
  | S f =>
    do (m, idx) <-
      (if (row >=? 0) && (col <? mc) then
         do occ <- occupied mr mc m row col;
         if occ then Ok (m, idx)
         else do _ <- data_at n idx;
              do m' <- set_simple mr mc m row col idx;
              Ok (m', idx + 1)
       else Ok (m, idx));
    let row := row + 2 in
    let col := col - 2 in
    if (row >=? mr) || (col <? 0) then Ok (m, idx, row, col)
    else down_loop f mr mc n m idx row col
  end.

(* a corner case: data[idx] is read, the corner is written, idx++ ; tr records
   which corner cases fired (ghost information for the placement theorem) *)
Definition do_corner (cond : bool) (k : Z) (cf : lay -> Z -> outcome lay)
  (n : Z) (st : lay * Z * list Z) : outcome (lay * Z * list Z) :=
  let '(m, idx, tr) := st in
  if cond then
    do _ <- data_at n idx;
    do m' <- cf m idx;
    Ok (m', idx + 1, k :: tr)
  else Ok st.

Fixpoint outer_loop (fuel : nat) (mr mc n : Z) (st : lay * Z * list Z) (row col : Z)
  : outcome (lay * Z * list Z) :=
  if (row <? mr) || (col <? mc) then
    match fuel with
    | O => OutOfFuel
    | S f =>
      do st <- do_corner ((row =? mr) && (col =? 0)) 1 (corner1 mr mc) n st;
      do st <- do_corner ((row =? mr - 2) && (col =? 0) && negb (go_mod mc 4 =? 0)) 2
                 (corner2 mr mc) n st;
      do st <- do_corner ((row =? mr - 2) && (col =? 0) && (go_mod mc 8 =? 4)) 3
                 (corner3 mr mc) n st;
      do st <- do_corner ((row =? mr + 4) && (col =? 2) && (go_mod mc 8 =? 0)) 4
                 (corner4 mr mc) n st;
      let '(m, idx, tr) := st in
      do (m, idx, row, col) <- up_loop (Z.to_nat (mr + mc + 8)) mr mc n m idx row col;
      let row := row + 1 in
      let col := col + 3 in
      do (m, idx, row, col) <- down_loop (Z.to_nat (mr + mc + 8)) mr mc n m idx row col;
      let row := row + 3 in
      let col := col + 1 in
      outer_loop f mr mc n (m, idx, tr) row col
    end
  else Ok st.

(* SetValues(data) for len(data) = n: the layout, the final idx and the corner
   cases that fired (in order) *)
Definition set_values (s : dmsize) (n : Z) : outcome (lay * Z * list Z) :=
  let mr := matrix_rows s in
  let mc := matrix_cols s in
  do (m, idx, tr) <- outer_loop (Z.to_nat (mr + mc + 8)) mr mc n (lempty, 0, []) 4 0;
  do occ <- occupied mr mc m (mr - 1) (mc - 1);
  do m <- (if occ then Ok m
           else do m1 <- lset mr mc m (mr - 1) (mc - 1) (CConst true);   (* Set(.., 255, 0) *)
                lset mr mc m1 (mr - 2) (mc - 2) (CConst true));
  Ok (m, idx, rev tr).

(* ---------- Merge / datamatrixcode.go ---------- *)
(* result.set(x, y, v) = SetBit(x*Rows + y, v) on a BitList of Rows*Columns bits *)
Definition pset (rows cols : Z) (p : lay) (x y : Z) (v : cell) : outcome lay :=
  let i := x * rows + y in
  if (i <? 0) || (i >=? rows * cols) then Panic else Ok (PositiveMap.add (key i) v p).

(* the values of v in: for v := from; v < lim; v += step *)
Fixpoint loop_vals (fuel : nat) (v lim step : Z) : outcome (list Z) :=
  if v <? lim then
    match fuel with
    | O => OutOfFuel
    | S f => do r <- loop_vals f (v + step) lim step; Ok (v :: r)
    end
  else Ok [].

Definition for_vals (from lim step : Z) : outcome (list Z) :=
  loop_vals (S (Z.to_nat lim)) from lim step.

Fixpoint ofold {A B} (f : A -> B -> outcome A) (l : list B) (a : A) : outcome A :=
  match l with
  | [] => Ok a
  | x :: t => do a' <- f a x; ofold f t a'
  end.

(* for o in outer { for i in inner { p = body p o i } } *)
Definition ofold2 {A} (body : A -> Z -> Z -> outcome A) (outer inner : list Z) (a : A) : outcome A :=
  ofold (fun a o => ofold (fun a i => body a o i) inner a) outer a.

(* l.matrix.GetBit(pos): the source of that bit; unwritten matrix bits are 0 *)
Definition mget (mr mc : Z) (m : lay) (pos : Z) : outcome cell :=
  if (pos <? 0) || (pos >=? mr * mc) then Panic
  else Ok (match PositiveMap.find (key pos) m with Some c => c | None => CConst false end).

Definition merge (s : dmsize) (m : lay) : outcome (list (list cell)) :=
  let R := sz_rows s in
  let C := sz_cols s in
  let rr := region_rows s in
  let rc := region_cols s in
  let mr := matrix_rows s in
  let mc := matrix_cols s in
  let dark := CConst true in
  (* dotted horizontal lines *)
  do o <- for_vals 0 R (rr + 2); do i <- for_vals 0 C 2;
  do p <- ofold2 (fun p r c => pset R C p c r dark) o i lempty;
  (* solid horizontal line *)
  do o <- for_vals (rr + 1) R (rr + 2); do i <- for_vals 0 C 1;
  do p <- ofold2 (fun p r c => pset R C p c r dark) o i p;
  (* dotted vertical lines *)
  do o <- for_vals (rc + 1) C (rc + 2); do i <- for_vals 1 R 2;
  do p <- ofold2 (fun p c r => pset R C p c r dark) o i p;
  (* solid vertical line *)
  do o <- for_vals 0 C (rc + 2); do i <- for_vals 0 R 1;
  do p <- ofold2 (fun p c r => pset R C p c r dark) o i p;
  (* data regions *)
  do hs <- for_vals 0 (sz_rch s) 1; do vs <- for_vals 0 (sz_rcv s) 1;
  do xs <- for_vals 0 rc 1; do ys <- for_vals 0 rr 1;
  do p <- ofold2 (fun p h v =>
            ofold2 (fun p x y =>
              let colMatrix := rc * h + x in
              let colResult := (2 + rc) * h + x + 1 in
              let rowMatrix := rr * v + y in
              let rowResult := (2 + rr) * v + y + 1 in
              do val <- mget mr mc m (colMatrix + rowMatrix * mc);
              pset R C p colResult rowResult val) xs ys p) hs vs p;
  (* At(x, y) = GetBit(x*Rows + y) for the Rows x Columns image, row by row *)
  Ok (map (fun y => map (fun x =>
             match PositiveMap.find (key (x * R + y)) p with
             | Some c => c
             | None => CConst false
             end) (zseq 0 (Z.to_nat C))) (zseq 0 (Z.to_nat R))).

(* the symbol template of a size for n codewords: every pixel's source *)
Definition dm_template (s : dmsize) (n : Z) : outcome (list (list cell)) :=
  do (m, _, _) <- set_values s n;
  merge s m.

(* ---------- evaluation of the stored bit sources ---------- *)
Fixpoint pm_of_list_from {A} (l : list A) (p : positive) (m : PositiveMap.t A) : PositiveMap.t A :=
  match l with
  | [] => m
  | x :: t => pm_of_list_from t (Pos.succ p) (PositiveMap.add p x m)
  end.

Definition pm_of_list {A} (l : list A) : PositiveMap.t A :=
  pm_of_list_from l 1%positive (PositiveMap.empty A).

(* val := ((value >> (7 - bitNum)) & 1) == 1 *)
Definition interp (cw : PositiveMap.t Z) (c : cell) : bool :=
  match c with
  | CConst b => b
  | CBit i k =>
    match PositiveMap.find (key i) cw with
    | Some v => Z.land (Z.shiftr v (7 - k)) 1 =? 1
    | None => false
    end
  end.

(* render(data, size, color): the pixel rows *)
Definition render (cws : list Z) (s : dmsize) : outcome (list (list bool)) :=
  do tmpl <- dm_template s (zlength cws);
  let cw := pm_of_list cws in
  Ok (map (map (interp cw)) tmpl).

(* ---------- encoder.go : EncodeWithColor ---------- *)
(* the size loop; s.DataCodewords() divides by the region counts *)
Fixpoint find_size (sizes : list dmsize) (n : Z) : outcome (option dmsize) :=
  match sizes with
  | [] => Ok None
  | s :: t =>
    if (sz_rcv s =? 0) || (sz_rch s =? 0) then Panic   (* integer divide by zero *)
    else if data_codewords s >=? n then Ok (Some s)
    else find_size t n
  end.

(* the colour scheme is stored and used only by At/ColorModel/ColorScheme: the
   module pattern does not depend on it, so it is not a parameter here. *)
Definition dm_encode (content : list Z) : outcome barcode :=
  let data := encode_text content in
  do os <- find_size code_sizes (zlength data);
  match os with
  | None => Err                         (* "to much data to encode" *)
  | Some s =>
    let data := add_padding data (data_codewords s) in
    do cws <- calc_ecc data s;
    do rows <- render cws s;
    Ok {| bc_kind := KDataMatrix; bc_content := content; bc_checksum := None;
          bc_width := sz_cols s; bc_height := sz_rows s; bc_rows := rows |}
  end.

(* ---------- probes used by the correspondence check ---------- *)
(* the placement of size i as VerifPlacement reports it: per cell of the mapping
   matrix idx*8+bit, -1 unwritten, -2 constant 1, -3 constant 0 *)
Definition placement_probe (i : Z) : outcome (list Z) :=
  match zget code_sizes i with
  | None => Panic
  | Some s =>
    let cells := matrix_rows s * matrix_cols s in
    do (m, _, _) <- set_values s (go_div cells 8);
    Ok (map (fun pos =>
          match PositiveMap.find (key pos) m with
          | None => -1
          | Some (CConst true) => -2
          | Some (CConst false) => -3
          | Some (CBit idx b) => idx * 8 + b
          end) (zseq 0 (Z.to_nat cells)))
  end.

Definition size_derived (i : Z) : outcome (list Z * list Z) :=
  match zget code_sizes i with
  | None => Panic
  | Some s =>
    Ok ([region_rows s; region_cols s; matrix_rows s; matrix_cols s; data_codewords s; ecc_per_block s],
        map (data_codewords_for_block s) (zseq 0 (Z.to_nat (sz_blocks s))))
  end.

Definition calc_ecc_idx (i : Z) (data : list Z) : outcome (list Z) :=
  match zget code_sizes i with
  | None => Panic
  | Some s => calc_ecc data s
  end.

Definition render_idx (i : Z) (cws : list Z) : outcome barcode :=
  match zget code_sizes i with
  | None => Panic
  | Some s =>
    do rows <- render cws s;
    Ok {| bc_kind := KDataMatrix; bc_content := []; bc_checksum := None;
          bc_width := sz_cols s; bc_height := sz_rows s; bc_rows := rows |}
  end.
