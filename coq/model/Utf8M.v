(* Model of Go's UTF-8 handling of strings (language spec "for range" over a
   string, []rune(s) conversion, string(rune) conversion; runtime.decoderune /
   unicode/utf8).  Strings are lists of bytes (Z, 0..255), runes are Z.
   No proofs here.

   Decoding (range semantic): at each position the longest well-formed UTF-8
   sequence is decoded; overlong forms, surrogates U+D800..U+DFFF and values
   above U+10FFFF are not well-formed.  If the bytes at the position are not a
   well-formed sequence (bad lead byte, missing or bad continuation byte) the
   rune is U+FFFD and exactly ONE byte is consumed.  A list element outside
   0..255 is treated like an invalid byte.

   Interface (stable): utf8_decode : list Z -> list Z   (bytes -> runes)
                       utf8_encode_rune : Z -> list Z   (string(rune(r)))
                       utf8_encode : list Z -> list Z   (string([]rune)) *)
From Verif Require Import Prelude.

Definition utf8_rune_error : Z := 65533.

Definition utf8_in (lo hi b : Z) : bool := (lo <=? b) && (b <=? hi).

(* continuation byte 10xxxxxx *)
Definition utf8_is_cont (b : Z) : bool := utf8_in 128 191 b.

(* The rune starting at byte b (followed by rest) and the bytes remaining after it. *)
Definition utf8_decode1 (b : Z) (rest : list Z) : Z * list Z :=
  if utf8_in 0 127 b then (b, rest)
  else if utf8_in 194 223 b then            (* C2..DF: two bytes, U+0080..U+07FF *)
    match rest with
    | b1 :: r1 =>
      if utf8_is_cont b1 then ((b - 192) * 64 + (b1 - 128), r1)
      else (utf8_rune_error, rest)
    | _ => (utf8_rune_error, rest)
    end
  else if utf8_in 224 239 b then            (* E0..EF: three bytes, U+0800..U+FFFF *)
    match rest with
    | b1 :: b2 :: r2 =>
      let lo := if b =? 224 then 160 else 128 in      (* E0: no overlong *)
      let hi := if b =? 237 then 159 else 191 in      (* ED: no surrogates *)
      if utf8_in lo hi b1 && utf8_is_cont b2
      then ((b - 224) * 4096 + (b1 - 128) * 64 + (b2 - 128), r2)
      else (utf8_rune_error, rest)
    | _ => (utf8_rune_error, rest)
    end
  else if utf8_in 240 244 b then            (* F0..F4: four bytes, U+10000..U+10FFFF *)
    match rest with
    | b1 :: b2 :: b3 :: r3 =>
      let lo := if b =? 240 then 144 else 128 in      (* F0: no overlong *)
      let hi := if b =? 244 then 143 else 191 in      (* F4: not above U+10FFFF *)
      if utf8_in lo hi b1 && utf8_is_cont b2 && utf8_is_cont b3
      then ((b - 240) * 262144 + (b1 - 128) * 4096 + (b2 - 128) * 64 + (b3 - 128), r3)
      else (utf8_rune_error, rest)
    | _ => (utf8_rune_error, rest)
    end
  else (utf8_rune_error, rest).             (* 80..C1, F5..FF, not a byte *)

(* every step consumes at least one byte, so length s is enough fuel *)
Fixpoint utf8_decode_fuel (fuel : nat) (s : list Z) : list Z :=
  match fuel, s with
  | S f, b :: rest =>
    let '(r, rest') := utf8_decode1 b rest in r :: utf8_decode_fuel f rest'
  | _, _ => []
  end.

(* the runes a Go `for _, r := range s` visits = []rune(s) *)
Definition utf8_decode (s : list Z) : list Z := utf8_decode_fuel (length s) s.

(* string(rune(r)): UTF-8 encoding; invalid runes give "�" *)
Definition utf8_encode_rune (r : Z) : list Z :=
  if utf8_in 0 127 r then [r]
  else if utf8_in 128 2047 r then [192 + r / 64; 128 + r mod 64]
  else if utf8_in 2048 65535 r && negb (utf8_in 55296 57343 r)
  then [224 + r / 4096; 128 + (r / 64) mod 64; 128 + r mod 64]
  else if utf8_in 65536 1114111 r
  then [240 + r / 262144; 128 + (r / 4096) mod 64; 128 + (r / 64) mod 64; 128 + r mod 64]
  else [239; 191; 189].

(* string([]rune) *)
Definition utf8_encode (rs : list Z) : list Z := flat_map utf8_encode_rune rs.
