(* Executable model of /repo/codabar/encoder.go (EncodeWithColor).  No proofs here.

   Strings are byte lists.  The validity test

       checkValid := regexp `[ABCD][0123456789\-\$\:/\.\+]*[ABCD]$`
       if content == "!" || checkValid.ReplaceAllString(content, "!") != "!" { error }

   is modelled explicitly on the decoded rune sequence (Go's regexp package works
   on runes; an ill-formed byte is U+FFFD, one byte wide, as in utf8_range):

   * The expression is not anchored at the front, `$` (without the m flag) matches
     only at the end of the text.  A match therefore starts at some rune offset i
     and extends to the end of the text; the text from i on must consist of one of
     A-D, then characters of the second class, then one of A-D.  The two classes
     are disjoint, so whether a match starts at i is decided without backtracking:
     cb_match_at.
   * ReplaceAllString replaces the leftmost match (leftmost-first semantic; a
     match cannot be empty and reaches the end of the text, so there is at most
     one replacement): the result is content[0:i] ++ "!" for the smallest such i,
     and content unchanged if there is none: cb_replace.
   * The result is "!" exactly when the match starts at offset 0 (or when there is
     no match and content is "!", which the first test excludes).

   That the accepted language is exactly  [A-D] [0-9 - $ : / . +]* [A-D]  is
   theorem codabar_valid_iff (proofs/CodabarP.v), not an assumption of the model.

   `for i, r := range content`: utf8_range; encodingTable[r] of a missing key is
   the nil slice (nothing is added).  encodingTable is read from gen/TabCodabar.v. *)
From Verif Require Import Prelude Barcode Utf8M Utf8RangeM TabCodabar.

Fixpoint cb_assoc (t : list (Z * list bool)) (r : Z) : list bool :=
  match t with
  | [] => []
  | (k, v) :: t' => if k =? r then v else cb_assoc t' r
  end.

(* encodingTable[r] *)
Definition cb_lookup (r : Z) : list bool := cb_assoc codabar_encoding_table r.

(* [ABCD] *)
Definition cb_class_startstop (r : Z) : bool := (65 <=? r) && (r <=? 68).

(* [0123456789\-\$\:/\.\+] *)
Definition cb_class_body (r : Z) : bool :=
  ((48 <=? r) && (r <=? 57)) || (r =? 45) || (r =? 36) || (r =? 58) || (r =? 47) || (r =? 46) || (r =? 43).

(* the rest of the text after the first [ABCD]: [body]*[ABCD] then end of text *)
Fixpoint cb_match_rest (rs : list Z) : bool :=
  match rs with
  | [] => false
  | r :: t =>
    match t with
    | [] => cb_class_startstop r
    | _ :: _ => cb_class_body r && cb_match_rest t
    end
  end.

(* does a match of the expression start at the beginning of this rune sequence *)
Definition cb_match_at (rs : list Z) : bool :=
  match rs with
  | [] => false
  | r :: t => cb_class_startstop r && cb_match_rest t
  end.

(* ReplaceAllString(content, "!"); rs = the (offset, rune) pairs not yet passed *)
Fixpoint cb_replace (content : list Z) (rs : list (Z * Z)) : list Z :=
  match rs with
  | [] => content
  | (off, r) :: t =>
    if cb_match_at (map snd rs) then firstn (Z.to_nat off) content ++ [33]
    else cb_replace content t
  end.

Definition cb_valid (content : list Z) : bool :=
  negb (bytes_eqb content [33] || negb (bytes_eqb (cb_replace content (utf8_range content)) [33])).

(* the loop: a 0 module before every character but the first, then the pattern *)
Fixpoint cb_bits (rs : list (Z * Z)) : list bool :=
  match rs with
  | [] => []
  | (i, r) :: t => (if i >? 0 then [false] else []) ++ cb_lookup r ++ cb_bits t
  end.

Definition codabar_encode (content : list Z) : outcome barcode :=
  if cb_valid content
  then Ok (mk1d KCodabar content None (cb_bits (utf8_range content)))
  else Err.
