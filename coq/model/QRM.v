(* Executable model of /repo/qr/encoder.go EncodeWithColor / Encode: the top level.
   No proofs here.  See QRMBits (mode encoders), QRMBlocks (block split, RS,
   interleave), QRMRender (function patterns, placement, masks).

   qr_encode content level mode mask is the barcode qr.Encode(content, level, mode)
   returns when render's penalty rules select `mask` (0..7); the mask choice is an
   oracle read from the implementation's output (DESIGN 2.2). *)
From Verif Require Import Prelude Barcode TabQr QRMBits QRMBlocks QRMRender.

(* everything before render: the interleaved codewords and the table row *)
Definition qr_encode_data (content : list Z) (level mode : Z) : outcome (list Z * vinfo) :=
  do (bits, vi) <- encode_bits content level mode;
  do data <- codewords_of_bits bits vi;
  Ok (data, vi).

Definition qr_barcode (content : list Z) (m : qrmat) : barcode :=
  {| bc_kind := KQR; bc_content := content; bc_checksum := None;
     bc_width := qm_dim m; bc_height := qm_dim m; bc_rows := rows_of m |}.

Definition qr_encode (content : list Z) (level mode mask : Z) : outcome barcode :=
  do (data, vi) <- qr_encode_data content level mode;
  do m <- render data vi mask;
  Ok (qr_barcode content m).

(* all eight candidates results[0..7] of render at once (used by the correspondence
   check, which accepts whichever of them the implementation selected) *)
Fixpoint oseq {A : Type} (l : list (outcome A)) : outcome (list A) :=
  match l with
  | [] => Ok []
  | o :: t => do a <- o; do r <- oseq t; Ok (a :: r)
  end.

Definition qr_encode_all (content : list Z) (level mode : Z) : outcome (list barcode) :=
  do (data, vi) <- qr_encode_data content level mode;
  do base <- base_matrix (vi_version vi);
  do order <- iterate_modules (fst base);
  oseq (map (fun mask => do m <- render_on base order data vi mask; Ok (qr_barcode content m))
            [0; 1; 2; 3; 4; 5; 6; 7]).

(* EncodeWithColor: the colour scheme is only stored in the result (newBarCodeWithColor)
   and used by At/ColorModel/ColorScheme; the modules do not depend on it *)
Definition qr_encode_with_color {C : Type} (content : list Z) (level mode mask : Z) (scheme : C)
  : outcome (barcode * C) :=
  do bc <- qr_encode content level mode mask; Ok (bc, scheme).
