(* Executable model of /repo/qr/blocks.go (splitToBlocks, interleave) and
   /repo/qr/errorcorrection.go (calcECC over GF(256)/285, base 0), fed by
   BitList.IterateBytes.  No proofs here.

   The Reed-Solomon encoder is the history-free rs_encode_fresh of GFM (that the
   shared, caching encoder returns the same words is property C15's business). *)
From Verif Require Import Prelude BitListM GFM QRMBits.

(* errorcorrection.go: utils.NewGaloisField(285, 256, 0) *)
Definition qr_field : gfield := gf_new 285 256 0.

(* calcECC: ints in, Encode, byte(res[i]) out *)
Definition calc_ecc (data : list Z) (eccCount : Z) : outcome (list Z) :=
  do res <- rs_encode_fresh qr_field data eccCount;
  Ok (map (fun x => x mod 256) res).

(* BitList.IterateBytes (= GetBytes): 8 bits per byte, MSB first, a trailing
   partial byte is filled with zero bits *)
Fixpoint bits_val (l : list bool) (acc : Z) : Z :=
  match l with
  | [] => acc
  | b :: t => bits_val t (2 * acc + Z.b2z b)
  end.

Fixpoint bytes_of_bits (l : list bool) : list Z :=
  match l with
  | [] => []
  | b7 :: b6 :: b5 :: b4 :: b3 :: b2 :: b1 :: b0 :: rest =>
    bits_val [b7; b6; b5; b4; b3; b2; b1; b0] 0 :: bytes_of_bits rest
  | _ => [bits_val (l ++ repeat false (8 - length l)) 0]
  end.

(* k receives from the byte channel; a closed, drained channel yields 0 *)
Fixpoint recv_bytes (k : nat) (ch : list Z) : list Z * list Z :=
  match k with
  | O => ([], ch)
  | S j =>
    let '(x, ch1) := match ch with [] => (0, []) | x :: t => (x, t) end in
    let '(d, ch2) := recv_bytes j ch1 in
    (x :: d, ch2)
  end.

(* one group of splitToBlocks: n blocks of k data codewords each *)
Fixpoint take_blocks (n : nat) (k e : Z) (ch : list Z)
  : outcome (list (list Z * list Z) * list Z) :=
  match n with
  | O => Ok ([], ch)
  | S m =>
    let '(d, ch1) := recv_bytes (Z.to_nat k) ch in
    do ecc <- calc_ecc d e;
    do (bl, ch2) <- take_blocks m k e ch1;
    Ok ((d, ecc) :: bl, ch2)
  end.

(* splitToBlocks: group 1 then group 2 *)
Definition split_to_blocks (data : list Z) (vi : vinfo) : outcome (list (list Z * list Z)) :=
  do (g1, ch1) <- take_blocks (Z.to_nat (vi_n1 vi)) (vi_k1 vi) (vi_ecc vi) data;
  do (g2, _) <- take_blocks (Z.to_nat (vi_n2 vi)) (vi_k2 vi) (vi_ecc vi) ch1;
  Ok (g1 ++ g2).

(* one pass "for b := 0; b < len(bl); b++ { if len(bl[b].data) > i { append data[i] } }":
   the i-th elements of the blocks that have one, and the blocks without them *)
Fixpoint heads_tails (bl : list (list Z)) : list Z * list (list Z) :=
  match bl with
  | [] => ([], [])
  | b :: r =>
    let '(hs, ts) := heads_tails r in
    match b with
    | [] => (hs, [] :: ts)
    | x :: t => (x :: hs, t :: ts)
    end
  end.

Fixpoint interleave_data (rounds : nat) (bl : list (list Z)) : list Z :=
  match rounds with
  | O => []
  | S f => let '(hs, ts) := heads_tails bl in hs ++ interleave_data f ts
  end.

(* one pass "for b { append bl[b].ecc[i] }": indexing a too short ecc slice panics *)
Fixpoint heads_strict (bl : list (list Z)) : outcome (list Z * list (list Z)) :=
  match bl with
  | [] => Ok ([], [])
  | b :: r =>
    match b with
    | [] => Panic
    | x :: t => do (hs, ts) <- heads_strict r; Ok (x :: hs, t :: ts)
    end
  end.

Fixpoint interleave_ecc (rounds : nat) (bl : list (list Z)) : outcome (list Z) :=
  match rounds with
  | O => Ok []
  | S f =>
    do (hs, ts) <- heads_strict bl;
    do r <- interleave_ecc f ts;
    Ok (hs ++ r)
  end.

(* interleave.  (resultLen is computed in byte arithmetic and only used as the
   capacity hint of make; it has no influence on the result.) *)
Definition interleave (bl : list (list Z * list Z)) (vi : vinfo) : outcome (list Z) :=
  let maxCodewordCount := if vi_k1 vi >? vi_k2 vi then vi_k1 vi else vi_k2 vi in
  let d := interleave_data (Z.to_nat maxCodewordCount) (map fst bl) in
  do e <- interleave_ecc (Z.to_nat (vi_ecc vi)) (map snd bl);
  Ok (d ++ e).

(* EncodeWithColor up to render: blocks := splitToBlocks(bits.IterateBytes(), vi);
   data := blocks.interleave(vi) *)
Definition codewords_of_bits (bits : list bool) (vi : vinfo) : outcome (list Z) :=
  do bl <- split_to_blocks (bytes_of_bits bits) vi;
  interleave bl vi.
