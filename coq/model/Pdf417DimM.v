(* PDF417: pdf417/dimensions.go calcDimensions INSIDE the model (no proofs here).

   Pdf417M.pdf_calc_dimensions takes the column count as an oracle; here the
   loop of calcDimensions is modelled statement by statement, float64
   comparisons included, and pdf_encode_auto is pdf_encode instantiated with the
   column count this model chooses.

   FLOATS.  The only float64 values the code computes are
       newRatio = float64(17*cols+69) / float64(rows*moduleHeight)
   with cols, rows the CURRENT BEST shape (not the candidate c, r - that is what
   the code says), the initial ratio 0.0, and their distances to
   preferred_ratio = 3.0.  On the first accepted candidate rows = 0 and the
   quotient is float64(69)/float64(0) = +Inf (no panic: float division); the
   test `rows != 0 && ...` short-circuits there, +Inf is stored in `ratio`, and
   on the next candidate |newRatio-3| > |+Inf-3| = +Inf is false.  Values are
   modelled exactly: +Inf or a pair numerator/denominator of integers
   (denominator > 0; the numerator 17*cols+69 >= 69 is never 0, so no NaN), and
   |a/b-3| > |c/d-3| is decided by cross-multiplication |a-3b|*d > |c-3d|*b.

   FLOAT vs EXACT, enumerated (harness tag `pdfdimfloat` of go/impl/pdf417.go,
   re-run by every ./check C04, recorded in the evidence under
   shape_choice.float_vs_exact): for newRatio over all 841 shapes c1,r1 in
   2..30 and ratio over all 841 shapes c2,r2 in 2..30, +Inf and the initial
   0.0, i.e. 841*843 = 708963 pairs, the Go expression
       math.Abs(newRatio-preferred_ratio) > math.Abs(ratio-preferred_ratio)
   evaluated in float64 equals the exact rational answer in ALL 708963 pairs
   (agree=708963; 10 of the pairs are exact ties |x1-3| = |x2-3| with x1 <> x2,
   float64 also answers "not greater" there; float64(69)/float64(0) is +Inf).
   Hence no correction table is needed: the exact comparison below IS the
   float64 comparison on every pair of values the loop can produce
   (go1.23.5 linux/amd64, recorded 2026-10-01). *)
From Verif Require Import Prelude Barcode TabPdf417 Pdf417M.

(* a float64 value of the loop: +Inf or num/den, den > 0 *)
Inductive pdf_ratio : Type :=
| RInf
| RFrac (num den : Z).

(* preferred_ratio = 3.0 (a constant of dimensions.go; not among the generated tables) *)
Definition pdf_preferred_ratio : Z := 3.

(* float64(a) / float64(b) for a > 0, b >= 0 *)
Definition pdf_fdiv (a b : Z) : pdf_ratio := if b =? 0 then RInf else RFrac a b.

(* math.Abs(x - preferred_ratio) *)
Definition pdf_abs_dev (x : pdf_ratio) : pdf_ratio :=
  match x with
  | RInf => RInf
  | RFrac n d => RFrac (Z.abs (n - pdf_preferred_ratio * d)) d
  end.

(* a > b on non-negative values; x > +Inf is false, +Inf > finite is true *)
Definition pdf_rgt (a b : pdf_ratio) : bool :=
  match a, b with
  | _, RInf => false
  | RInf, RFrac _ _ => true
  | RFrac n1 d1, RFrac n2 d2 => n1 * d2 >? n2 * d1
  end.

(* calculateNumberOfRows(m, k, c) is Pdf417M.pdf_number_of_rows m k c (Panic for c = 0) *)
Definition pdf_calculate_number_of_rows (m k c : Z) : outcome Z := pdf_number_of_rows m k c.

(* for c := minCols; c <= maxCols; c++ { ... }: n iterations left, state (ratio, cols, rows) *)
Fixpoint pdf_dim_loop (n : nat) (c m k : Z) (ratio : pdf_ratio) (cols rows : Z)
  : outcome (pdf_ratio * Z * Z) :=
  match n with
  | O => Ok (ratio, cols, rows)
  | S n' =>
    do r <- pdf_calculate_number_of_rows m k c;
    if r <? pdf_min_rows then Ok (ratio, cols, rows)                                  (* break *)
    else if r >? pdf_max_rows then pdf_dim_loop n' (c + 1) m k ratio cols rows         (* continue *)
    else
      let newRatio := pdf_fdiv (17 * cols + 69) (rows * pdf_module_height) in
      if negb (rows =? 0) && pdf_rgt (pdf_abs_dev newRatio) (pdf_abs_dev ratio)
      then pdf_dim_loop n' (c + 1) m k ratio cols rows                                 (* continue *)
      else pdf_dim_loop n' (c + 1) m k newRatio c r                                    (* ratio, cols, rows = newRatio, c, r *)
  end.

(* calcDimensions(dataWords, eccWords) (cols, rows) *)
Definition pdf_calc_dimensions_auto (m k : Z) : outcome (Z * Z) :=
  do st <- pdf_dim_loop (Z.to_nat (pdf_max_cols - pdf_min_cols + 1)) pdf_min_cols m k (RFrac 0 1) 0 0;
  let '(_, cols, rows) := st in
  if rows =? 0 then
    do r <- pdf_calculate_number_of_rows m k pdf_min_cols;
    if r <? pdf_min_rows then Ok (pdf_min_cols, pdf_min_rows) else Ok (cols, rows)
  else Ok (cols, rows).

(* EncodeWithColor / Encode with calcDimensions inside: Pdf417M.pdf_encode with its
   `pdf_calc_dimensions oracle` replaced by the modelled choice, nothing else changed *)
Definition pdf_encode_go (data : list Z) (level : Z) : outcome barcode :=
  if level >=? 9 then Err else
  do dataWords <- pdf_highlevel data;
  do (columns, rows) <- pdf_calc_dimensions_auto (zlength dataWords) (pdf_ec_count level);
  if (columns <? pdf_min_cols) || (columns >? pdf_max_cols) ||
     (rows <? pdf_min_rows) || (rows >? pdf_max_rows) then Err else
  do codeWords <- pdf_encode_data dataWords columns level;
  do grid <- pdf_grid (length codeWords) codeWords (Z.to_nat columns);
  do codes <- pdf_row_codes grid 0 rows columns level;
  let bits := pdf_render codes in
  let width := (columns + 4) * 17 + 1 in
  Ok {| bc_kind := KPDF; bc_content := data; bc_checksum := None;
        bc_width := width;
        bc_height := go_div (zlength bits) width * pdf_module_height;
        bc_rows := pdf_pixels bits width |}.

(* the column count calcDimensions chooses for data at level (0: none) *)
Definition pdf_auto_cols (data : list Z) (level : Z) : Z :=
  match pdf_highlevel data with
  | Ok dw =>
    match pdf_calc_dimensions_auto (zlength dw) (pdf_ec_count level) with
    | Ok (c, _) => c
    | _ => 0
    end
  | _ => 0
  end.

(* the per-column-count model function at the modelled choice: literally one of
   the instances the theorems of props/C04.v, C10..C13 quantify over
   (proofs/Pdf417DimP.v: pdf_encode_go = pdf_encode_auto) *)
Definition pdf_encode_auto (data : list Z) (level : Z) : outcome barcode :=
  pdf_encode data level (pdf_auto_cols data level).
