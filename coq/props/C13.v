(* C13 — The smallest symbol that fits is chosen.
   Property theorems only; proofs in the per-symbology developments. *)
From Verif Require Import Prelude Barcode.
From Verif Require Import DataMatrixM DataMatrixSpec DataMatrixP1 DataMatrixProps.
From Verif Require Import QRM QRSpec QRP6Compose QRProps.
From Verif Require Import AztecM AztecSpec AztecProps TabPdf417 Pdf417M Pdf417Spec Pdf417Props ExamplesP.

(* QR: the version is the smallest one whose capacity at the requested level holds the content
   in the mode used; Auto uses the densest single mode that can express the content *)
Theorem C13_qr : forall content level mode mask bc, is_bytes content -> valid_encoding mode -> 0 <= mask < 8 ->
  qr_encode content level mode mask = Ok bc ->
  exists l v, level_of_Z level = Some l /\ bc_width bc = spec_size v /\ 1 <= v <= 40
    /\ in_mode_alphabet (spec_mode_used mode content) content = true
    /\ spec_min_version (spec_mode_used mode content) l (zlength content) = Some v
    /\ spec_fits (spec_mode_used mode content) l (zlength content) v = true
    /\ (forall v', 1 <= v' < v -> spec_fits (spec_mode_used mode content) l (zlength content) v' = false).
Proof. exact qr_c13. Qed.
Print Assumptions C13_qr.

(* DataMatrix: the symbol is the smallest square ISO size holding the ASCII encodation *)
Theorem C13_datamatrix : forall content bc, bytes content -> dm_encode content = Ok bc ->
  exists e, dm_symbol_entry (bc_rows bc) = Some e /\ bc_width bc = iso_size e /\ bc_height bc = iso_size e
    /\ dm_ascii_len content <= iso_data e
    /\ (forall e', In e' iso_table -> dm_ascii_len content <= iso_data e' -> iso_size e <= iso_size e').
Proof. exact dm_c13. Qed.
Print Assumptions C13_datamatrix.

(* Aztec: for an automatically sized symbol, explicitly requesting ANY smaller compact or
   full-range size for the same payload and percentage is refused *)
Theorem C13_aztec : forall data pct bc req, az_in_domain data pct -> az_encode data pct 0 = Ok bc ->
  req <> 0 -> -4 <= req <= 32 -> sp_size (req <? 0) (Z.abs req) < bc_width bc ->
  az_encode data pct req = Err.
Proof. exact az_c13. Qed.
Print Assumptions C13_aztec.

(* PDF417 (for every column count the implementation may choose): fewer pad codewords than
   columns (less than one row of padding), the row count is the least one holding the codewords
   in that many columns, and the shape stays within 2..30 rows, 2..30 columns, <= 928 codewords *)
Theorem C13_pdf417 : forall data level cols bc, pdf_bytes data -> 0 <= level <= 255 ->
  pdf_encode data level cols = Ok bc ->
  exists dw sym, pdf_highlevel data = Ok dw /\ pdfs_read (bc_rows bc) = Some sym /\
    let pads := hd 0 (ps_codewords sym) - 1 - zlength dw in
    0 <= pads < ps_cols sym
    /\ firstn (Z.to_nat pads) (skipn (S (length dw)) (ps_codewords sym)) = repeat 900 (Z.to_nat pads)
    /\ ps_cols sym = cols
    /\ ps_cols sym * (ps_rows sym - 1) < zlength dw + 1 + 2 ^ (level + 1) <= ps_cols sym * ps_rows sym
    /\ 2 <= ps_cols sym <= 30 /\ 2 <= ps_rows sym <= 30
    /\ zlength (ps_codewords sym) = ps_rows sym * ps_cols sym /\ zlength (ps_codewords sym) <= 928.
Proof. exact pdf_c13. Qed.
Print Assumptions C13_pdf417.

(* the premises of the theorems above are satisfiable: one accepted input per 2-D symbology *)
Example C13_nonvacuous :
  accepted (dm_encode [72; 101; 108; 108; 111; 32; 49; 50; 51; 52])
  /\ bytes [72; 101; 108; 108; 111; 32; 49; 50; 51; 52]
  /\ accepted (qr_encode [104; 101; 108; 108; 111] 1 0 3)
  /\ is_bytes [104; 101; 108; 108; 111] /\ valid_encoding 0
  /\ accepted (az_encode c03_hello 33 0) /\ az_in_domain c03_hello 33
  /\ accepted (pdf_encode pdf_ex_padpunct 2 3) /\ pdf_bytes pdf_ex_padpunct.
Proof. exact twod_examples. Qed.
