(* C17 — Galois-field and Reed-Solomon utilities are algebraically correct.
   Property theorems only; proofs in proofs/GFP.v, PolyP.v, RSP.v, C17P.v. *)
From Verif Require Import Prelude GFM TabGF GFSpec GFP PolyP PolyCoefP RSP RSUniqueP C17P.

(* The run-time tables of every field the library constructs (dumped from
   /repo by gotab: QR, DataMatrix, Aztec 4/6/8/10/12-bit) are exactly what the
   model of NewGaloisField builds from the primitive polynomials and first
   roots the ISO standards prescribe. *)
Theorem C17_library_fields_are_the_iso_fields :
  (length gfdump_all =? length iso_fields)%nat
  && forallb (fun q => dump_matches (fst q) (snd q)) (combine gfdump_all iso_fields) = true.
Proof. exact library_fields_match_iso. Qed.
Print Assumptions C17_library_fields_are_the_iso_fields.

(* Field laws, for every library field and ALL operands: closure, commutativity,
   associativity, unit, distributivity over xor, inverse, division defined for
   every non-zero divisor and undoing multiplication, divide-by-zero panics
   (as in Go), no zero divisors. *)
Theorem C17_field_laws : forall f, In f library_fields ->
  forall a b c, in_field f a -> in_field f b -> in_field f c ->
    in_field f (gf_mul f a b)
    /\ gf_mul f a b = gf_mul f b a
    /\ gf_mul f (gf_mul f a b) c = gf_mul f a (gf_mul f b c)
    /\ gf_mul f a 1 = a
    /\ gf_mul f a (Z.lxor b c) = Z.lxor (gf_mul f a b) (gf_mul f a c)
    /\ (a <> 0 -> in_field f (gf_inv f a) /\ gf_mul f a (gf_inv f a) = 1)
    /\ (b <> 0 -> exists q, gf_div f a b = Ok q /\ in_field f q /\ gf_mul f q b = a)
    /\ (b <> 0 -> gf_div f (gf_mul f a b) b = Ok a)
    /\ gf_div f a 0 = Panic
    /\ (gf_mul f a b = 0 -> a = 0 \/ b = 0).
Proof. exact field_laws. Qed.
Print Assumptions C17_field_laws.

(* the table-driven product equals the textbook shift-and-add product modulo
   the primitive polynomial (all operand pairs; fields up to 256 elements) *)
Theorem C17_mul_is_textbook : forall pp size base, In (pp, size, base) small_iso_fields ->
  forall a b, 0 <= a < size -> 0 <= b < size ->
  gf_mul (gf_new pp size base) a b = clmul pp size (Z.to_nat (Z.log2 size)) a b.
Proof. exact mul_textbook. Qed.
Print Assumptions C17_mul_is_textbook.

(* Polynomial division, for every library field and all normalised operands with
   a non-zero divisor: Divide terminates, never panics, the remainder is shorter
   than the divisor (or zero), and
     AddOrSubstract (Multiply quotient divisor) remainder = dividend
   as coefficient lists (and hence at every point of the field). *)
Theorem C17_poly_division : forall f, In f library_fields ->
  forall p g, poly_ok f p -> poly_ok f g -> poly_is_zero g = false ->
  exists q r, poly_div f p g = Ok (q, r) /\ poly_ok f q /\ poly_ok f r
    /\ ((length r < length g)%nat \/ poly_is_zero r = true)
    /\ poly_add (poly_mul f q g) r = p
    /\ forall y, in_field f y ->
       poly_eval f p y = Z.lxor (gf_mul f (poly_eval f q y) (poly_eval f g y)) (poly_eval f r y).
Proof. exact poly_division. Qed.
Print Assumptions C17_poly_division.

(* Reed-Solomon: for every library field, every data vector, every number of
   check symbols k with 1 <= k and base + k <= size, and EVERY history of
   earlier requests on the same encoder (any degrees, any order): Encode never
   panics, returns k symbols of the field, the same symbols a fresh encoder
   returns, and data ++ ecc evaluates to zero at alpha^base .. alpha^(base+k-1).
   C17_check_symbols_unique below shows these are exactly THE symbols. *)
Theorem C17_reed_solomon : forall f, In f library_fields ->
  forall history data k, Forall (request_ok f) history -> request_ok f (data, k) ->
  exists cache cache' ecc,
    rs_run f rs_init history = Ok cache
    /\ rs_encode f cache data k = Ok (cache', ecc)
    /\ rs_encode_fresh f data k = Ok ecc
    /\ zlength ecc = k /\ Forall (in_field f) ecc
    /\ forall i, 0 <= i < k ->
       poly_eval f (data ++ ecc) (tget (gf_alog f) (gf_base f + i)) = 0.
Proof. exact rs_correct. Qed.
Print Assumptions C17_reed_solomon.

(* uniqueness: any k field symbols that make data ++ check vanish at the k distinct
   points alpha^base .. alpha^(base+k-1) (base + k <= size - 1) are the ones Encode
   returns (a polynomial of degree < k with k distinct roots in a field is zero) *)
Theorem C17_check_symbols_unique : forall f, In f library_fields ->
  forall data k ecc ecc', 1 <= k -> gf_base f + k <= gf_size f - 1 ->
  Forall (in_field f) data -> Forall (in_field f) ecc -> Forall (in_field f) ecc' ->
  zlength ecc = k -> zlength ecc' = k ->
  (forall i, 0 <= i < k -> poly_eval f (data ++ ecc) (tget (gf_alog f) (gf_base f + i)) = 0) ->
  (forall i, 0 <= i < k -> poly_eval f (data ++ ecc') (tget (gf_alog f) (gf_base f + i)) = 0) ->
  ecc = ecc'.
Proof. exact rs_unique. Qed.
Print Assumptions C17_check_symbols_unique.

(* non-vacuity *)
Example C17_nonvacuous_field : In (field_of_dump gfdump_qr) library_fields.
Proof. exact library_has_qr_field. Qed.
Example C17_nonvacuous_rs :
  rs_encode_fresh (field_of_dump gfdump_qr)
    [16; 32; 12; 86; 97; 128; 236; 17; 236; 17; 236; 17; 236; 17; 236; 17] 10
  = Ok [165; 36; 212; 193; 237; 54; 199; 135; 44; 85].
Proof. exact rs_example. Qed.
