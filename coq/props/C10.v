(* C10 — Encoders accept exactly the representable inputs and never panic or hang.
   Property theorems only; proofs in proofs/C10P.v and the per-symbology developments.

   For every entry point: exact_acceptance r repr  :=
       (repr = true  -> exists barcode, r = Ok barcode)  /\  (repr = false -> r = Err)
   so the model returns a barcode XOR an error, never Panic (no index/nil/explicit panic is
   reachable) and never OutOfFuel (every loop terminates within its fuel), and the error
   occurs exactly when the input is not representable.  `repr` is the specification-side
   predicate of the symbology (alphabet, length/parity/check-digit rule, capacity). *)
From Verif Require Import Prelude Barcode Utf8M.
From Verif Require Import EanM EanSpec CodabarM CodabarSpec TwoOfFiveM TwoOfFiveSpec.
From Verif Require Import Code128M Code128Spec Code39M Code39Spec Code93M Code93Spec.
From Verif Require Import DataMatrixM DataMatrixSpec DataMatrixP1 QRM QRSpec QRP6Compose QRProps.
From Verif Require Import AztecM AztecSpec AztecPConfig AztecProps TabPdf417 Pdf417M Pdf417Spec Pdf417Props.
From Verif Require Import ReprSpec C10P C10AzP C10PdfP.

Theorem C10_contract_means_total : forall A (r : outcome A) b, exact_acceptance r b ->
  r <> Panic /\ r <> OutOfFuel /\ ((exists x, r = Ok x) \/ r = Err).
Proof. exact @exact_acceptance_total. Qed.
Print Assumptions C10_contract_means_total.

(* EAN: 7/12 digits, or 8/13 digits whose last digit is the GS1 check digit *)
Theorem C10_ean : forall s, exact_acceptance (ean_encode s) (ean_representable s).
Proof. exact ean_exact. Qed.
Print Assumptions C10_ean.

(* Codabar: start letter A-D, body over 0-9 - $ : / . +, stop letter A-D *)
Theorem C10_codabar : forall s, exact_acceptance (codabar_encode s) (codabar_representable s).
Proof. exact codabar_exact. Qed.
Print Assumptions C10_codabar.

(* 2 of 5: non-empty ASCII digits, even count when interleaved; and the check-digit helper *)
Theorem C10_twooffive : forall s il, exact_acceptance (tof_encode s il) (tof_representable il s).
Proof. exact tof_exact. Qed.
Print Assumptions C10_twooffive.
Theorem C10_twooffive_checksum : forall s, exact_acceptance (tof_add_checksum s) (tofcs_representable s).
Proof. exact tofcs_exact. Qed.
Print Assumptions C10_twooffive_checksum.

(* Code 128, both variants: 1..80 runes from ASCII 0..127 and FNC1..4 *)
Theorem C10_code128 : forall content,
  exact_acceptance (c128_encode content) (c128_representable content)
  /\ exact_acceptance (c128_encode_nocs content) (c128_representable content).
Proof. exact c128_exact. Qed.
Print Assumptions C10_code128.

(* Code 39 / Code 93, every option mix: the basic alphabet (no '*'), or ASCII 0..127 in full-ASCII mode *)
Theorem C10_code39 : forall s cs full, exact_acceptance (c39_encode s cs full) (c39_accepts full s).
Proof. exact c39_exact. Qed.
Print Assumptions C10_code39.
Theorem C10_code93 : forall s cs full, exact_acceptance (c93_encode s cs full) (c93_accepts full s).
Proof. exact c93_exact. Qed.
Print Assumptions C10_code93.

(* DataMatrix: any byte string whose ASCII encodation has at most 1558 codewords *)
Theorem C10_datamatrix : forall content, bytes content ->
  exact_acceptance (dm_encode content) (dm_representable content).
Proof. exact dm_exact. Qed.
Print Assumptions C10_datamatrix.

(* QR, the four defined modes, ANY level value, any mask the implementation may pick:
   the level exists, the content is in the mode's alphabet (Auto: any), some version <= 40 holds it *)
Theorem C10_qr : forall content level mode mask, valid_encoding mode -> 0 <= mask < 8 ->
  exact_acceptance (qr_encode content level mode mask) (qr_representable content level mode).
Proof. exact qr_exact. Qed.
Print Assumptions C10_qr.

(* capacity sanity: 7089 digits / 4296 alphanumeric / 2953 bytes fit 40-L, one more does not *)
Theorem C10_qr_capacity_examples :
  qr_representable (repeat 55 7089) 0 1 = true /\ qr_representable (repeat 55 7090) 0 1 = false
  /\ qr_representable (repeat 65 4296) 0 2 = true /\ qr_representable (repeat 65 4297) 0 2 = false
  /\ qr_representable (repeat 97 2953) 0 3 = true /\ qr_representable (repeat 97 2954) 0 3 = false.
Proof. exact qr_capacity_examples. Qed.
Print Assumptions C10_qr_capacity_examples.

(* Aztec, every payload, every percentage >= 0, EVERY int as layer request (incl. the extreme
   values): the layer request is 0 or within -4..32 and the high-level bits plus the requested
   share of check bits fit the requested configuration, resp. one of the 33 automatic ones.
   az_in_domain: bytes, length < 2^57, pct >= 0 and hlbits*pct < 2^63 (the range in which Go's
   int arithmetic agrees with Z). *)
Theorem C10_aztec : forall data pct req, az_in_domain data pct ->
  exact_acceptance (az_encode data pct req) (az_representable_b data pct req).
Proof. exact az_exact. Qed.
Print Assumptions C10_aztec.

(* PDF417, every byte string and every security level byte 0..255; the column count is an oracle
   (the implementation's aspect-ratio heuristic), the statement holds for EVERY oracle: a level
   above 8 or more than 900 codewords (data + length descriptor + 2^(level+1) check words) is an
   error whatever the heuristic answers; otherwise a legal column count exists and any legal one
   yields a barcode; never a panic. *)
Theorem C10_pdf417 : forall data level, pdf_bytes data -> 0 <= level <= 255 ->
  (pdf_representable_b data level = false -> forall oracle, pdf_encode data level oracle = Err)
  /\ (pdf_representable_b data level = true ->
        exists dw, pdf_highlevel data = Ok dw
        /\ (exists c, pdf_shape_ok (zlength dw) (pdf_ec_count level) c = true)
        /\ forall oracle, pdf_shape_ok (zlength dw) (pdf_ec_count level) oracle = true ->
             exists bc, pdf_encode data level oracle = Ok bc)
  /\ (forall oracle, pdf_encode data level oracle <> Panic /\ pdf_encode data level oracle <> OutOfFuel).
Proof. exact pdf_exact. Qed.
Print Assumptions C10_pdf417.

(* the hypotheses are satisfiable: a payload in the Aztec domain that is accepted *)
Example C10_nonvacuous :
  az_in_domain c03_hello 33 /\ az_representable_b c03_hello 33 0 = true
  /\ ean_representable [53; 57; 48; 49; 50; 51; 52] = true.
Proof. exact c10_examples. Qed.
