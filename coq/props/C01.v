(* C01 -- placeholder while the proofs are being built *)
From Verif Require Import Prelude Barcode QRM QRSpec.
Example C01_sanity :
  match qr_encode [104;101;108;108;111] 1 0 3 with
  | Ok bc => qr_decode_rows (bc_rows bc) = Some [104;101;108;108;111]
  | _ => False
  end.
Proof. vm_compute. reflexivity. Qed.
Print Assumptions C01_sanity.
