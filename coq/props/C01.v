(* C01 -- QR Code: every accepted content decodes back to exactly that content.
   Property theorems only; proofs live in proofs/QRP*.v and proofs/QRProps.v.

   Model: model/QRMBits.v (mode encoders, version search, padding), QRMBlocks.v
   (block split, Reed-Solomon, interleave), QRMRender.v (function patterns,
   placement, masks), QRM.v (qr_encode content level mode mask).  The mask is a
   parameter: render's penalty-based choice is not constrained by the property,
   the theorems hold for each of the 8 masks (DESIGN 2.2).  QRMPenalty.v models that
   choice as well (calcPenaltyRule1..4, first lowest penalty): qr_encode_auto is
   Encode with the selection; it is one of the 8 candidates, so the theorems carry
   over (C01_roundtrip_selected), and the selection loop returns the first index of
   minimal penalty (C01_mask_selection).  A different choice by the implementation
   is NOT a violation of C01; the check records it as information only.
   Specification: spec/QRSpec.v, written from ISO/IEC 18004: qr_valid_rows and
   qr_decode_rows read the symbol like a reader (size -> version, both format
   copies BCH-valid and equal, version information, unmasking, codewords in
   placement order, de-interleaving, every block syndrome-free, segment parsing,
   terminator / pad check, all fixed patterns in place).
   Strings are byte lists (is_bytes: every element in 0..255). *)
From Verif Require Import Prelude Barcode BitListM GFM TabQr QRMBits QRMBlocks QRMRender QRM QRMPenalty QRSpec
  QRP1Tables QRP2Layout QRP3Pad QRP4Blocks QRP5Place QRP6Compose QRProps QRPenaltyP.

(* The main theorem.  For every content, level value, mode among Auto / Numeric /
   AlphaNumeric / Unicode and mask: if the encoder returns a barcode, its image is a
   structurally valid symbol and the reference decoder returns byte-for-byte the
   content that was passed in.  (Auto: whichever of the three encoders accepted.) *)
Theorem C01_roundtrip : forall content level mode mask bc,
  is_bytes content -> valid_encoding mode -> 0 <= mask < 8 ->
  qr_encode content level mode mask = Ok bc ->
  qr_valid_rows (bc_rows bc) = true /\ qr_decode_rows (bc_rows bc) = Some content.
Proof. exact qr_c01_roundtrip. Qed.
Print Assumptions C01_roundtrip.

(* What the reader finds: the version of the symbol size, the requested level, the
   mask, conformant terminator / padding / remainder bits, and every Reed-Solomon
   block of the ISO block structure syndrome-free. *)
Theorem C01_reading : forall content level mode mask bc,
  is_bytes content -> valid_encoding mode -> 0 <= mask < 8 ->
  qr_encode content level mode mask = Ok bc ->
  exists r l v,
    qr_read_rows (bc_rows bc) = Some r /\ level_of_Z level = Some l
    /\ bc_width bc = spec_size v /\ 1 <= v <= 40
    /\ rd_version r = v /\ rd_level r = l /\ rd_mask r = mask /\ rd_content r = content
    /\ rd_padding_ok r = true /\ rd_remainder_ok r = true
    /\ forallb (block_ok (bl_e (spec_blocks v l))) (rd_blocks r) = true.
Proof. exact qr_c01_reading. Qed.
Print Assumptions C01_reading.

(* The main theorem for the symbol Encode returns: qr_encode_auto builds the 8 candidates and
   returns the one render's penalty loop selects.  Same conclusion as C01_roundtrip. *)
Theorem C01_roundtrip_selected : forall content level mode bc,
  is_bytes content -> valid_encoding mode ->
  qr_encode_auto content level mode = Ok bc ->
  qr_valid_rows (bc_rows bc) = true /\ qr_decode_rows (bc_rows bc) = Some content.
Proof. exact qr_c01_roundtrip_auto. Qed.
Print Assumptions C01_roundtrip_selected.

(* qr_encode_auto is one of the candidates of qr_encode, and it accepts exactly what qr_encode
   accepts: same kind of outcome as qr_encode with mask 0, for every content, level and mode. *)
Theorem C01_selected_is_candidate : forall content level mode,
  (forall bc, qr_encode_auto content level mode = Ok bc ->
     exists mask, 0 <= mask < 8 /\ qr_encode content level mode mask = Ok bc)
  /\ match qr_encode content level mode 0 with
     | Ok _ => exists bc, qr_encode_auto content level mode = Ok bc
     | Err => qr_encode_auto content level mode = Err
     | Panic => qr_encode_auto content level mode = Panic
     | OutOfFuel => qr_encode_auto content level mode = OutOfFuel
     end.
Proof. exact (fun c l m => conj (qr_encode_auto_is_candidate c l m) (qr_encode_auto_outcome c l m)). Qed.
Print Assumptions C01_selected_is_candidate.

(* The selection loop of render (lowestPenalty / lowestPenaltyIdx): for a non-empty candidate list
   the index is inside the list, the chosen candidate's penalty is <= every candidate's and
   strictly below the penalty of every earlier candidate (first one wins ties). *)
Theorem C01_mask_selection : forall ms, ms <> [] ->
  exists mk, zget ms (choose_mask ms) = Some mk
    /\ forall j mj, zget ms j = Some mj ->
         calc_penalty mk <= calc_penalty mj /\ (j < choose_mask ms -> calc_penalty mk < calc_penalty mj).
Proof. exact choose_mask_minimal. Qed.
Print Assumptions C01_mask_selection.

(* Layer 1 -- the tables of the source (regenerated into gen/TabQr.v on every run) are
   the ISO tables: the 160 block-structure rows, the 32 format words = BCH(15,5) xor
   101010000010010 and the 34 version words = Golay(18,6), both computed; the
   45-character set; the alignment positions of Annex E for all 40 versions (the Go
   code computes them with floats); the character count widths; and no accepted
   character count overflows its count field. *)
Theorem C01_tables :
  qr_version_infos = iso_rows
  /\ qr_format_infos
     = map (fun l => (level_Z l, map (fun m => (m, word_bits 15 (format_word l m))) (sseq 0 8))) all_levels
  /\ qr_version_bits = map (fun v => (v, word_bits 18 (version_word v))) (sseq 7 34)
  /\ qr_charset = iso_alnum
  /\ (forall v, 1 <= v <= 40 -> alignment_placements v = Ok (alignment_centres v))
  /\ (forall v, 1 <= v <= 40 ->
        char_count_bits v qr_numeric_mode = spec_ccb SNumeric v
        /\ char_count_bits v qr_alphanumeric_mode = spec_ccb SAlnum v
        /\ char_count_bits v qr_byte_mode = spec_ccb SByte v)
  /\ (forall vi m n, In vi version_infos -> 0 <= n ->
        4 + spec_ccb m (vi_version vi) + spec_data_bits m n <= 8 * total_data_bytes vi ->
        n < 2 ^ spec_ccb m (vi_version vi)).
Proof. exact qr_c01_tables. Qed.
Print Assumptions C01_tables.

(* Layer 2 -- layout of each of the 40 versions: function-module map = ISO map,
   zig-zag order = the specification's column-pair order, duplicate-free, disjoint from
   the function modules, of length 8*codewords + remainder bits, fixed patterns of the
   prescribed colour, format targets = the two ISO copies (record layout_facts);
   and the 8 mask predicates are those of Table 10 for all coordinates. *)
Theorem C01_layout :
  (forall v, 1 <= v <= 40 ->
     exists occ res0 order,
       base_matrix v = Ok (occ, res0) /\ iterate_modules occ = Ok order
       /\ layout_facts v occ res0 order)
  /\ (forall mask x y, 0 <= mask < 8 -> 0 <= x -> 0 <= y -> mask_bit mask x y = spec_mask mask x y).
Proof. exact qr_c01_layout. Qed.
Print Assumptions C01_layout.

(* Layer 3 -- each mode encoder against the reader's segment parser, for contents of
   any length: exactly 8*totalDataBytes bits, parsed back to the content, conformant
   terminator and padding. *)
Theorem C01_segments : forall m content level bits vi,
  (m = SByte -> is_bytes content) ->
  encoder_of m content level = Ok (bits, vi) ->
  in_mode_alphabet m content = true
  /\ zlength bits = 8 * total_data_bytes vi
  /\ exists rest, parse_segments (S (length bits)) (vi_version vi) bits = Some (content, rest)
       /\ padding_ok rest = true.
Proof. exact qr_c01_segments. Qed.
Print Assumptions C01_segments.

(* Layer 3 -- block split, Reed-Solomon and interleaving of every table row: the
   reader's de-interleaver recovers blocks that are all syndrome-free, carry the ISO
   number of check codewords and whose data is the bit stream (record blocks_facts). *)
Theorem C01_blocks : forall bits vi l,
  In vi version_infos -> level_of_Z (vi_level vi) = Some l ->
  zlength bits = 8 * total_data_bytes vi ->
  exists data, codewords_of_bits bits vi = Ok data /\ blocks_facts (vi_version vi) l bits data.
Proof. exact qr_c01_blocks. Qed.
Print Assumptions C01_blocks.

(* Layer 3, general forms -- de-interleaving inverts interleaving for an ARBITRARY block
   structure: n1 = |g1| blocks of k1 data codewords, n2 = |g2| blocks of k1+1, e check
   codewords each (good_block also records that the block is a valid RS codeword);
   r is the number of extra passes (1 iff there is a second group). *)
Theorem C01_interleave_roundtrip :
  forall (g1 g2 : list (list Z * list Z)) (k1 : nat) (e : Z) (r : nat) layout,
  Forall (good_block k1 e) g1 -> Forall (good_block (S k1) e) g2 ->
  (g2 = [] /\ r = 0%nat) \/ r = 1%nat ->
  0 <= e ->
  bl_e layout = e -> bl_n1 layout = Z.of_nat (length g1) -> bl_k1 layout = Z.of_nat k1 ->
  bl_n2 layout = Z.of_nat (length g2) ->
  forall ecs, interleave_ecc (Z.to_nat e) (map snd (g1 ++ g2)) = Ok ecs ->
  deinterleave layout (interleave_data (k1 + r) (map fst (g1 ++ g2)) ++ ecs) = g1 ++ g2.
Proof. exact qr_c01_interleave. Qed.
Print Assumptions C01_interleave_roundtrip.

(* Placement: writing masked bits at a duplicate-free list of in-range cells never
   panics, changes no other cell, and unmasking the written cells returns the bits
   (continued with zeros when the bits run out: the remainder bits). *)
Theorem C01_placement : forall dim order bits mask m,
  qm_dim m = dim -> Forall (in_range dim) order -> NoDup (map (cell_key dim) order) ->
  exists m', place_bits order bits mask m = Ok m' /\ qm_dim m' = dim
    /\ (forall q, ~ In (cell_key dim q) (map (cell_key dim) order) -> peek m' q = peek m q)
    /\ map (fun p => xorb (peek m' p) (mask_bit mask (fst p) (snd p))) order
       = take_pad (length order) bits.
Proof. exact qr_c01_placement. Qed.
Print Assumptions C01_placement.

(* The bit stream is a list of booleans (theorem C18); on a whole number of bytes the
   model's IterateBytes is the byte view pack8 of C18's boolean-sequence specification. *)
Theorem C01_bitlist_bytes : forall bits, (exists n, length bits = (8 * n)%nat) ->
  bytes_of_bits bits = BitListM.pack8 bits.
Proof. exact qr_c01_bitlist_bytes. Qed.
Print Assumptions C01_bitlist_bytes.

(* the hypotheses are satisfiable: concrete symbols of versions 1, 2 (numeric), 6 and
   12, four masks, evaluated by the kernel *)
Example C01_nonvacuous_hello :
  match qr_encode [104; 101; 108; 108; 111] 1 0 3 with
  | Ok bc => qr_decode_rows (bc_rows bc) = Some [104; 101; 108; 108; 111]
             /\ qr_valid_rows (bc_rows bc) = true /\ bc_width bc = 21
  | _ => False
  end.
Proof. exact qr_example_hello. Qed.

Example C01_nonvacuous_versions :
  forallb (fun p =>
    match qr_encode (repeat 55 (Z.to_nat (fst p))) 0 1 (snd p) with
    | Ok bc => match qr_decode_rows (bc_rows bc) with
               | Some c => (zlength c =? fst p) && qr_valid_rows (bc_rows bc)
               | None => false
               end
    | _ => false
    end) [(41, 0); (42, 1); (300, 2); (1000, 5)] = true.
Proof. exact qr_example_versions. Qed.

(* the selection on concrete contents: the model picks the masks qr.Encode picks (0, 3, 5, 3,
   read off the implementation's output), and the selected symbol is that candidate and reads back *)
Example C01_selected_masks :
  map (fun t => qr_chosen_mask (fst (fst t)) (snd (fst t)) (snd t))
      [([104; 101; 108; 108; 111], 1, 0); ([49; 50; 51; 52; 53], 0, 1);
       ([72; 69; 76; 76; 79; 32; 87; 79; 82; 76; 68], 3, 2); ([195; 169], 2, 3)]
  = [Ok 0; Ok 3; Ok 5; Ok 3]
  /\ match qr_encode_auto [104; 101; 108; 108; 111] 1 0 with
     | Ok bc => qr_encode [104; 101; 108; 108; 111] 1 0 0 = Ok bc
                /\ qr_decode_rows (bc_rows bc) = Some [104; 101; 108; 108; 111]
                /\ qr_valid_rows (bc_rows bc) = true
     | _ => False
     end.
Proof. exact qr_example_auto. Qed.
