(* C15 — Encoding is a pure function: deterministic, history-free, no aliasing.
   Property theorems only; proofs in proofs/PurityP.v (and RSP.v, ConcP.v). *)
From Coq Require Import String Permutation.
From Verif Require Import Prelude GFM GFP PolyP RSP TabGF GFSpec C17P TabSync ConcM ConcP PurityM PurityP.
From Verif Require Import TabCode39 TabCode93 Code39M Code93M Code39Spec Code93Spec Code39P Code93P.
Import List ListNotations.

(* Structural facts of the current source (gosync): no package-level variable is
   assigned outside init(); the only objects shared between calls through which
   a mutating method is invoked are the two Reed-Solomon encoders qr.ec and
   datamatrix.ec; no function stores a slice-typed parameter into a struct field
   and no exported function writes into a slice-typed parameter. *)
Theorem C15_structural_facts :
  facts_good facts_from_source = true
  /\ retains_from_source = false /\ writes_params_from_source = false
  /\ appends_only_internal = true.
Proof.
  split; [exact facts_from_source_good|]. destruct source_does_not_retain as [A B].
  split; [exact A|]. split; [exact B|exact source_appends_only_internal].
Qed.
Print Assumptions C15_structural_facts.

(* History freedom.  The library as a state machine over the two shared generator
   caches: after ANY history of encode calls (each a list of Reed-Solomon requests,
   any symbologies, any order), every call returns the Reed-Solomon results a
   freshly started process returns; all other computation of an encoder is a pure
   Gallina function of its arguments and these results. *)
Theorem C15_history_free :
  let fq := field_of_dump gfdump_qr in
  let fd := field_of_dump gfdump_datamatrix in
  forall history o, Forall (op_ok fq fd) history -> op_ok fq fd o ->
  exists s s' res, lib_run fq fd lib_init history = Ok s
    /\ lib_step fq fd s o = Ok (s', res) /\ lib_fresh fq fd o = Ok res.
Proof.
  intros fq fd history o.
  apply lib_call_is_pure; [exact qr_field_ok|exact dm_field_ok].
Qed.
Print Assumptions C15_history_free.

(* No aliasing.  For the entry point that receives caller memory (aztec.Encode /
   EncodeWithColor, payload []byte): for EVERY history of encodes, writes into the
   caller's buffers and observations, with the storage discipline the source has
   (retains_from_source), Content() and the pixels of every returned barcode are
   those of an immutable snapshot taken at encode time, and the heap after the
   history is the one produced by the caller's own writes alone. *)
Theorem C15_barcodes_are_snapshots : forall enc ops s objs,
  Forall2 obj_matches (hs_objs s) objs ->
  let '(s', outs) := hrun enc retains_from_source s ops in
  let '(h', objs', outs') := srun enc (hs_heap s) objs ops in
  hs_heap s' = h' /\ outs = outs'.
Proof.
  intros enc ops s objs. rewrite (proj1 source_does_not_retain). apply barcodes_are_snapshots.
Qed.
Print Assumptions C15_barcodes_are_snapshots.

(* the property is not vacuous: an implementation that kept the caller's slice
   (the repaired defect) violates the snapshot specification *)
Theorem C15_retaining_would_break_it : forall enc, enc [104] <> None ->
  snd (hrun enc true {| hs_heap := [[104]]; hs_objs := [] |} [HEncode 0; HMutate 0 0 74; HContent 0])
  <> snd (srun enc [[104]] [] [HEncode 0; HMutate 0 0 74; HContent 0]).
Proof. exact retaining_breaks_snapshot. Qed.
Print Assumptions C15_retaining_would_break_it.

(* Determinism of the map searches.  code39/code93 getChecksum range over a Go map
   (unspecified iteration order) looking for the key with a given value: whenever
   no two keys carry the same value the result is the same for every traversal
   order (the NoDup premise is discharged on the generated tables in C07). *)
Theorem C15_map_search_order_independent : forall tbl tbl' v,
  NoDup (map snd tbl) -> Permutation tbl tbl' -> find_by_value tbl' v = find_by_value tbl v.
Proof. exact find_by_value_order_independent. Qed.
Print Assumptions C15_map_search_order_independent.

(* ... and on the tables generated from the current source no two keys carry the same
   value, so both getChecksum searches are deterministic whatever order Go picks *)
Theorem C15_checksum_searches_deterministic :
  (forall tbl v, Permutation code39_encode_table tbl ->
     c39_find_value tbl v = c39_find_value code39_encode_table v)
  /\ (forall tbl v, Permutation code93_encode_table tbl ->
     c93_find_value tbl v = c93_find_value code93_encode_table v).
Proof. exact (conj c39_value_search_order_independent c93_value_search_order_independent). Qed.
Print Assumptions C15_checksum_searches_deterministic.

Example C15_nonvacuous_history :
  let fq := field_of_dump gfdump_qr in
  let fd := field_of_dump gfdump_datamatrix in
  Forall (op_ok fq fd) [LQR [([1; 2; 3], 10); ([4; 5], 30)]; LOther; LDM [([7; 7; 7], 5)]]
  /\ op_ok fq fd (LQR [([9; 9], 7)]).
Proof.
  destruct qr_field_params as [Sq Bq]. destruct dm_field_params as [Sd Bd].
  assert (Hq : forall d k, 1 <= k -> k <= 256 -> Forall (fun c => 0 <= c < 256) d ->
                req_ok (field_of_dump gfdump_qr) (d, k)).
  { intros d k H1 H2 H3. unfold req_ok. cbn [fst snd]. unfold PolyP.inr. rewrite Sq, Bq. repeat split; auto; lia. }
  assert (Hd : forall d k, 1 <= k -> 1 + k <= 256 -> Forall (fun c => 0 <= c < 256) d ->
                req_ok (field_of_dump gfdump_datamatrix) (d, k)).
  { intros d k H1 H2 H3. unfold req_ok. cbn [fst snd]. unfold PolyP.inr. rewrite Sd, Bd. repeat split; auto; lia. }
  split.
  - constructor; [|constructor; [|constructor; [|constructor]]]; cbn [op_ok]; unfold reqs_ok.
    + constructor; [apply Hq; [lia|lia|repeat constructor; lia]|].
      constructor; [apply Hq; [lia|lia|repeat constructor; lia]|constructor].
    + exact I.
    + constructor; [apply Hd; [lia|lia|repeat constructor; lia]|constructor].
  - cbn [op_ok]. unfold reqs_ok. constructor; [apply Hq; [lia|lia|repeat constructor; lia]|constructor].
Qed.
