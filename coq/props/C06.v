(* C06 — EAN-8/EAN-13: digits, parity and check digit are encoded and validated.
   Property theorems only; proofs live in proofs/EanP.v.

   ean_encode        : executable model of ean.Encode (model/EanM.v), input = the
                       BYTES of the Go string, any bytes
   ean_representable : 7/12 ASCII digits, or 8/13 ASCII digits ending in the GS1
                       check digit of the others (spec/EanSpec.v)
   ean_full_number   : the digits the symbol must carry (input, completed by the
                       check digit when 7/12 digits were given)
   ean_decode        : reference decoder modules -> digits through the L/G/R
                       number sets and the first-digit parity table
   ean_frame_ok      : 67/95 modules, guard bars 101 / 01010 / 101 in place *)
From Verif Require Import Prelude Barcode TabEan EanM EanSpec EanP.

(* the table in ean/encoder.go (as it is now) is the standard one: L literal,
   R = complement of L, G = mirrored R, first-digit parity rows *)
Theorem C06_source_table_is_standard : ean_encoder_table = ean_standard_table.
Proof. exact ean_table_matches_standard. Qed.
Print Assumptions C06_source_table_is_standard.

(* every code word of the three number sets reads back as (set, digit) *)
Theorem C06_number_sets_uniquely_decodable : forall s d,
  0 <= d <= 9 -> decode_digit (ean_code s d) = Some (s, d).
Proof. exact decode_digit_code. Qed.
Print Assumptions C06_number_sets_uniquely_decodable.

(* the representable inputs, spelled out *)
Theorem C06_representable_spelled_out : forall s,
  ean_representable s = true <->
  exists data, Forall (fun d => 0 <= d <= 9) data
    /\ (length data = 7 \/ length data = 12)%nat
    /\ (s = chars_of data \/ s = chars_of (data ++ [gs1_check data])).
Proof. exact ean_representable_iff. Qed.
Print Assumptions C06_representable_spelled_out.

(* Soundness: whenever the encoder returns a barcode for a byte string s, then s
   is representable, Content() is the full number (with the GS1 check digit
   appended if 7/12 digits were given), the kind is EAN 8 / EAN 13, CheckSum()
   is the last digit, the image is one row of 67 / 95 modules with the guard
   bars in place, and the reference decoder reads exactly the full number. *)
Theorem C06_ean_sound : forall s bc,
  ean_encode s = Ok bc ->
  let full := ean_full_number s in
  ean_representable s = true
  /\ bc_kind bc = (if (length full =? 8)%nat then KEAN8 else KEAN13)
  /\ bc_content bc = chars_of full
  /\ bc_checksum bc = Some (last full 0)
  /\ bc_height bc = 1
  /\ exists bits, bc_rows bc = [bits]
       /\ bc_width bc = zlength bits
       /\ length bits = (if (length full =? 8)%nat then 67%nat else 95%nat)
       /\ ean_frame_ok bits = true
       /\ ean_decode bits = Some full.
Proof. exact ean_sound. Qed.
Print Assumptions C06_ean_sound.

(* the hypothesis is satisfiable *)
Example C06_sound_nonvacuous : exists bc, ean_encode [53;57;48;49;50;51;52] = Ok bc.
Proof. exact (ean_complete _ ean_example_8). Qed.

(* Completeness: every representable string is accepted. *)
Theorem C06_ean_complete : forall s,
  ean_representable s = true -> exists bc, ean_encode s = Ok bc.
Proof. exact ean_complete. Qed.
Print Assumptions C06_ean_complete.

Example C06_complete_nonvacuous :
  ean_representable [53;57;48;49;50;51;52;49;50;51;52;53;55] = true.
Proof. exact ean_example_13. Qed.

(* Everything else (wrong length, non-digits, multi-byte UTF-8, wrong check
   digit) is an error return: never a barcode, never a panic. *)
Theorem C06_ean_rejects : forall s,
  ean_representable s = false -> ean_encode s = Err.
Proof. exact ean_reject. Qed.
Print Assumptions C06_ean_rejects.

Example C06_rejects_nonvacuous : ean_representable [53;57;48;49;50;51;52;53] = false.
Proof. exact ean_example_reject. Qed.

(* the appended / required digit is the GS1 modulo-10 check digit: with weight 3
   on the rightmost data digit, alternating 3,1 leftwards, the total is 0 mod 10 *)
Theorem C06_check_digit_completes_sum : forall data,
  (gs1_sum data + gs1_check data) mod 10 = 0 /\ 0 <= gs1_check data <= 9.
Proof. exact gs1_check_completes. Qed.
Print Assumptions C06_check_digit_completes_sum.
