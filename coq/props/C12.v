(* C12 — Requested error-correction strength is what the symbol really carries.
   Property theorems only; proofs in the per-symbology developments. *)
From Verif Require Import Prelude Barcode.
From Verif Require Import DataMatrixM DataMatrixSpec DataMatrixP1 DataMatrixProps.
From Verif Require Import QRM QRSpec QRP6Compose QRProps.
From Verif Require Import AztecM AztecSpec AztecProps TabPdf417 Pdf417M Pdf417Spec Pdf417Props ExamplesP.

(* QR: the format information read from the symbol names the requested level; every block
   carries exactly the ISO (Table 9) number of check codewords for that version and level, the
   number of blocks is the ISO one, and every block is a valid Reed-Solomon codeword *)
Theorem C12_qr : forall content level mode mask bc, is_bytes content -> valid_encoding mode -> 0 <= mask < 8 ->
  qr_encode content level mode mask = Ok bc ->
  exists r l, qr_read_rows (bc_rows bc) = Some r /\ level_of_Z level = Some l /\ rd_level r = l
    /\ Forall (fun b => zlength (snd b) = table_at ecc_per_block l (rd_version r)) (rd_blocks r)
    /\ zlength (rd_blocks r) = table_at num_blocks l (rd_version r)
    /\ forallb (block_ok (table_at ecc_per_block l (rd_version r))) (rd_blocks r) = true.
Proof. exact qr_c12. Qed.
Print Assumptions C12_qr.

(* PDF417 (for every column count the implementation may choose): both row indicators name the
   requested security level, the symbol carries 2^(level+1) check codewords after the counted
   codewords, and all 2^(level+1) syndromes over GF(929) vanish *)
Theorem C12_pdf417 : forall data level cols bc, pdf_bytes data -> 0 <= level <= 255 ->
  pdf_encode data level cols = Ok bc ->
  pdf_read_level (bc_rows bc) = Some level /\
  exists sym, pdfs_read (bc_rows bc) = Some sym /\ ps_level sym = level
    /\ zlength (ps_codewords sym) - hd 0 (ps_codewords sym) = 2 ^ (level + 1)
    /\ pdfs_syndromes_zero (Z.to_nat (2 ^ (level + 1))) 3 (ps_codewords sym) = true.
Proof. exact pdf_c12. Qed.
Print Assumptions C12_pdf417.

(* Aztec: the check words declared by the mode message amount to at least the requested
   percentage of the data bits (plus the 11 bits the encoder adds) *)
Theorem C12_aztec : forall data pct req bc, az_in_domain data pct -> az_encode data pct req = Ok bc ->
  exists hl r, az_highlevel data = Ok hl /\ aztec_read (bc_rows bc) = ROk r
    /\ zlength hl * pct / 100 + 11 <= ar_checkwords r * sp_word_size (ar_layers r).
Proof. exact az_c12. Qed.
Print Assumptions C12_aztec.

(* DataMatrix: the symbol is one of the ISO sizes and carries that size's ECC 200 number of check
   codewords, every interleaved block a valid Reed-Solomon codeword *)
Theorem C12_datamatrix : forall content bc, bytes content -> dm_encode content = Ok bc ->
  exists e cws, In e iso_table /\ dm_symbol_entry (bc_rows bc) = Some e
    /\ dm_codewords (bc_rows bc) = Some cws /\ zlength cws = iso_data e + iso_ecc e /\ rs_ok e cws = true.
Proof. exact dm_c12. Qed.
Print Assumptions C12_datamatrix.

(* the premises of the theorems above are satisfiable: one accepted input per 2-D symbology *)
Example C12_nonvacuous :
  accepted (dm_encode [72; 101; 108; 108; 111; 32; 49; 50; 51; 52])
  /\ bytes [72; 101; 108; 108; 111; 32; 49; 50; 51; 52]
  /\ accepted (qr_encode [104; 101; 108; 108; 111] 1 0 3)
  /\ is_bytes [104; 101; 108; 108; 111] /\ valid_encoding 0
  /\ accepted (az_encode c03_hello 33 0) /\ az_in_domain c03_hello 33
  /\ accepted (pdf_encode pdf_ex_padpunct 2 3) /\ pdf_bytes pdf_ex_padpunct.
Proof. exact twod_examples. Qed.
