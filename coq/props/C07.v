(* C07 — Code 39 and Code 93: symbols decode to the given text in every option mix.
   Property theorems only; proofs live in proofs/Code39P.v and proofs/Code93P.v.

   Models: model/Code39M.v, model/Code93M.v (line-by-line models of
   /repo/code39/encoder.go and /repo/code93/encoder.go over the generated tables
   gen/TabCode39.v, gen/TabCode93.v; Go's UTF-8 decoding in model/Utf8M.v).
   Specifications: spec/Code39Spec.v, spec/Code93Spec.v (literal standard tables,
   symbol layout, check characters, reference decoder, full-ASCII tables).
   Texts are byte lists; all theorems hold for ARBITRARY lists of integers (an
   element outside 0..255 behaves like an invalid byte), both option flags, no bound
   on the length. *)
From Coq Require Import Permutation.
From Verif Require Import Prelude Barcode BitListM Utf8M Code39M Code93M Code39Spec Code93Spec
  TabCode39 TabCode93 Code39P Code93P.

(* ====================================================================== *)
(* Code 39                                                                 *)
(* ====================================================================== *)

(* T1. The source's encodeTable, as a map from runes, IS the standard's character
   table: the 43 data characters with values 0..42 and their 9-element patterns
   (3 wide of 9, wide = 2 modules: 12 modules per character) and "*" (no value). *)
Theorem C07_code39_table_is_standard : forall r, c39_lookup r = c39_spec_entry r.
Proof. exact c39_table_is_standard. Qed.
Print Assumptions C07_code39_table_is_standard.

(* T2. The 44 patterns are pairwise distinct (so reading a character is
   unambiguous), 12 modules each, each 9 elements with exactly 3 wide. *)
Theorem C07_code39_patterns_distinct :
  NoDup c39_symbols
  /\ Forall (fun p => length p = 12%nat) c39_symbols
  /\ forallb c39_three_of_nine (map str_bytes c39_width_patterns) = true
  /\ length c39_symbols = 44%nat.
Proof. exact c39_patterns_distinct. Qed.
Print Assumptions C07_code39_patterns_distinct.

(* T3. The values (and the keys) of the source table are pairwise distinct ... *)
Theorem C07_code39_values_distinct :
  NoDup (map (fun e : Z * (Z * list bool) => fst (snd e)) code39_encode_table)
  /\ NoDup (map fst code39_encode_table).
Proof. exact (conj c39_values_nodup c39_keys_nodup). Qed.
Print Assumptions C07_code39_values_distinct.

(* T4. ... hence getChecksum's search of the Go map BY VALUE returns the same rune
   for every iteration order of the map (the model searches in the listed order). *)
Theorem C07_code39_value_search_order_independent : forall tbl v,
  Permutation code39_encode_table tbl ->
  c39_find_value tbl v = c39_find_value code39_encode_table v.
Proof. exact c39_value_search_order_independent. Qed.
Print Assumptions C07_code39_value_search_order_independent.

(* T5. The source's extendedTable (absent key = the character itself) IS the
   standard's full-ASCII table, for all 128 codes. *)
Theorem C07_code39_extended_table_is_standard : forall b, 0 <= b <= 127 ->
  match map_get b code39_extended_table with Some v => v | None => utf8_encode_rune b end
  = c39_spelling b.
Proof. exact c39_extended_table_is_standard. Qed.
Print Assumptions C07_code39_extended_table_is_standard.

(* T6. Key lemma for full ASCII: resolving the shift pairs of the standard spelling
   of any ASCII text gives the text back (the 128 spellings are unambiguous: shift
   characters occur only as pair prefixes). *)
Theorem C07_code39_unspell_spell : forall s,
  forallb is_ascii s = true -> c39_unspell (c39_spell s) = Some s.
Proof. exact c39_unspell_spell. Qed.
Print Assumptions C07_code39_unspell_spell.

(* T7. Acceptance.  Basic mode accepts exactly the texts over the 43 data characters
   (so no '*', no lower case, no non-ASCII or ill-formed UTF-8); full-ASCII mode
   accepts exactly the texts of bytes 0..127.  Everything else is an error return;
   the encoder never panics. *)
Theorem C07_code39_acceptance : forall s cs full,
  (c39_accepts full s = true -> exists bc, c39_encode s cs full = Ok bc) /\
  (c39_accepts full s = false -> c39_encode s cs full = Err).
Proof. exact c39_acceptance. Qed.
Print Assumptions C07_code39_acceptance.

(* T8. Main theorem.  Whenever the encoder returns a barcode bc for text s, there is
   a sequence vals of data values (0..42) such that
   - bc is the 1-D barcode of kind "Code 39" whose single row is the standard layout
     of: start character, the data characters vals, the check character (sum of vals
     modulo 43) iff includeChecksum, stop character; each drawn with its standard
     pattern, one narrow space between characters; width = number of modules;
   - Content() is the printed form of vals, which is s itself in basic mode and the
     standard spelled-out form of s in full-ASCII mode;
   - CheckSum() is the sum of vals modulo 43 whether or not the check character is drawn;
   - the reference decoder, told the same two options, reads vals from the row and
     returns exactly s. *)
Theorem C07_code39_roundtrip : forall s cs full bc,
  c39_encode s cs full = Ok bc ->
  exists vals,
    Forall (fun v => 0 <= v < 43) vals /\
    bc = mk1d KCode39 (map c39_value_char vals) (Some (c39_check vals))
              (c39_layout (c39_symbol cs vals)) /\
    map c39_value_char vals = (if full then c39_spell s else s) /\
    c39_decode_values cs (c39_layout (c39_symbol cs vals)) = Some vals /\
    c39_decode cs full (c39_layout (c39_symbol cs vals)) = Some s /\
    c39_accepts full s = true.
Proof. exact c39_roundtrip. Qed.
Print Assumptions C07_code39_roundtrip.

(* the hypothesis of T8 is satisfiable: "Code 39*", full ASCII, with check character *)
Example C07_code39_nonvacuous :
  exists bc, c39_encode [67; 111; 100; 101; 32; 51; 57; 42] true true = Ok bc
             /\ bc_width bc = 194 /\ bc_checksum bc = Some 37.
Proof. exact c39_example. Qed.

(* ====================================================================== *)
(* Code 93                                                                 *)
(* ====================================================================== *)

(* T9. The source's encodeTable, as a map from runes (data bits drawn as 9 modules,
   most significant first), IS the standard's character table: 43 printable data
   characters, the four shift characters as FNC1..FNC4 = U+00F1..U+00F4 with values
   43..46, and start/stop "*" = symbol character 47. *)
Theorem C07_code93_table_is_standard : forall r,
  match c93_lookup r with Some (v, d) => Some (v, msb_bits 9 d) | None => None end
  = c93_spec_entry r.
Proof. exact c93_table_is_standard. Qed.
Print Assumptions C07_code93_table_is_standard.

(* T10. The 48 patterns are pairwise distinct, 9 modules each (six widths 1..4). *)
Theorem C07_code93_patterns_distinct :
  NoDup c93_symbols
  /\ Forall (fun p => length p = 9%nat) c93_symbols
  /\ forallb c93_widths_ok (map str_bytes c93_width_patterns) = true
  /\ length c93_symbols = 48%nat.
Proof. exact c93_patterns_distinct. Qed.
Print Assumptions C07_code93_patterns_distinct.

(* T11/T12. Values and keys distinct; the search by value is order independent. *)
Theorem C07_code93_values_distinct :
  NoDup (map (fun e : Z * (Z * Z) => fst (snd e)) code93_encode_table)
  /\ NoDup (map fst code93_encode_table).
Proof. exact (conj c93_values_nodup c93_keys_nodup). Qed.
Print Assumptions C07_code93_values_distinct.

Theorem C07_code93_value_search_order_independent : forall tbl v,
  Permutation code93_encode_table tbl ->
  c93_find_value tbl v = c93_find_value code93_encode_table v.
Proof. exact c93_value_search_order_independent. Qed.
Print Assumptions C07_code93_value_search_order_independent.

(* T13. Every entry of the source's extendedTable (all 128 present: indexing never
   panics) is the text of a standard spelling of its ASCII code. *)
Theorem C07_code93_extended_table_is_standard : forall b, 0 <= b <= 127 ->
  exists vals, zget code93_extended_table b = Some (c93_values_text vals)
               /\ Forall (fun v => 0 <= v < 47) vals /\ In vals (c93_spellings b).
Proof. exact c93_extended_table_standard_ex. Qed.
Print Assumptions C07_code93_extended_table_is_standard.

(* T14. Key lemma for full ASCII: the source's spelling of any ASCII text is the
   text of a value sequence whose shift pairs resolve to the text. *)
Theorem C07_code93_unspell_spell : forall s, forallb is_ascii s = true ->
  exists vals,
    c93_values_text vals
    = flat_map (fun b => match zget code93_extended_table b with Some e => e | None => [] end) s
    /\ c93_unspell vals = Some s.
Proof. exact c93_unspell_spell_ex. Qed.
Print Assumptions C07_code93_unspell_spell.

(* T15. Acceptance.  Basic mode accepts exactly the texts that are sequences of the
   47 data characters: the 43 printable ones and FNC1..FNC4 written as the UTF-8
   byte pairs C3 B1..C3 B4 (so no '*', no other non-ASCII rune, no ill-formed
   UTF-8); full-ASCII mode accepts exactly the texts of bytes 0..127.  Everything
   else is an error return; the encoder never panics. *)
Theorem C07_code93_acceptance : forall s cs full,
  (c93_accepts full s = true -> exists bc, c93_encode s cs full = Ok bc) /\
  (c93_accepts full s = false -> c93_encode s cs full = Err).
Proof. exact c93_acceptance. Qed.
Print Assumptions C07_code93_acceptance.

(* T16. Main theorem.  Whenever the encoder returns a barcode bc for text s, there is
   a sequence vals of data values (0..46) such that
   - bc is the 1-D barcode of kind "Code 93" (no integer checksum) whose single row is
     the standard layout of: start character, the data characters vals, then the check
     characters C (weights 1..20 from the right, modulo 47) and K (weights 1..15 over
     data and C, modulo 47) iff includeChecksum -- NO check characters otherwise --,
     stop character, termination bar; each character drawn with its standard pattern;
   - Content() is the text of vals, which is s itself in basic mode and the source's
     spelled-out form of s in full-ASCII mode, whose shift pairs resolve to s;
   - the reference decoder, told the same two options, reads vals from the row and
     returns exactly s. *)
Theorem C07_code93_roundtrip : forall s cs full bc,
  c93_encode s cs full = Ok bc ->
  exists vals,
    Forall (fun v => 0 <= v < 47) vals /\
    bc = mk1d KCode93 (c93_values_text vals) None (c93_layout (c93_symbol cs vals)) /\
    (if full
     then c93_values_text vals
          = flat_map (fun b => match zget code93_extended_table b with Some e => e | None => [] end) s
          /\ c93_unspell vals = Some s
     else c93_values_text vals = s) /\
    c93_decode_values cs (c93_layout (c93_symbol cs vals)) = Some vals /\
    c93_decode cs full (c93_layout (c93_symbol cs vals)) = Some s /\
    c93_accepts full s = true.
Proof. exact c93_roundtrip_stmt. Qed.
Print Assumptions C07_code93_roundtrip.

(* the hypothesis of T16 is satisfiable: "Code 93*", full ASCII, with C and K *)
Example C07_code93_nonvacuous :
  exists bc, c93_encode [67; 111; 100; 101; 32; 57; 51; 42] true true = Ok bc
             /\ bc_width bc = 145 /\ bc_checksum bc = None.
Proof. exact c93_example. Qed.

(* ====================================================================== *)
(* the UTF-8 model (used by both encoders, and by the Code 128 model)       *)
(* ====================================================================== *)

(* An ASCII-only string is its own rune sequence; a string with any other byte has
   a rune above 127 (this is why full-ASCII mode accepts exactly ASCII). *)
Theorem C07_utf8_ascii : forall s,
  (forallb is_ascii s = true -> utf8_decode s = s) /\
  (forallb is_ascii s = false -> exists r, In r (utf8_decode s) /\ r > 127).
Proof. exact (fun s => conj (utf8_decode_ascii s) (utf8_decode_nonascii s)). Qed.
Print Assumptions C07_utf8_ascii.
