From Verif Require Import Prelude Code39M Code93M Code39Spec Code93Spec.
Theorem C07_tmp : True. Proof. exact I. Qed.
Print Assumptions C07_tmp.
