(* C05 — Code 128: every accepted text decodes back to exactly that text.
   Property theorems only; proofs live in proofs/Code128P1.v .. Code128P3.v.
   Model: model/Code128M.v (code128/encode.go), tables: gen/TabCode128.v
   (regenerated from code128/encodingtable.go), specification: spec/Code128Spec.v
   (ISO/IEC 15417 width table, code set meanings, reference decoder). *)
From Verif Require Import Prelude Barcode Utf8M TabCode128 Code128M Code128Spec
  Code128P1 Code128P2 Code128P3.

(* The source's 107 module patterns are the standard's bar/space width table
   expanded to modules. *)
Theorem C05_table_is_standard : c128_encoding_table = c128_spec_patterns.
Proof. exact c128_table_is_standard. Qed.
Print Assumptions C05_table_is_standard.

(* 107 patterns; the 106 symbol characters have 11 modules, the stop pattern 13;
   all patterns are pairwise distinct. *)
Theorem C05_patterns_wellformed :
  length c128_spec_patterns = 107%nat /\
  length c128_spec_char_patterns = 106%nat /\
  Forall (fun p => length p = 11%nat) c128_spec_char_patterns /\
  length c128_spec_stop_pattern = 13%nat /\
  zget c128_spec_patterns 106 = Some c128_spec_stop_pattern /\
  (forall i j p, zget c128_spec_patterns i = Some p -> zget c128_spec_patterns j = Some p -> i = j).
Proof. exact c128_patterns_wellformed. Qed.
Print Assumptions C05_patterns_wellformed.

(* The a/b table strings list the characters of code sets A and B in value
   order; start/code/stop values and FNC placeholders are the standard's. *)
Theorem C05_code_sets :
  c128_aTable = c128_spec_setA_chars /\
  c128_bTable = c128_spec_setB_chars /\
  c128_abTable = firstn 64 c128_spec_setA_chars /\
  c128_abTable = firstn 64 c128_spec_setB_chars /\
  c128_aOnlyTable = skipn 64 c128_spec_setA_chars /\
  (c128_startA = 103 /\ c128_startB = 104 /\ c128_startC = 105) /\
  (c128_codeA = 101 /\ c128_codeB = 100 /\ c128_codeC = 99 /\ c128_stop = 106) /\
  (c128_FNC1 = spec_FNC1 /\ c128_FNC2 = spec_FNC2 /\ c128_FNC3 = spec_FNC3 /\ c128_FNC4 = spec_FNC4).
Proof. exact c128_code_sets. Qed.
Print Assumptions C05_code_sets.

(* The table strings are pure ASCII (so strings.IndexRune's byte index is the
   rune index and no rune >= 128 is ever found in them). *)
Theorem C05_tables_ascii :
  Forall (fun c => 0 <= c <= 127) (c128_aTable ++ c128_bTable ++ c128_abTable ++ c128_aOnlyTable).
Proof. exact c128_tables_ascii. Qed.
Print Assumptions C05_tables_ascii.

(* The code-set chooser, for rune lists of EVERY length: getCodeIndexList never
   panics; it returns nil exactly when some rune is outside ASCII 0..127 +
   FNC1..4; otherwise it returns values 0..105 that begin with a start
   character and that the reference interpretation (code sets A, B, C and all
   switches) reads back as exactly the rune list. *)
Theorem C05_index_list_decodes : forall l : list Z,
  exists o, c128_get_code_index_list l = Ok o /\
  match o with
  | None => forallb c128_in_alphabet l = false
  | Some vals =>
    forallb c128_in_alphabet l = true /\ Forall c128_val_ok vals /\
    (l <> [] -> exists s data st, vals = s :: data /\ c128_start_set s = Some st /\
                                c128_interp st false data = Some l)
  end.
Proof. exact c128_get_code_index_list_spec. Qed.
Print Assumptions C05_index_list_decodes.

(* Encode: for every byte string content, if a barcode is returned then the
   runes of content number 1..80 and lie in the alphabet, the barcode is the
   1-D Code 128 barcode with Content() = content, CheckSum() = cs and one row
   `bits` that the reference decoder (11-module standard characters, 13-module
   stop, start character, switches, verified modulo-103 check character) reads
   as exactly the runes; the character before the stop has value cs and cs is
   the modulo-103 value of the characters before it. *)
Theorem C05_encode_roundtrip : forall content bc,
  c128_encode content = Ok bc ->
  let r := c128_str_to_runes content in
  1 <= zlength r <= 80 /\
  forallb c128_in_alphabet r = true /\
  exists bits cs vals,
    bc = mk1d KCode128 content (Some cs) bits /\
    c128_spec_decode true bits = Some r /\
    c128_spec_values bits = Some (vals ++ [cs]) /\
    cs = c128_spec_checksum vals.
Proof. exact c128_encode_roundtrip. Qed.
Print Assumptions C05_encode_roundtrip.

(* EncodeWithoutChecksum: same without a check character (decoder run with
   check = false); the barcode has no CheckSum. *)
Theorem C05_encode_nocs_roundtrip : forall content bc,
  c128_encode_nocs content = Ok bc ->
  let r := c128_str_to_runes content in
  1 <= zlength r <= 80 /\
  forallb c128_in_alphabet r = true /\
  exists bits,
    bc = mk1d KCode128 content None bits /\
    c128_spec_decode false bits = Some r.
Proof. exact c128_encode_nocs_roundtrip. Qed.
Print Assumptions C05_encode_nocs_roundtrip.

(* No input makes either encoder panic (index out of range in content[i+1],
   encodingTable[idx], nextRunes[i]) or run out of fuel. *)
Theorem C05_never_panics : forall content,
  ((exists bc, c128_encode content = Ok bc) \/ c128_encode content = Err) /\
  ((exists bc, c128_encode_nocs content = Ok bc) \/ c128_encode_nocs content = Err).
Proof. exact c128_encode_total. Qed.
Print Assumptions C05_never_panics.

(* Acceptance: a byte string is encoded iff it has 1..80 runes, all from ASCII
   0..127 and FNC1..4; every other byte string gets an error. *)
Theorem C05_acceptance : forall content,
  let r := c128_str_to_runes content in
  let ok := 1 <= zlength r <= 80 /\ forallb c128_in_alphabet r = true in
  ((exists bc, c128_encode content = Ok bc) <-> ok) /\
  ((exists bc, c128_encode_nocs content = Ok bc) <-> ok) /\
  (~ ok -> c128_encode content = Err /\ c128_encode_nocs content = Err).
Proof. exact c128_encode_acceptance. Qed.
Print Assumptions C05_acceptance.

(* the runes the model decodes are those of the shared UTF-8 model *)
Theorem C05_runes_are_utf8 : forall content, c128_str_to_runes content = utf8_decode content.
Proof. exact (fun _ => eq_refl). Qed.
Print Assumptions C05_runes_are_utf8.

(* non-vacuity: "Hi34<FNC1>5678a<SOH>B" (B -> C with FNC1 inside the digit run
   -> B -> A) is accepted, 167 modules, check value 71; without check 156 *)
Example C05_nonvacuous :
  exists bc, c128_encode c128_example_content = Ok bc /\
             bc_width bc = 167 /\ bc_checksum bc = Some 71 /\
             c128_str_to_runes c128_example_content = [72; 105; 51; 52; 241; 53; 54; 55; 56; 97; 1; 66].
Proof. exact c128_example_accepted. Qed.

Example C05_nonvacuous_nocs :
  exists bc, c128_encode_nocs c128_example_content = Ok bc /\ bc_width bc = 156 /\ bc_checksum bc = None.
Proof. exact c128_example_nocs_accepted. Qed.

Example C05_rejections :
  c128_encode [195; 164] = Err /\ c128_encode [] = Err /\ c128_encode (repeat 65 81) = Err /\
  c128_encode [255] = Err /\ exists bc, c128_encode (repeat 65 80) = Ok bc.
Proof. exact c128_example_rejected. Qed.

(* the reference decoder is discriminating: a flipped module or a wrong check
   character is rejected, a symbol with check character is not read as the same
   text by the no-check reading, and Shift is implemented *)
Example C05_decoder_rejects :
  c128_spec_decode true c128_example_bits
    = Some [72; 105; 51; 52; 241; 53; 54; 55; 56; 97; 1; 66] /\
  c128_spec_decode false c128_example_bits <> Some [72; 105; 51; 52; 241; 53; 54; 55; 56; 97; 1; 66] /\
  c128_spec_decode true (firstn 40 c128_example_bits ++ [false] ++ skipn 41 c128_example_bits) = None /\
  c128_spec_decode true
    (firstn 143 c128_example_bits ++ c128_spec_pattern_of 212222 ++ skipn 154 c128_example_bits) = None /\
  c128_interp SetA false [98; 65; 33] = Some [97; 65] /\
  c128_interp SetB false [98; 65; 65] = Some [1; 97] /\
  c128_interp SetA false [98] = None.
Proof. exact c128_spec_decoder_rejects. Qed.
