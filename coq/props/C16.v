(* C16 — Encoders are safe for concurrent use and leave nothing running.
   Property theorems only; proofs in proofs/ConcP.v.  The thread program of the
   model is built from the structural facts extracted from /repo's current
   source by gosync (gen/TabSync.v). *)
From Coq Require Import String.
From Verif Require Import Prelude GFM GFP PolyP RSP TabSync ConcM ConcP.
From Verif Require Import BitListM QRSpec QRMBits QRMBlocks QRM QRP3Pad QRProps ConcQrP.
Import List ListNotations.
Notation length := List.length.

(* the source has the structure the model assumes: getPolynomial locks first
   and defers the unlock, the cache field is private to it, no package-level
   variable is assigned outside init(), the only shared objects reached through
   pointer-receiver methods are the two Reed-Solomon encoders, and the four
   goroutines the library starts close their unbuffered channel as their last act *)
Theorem C16_structural_facts : facts_good facts_from_source = true.
Proof. exact facts_from_source_good. Qed.
Print Assumptions C16_structural_facts.

(* Safety of the shared generator cache, for ANY number of goroutines, ANY
   requested degrees, ANY initial cache reachable by earlier use and EVERY
   interleaving (schedule): the cache only ever holds generator polynomials; at
   most one goroutine is between Lock and Unlock; no two goroutines are ever
   about to access the cache at the same time; every call that has returned got
   exactly the generator polynomial of the degree it asked for. *)
Theorem C16_mutex_safety : forall f cache degs sched,
  cache_ok f cache ->
  let s := crun f (uses_lock facts_from_source) (cinit cache degs) sched in
  cache_ok f (cs_cache s)
  /\ (forall t1 t2 th1 th2, nth_error (cs_threads s) t1 = Some th1 -> nth_error (cs_threads s) t2 = Some th2 ->
        in_critical (th_pc th1) = true -> in_critical (th_pc th2) = true -> t1 = t2)
  /\ (forall t1 t2 th1 th2, nth_error (cs_threads s) t1 = Some th1 -> nth_error (cs_threads s) t2 = Some th2 ->
        accesses_cache (th_pc th1) = true -> accesses_cache (th_pc th2) = true -> t1 = t2)
  /\ (forall t th g, nth_error (cs_threads s) t = Some th -> th_pc th = PDone g ->
        nth_error degs t = Some (th_deg th) /\ g = gen f (th_deg th)).
Proof.
  intros f cache degs sched. rewrite (good_uses_lock _ facts_from_source_good).
  exact (mutex_safety f cache degs sched).
Qed.
Print Assumptions C16_mutex_safety.

(* no deadlock: in every reachable state in which some call has not returned,
   some goroutine can take a step *)
Theorem C16_no_deadlock : forall f cache degs sched,
  cache_ok f cache ->
  let s := crun f (uses_lock facts_from_source) (cinit cache degs) sched in
  all_done s = false -> exists t s', cstep f (uses_lock facts_from_source) s t = Some s'.
Proof.
  intros f cache degs sched. rewrite (good_uses_lock _ facts_from_source_good).
  exact (mutex_no_deadlock f cache degs sched).
Qed.
Print Assumptions C16_no_deadlock.

(* termination: every step strictly decreases a natural-number measure, so no
   schedule can run forever (together with C16_no_deadlock: all calls return) *)
Theorem C16_every_step_makes_progress : forall f s t s',
  cstep f (uses_lock facts_from_source) s t = Some s' -> (cmeasure s' < cmeasure s)%nat.
Proof.
  intros f s t s'. rewrite (good_uses_lock _ facts_from_source_good). exact (step_decreases f s t s').
Qed.
Print Assumptions C16_every_step_makes_progress.

(* goroutine hygiene on unbuffered channels.  A `range` consumer (render over
   iterateModules, the filter stage over the generator stage) always drains the
   producer: the producer goroutine returns, nothing is pending, every value
   arrives in order. *)
Theorem C16_range_consumer_drains : forall vals,
  let s := chrun (2 * length vals + 3) (chinit vals CRange) in
  producer_finished s = true /\ ch_cons_done s = true /\ ch_tosend s = [] /\ rev (ch_received s) = vals
  /\ chstep s = None.
Proof. exact range_consumer_drains. Qed.
Print Assumptions C16_range_consumer_drains.

(* a consumer that performs exactly k receives (splitToBlocks over IterateBytes):
   the producer goroutine returns iff k >= number of values it has to send;
   otherwise it stays blocked forever (a leak).  C01 shows the bit list has exactly
   8 * totalDataBytes bits, so k = number of bytes sent. *)
Theorem C16_counting_consumer : forall vals k,
  let s := chrun (length vals + k + 3) (chinit vals (CRecv k)) in
  chstep s = None /\ ch_cons_done s = true /\
  (producer_finished s = true <-> (length vals <= k)%nat).
Proof. exact recv_consumer_no_leak_iff. Qed.
Print Assumptions C16_counting_consumer.

(* encodeAlphaNumeric over stringToAlphaIdx, including its early returns: for
   EVERY content (idxs = the IndexRune result of each rune, len = its byte length
   >= number of runes) the consumer performs at least as many receives as the
   producer performs sends, so by C16_counting_consumer the producer returns. *)
Theorem C16_alphanumeric_consumer : forall idxs len,
  (length idxs <= len)%nat ->
  (length (alpha_sends idxs) <= alpha_recv_count len (alpha_sends idxs))%nat.
Proof. exact alpha_consumer_receives_all. Qed.
Print Assumptions C16_alphanumeric_consumer.

(* the IterateBytes -> splitToBlocks hand-over of every QR encode (any mode, any level, any
   accepted content): the producer sends ceil(bits/8) bytes, splitToBlocks receives
   totalDataBytes(version) of them; by the C01 bit-count theorem on the tables dumped from
   /repo's current source these are equal, so by C16_counting_consumer the producer goroutine
   returns and nothing is left unread. *)
Theorem C16_qr_producer_always_finishes : forall m content level bits vi (vals : list Z),
  (m = SByte -> Forall (fun c => 0 <= c < 256)%Z content) ->
  encoder_of m content level = Ok (bits, vi) ->
  Z.of_nat (length vals) = ((zlength bits + 7) / 8)%Z ->
  let k := Z.to_nat (total_data_bytes vi) in
  Z.of_nat (length vals) = total_data_bytes vi
  /\ let s := chrun (length vals + k + 3) (chinit vals (CRecv k)) in
     producer_finished s = true /\ ch_cons_done s = true /\ chstep s = None.
Proof. exact qr_bytes_handover. Qed.
Print Assumptions C16_qr_producer_always_finishes.

(* non-vacuity: three goroutines asking for degrees 5, 2, 7 of GF(16) from a
   cold cache under a round-robin schedule all return, with the right results *)
Example C16_nonvacuous :
  let f := gf_new 19 16 1 in
  let s := crun f true (cinit rs_init [5; 2; 7]%nat) (concat (repeat [0; 1; 2]%nat 20)) in
  all_done s = true /\ length (cs_cache s) = 8%nat
  /\ map th_pc (cs_threads s) = [PDone (gen f 5); PDone (gen f 2); PDone (gen f 7)].
Proof. vm_compute. repeat split. Qed.
