(* Source-level tie (informational, see DESIGN 0a): functions translated statement by statement from /repo's CURRENT
   source by go/gosrc (gen/TabSrc.v, regenerated on every run) equal the model's functions for all arguments.
   (Go's int is modelled by Z; inside the size guards of the property theorems no intermediate value leaves int64.)
   One file per package, so that a rewrite of one package's functions cannot hide the others.  Theorems only. *)
From Verif Require Import Prelude Barcode TabSrc.
From Verif Require Import AztecM.
From Coq Require Import Lia.
Local Open Scope Z_scope.

Theorem SRC_aztec_totalBitsInLayer : forall layers compact,
  az_total_bits layers compact = src_aztec_totalBitsInLayer layers compact.
Proof. intros layers compact. unfold az_total_bits, src_aztec_totalBitsInLayer. destruct compact; cbv zeta; lia. Qed.
Print Assumptions SRC_aztec_totalBitsInLayer.
