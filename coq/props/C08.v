(* C08 — Codabar and 2-of-5: symbols decode to the given digits/characters.
   Property theorems only; proofs live in proofs/CodabarP.v and proofs/TwoOfFiveP.v.

   codabar_encode, tof_encode, tof_add_checksum : executable models of
       codabar.Encode, twooffive.Encode, twooffive.AddCheckSum; input = the BYTES of
       the Go string, any bytes (model/CodabarM.v, model/TwoOfFiveM.v)
   codabar_decode, tof_decode : reference decoders modules -> text, by measuring
       bar/space widths and looking the narrow/wide patterns up in the standard
       tables (spec/CodabarSpec.v, spec/TwoOfFiveSpec.v)
   codabar_language / *_representable : the inputs that have a symbol.

   History: before fix commit 63bda0c the interleaved encoder accepted some
   non-digit strings ("\u00e9" = bytes C3 A9 gave start+stop only, "12\u00e9" was
   drawn like "12": an odd number of runes in an even number of bytes, the last
   rune was never looked up).  The theorems below are about the repaired code;
   C08_tof_former_witness_rejected records the old witnesses as errors. *)
From Verif Require Import Prelude Barcode Utf8RangeP
  TabCodabar CodabarM RunLenSpec CodabarSpec CodabarP
  TabTwoOfFive TwoOfFiveM TwoOfFiveSpec TwoOfFiveP.

(* ================= Codabar ================= *)

(* the pattern table in codabar/encoder.go (as it is now) is the standard table of
   seven narrow/wide elements drawn with narrow = 1, wide = 2 modules *)
Theorem C08_codabar_table_is_standard :
  codabar_encoding_table = map (fun ce => (fst ce, codabar_modules (snd ce))) codabar_table.
Proof. exact codabar_table_matches_standard. Qed.
Print Assumptions C08_codabar_table_is_standard.

(* the regexp + ReplaceAllString("!") validity test accepts exactly the language
   start[A-D] body[0-9 - $ : / . +]* stop[A-D] *)
Theorem C08_codabar_accepts_exactly_the_language : forall s,
  cb_valid s = true <->
  exists a body b, s = a :: body ++ [b]
    /\ In a codabar_start_stop /\ In b codabar_start_stop
    /\ Forall (fun c => In c codabar_data_chars) body.
Proof. exact cb_valid_language. Qed.
Print Assumptions C08_codabar_accepts_exactly_the_language.

(* Soundness: an accepted text is in the language, Content() is the text, and the
   reference decoder reads exactly the text from the module row. *)
Theorem C08_codabar_sound : forall s bc,
  codabar_encode s = Ok bc ->
  codabar_language s
  /\ bc_kind bc = KCodabar /\ bc_content bc = s /\ bc_checksum bc = None /\ bc_height bc = 1
  /\ exists bits, bc_rows bc = [bits] /\ bc_width bc = zlength bits
       /\ codabar_decode bits = Some s.
Proof. exact codabar_sound. Qed.
Print Assumptions C08_codabar_sound.

Example C08_codabar_sound_nonvacuous : exists bc, codabar_encode [65; 52; 48; 49; 53; 54; 66] = Ok bc.
Proof. exact (codabar_complete _ codabar_example). Qed.

(* Completeness: every text of the language is accepted. *)
Theorem C08_codabar_complete : forall s,
  codabar_language s -> exists bc, codabar_encode s = Ok bc.
Proof. exact codabar_complete. Qed.
Print Assumptions C08_codabar_complete.

Example C08_codabar_complete_nonvacuous : codabar_language [65; 52; 48; 49; 53; 54; 66].
Proof. exact codabar_example. Qed.

(* Everything else (any bytes, multi-byte UTF-8, "!", one letter, inner A-D) is an
   error return, never a panic. *)
Theorem C08_codabar_rejects : forall s,
  ~ codabar_language s -> codabar_encode s = Err.
Proof. exact codabar_rejects_rest. Qed.
Print Assumptions C08_codabar_rejects.

Example C08_codabar_rejects_nonvacuous : ~ codabar_language [65; 66; 65].
Proof. exact codabar_example_not. Qed.

(* ================= 2 of 5 ================= *)

(* the tables in twooffive/encoder.go (as they are now) are the standard ones:
   digit patterns, start/stop of both variants, wide = 3, narrow = 1 *)
Theorem C08_tof_tables_are_standard :
  tof_encoding_table = map (fun de => (48 + fst de, snd de)) tof_table
  /\ tof_modes = tof_spec_modes
  /\ tof_non_interleaved_space = [false; false; false; false; false]
  /\ tof_pattern_width = 5.
Proof. exact tof_tables_match_standard. Qed.
Print Assumptions C08_tof_tables_are_standard.

(* Both variants, completeness and round trip: every non-empty digit string (of
   even length when interleaved) is accepted and the reference decoder reads
   exactly its digits. *)
Theorem C08_tof_digits_round_trip : forall interleaved s,
  tof_representable interleaved s = true ->
  exists bits,
    tof_encode s interleaved = Ok (mk1d (if interleaved then K2of5I else K2of5) s None bits)
    /\ tof_decode interleaved bits = Some (map digit_val s).
Proof. exact tof_accept. Qed.
Print Assumptions C08_tof_digits_round_trip.

Example C08_tof_round_trip_nonvacuous :
  tof_representable true [49; 50; 51; 52] = true /\ tof_representable false [49; 50; 51] = true.
Proof. exact (conj tof_example_int tof_example_std). Qed.

(* Soundness, both variants, every byte string: an accepted content is a
   non-empty ASCII digit string (of even length when interleaved), Content() is
   the input, and the reference decoder reads exactly its digits. *)
Theorem C08_tof_sound : forall s interleaved bc,
  tof_encode s interleaved = Ok bc ->
  tof_representable interleaved s = true
  /\ bc_kind bc = (if interleaved then K2of5I else K2of5) /\ bc_content bc = s
  /\ bc_checksum bc = None /\ bc_height bc = 1
  /\ exists bits, bc_rows bc = [bits] /\ bc_width bc = zlength bits
       /\ tof_decode interleaved bits = Some (map digit_val s).
Proof. exact tof_sound. Qed.
Print Assumptions C08_tof_sound.

Example C08_tof_sound_nonvacuous : exists bc, tof_encode [49; 50; 51; 52] true = Ok bc.
Proof. exact (tof_complete _ _ tof_example_int). Qed.

(* Completeness: every representable content is accepted. *)
Theorem C08_tof_complete : forall s interleaved,
  tof_representable interleaved s = true -> exists bc, tof_encode s interleaved = Ok bc.
Proof. exact tof_complete. Qed.
Print Assumptions C08_tof_complete.

(* Everything else (empty, non-digits, multi-byte UTF-8, odd length when
   interleaved) is an error return, never a panic. *)
Theorem C08_tof_rejects : forall s interleaved,
  tof_representable interleaved s = false -> tof_encode s interleaved = Err.
Proof. exact tof_reject. Qed.
Print Assumptions C08_tof_rejects.

Example C08_tof_rejects_nonvacuous :
  tof_representable true [49; 50; 51] = false /\ tof_representable false [49; 65] = false.
Proof. exact (conj tof_example_odd eq_refl). Qed.

(* the witnesses of the former defect *)
Theorem C08_tof_former_witness_rejected :
  tof_encode [195; 169] true = Err /\ tof_encode [49; 50; 195; 169] true = Err.
Proof. exact tof_former_witness_rejected. Qed.
Print Assumptions C08_tof_former_witness_rejected.

(* ================= AddCheckSum ================= *)

(* Whenever AddCheckSum succeeds the content is a non-empty digit string and the
   result is content ++ one digit d with (3-1 weighted sum of the content, weight
   3 on its rightmost digit) + d = 0 mod 10. *)
Theorem C08_tof_checksum_sound : forall s r,
  tof_add_checksum s = Ok r ->
  tofcs_representable s = true
  /\ exists d, r = s ++ [48 + d]
       /\ tof_check_ok (map digit_val s) d = true.
Proof. exact tof_add_checksum_sound. Qed.
Print Assumptions C08_tof_checksum_sound.

Example C08_tof_checksum_nonvacuous :
  tof_add_checksum [49; 50; 51; 52] = Ok [49; 50; 51; 52; 56].
Proof. exact eq_refl. Qed.

Theorem C08_tof_checksum_complete : forall s,
  tofcs_representable s = true -> exists r, tof_add_checksum s = Ok r.
Proof. exact tof_add_checksum_complete. Qed.
Print Assumptions C08_tof_checksum_complete.

Theorem C08_tof_checksum_rejects : forall s,
  tofcs_representable s = false -> tof_add_checksum s = Err.
Proof. exact tof_add_checksum_reject. Qed.
Print Assumptions C08_tof_checksum_rejects.

Example C08_tof_checksum_rejects_nonvacuous :
  tofcs_representable [] = false /\ tofcs_representable [49; 195; 169] = false.
Proof. exact (conj eq_refl eq_refl). Qed.
