(* C08 — Codabar and 2-of-5: symbols decode to the given digits/characters.
   Property theorems only; proofs live in proofs/CodabarP.v and proofs/TwoOfFiveP.v.

   codabar_encode, tof_encode, tof_add_checksum : executable models of
       codabar.Encode, twooffive.Encode, twooffive.AddCheckSum; input = the BYTES of
       the Go string, any bytes (model/CodabarM.v, model/TwoOfFiveM.v)
   codabar_decode, tof_decode : reference decoders modules -> text, by measuring
       bar/space widths and looking the narrow/wide patterns up in the standard
       tables (spec/CodabarSpec.v, spec/TwoOfFiveSpec.v)
   codabar_language / *_representable : the inputs that have a symbol.

   ONE PART OF THE PROPERTY IS FALSE OF THE CODE AS IT IS and is therefore stated
   as refuted (C08_tof_interleaved_sound_refuted): in interleaved mode
   twooffive.Encode accepts some strings that are not digit strings ("é", "12é":
   an odd number of runes in an even number of bytes; the last rune is never
   looked up).  The full-strength statement is proved for the one-line repair
   (theorems C08_tof_patched_sound, _complete, _rejects). *)
From Verif Require Import Prelude Barcode Utf8RangeP
  TabCodabar CodabarM RunLenSpec CodabarSpec CodabarP
  TabTwoOfFive TwoOfFiveM TwoOfFiveSpec TwoOfFiveP.

(* ================= Codabar ================= *)

(* the pattern table in codabar/encoder.go (as it is now) is the standard table of
   seven narrow/wide elements drawn with narrow = 1, wide = 2 modules *)
Theorem C08_codabar_table_is_standard :
  codabar_encoding_table = map (fun ce => (fst ce, codabar_modules (snd ce))) codabar_table.
Proof. exact codabar_table_matches_standard. Qed.
Print Assumptions C08_codabar_table_is_standard.

(* the regexp + ReplaceAllString("!") validity test accepts exactly the language
   start[A-D] body[0-9 - $ : / . +]* stop[A-D] *)
Theorem C08_codabar_accepts_exactly_the_language : forall s,
  cb_valid s = true <->
  exists a body b, s = a :: body ++ [b]
    /\ In a codabar_start_stop /\ In b codabar_start_stop
    /\ Forall (fun c => In c codabar_data_chars) body.
Proof. exact cb_valid_language. Qed.
Print Assumptions C08_codabar_accepts_exactly_the_language.

(* Soundness: an accepted text is in the language, Content() is the text, and the
   reference decoder reads exactly the text from the module row. *)
Theorem C08_codabar_sound : forall s bc,
  codabar_encode s = Ok bc ->
  codabar_language s
  /\ bc_kind bc = KCodabar /\ bc_content bc = s /\ bc_checksum bc = None /\ bc_height bc = 1
  /\ exists bits, bc_rows bc = [bits] /\ bc_width bc = zlength bits
       /\ codabar_decode bits = Some s.
Proof. exact codabar_sound. Qed.
Print Assumptions C08_codabar_sound.

Example C08_codabar_sound_nonvacuous : exists bc, codabar_encode [65; 52; 48; 49; 53; 54; 66] = Ok bc.
Proof. exact (codabar_complete _ codabar_example). Qed.

(* Completeness: every text of the language is accepted. *)
Theorem C08_codabar_complete : forall s,
  codabar_language s -> exists bc, codabar_encode s = Ok bc.
Proof. exact codabar_complete. Qed.
Print Assumptions C08_codabar_complete.

Example C08_codabar_complete_nonvacuous : codabar_language [65; 52; 48; 49; 53; 54; 66].
Proof. exact codabar_example. Qed.

(* Everything else (any bytes, multi-byte UTF-8, "!", one letter, inner A-D) is an
   error return, never a panic. *)
Theorem C08_codabar_rejects : forall s,
  ~ codabar_language s -> codabar_encode s = Err.
Proof. exact codabar_rejects_rest. Qed.
Print Assumptions C08_codabar_rejects.

Example C08_codabar_rejects_nonvacuous : ~ codabar_language [65; 66; 65].
Proof. exact codabar_example_not. Qed.

(* ================= 2 of 5 ================= *)

(* the tables in twooffive/encoder.go (as they are now) are the standard ones:
   digit patterns, start/stop of both variants, wide = 3, narrow = 1 *)
Theorem C08_tof_tables_are_standard :
  tof_encoding_table = map (fun de => (48 + fst de, snd de)) tof_table
  /\ tof_modes = tof_spec_modes
  /\ tof_non_interleaved_space = [false; false; false; false; false]
  /\ tof_pattern_width = 5.
Proof. exact tof_tables_match_standard. Qed.
Print Assumptions C08_tof_tables_are_standard.

(* Both variants, completeness and round trip: every non-empty digit string (of
   even length when interleaved) is accepted and the reference decoder reads
   exactly its digits. *)
Theorem C08_tof_digits_round_trip : forall interleaved s,
  tof_representable interleaved s = true ->
  exists bits,
    tof_encode s interleaved = Ok (mk1d (if interleaved then K2of5I else K2of5) s None bits)
    /\ tof_decode interleaved bits = Some (map digit_val s).
Proof. exact tof_accept. Qed.
Print Assumptions C08_tof_digits_round_trip.

Example C08_tof_round_trip_nonvacuous :
  tof_representable true [49; 50; 51; 52] = true /\ tof_representable false [49; 50; 51] = true.
Proof. exact (conj tof_example_int tof_example_std). Qed.

(* Standard variant, soundness for every byte string. *)
Theorem C08_tof_standard_sound : forall s bc,
  tof_encode s false = Ok bc ->
  tof_representable false s = true
  /\ bc_kind bc = K2of5 /\ bc_content bc = s /\ bc_checksum bc = None /\ bc_height bc = 1
  /\ exists bits, bc_rows bc = [bits] /\ bc_width bc = zlength bits
       /\ tof_decode false bits = Some (map digit_val s).
Proof. exact tof_std_sound. Qed.
Print Assumptions C08_tof_standard_sound.

Theorem C08_tof_standard_rejects : forall s,
  tof_representable false s = false -> tof_encode s false = Err.
Proof. exact tof_std_reject. Qed.
Print Assumptions C08_tof_standard_rejects.

Example C08_tof_standard_rejects_nonvacuous : tof_representable false [49; 65] = false.
Proof. exact eq_refl. Qed.

(* Interleaved variant.  FULL STATEMENT (false today, see the refutation below):
     forall s bc, tof_encode s true = Ok bc ->
       tof_representable true s = true /\ ... /\ tof_decode true bits = Some (map digit_val s)
   and  forall s, tof_representable true s = false -> tof_encode s true = Err.
   Proved part: the statement restricted to pure ASCII input (every byte 0..127);
   what is missing is exactly the inputs with a multi-byte rune, where it fails. *)
Theorem C08_tof_interleaved_sound_partial : forall s bc,
  Forall ascii_byte s ->
  tof_encode s true = Ok bc ->
  tof_representable true s = true
  /\ bc_kind bc = K2of5I /\ bc_content bc = s /\ bc_checksum bc = None /\ bc_height bc = 1
  /\ exists bits, bc_rows bc = [bits] /\ bc_width bc = zlength bits
       /\ tof_decode true bits = Some (map digit_val s).
Proof. exact tof_int_sound_ascii. Qed.
Print Assumptions C08_tof_interleaved_sound_partial.

Theorem C08_tof_interleaved_rejects_partial : forall s,
  Forall ascii_byte s ->
  tof_representable true s = false -> tof_encode s true = Err.
Proof. exact tof_int_reject_ascii. Qed.
Print Assumptions C08_tof_interleaved_rejects_partial.

Example C08_tof_interleaved_rejects_nonvacuous : tof_representable true [49; 50; 51] = false.
Proof. exact tof_example_odd. Qed.

(* no input makes either variant panic *)
Theorem C08_tof_never_panics : forall s interleaved,
  tof_encode s interleaved = Err \/ exists bc, tof_encode s interleaved = Ok bc.
Proof. exact tof_encode_no_panic. Qed.
Print Assumptions C08_tof_never_panics.

(* REFUTATION of the full interleaved statement for the code as it is: the two
   bytes C3 A9 ("é") are accepted, the symbol consists of start and stop only and
   does not decode to the content. *)
Theorem C08_tof_interleaved_sound_refuted :
  exists s bits,
    tof_encode s true = Ok (mk1d K2of5I s None bits)
    /\ tof_representable true s = false
    /\ tof_decode true bits <> Some (map digit_val s)
    /\ bits = tof_int_start ++ tof_int_stop.
Proof. exact tof_int_sound_refuted. Qed.
Print Assumptions C08_tof_interleaved_sound_refuted.

(* With the proposed one-line repair (reject a pending rune after the loop) the
   full statement holds for both variants and every byte string. *)
Theorem C08_tof_patched_sound : forall s interleaved bc,
  tof_encode_patched s interleaved = Ok bc ->
  tof_representable interleaved s = true
  /\ bc_kind bc = (if interleaved then K2of5I else K2of5) /\ bc_content bc = s
  /\ bc_checksum bc = None /\ bc_height bc = 1
  /\ exists bits, bc_rows bc = [bits] /\ bc_width bc = zlength bits
       /\ tof_decode interleaved bits = Some (map digit_val s).
Proof. exact tof_patched_sound. Qed.
Print Assumptions C08_tof_patched_sound.

Theorem C08_tof_patched_complete : forall s interleaved,
  tof_representable interleaved s = true -> exists bc, tof_encode_patched s interleaved = Ok bc.
Proof. exact tof_patched_complete. Qed.
Print Assumptions C08_tof_patched_complete.

Theorem C08_tof_patched_rejects : forall s interleaved,
  tof_representable interleaved s = false -> tof_encode_patched s interleaved = Err.
Proof. exact tof_patched_reject. Qed.
Print Assumptions C08_tof_patched_rejects.

(* ================= AddCheckSum ================= *)

(* Whenever AddCheckSum succeeds the content is a non-empty digit string and the
   result is content ++ one digit d with (3-1 weighted sum of the content, weight
   3 on its rightmost digit) + d = 0 mod 10. *)
Theorem C08_tof_checksum_sound : forall s r,
  tof_add_checksum s = Ok r ->
  tofcs_representable s = true
  /\ exists d, r = s ++ [48 + d]
       /\ tof_check_ok (map digit_val s) d = true.
Proof. exact tof_add_checksum_sound. Qed.
Print Assumptions C08_tof_checksum_sound.

Example C08_tof_checksum_nonvacuous :
  tof_add_checksum [49; 50; 51; 52] = Ok [49; 50; 51; 52; 56].
Proof. exact eq_refl. Qed.

Theorem C08_tof_checksum_complete : forall s,
  tofcs_representable s = true -> exists r, tof_add_checksum s = Ok r.
Proof. exact tof_add_checksum_complete. Qed.
Print Assumptions C08_tof_checksum_complete.

Theorem C08_tof_checksum_rejects : forall s,
  tofcs_representable s = false -> tof_add_checksum s = Err.
Proof. exact tof_add_checksum_reject. Qed.
Print Assumptions C08_tof_checksum_rejects.

Example C08_tof_checksum_rejects_nonvacuous :
  tofcs_representable [] = false /\ tofcs_representable [49; 195; 169] = false.
Proof. exact (conj eq_refl eq_refl). Qed.
