(* C02 — DataMatrix: every accepted content decodes back to exactly that content.
   Property theorems only; proofs live in proofs/DataMatrixP1..P4.v and
   proofs/DataMatrixProps.v.  Model: model/DataMatrixM.v (reads gen/TabDataMatrix.v,
   generated from /repo).  Specification: spec/DataMatrixSpec.v (ISO/IEC 16022
   Table 7, Annex F placement, finder/clock, RS over GF(256)/301, ASCII
   encodation, 253-state padding; reference reader dm_decode, validator dm_valid). *)
From Coq Require Import FMapPositive.
From Verif Require Import Prelude Barcode GFM TabDataMatrix DataMatrixM DataMatrixSpec
  DataMatrixP1 DataMatrixP2 DataMatrixP3 DataMatrixP4 DataMatrixProps.

(* Main theorem (layer 4).  For EVERY byte string the encoder accepts, the pixel
   rows are a valid ECC 200 square symbol (dimensions of one of the 24 sizes,
   finder and clock of every region, fixed lower-right pattern, every
   interleaved Reed-Solomon block has zero syndromes at alpha^1..alpha^e, pad
   codewords in 253-state form) and the reference reader (size from the
   dimensions, strip finder/clock, Annex F order, ASCII decode) returns exactly
   the content. *)
Theorem C02_roundtrip : forall content bc, bytes content ->
  dm_encode content = Ok bc ->
  dm_valid (bc_rows bc) = true /\ dm_decode (bc_rows bc) = Some content.
Proof. exact dm_c02_roundtrip. Qed.
Print Assumptions C02_roundtrip.

(* Layer 1: the 24 generated codeSizes rows are the ISO/IEC 16022 Table 7 rows
   (symbol size, region size and count, data and check codewords, blocks). *)
Theorem C02_tables : forall2b size_matches code_sizes iso_table = true.
Proof. exact dm_c02_tables. Qed.
Print Assumptions C02_tables.

Theorem C02_tables_ascending :
  ascending (map iso_size iso_table) = true /\ ascending (map iso_data iso_table) = true
  /\ map iso_data iso_table =
     [3; 5; 8; 12; 18; 22; 30; 36; 44; 62; 86; 114; 144; 174; 204; 280; 368; 456; 576; 696;
      816; 1050; 1304; 1558].
Proof. exact dm_c02_tables_ascending. Qed.
Print Assumptions C02_tables_ascending.

Theorem C02_capacities :
  map data_codewords code_sizes =
  [3; 5; 8; 12; 18; 22; 30; 36; 44; 62; 86; 114; 144; 174; 204; 280; 368; 456; 576; 696;
   816; 1050; 1304; 1558]
  /\ ascending (map data_codewords code_sizes) = true.
Proof. exact dm_c02_capacities. Qed.
Print Assumptions C02_capacities.

(* the Galois field tables of the package's Reed-Solomon encoder (read from the
   running package) are those of GF(256), polynomial 301, base 1 *)
Theorem C02_gf_tables :
  dm_gf_size = gf_size dm_field /\ dm_gf_base = gf_base dm_field
  /\ dm_gf_alog = map (tget (gf_alog dm_field)) (zseq 0 256)
  /\ dm_gf_log = map (tget (gf_log dm_field)) (zseq 0 256).
Proof. exact dm_c02_gf_tables. Qed.
Print Assumptions C02_gf_tables.

(* Layer 2: for each of the 24 sizes the model of SetValues terminates without
   panic (no cell written twice, no index out of range), uses exactly data+ecc
   codewords, and its placement map is the Annex F map; every cell is written
   except the two light modules of the fixed pattern. *)
Theorem C02_placement : forall s, In s code_sizes ->
  exists m a fired fx,
    set_values s (total_codewords s) = Ok (m, total_codewords s, fired)
    /\ ecc200 (matrix_rows s) (matrix_cols s) = Some (a, total_codewords s, fired, fx)
    /\ forall pos, 0 <= pos < matrix_rows s * matrix_cols s ->
         PositiveMap.find (key pos) m = spec_cell (aget a pos)
         /\ (PositiveMap.find (key pos) m = None ->
             fx = true /\ fixed_light (matrix_rows s) (matrix_cols s) pos = true).
Proof. exact dm_c02_placement. Qed.
Print Assumptions C02_placement.

(* corner case 1 fires exactly for 14,22,32,40,48,120,144, case 2 for 16 and 24,
   cases 3 and 4 for no square size, the fixed pattern for 12,16,20,24 *)
Theorem C02_special_cases :
  map special_cases code_sizes =
  [ (10, [], false);  (12, [], true);   (14, [1], false); (16, [2], true);
    (18, [], false);  (20, [], true);   (22, [1], false); (24, [2], true);
    (26, [], false);  (32, [1], false); (36, [], false);  (40, [1], false);
    (44, [], false);  (48, [1], false); (52, [], false);  (64, [], false);
    (72, [], false);  (80, [], false);  (88, [], false);  (96, [], false);
    (104, [], false); (120, [1], false); (132, [], false); (144, [1], false) ].
Proof. exact dm_c02_special_cases. Qed.
Print Assumptions C02_special_cases.

(* Layer 3, unbounded: the ASCII decoder inverts encodeText on every byte string *)
Theorem C02_ascii_roundtrip : forall s, bytes s ->
  dm_ascii (encode_text s) 1 = Some (s, true).
Proof. exact dm_c02_ascii_roundtrip. Qed.
Print Assumptions C02_ascii_roundtrip.

Theorem C02_ascii_length : forall s, zlength (encode_text s) = dm_ascii_len s.
Proof. exact dm_c02_ascii_length. Qed.
Print Assumptions C02_ascii_length.

(* padding to any capacity: exact length, 129 + 253-state pads accepted by the
   pad checker and stripped by the decoder *)
Theorem C02_padding : forall s n, bytes s -> zlength (encode_text s) <= n ->
  zlength (add_padding (encode_text s) n) = n
  /\ dm_ascii (add_padding (encode_text s) n) 1 = Some (s, true).
Proof. exact dm_c02_padding. Qed.
Print Assumptions C02_padding.

(* calcECC for a generated size s and its ISO row e: data kept, data+ecc
   codewords, every interleaved block a Reed-Solomon codeword *)
Theorem C02_blocks_valid : forall s e data,
  static_ok s e = true -> zlength data = iso_data e -> bytes data ->
  exists cws, calc_ecc data s = Ok cws
    /\ zlength cws = iso_data e + iso_ecc e /\ bytes cws
    /\ firstn (Z.to_nat (iso_data e)) cws = data
    /\ rs_ok e cws = true.
Proof. exact dm_c02_blocks_valid. Qed.
Print Assumptions C02_blocks_valid.

(* the hypothesis static_ok of the two theorems around holds for all 24 pairs *)
Theorem C02_static_all : Forall2 (fun s e => static_ok s e = true) code_sizes iso_table.
Proof. exact dm_c02_static_all. Qed.
Print Assumptions C02_static_all.

(* placement + region merge + finder/clock: ANY data+ecc codewords rendered for a
   size are read back unchanged, finder/clock/fixed modules as specified *)
Theorem C02_render_read : forall s e cws, static_ok s e = true ->
  zlength cws = iso_total e -> bytes cws ->
  exists rows exps,
    render cws s = Ok rows
    /\ dm_read rows = Some (e, exps, cws)
    /\ forallb (expect_ok rows) exps = true
    /\ zlength rows = iso_size e /\ Forall (fun r => zlength r = iso_size e) rows.
Proof. exact dm_c02_render_read. Qed.
Print Assumptions C02_render_read.

(* ---------- non-vacuity ---------- *)
Example C02_example_hello :
  exists bc, dm_encode [72; 101; 108; 108; 111; 32; 49; 50; 51; 52] = Ok bc
    /\ bc_width bc = 14 /\ dm_decode (bc_rows bc) = Some [72; 101; 108; 108; 111; 32; 49; 50; 51; 52].
Proof. exact dm_example_hello. Qed.

Example C02_example_bytes : bytes [72; 101; 108; 108; 111; 32; 49; 50; 51; 52; 200; 255; 0].
Proof. exact dm_example_bytes. Qed.

Example C02_example_largest :
  exists bc, dm_encode (repeat 65 1558) = Ok bc /\ bc_width bc = 144.
Proof. exact dm_example_largest. Qed.

Example C02_example_too_long : dm_encode (repeat 65 1559) = Err.
Proof. exact dm_example_too_long. Qed.
