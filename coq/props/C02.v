(* C02 — DataMatrix: placeholder while the proofs are being built *)
From Verif Require Import Prelude DataMatrixM DataMatrixSpec.
Example C02_placeholder : dm_smallest 3 <> None.
Proof. discriminate. Qed.
Print Assumptions C02_placeholder.
