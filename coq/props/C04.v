(* C04 — PDF417: every accepted text decodes back to exactly that text.
   Property theorems only; proofs live in proofs/Pdf417P*.v and Pdf417Props.v.

   Model: model/Pdf417M.v (highlevel.go, errorcorrection.go, dimensions.go,
   encoder.go, pdfcode.go; tables from gen/TabPdf417.v).  Specification:
   spec/Pdf417Spec.v (ISO/IEC 15438 reference reader, written independently).
   The main theorems hold for EVERY column count (pdf_encode takes it as an
   oracle).  The choice calcDimensions actually makes (float aspect-ratio
   heuristic) is modelled in model/Pdf417DimM.v (floats as exact ratios with
   +Inf; float64 = exact on all 708963 comparable pairs, enumerated by the check);
   pdf_encode_go = EncodeWithColor with that choice inside, pdf_encode_auto =
   pdf_encode at the chosen column count: C04_calc_dimensions,
   C04_encode_with_calc_dimensions, C04_roundtrip_auto below.  The shape stays
   FREE in the properties: the check compares the implementation's shape with the
   model's only informationally. *)
From Verif Require Import Prelude Barcode TabPdf417 Pdf417M Pdf417Spec Pdf417PTab Pdf417PRow Pdf417PNum
  Pdf417PText Pdf417PHL Pdf417Props Pdf417DimM Pdf417DimP.

(* COMPOSITION.  For every byte string, every security level (a Go byte) and
   every column count: if the encoder model returns a barcode then its pixel
   matrix is a valid PDF417 symbol for the reference reader — every row has the
   start and stop pattern, every cell is a pattern of the cluster of its row,
   left and right indicators of all rows agree with (row number, rows, columns,
   level) by the ISO formulas, the shape is inside the ISO maxima, the length
   descriptor counts all but the 2^(level+1) check words, all Reed-Solomon
   syndromes at 3^1..3^k vanish in GF(929) — and the reader decodes it, byte for
   byte, to the input. *)
Theorem C04_roundtrip : forall data level cols bc,
  pdf_bytes data -> 0 <= level <= 255 ->
  pdf_encode data level cols = Ok bc ->
  pdf_valid (bc_rows bc) = true /\ pdf_decode (bc_rows bc) = Some data.
Proof. exact pdf_c04_roundtrip. Qed.
Print Assumptions C04_roundtrip.

(* CALCDIMENSIONS INSIDE THE MODEL.  For every number of data codewords >= 0 and
   every number of check words >= 2 (the levels 0..8 give 2,4,...,512) the model
   of calcDimensions (loop over 2..30 columns, float comparison, fallback) returns
   a pair (never panics) and
   - if dataWords + 1 + eccWords <= 900 = maxRows*maxCols, the pair passes the size
     test of EncodeWithColor: 2 <= cols <= 30, 2 <= rows <= 30, rows is the MINIMAL
     row count for cols (cols*(rows-1) < dataWords+1+eccWords <= cols*rows, i.e.
     fewer pad codewords than columns), and the symbol has at most 900 <= 928
     codewords;
   - otherwise the pair is (0,0), which the size test rejects ("Unable to fit data
     in barcode").  This is the only guard on the number of data codewords in the
     code: dataWords <= 899 - eccWords (897 at level 0, 387 at level 8). *)
Theorem C04_calc_dimensions : forall m k, 0 <= m -> 2 <= k ->
  exists cols rows, pdf_calc_dimensions_auto m k = Ok (cols, rows) /\
    ((m + 1 + k <= 900 /\
      2 <= cols <= 30 /\ 2 <= rows <= 30 /\
      cols * (rows - 1) < m + 1 + k <= cols * rows /\
      0 <= cols * rows - (m + 1 + k) < cols /\ cols * rows <= 900) \/
     (900 < m + 1 + k /\ cols = 0 /\ rows = 0)).
Proof. exact pdf_dim_choice. Qed.
Print Assumptions C04_calc_dimensions.

(* the same, read from the encoder's side: whatever calcDimensions returns, if the
   size test of EncodeWithColor lets it pass, it is a legal, minimal shape *)
Theorem C04_calc_dimensions_accepted : forall m k cols rows, 0 <= m -> 2 <= k ->
  pdf_calc_dimensions_auto m k = Ok (cols, rows) ->
  pdf_size_test_rejects cols rows = false ->
  2 <= cols <= 30 /\ 2 <= rows <= 30 /\
  cols * (rows - 1) < m + 1 + k <= cols * rows /\
  0 <= cols * rows - (m + 1 + k) < cols /\
  m + 1 + k <= 900 /\ cols * rows <= 900.
Proof. exact pdf_dim_accepted. Qed.
Print Assumptions C04_calc_dimensions_accepted.

(* EncodeWithColor with calcDimensions inside (pdf_encode_go) IS the
   per-column-count model at the column count the modelled calcDimensions chooses
   (pdf_encode_auto data level = pdf_encode data level (pdf_auto_cols data level)) *)
Theorem C04_encode_with_calc_dimensions : forall data level, 0 <= level <= 255 ->
  pdf_encode_go data level = pdf_encode_auto data level.
Proof. exact pdf_encode_go_auto. Qed.
Print Assumptions C04_encode_with_calc_dimensions.

(* COROLLARY: C04_roundtrip for the encoder with calcDimensions inside, no oracle *)
Theorem C04_roundtrip_auto : forall data level bc,
  pdf_bytes data -> 0 <= level <= 255 ->
  pdf_encode_auto data level = Ok bc ->
  pdf_valid (bc_rows bc) = true /\ pdf_decode (bc_rows bc) = Some data.
Proof. exact pdf_c04_roundtrip_auto. Qed.
Print Assumptions C04_roundtrip_auto.

Theorem C04_roundtrip_calc_dimensions : forall data level bc,
  pdf_bytes data -> 0 <= level <= 255 ->
  pdf_encode_go data level = Ok bc ->
  pdf_valid (bc_rows bc) = true /\ pdf_decode (bc_rows bc) = Some data.
Proof. exact pdf_c04_roundtrip_go. Qed.
Print Assumptions C04_roundtrip_calc_dimensions.

(* accept/reject without oracle: never a panic; a symbol exactly when the level is
   at most 8 and the codewords fit 30 x 30 *)
Theorem C04_calc_dimensions_accepts : forall data level, pdf_bytes data -> 0 <= level <= 255 ->
  pdf_encode_go data level <> Panic /\ pdf_encode_go data level <> OutOfFuel /\
  exists dw, pdf_highlevel data = Ok dw /\
    ((exists bc, pdf_encode_go data level = Ok bc) <->
     (level <= 8 /\ zlength dw + 1 + pdf_ec_count level <= 900)) /\
    (pdf_encode_go data level = Err <->
     ~ (level <= 8 /\ zlength dw + 1 + pdf_ec_count level <= 900)).
Proof. exact pdf_encode_go_accepts. Qed.
Print Assumptions C04_calc_dimensions_accepts.

(* the symbol has exactly the shape the modelled calcDimensions chose: bounds, and
   the reference reader sees cols x rows, rows minimal for cols, pads < cols *)
Theorem C04_calc_dimensions_shape : forall data level bc,
  pdf_bytes data -> 0 <= level <= 255 -> pdf_encode_go data level = Ok bc ->
  exists dw cols rows sym,
    pdf_highlevel data = Ok dw /\
    pdf_calc_dimensions_auto (zlength dw) (pdf_ec_count level) = Ok (cols, rows) /\
    bc_width bc = 17 * (cols + 4) + 1 /\ bc_height bc = rows * pdf_module_height /\
    pdfs_read (bc_rows bc) = Some sym /\ ps_cols sym = cols /\ ps_rows sym = rows /\
    2 <= cols <= 30 /\ 2 <= rows <= 30 /\
    cols * (rows - 1) < zlength dw + 1 + 2 ^ (level + 1) <= cols * rows /\
    let pads := hd 0 (ps_codewords sym) - 1 - zlength dw in
    0 <= pads < cols /\ zlength (ps_codewords sym) = rows * cols.
Proof. exact pdf_encode_go_shape. Qed.
Print Assumptions C04_calc_dimensions_shape.

(* Layer 2, whole message: for ALL byte strings highlevelEncode returns codewords
   (no error, panic or exhausted fuel) which the ISO decoder (text/byte/numeric
   compaction, latches, shifts, sub-modes), followed by any padding, turns back
   into the input. *)
Theorem C04_highlevel_roundtrip : forall data, pdf_bytes data ->
  exists cws, pdf_highlevel data = Ok cws /\ Forall cw_range cws /\
    forall p, pdf_decode_hl (cws ++ repeat 900 p) = Some data.
Proof. exact pdf_c04_highlevel. Qed.
Print Assumptions C04_highlevel_roundtrip.

(* Layer 2, the text invariant: the sub-mode encodeText hands to the next segment
   is the reader's sub-mode after the emitted codewords (pad 29 included). *)
Theorem C04_text_invariant : forall text sm, Forall is_textc text ->
  exists sm2 cws, pdf_encode_text text sm = Ok (sm2, cws) /\ Forall cw900 cws /\
    pdfs_text_run (sub_of sm) cws = Some (text, sub_of sm2).
Proof. exact pdf_c04_text_invariant. Qed.
Print Assumptions C04_text_invariant.

(* Layer 2, Reed-Solomon: Compute returns 2^(level+1) check words such that the
   transmitted sequence has zero syndromes at 3^1 .. 3^k, for data of any length. *)
Theorem C04_reed_solomon : forall level data,
  0 <= level <= 8 -> Forall (fun v => 0 <= v) data ->
  exists ec, pdf_compute level data = Ok ec /\ zlength ec = 2 ^ (level + 1) /\
             Forall (fun c => 0 <= c < 929) ec /\
             pdfs_syndromes_zero (Z.to_nat (2 ^ (level + 1))) 3 (data ++ ec) = true.
Proof. exact pdf_c04_reed_solomon. Qed.
Print Assumptions C04_reed_solomon.

(* Layer 3: getLeft/RightCodeWord are the ISO indicator formulas for every row of
   every shape up to 90 x 30 and every level; the row number, row count, column
   count and level can be read back from them. *)
Theorem C04_row_indicators : forall i r c l,
  0 <= i < r -> r <= 90 -> 1 <= c <= 30 -> 0 <= l <= 8 ->
  pdf_left_codeword i r c l = pdfs_left_indicator i r c l /\
  pdf_right_codeword i r c l = pdfs_right_indicator i r c l /\
  pdfs_left_indicator i r c l / 30 = i / 3 /\ pdfs_right_indicator i r c l / 30 = i / 3 /\
  (r = 3 * (pdfs_left_indicator 0 r c l mod 30) + (pdfs_left_indicator 1 r c l mod 30) mod 3 + 1 /\
   c = pdfs_right_indicator 0 r c l mod 30 + 1 /\ l = (pdfs_left_indicator 1 r c l mod 30) / 3).
Proof. exact pdf_c04_indicators. Qed.
Print Assumptions C04_row_indicators.

(* Layer 1: the tables of the source (as generated now) — 3 x 929 patterns equal
   to the pinned reference copy, structurally well-formed for their cluster and
   pairwise distinct; start/stop words; correctionFactors = coefficients of
   prod (x - 3^j) computed in the kernel; mixed/punctuation maps = ISO tables;
   every text character has a sub-mode. *)
Theorem C04_tables :
  pdf_codewords = pdfs_patterns /\
  (forall t p, 0 <= t < 3 -> In p (pdfs_cluster t) -> pdfs_pattern_ok (3 * t) p = true) /\
  (forall t, 0 <= t < 3 -> NoDup (pdfs_cluster t) /\ length (pdfs_cluster t) = 929%nat) /\
  pdf_start_word = 0x1fea8 /\ pdf_stop_word = 0x3fa29 /\
  forallb pdf_level_gen_b pdf_levels = true /\
  (forall ch v, pdf_assoc pdf_mixed_map ch = Some v <-> (0 <= v <= 29 /\ pdfs_text_action TMixed v = AChar ch)) /\
  (forall ch v, pdf_assoc pdf_punct_map ch = Some v <-> (0 <= v <= 29 /\ pdfs_text_action TPunct v = AChar ch)) /\
  (forall ch, pdf_is_text ch = true ->
     pdf_is_alpha_upper ch || pdf_is_alpha_lower ch || pdf_is_mixed ch || pdf_is_punct ch = true).
Proof. exact pdf_c04_tables. Qed.
Print Assumptions C04_tables.

(* the premise of C04_roundtrip is satisfiable: two concrete messages are encoded,
   valid and decoded back (evaluated in the kernel) *)
Example C04_nonvacuous_padpunct : pdf_ex_ok pdf_ex_padpunct 2 3 = true.
Proof. exact pdf_c04_example_padpunct. Qed.
Print Assumptions C04_nonvacuous_padpunct.

Example C04_nonvacuous_mixed : pdf_ex_ok pdf_ex_mixed 4 5 = true.
Proof. exact pdf_c04_example_mixed. Qed.
Print Assumptions C04_nonvacuous_mixed.

(* the modelled calcDimensions evaluated in the kernel: 3 x 5 for 10+1+4 codewords,
   30 x 30 for 897+1+2, nothing for 898+1+2 *)
Example C04_nonvacuous_calc_dimensions :
  pdf_calc_dimensions_auto 10 4 = Ok (3, 5) /\
  pdf_calc_dimensions_auto 897 2 = Ok (30, 30) /\
  pdf_calc_dimensions_auto 898 2 = Ok (0, 0).
Proof. exact pdf_dim_examples. Qed.
Print Assumptions C04_nonvacuous_calc_dimensions.
