(* C04 — PDF417: every accepted text decodes back to exactly that text.
   Property theorems only; proofs live in proofs/Pdf417P*.v. (under construction) *)
From Verif Require Import Prelude Barcode Pdf417M Pdf417Spec.
