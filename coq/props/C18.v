(* C18 — BitList behaves as an append-only bit sequence.
   Property theorems only; proofs live in proofs/BitListP.v. *)
From Verif Require Import Prelude BitListM BitListP.

(* For every initial length n >= 0 and every operation history inside the
   property's domain (Set/Get index below the current length, AddBits count a
   byte, AddByte value a byte), the word-array model of utils/bitlist.go never
   panics or runs out of fuel, returns for every operation exactly the output
   of the boolean-sequence specification (Len, GetBit, GetBytes, IterateBytes),
   and its final contents are the specification's final sequence. *)
Theorem C18_bitlist_is_bool_sequence : forall n ops,
  0 <= n ->
  ops_valid (repeat false (Z.to_nat n)) ops = true ->
  exists bl, bl_history n ops = Ok (bl, snd (spec_run (repeat false (Z.to_nat n)) ops))
    /\ bl_abs bl = fst (spec_run (repeat false (Z.to_nat n)) ops)
    /\ bl_len bl = zlength (bl_abs bl).
Proof. exact bitlist_refines_bool_sequence. Qed.
Print Assumptions C18_bitlist_is_bool_sequence.

(* the hypotheses are satisfiable by a history crossing a word boundary *)
Example C18_nonvacuous :
  ops_valid (repeat false 3)
    [OpAddBits 43690 40; OpSetBit 35 true; OpGetBit 35; OpAddByte 255; OpGetBytes; OpIterBytes] = true.
Proof. exact history_valid_example. Qed.
