(* Source-level tie (informational, see DESIGN 0a): functions translated statement by statement from /repo's CURRENT
   source by go/gosrc (gen/TabSrc.v, regenerated on every run) equal the model's functions for all arguments.
   (Go's int is modelled by Z; inside the size guards of the property theorems no intermediate value leaves int64.)
   One file per package, so that a rewrite of one package's functions cannot hide the others.  Theorems only. *)
From Verif Require Import Prelude Barcode TabSrc.
From Verif Require Import TabPdf417 Pdf417M Pdf417DimM.
From Coq Require Import Lia.
Local Open Scope Z_scope.

(* what calculateNumberOfRows computes, independent of how it is written: the least r with n <= c*r *)
Lemma rows_unique n c r1 r2 : 0 < c -> c * (r1 - 1) < n <= c * r1 -> c * (r2 - 1) < n <= c * r2 -> r1 = r2.
Proof. intros Hc H1 H2. nia. Qed.

Lemma model_rows_spec m k c : 0 <= m + 1 + k -> 0 < c ->
  exists r, pdf_calculate_number_of_rows m k c = Ok r /\ c * (r - 1) < m + 1 + k <= c * r.
Proof.
  intros Hn Hc. unfold pdf_calculate_number_of_rows, pdf_number_of_rows.
  destruct (Z.eqb_spec c 0) as [E|_]; [lia|]. cbv zeta. unfold go_div.
  rewrite Z.quot_div_nonneg by lia.
  pose proof (Z.div_mod (m + 1 + k) c ltac:(lia)) as D. pose proof (Z.mod_pos_bound (m + 1 + k) c Hc) as B.
  set (q := (m + 1 + k) / c) in *. set (rm := (m + 1 + k) mod c) in *.
  destruct (Z.geb_spec (c * (q + 1)) (m + 1 + k + c)) as [G|G]; eexists; (split; [reflexivity|]); nia.
Qed.

Lemma src_rows_spec m k c : 0 <= m + 1 + k -> 0 < c ->
  let r := src_pdf417_calculateNumberOfRows m k c in c * (r - 1) < m + 1 + k <= c * r.
Proof.
  intros Hn Hc. unfold src_pdf417_calculateNumberOfRows. cbv zeta. unfold go_div, go_mod.
  rewrite ?Z.quot_div_nonneg, ?Z.rem_mod_nonneg by lia.
  pose proof (Z.div_mod (m + 1 + k) c ltac:(lia)) as D. pose proof (Z.mod_pos_bound (m + 1 + k) c Hc) as B.
  set (q := (m + 1 + k) / c) in *. set (rm := (m + 1 + k) mod c) in *.
  repeat match goal with
  | |- context [if ?b then _ else _] =>
      match b with
      | (?x >=? ?y) => destruct (Z.geb_spec x y)
      | (?x <=? ?y) => destruct (Z.leb_spec x y)
      | (?x <? ?y) => destruct (Z.ltb_spec x y)
      | (?x >? ?y) => destruct (Z.gtb_spec x y)
      | (?x =? ?y) => destruct (Z.eqb_spec x y)
      | negb (?x =? ?y) => destruct (Z.eqb_spec x y); cbn [negb]
      end
  end; nia.
Qed.

Theorem SRC_pdf417_calculateNumberOfRows : forall m k c,
  0 <= m + 1 + k -> 0 < c ->
  pdf_calculate_number_of_rows m k c = Ok (src_pdf417_calculateNumberOfRows m k c).
Proof.
  intros m k c Hn Hc. destruct (model_rows_spec m k c Hn Hc) as (r & E & S). rewrite E. f_equal.
  exact (rows_unique _ _ _ _ Hc S (src_rows_spec m k c Hn Hc)).
Qed.
Print Assumptions SRC_pdf417_calculateNumberOfRows.

(* row indicators and the number of check words: statement-by-statement translations vs the model *)
Theorem SRC_pdf417_row_indicators : forall rowNum rows columns level,
  pdf_left_codeword rowNum rows columns level = src_pdf417_getLeftCodeWord rowNum rows columns level
  /\ pdf_right_codeword rowNum rows columns level = src_pdf417_getRightCodeWord rowNum rows columns level.
Proof.
  intros rowNum rows columns level.
  unfold pdf_left_codeword, pdf_right_codeword, src_pdf417_getLeftCodeWord, src_pdf417_getRightCodeWord. cbv zeta.
  repeat rewrite Bool.orb_false_r.
  destruct (go_mod rowNum 3 =? 0); [split; lia|].
  destruct (go_mod rowNum 3 =? 1); [split; lia|].
  destruct (go_mod rowNum 3 =? 2); split; lia.
Qed.
Print Assumptions SRC_pdf417_row_indicators.

Theorem SRC_pdf417_ErrorCorrectionWordCount : forall level,
  pdf_ec_count level = src_pdf417_ErrorCorrectionWordCount level.
Proof. intros level. reflexivity. Qed.
Print Assumptions SRC_pdf417_ErrorCorrectionWordCount.
