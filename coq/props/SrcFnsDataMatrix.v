(* Source-level tie (informational, see DESIGN 0a): functions translated statement by statement from /repo's CURRENT
   source by go/gosrc (gen/TabSrc.v, regenerated on every run) equal the model's functions for all arguments.
   (Go's int is modelled by Z; inside the size guards of the property theorems no intermediate value leaves int64.)
   One file per package, so that a rewrite of one package's functions cannot hide the others.  Theorems only. *)
From Verif Require Import Prelude Barcode TabSrc.
From Verif Require Import TabDataMatrix DataMatrixM.
Local Open Scope Z_scope.

Theorem SRC_datamatrix_codesize_methods : forall s,
  let R := sz_rows s in let C := sz_cols s in let H := sz_rch s in let V := sz_rcv s in
  let E := sz_ecc s in let B := sz_blocks s in
  region_rows s = src_datamatrix_RegionRows R C H V E B
  /\ region_cols s = src_datamatrix_RegionColumns R C H V E B
  /\ matrix_rows s = src_datamatrix_MatrixRows R C H V E B
  /\ matrix_cols s = src_datamatrix_MatrixColumns R C H V E B
  /\ data_codewords s = src_datamatrix_DataCodewords R C H V E B
  /\ ecc_per_block s = src_datamatrix_ErrorCorrectionCodewordsPerBlock R C H V E B.
Proof. intros s. cbv zeta. repeat split; reflexivity. Qed.
Print Assumptions SRC_datamatrix_codesize_methods.

Theorem SRC_datamatrix_DataCodewordsForBlock : forall s idx,
  data_codewords_for_block s idx =
  src_datamatrix_DataCodewordsForBlock (sz_rows s) (sz_cols s) (sz_rch s) (sz_rcv s) (sz_ecc s) (sz_blocks s) idx.
Proof. intros s idx. reflexivity. Qed.
Print Assumptions SRC_datamatrix_DataCodewordsForBlock.
