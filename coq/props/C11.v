(* C11 — Rendering contract: bounds, two colours, colour scheme, metadata, content.
   Property theorems only.  Part (a): what each encoder's result record holds (kind and
   dimensionality, bounds, Content, rectangular module matrix), for every accepted input.
   Part (b): the colour scheme: encoder models are functions of the content only; a WithColor
   entry point stores the scheme it is given and the plain entry point stores ColorScheme16, so
   the module pattern cannot depend on the scheme and every pixel is the scheme's foreground or
   background.  The strength of (b) lies in the correspondence run over all WithColor entry
   points x colour schemes on the real implementation (lib/c11.py). *)
From Verif Require Import Prelude Barcode Utf8M.
From Verif Require Import EanM EanSpec CodabarM TwoOfFiveM OneDPropsA.
From Verif Require Import Code128M Code39M Code39Spec Code93M TabCode93.
From Verif Require Import DataMatrixM DataMatrixSpec DataMatrixP1 DataMatrixProps.
From Verif Require Import QRM QRSpec QRP6Compose QRProps.
From Verif Require Import AztecM AztecSpec AztecProps TabPdf417 Pdf417M Pdf417Spec Pdf417Props ExamplesP.
From Verif Require Import C11P.

(* ---------- (a) result records ---------- *)
Theorem C11_ean : forall s bc, ean_encode s = Ok bc ->
  let full := ean_full_number s in
  bc_kind bc = (if (length full =? 8)%nat then KEAN8 else KEAN13)
  /\ bc_content bc = chars_of full     (* completed by its check digit *)
  /\ bc_height bc = 1
  /\ exists bits, bc_rows bc = [bits] /\ bc_width bc = zlength bits
       /\ length bits = (if (length full =? 8)%nat then 67%nat else 95%nat).
Proof. exact ean_c11. Qed.
Print Assumptions C11_ean.

Theorem C11_codabar : forall s bc, codabar_encode s = Ok bc ->
  bc_kind bc = KCodabar /\ bc_content bc = s /\ bc_height bc = 1
  /\ exists bits, bc_rows bc = [bits] /\ bc_width bc = zlength bits.
Proof. exact codabar_c11. Qed.
Print Assumptions C11_codabar.

Theorem C11_twooffive : forall s interleaved bc, tof_encode s interleaved = Ok bc ->
  bc_kind bc = (if interleaved then K2of5I else K2of5) /\ bc_content bc = s /\ bc_height bc = 1
  /\ exists bits, bc_rows bc = [bits] /\ bc_width bc = zlength bits.
Proof. exact tof_c11. Qed.
Print Assumptions C11_twooffive.

Theorem C11_code128 : forall content bc, c128_encode content = Ok bc ->
  is_1d bc KCode128 content /\ bc_checksum bc <> None.
Proof. exact c128_c11. Qed.
Print Assumptions C11_code128.
Theorem C11_code128_nochecksum : forall content bc, c128_encode_nocs content = Ok bc ->
  is_1d bc KCode128 content /\ bc_checksum bc = None.
Proof. exact c128n_c11. Qed.
Print Assumptions C11_code128_nochecksum.

(* Code 39 / 93: Content() is the text, in full-ASCII mode its basic-alphabet spelling *)
Theorem C11_code39 : forall s cs full bc, c39_encode s cs full = Ok bc ->
  is_1d bc KCode39 (if full then c39_spell s else s).
Proof. exact c39_c11. Qed.
Print Assumptions C11_code39.
Theorem C11_code93 : forall s cs full bc, c93_encode s cs full = Ok bc ->
  is_1d bc KCode93 (if full
                    then flat_map (fun b => match zget code93_extended_table b with Some e => e | None => [] end) s
                    else s)
  /\ bc_checksum bc = None.
Proof. exact c93_c11. Qed.
Print Assumptions C11_code93.

Theorem C11_datamatrix : forall content bc, bytes content -> dm_encode content = Ok bc ->
  bc_kind bc = KDataMatrix /\ kind_dims (bc_kind bc) = 2 /\ bc_content bc = content /\ bc_checksum bc = None
  /\ exists e, dm_smallest (dm_ascii_len content) = Some e
       /\ bc_width bc = iso_size e /\ bc_height bc = iso_size e
       /\ zlength (bc_rows bc) = bc_height bc
       /\ Forall (fun r => zlength r = bc_width bc) (bc_rows bc).
Proof. exact dm_c11. Qed.
Print Assumptions C11_datamatrix.

Theorem C11_qr : forall content level mode mask bc, is_bytes content -> valid_encoding mode -> 0 <= mask < 8 ->
  qr_encode content level mode mask = Ok bc ->
  bc_kind bc = KQR /\ kind_dims (bc_kind bc) = 2 /\ bc_content bc = content /\ bc_checksum bc = None
  /\ (exists v, 1 <= v <= 40 /\ bc_width bc = 17 + 4 * v /\ bc_height bc = 17 + 4 * v)
  /\ zlength (bc_rows bc) = bc_height bc
  /\ Forall (fun row => zlength row = bc_width bc) (bc_rows bc)
  /\ (forall (C : Type) (scheme : C), qr_encode_with_color content level mode mask scheme = Ok (bc, scheme)).
Proof. exact qr_c11. Qed.
Print Assumptions C11_qr.

Theorem C11_aztec : forall data pct req bc, az_in_domain data pct -> az_encode data pct req = Ok bc ->
  bc_kind bc = KAztec /\ kind_dims (bc_kind bc) = 2 /\ bc_content bc = data /\ bc_checksum bc = None
  /\ exists r, aztec_read (bc_rows bc) = ROk r
       /\ bc_width bc = sp_size (ar_compact r) (ar_layers r)   (* 11+4L compact, ISO formula full-range *)
       /\ bc_height bc = bc_width bc
       /\ zlength (bc_rows bc) = bc_height bc
       /\ Forall (fun row => zlength row = bc_width bc) (bc_rows bc).
Proof. exact az_c11. Qed.
Print Assumptions C11_aztec.

Theorem C11_pdf417 : forall data level cols bc, pdf_bytes data -> 0 <= level <= 255 ->
  pdf_encode data level cols = Ok bc ->
  exists dw, pdf_highlevel data = Ok dw /\
  let rows := pdf_rows_or0 (zlength dw) (pdf_ec_count level) cols in
  bc_kind bc = KPDF /\ kind_dims (bc_kind bc) = 2 /\ bc_content bc = data /\ bc_checksum bc = None
  /\ bc_width bc = 17 * (cols + 4) + 1 /\ bc_height bc = rows * pdf_module_height
  /\ zlength (bc_rows bc) = bc_height bc
  /\ Forall (fun row => zlength row = bc_width bc) (bc_rows bc).
Proof. exact pdf_c11. Qed.
Print Assumptions C11_pdf417.

(* ---------- (b) the colour scheme ---------- *)
Theorem C11_colour_scheme : forall (C : Type) (r : outcome barcode) (s1 s2 : C * C) r1 r2,
  with_color r s1 = Ok r1 -> with_color r s2 = Ok r2 ->
  rd_bc r1 = rd_bc r2 /\ rd_scheme r1 = s1 /\ rd_scheme r2 = s2
  /\ (forall x y c, rd_pixel r1 x y = Some c -> c = fst s1 \/ c = snd s1).
Proof. exact @with_color_contract. Qed.
Print Assumptions C11_colour_scheme.

(* the premises of the theorems above are satisfiable: one accepted input per 2-D symbology *)
Example C11_nonvacuous :
  accepted (dm_encode [72; 101; 108; 108; 111; 32; 49; 50; 51; 52])
  /\ bytes [72; 101; 108; 108; 111; 32; 49; 50; 51; 52]
  /\ accepted (qr_encode [104; 101; 108; 108; 111] 1 0 3)
  /\ is_bytes [104; 101; 108; 108; 111] /\ valid_encoding 0
  /\ accepted (az_encode c03_hello 33 0) /\ az_in_domain c03_hello 33
  /\ accepted (pdf_encode pdf_ex_padpunct 2 3) /\ pdf_bytes pdf_ex_padpunct.
Proof. exact twod_examples. Qed.
