(* C14 — CheckSum() reports the symbology's real check value.
   Property theorems only; proofs in proofs/OneDPropsA.v (EAN), Code128P3.v, Code39P.v,
   ScaleP.v and C14P.v. *)
From Verif Require Import Prelude Barcode.
From Verif Require Import EanM EanSpec OneDPropsA.
From Verif Require Import Code128M Code128Spec Code39M Code39Spec.
From Verif Require Import ScaleM ScaleSpec C14M C14P.

(* EAN-8/13, all four input lengths (7/12: the encoder computed the digit itself;
   8/13: it was given): CheckSum() is the final digit of Content(), and that digit
   is the GS1 modulo-10 check digit of the digits before it *)
Theorem C14_ean : forall s bc, ean_encode s = Ok bc ->
  (length s = 7 \/ length s = 8 \/ length s = 12 \/ length s = 13)%nat
  /\ exists d, bc_checksum bc = Some d /\ 0 <= d <= 9
       /\ last (bc_content bc) 0 = 48 + d
       /\ exists data, bc_content bc = chars_of (data ++ [d]) /\ d = gs1_check data.
Proof. exact ean_c14. Qed.
Print Assumptions C14_ean.

(* Code 128: CheckSum() is the modulo-103 weighted sum of the symbol characters, and
   the check character drawn before the stop pattern is the one with that value *)
Theorem C14_code128 : forall content bc, c128_encode content = Ok bc ->
  exists bits cs vals, bc_rows bc = [bits] /\ bc_checksum bc = Some cs
    /\ c128_spec_values bits = Some (vals ++ [cs]) /\ cs = c128_spec_checksum vals /\ 0 <= cs < 103.
Proof. exact c128_c14. Qed.
Print Assumptions C14_code128.

(* Code 39: CheckSum() is the sum of the character values modulo 43 (0..42) in every
   option mix; when the check character is requested the symbol carries exactly the
   character with that value, otherwise none *)
Theorem C14_code39 : forall s cs full bc, c39_encode s cs full = Ok bc ->
  exists vals, Forall (fun v => 0 <= v < 43) vals
    /\ bc_checksum bc = Some (fold_right Z.add 0 vals mod 43)
    /\ bc_rows bc = [c39_layout (c39_symbol cs vals)]
    /\ c39_decode_values cs (c39_layout (c39_symbol cs vals)) = Some vals
    /\ c39_symbol cs vals = [c39_start_stop] ++ vals
         ++ (if cs then [fold_right Z.add 0 vals mod 43] else []) ++ [c39_start_stop].
Proof. exact c39_c14. Qed.
Print Assumptions C14_code39.

(* the value is unchanged by any chain of Scale calls (any sizes, any fills) *)
Theorem C14_scaling_keeps_checksum : forall (bc : barcode) rs t,
  scale_chain false (src_of_bc bc) rs = Ok t -> s_checksum t = bc_checksum bc.
Proof. exact scaling_keeps_checksum. Qed.
Print Assumptions C14_scaling_keeps_checksum.

Example C14_nonvacuous :
  exists bc, ean_encode [53; 57; 48; 49; 50; 51; 52] = Ok bc /\ bc_checksum bc = Some 4
  /\ checksums_along (src_of_bc bc) [(200, 10); (450, 3); (10, 10)] = [Some (Some 4); Some (Some 4); None].
Proof. eexists. split; [vm_compute; reflexivity|]. split; vm_compute; reflexivity. Qed.
