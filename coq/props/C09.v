(* C09 — Scale: integer, centred, distortion-free enlargement or an error.
   Property theorems only; proofs live in proofs/ScaleP.v, the model of
   /repo/scaledbarcode.go in model/ScaleM.v, the specification (written from the
   property text) in spec/ScaleSpec.v.

   Domain ("guard") of every theorem that needs one:
     source_ok s      Bounds().Min = (0,0) and 1 <= symbol width, height < 2^62
     size_ok  w h     1 <= requested width, height < 2^62
   Inside it the float64 factor computation of the Go code equals integer
   division (see the comment at the head of model/ScaleM.v); the theorems
   themselves are pure integer arithmetic over an abstract colour type C.
   A source is ANY record of observables (any pixel function, any dims, with or
   without colour scheme / checksum), so "from any encoder, possibly already
   scaled" is covered by quantification over all sources. *)
From Verif Require Import Prelude ScaleM ScaleSpec ScaleP.

(* 1. One call of Scale (fo = None) or ScaleWithFill (fo = Some fill) satisfies the
      specification: Err exactly when too small (or dims not 1/2); otherwise bounds
      (0,0)-(width,height), a largest fitting factor f, offsets centred to within
      one pixel, every module an f-by-f block (1-D: f wide, full height), every
      other pixel the fill colour (default: background, or white), accessors equal. *)
Theorem C09_scale_meets_spec : forall (C : Type) (white : C) (s : source C) width height fo,
  source_ok s -> size_ok width height ->
  scale_spec s width height (resolve_fill white s fo) (scale_req white s (width, height, fo)).
Proof. exact scale_req_sound. Qed.
Print Assumptions C09_scale_meets_spec.

(* 2. the error condition, both directions; never a panic *)
Theorem C09_error_iff_too_small : forall (C : Type) (s : source C) width height fill,
  source_ok s -> size_ok width height -> s_dims s = 1 \/ s_dims s = 2 ->
  (scale_with_fill s width height fill = Err <-> too_small s width height) /\
  (~ too_small s width height -> exists t, scale_with_fill s width height fill = Ok t).
Proof. exact scale_error_iff. Qed.
Print Assumptions C09_error_iff_too_small.

Theorem C09_unsupported_dimensions : forall (C : Type) (s : source C) width height fill,
  s_dims s <> 1 -> s_dims s <> 2 -> scale_with_fill s width height fill = Err.
Proof. exact scale_unsupported_dims. Qed.
Print Assumptions C09_unsupported_dimensions.

(* 3. maximality of the factor: the closed formula (min of the integer quotients)
      is the largest fitting factor; that factor is unique; f fits and f+1 does not *)
Theorem C09_factor_is_largest : forall (C : Type) (white : C) (s : source C) width height,
  source_ok s -> size_ok width height -> s_dims s = 1 \/ s_dims s = 2 ->
  ~ too_small s width height ->
  largest_fitting s width height (geom_f s width height).
Proof. exact stage_factor_largest. Qed.
Print Assumptions C09_factor_is_largest.

Theorem C09_largest_factor_unique : forall (C : Type) (s : source C) width height f g,
  largest_fitting s width height f -> largest_fitting s width height g -> f = g.
Proof. exact largest_fitting_unique. Qed.
Print Assumptions C09_largest_factor_unique.

Theorem C09_factor_maximal : forall (C : Type) (s : source C) width height f,
  source_ok s -> largest_fitting s width height f ->
  f * sym_w s <= width /\ (s_dims s = 2 -> f * sym_h s <= height) /\
  (width < (f + 1) * sym_w s \/ (s_dims s = 2 /\ height < (f + 1) * sym_h s)).
Proof. exact factor_maximal. Qed.
Print Assumptions C09_factor_maximal.

(* 4. centring: the margin before the grid is floor(free/2); the two margins differ
      by at most one pixel *)
Theorem C09_centring : forall (C : Type) (s t : source C) width height fill,
  source_ok s -> size_ok width height ->
  scale_with_fill s width height fill = Ok t ->
  let f := geom_f s width height in
  let ox := geom_ox s width height in
  let oy := geom_oy s width height in
  0 <= ox /\ ox <= width - f * sym_w s - ox <= ox + 1 /\
  (s_dims s = 2 -> 0 <= oy /\ oy <= height - f * sym_h s - oy <= oy + 1) /\
  (s_dims s = 1 -> oy = 0).
Proof. exact scale_centring. Qed.
Print Assumptions C09_centring.

(* 5. every pixel of the result, classified *)
Theorem C09_every_pixel : forall (C : Type) (s t : source C) width height fill,
  source_ok s -> size_ok width height ->
  scale_with_fill s width height fill = Ok t ->
  let f := geom_f s width height in
  let ox := geom_ox s width height in
  let oy := geom_oy s width height in
  forall x y, 0 <= x < width -> 0 <= y < height ->
    s_px t x y =
      if s_dims s =? 2 then
        if (ox <=? x) && (x <? ox + f * sym_w s) && (oy <=? y) && (y <? oy + f * sym_h s)
        then module s ((x - ox) / f) ((y - oy) / f) else fill
      else
        if (ox <=? x) && (x <? ox + f * sym_w s)
        then module s ((x - ox) / f) 0 else fill.
Proof. exact scale_pixels. Qed.
Print Assumptions C09_every_pixel.

(* 6. accessors (no guard): Content, Metadata (kind, dims), CheckSum and its
      presence, ColorModel pass through; a scaled barcode exposes no colour scheme
      (so Scale on it fills with white) *)
Theorem C09_accessors : forall (C : Type) (white : C) (s t : source C) r,
  scale_req white s r = Ok t ->
  same_accessors s t /\ s_cmodel t = s_cmodel s /\ s_scheme t = None.
Proof. exact scale_req_accessors. Qed.
Print Assumptions C09_accessors.

(* 7. chains of repeated scaling: every stage satisfies the specification w.r.t.
      the previous stage (the chain stops at the first error) *)
Theorem C09_chain_every_stage : forall (C : Type) (white : C) (rs : list (request C)) (s : source C),
  source_ok s -> Forall (@request_ok C) rs ->
  stages_spec white s rs (scale_stages white s rs).
Proof. exact scale_stages_sound. Qed.
Print Assumptions C09_chain_every_stage.

Theorem C09_chain_result_is_last_stage : forall (C : Type) (white : C) (rs : list (request C)) (s : source C),
  scale_chain white s rs = last (scale_stages white s rs) (Ok s).
Proof. exact scale_chain_last. Qed.
Print Assumptions C09_chain_result_is_last_stage.

(* 8. Content, Metadata, CheckSum, ColorModel of the final result of any chain are
      those of the original source (no guard) *)
Theorem C09_chain_accessors : forall (C : Type) (white : C) (rs : list (request C)) (s t : source C),
  scale_chain white s rs = Ok t ->
  same_accessors s t /\ s_cmodel t = s_cmodel s /\ (rs <> [] -> s_scheme t = None).
Proof. exact scale_chain_accessors. Qed.
Print Assumptions C09_chain_accessors.

(* 9. the final image of a successful chain is ONE integer enlargement of the
      original symbol: with (F, OX, OY) = chain_geom (product of the stage factors,
      accumulated offsets) every original module (i,j) is the F-by-F block at
      (OX + i*F, OY + j*F) (1-D: F wide over the full height), the grid lies inside
      the image, and every pixel outside the grid has the fill colour of one of the
      stages *)
Theorem C09_chain_is_one_enlargement : forall (C : Type) (white : C) (rs : list (request C)) (s t : source C),
  source_ok s -> Forall (@request_ok C) rs ->
  scale_chain white s rs = Ok t -> enlargement_spec white s rs t.
Proof. exact chain_enlargement. Qed.
Print Assumptions C09_chain_is_one_enlargement.

(* 10. the executable validator run on the implementation's pixels (oracle of the
       correspondence check) is sound for the specification *)
Theorem C09_validator_sound : forall (C : Type) (ceqb : C -> C -> bool) (s : source C)
    width height fill r f ox oy,
  (forall a b, ceqb a b = true -> a = b) ->
  source_ok s -> size_ok width height ->
  validate ceqb s width height fill r f ox oy = true ->
  scale_spec s width height fill r.
Proof. exact validate_sound. Qed.
Print Assumptions C09_validator_sound.

(* 11. the hypothesis Bounds().Min = (0,0) is needed: the code ignores Min *)
Theorem C09_min_must_be_origin :
  ~ origin_anchored ex_shifted /\
  ~ scale_spec ex_shifted 2 1 7 (scale_with_fill ex_shifted 2 1 7).
Proof. exact scale_min_not_origin_counterexample. Qed.
Print Assumptions C09_min_must_be_origin.

(* ---- non-vacuity: the hypotheses are satisfiable, and the model computes the
   expected images on concrete instances (1-D chain of three scalings with default
   and explicit fills; 2-D with unequal margins; errors) ---- *)
Example C09_nonvacuous_hypotheses :
  source_ok ex_src1 /\ source_ok ex_src2 /\ Forall (@request_ok Z) ex_chain.
Proof. exact (conj ex_src1_ok (conj ex_src2_ok ex_chain_ok)). Qed.

Example C09_nonvacuous_chain :
  map image_rows (scale_stages 9 ex_src1 ex_chain) =
  [ [[1;1;0;0;1;1;0]; [1;1;0;0;1;1;0]];
    [[5;5;5;1;1;1;1;0;0;0;0;1;1;1;1;0;0;5;5;5];
     [5;5;5;1;1;1;1;0;0;0;0;1;1;1;1;0;0;5;5;5];
     [5;5;5;1;1;1;1;0;0;0;0;1;1;1;1;0;0;5;5;5]];
    [[5;5;5;1;1;1;1;0;0;0;0;1;1;1;1;0;0;5;5;5;9]] ].
Proof. exact ex_chain_rows. Qed.

Example C09_nonvacuous_chain_geometry :
  chain_geom 1 3 1 ex_chain = (4, 3, 0) /\ chain_size 3 1 ex_chain = (21, 1).
Proof. exact ex_chain_geom. Qed.

Example C09_nonvacuous_2d :
  image_rows (scale_req 9 ex_src2 (5, 7, None)) =
  [ [9;9;9;9;9]; [1;1;0;0;9]; [1;1;0;0;9]; [0;0;1;1;9]; [0;0;1;1;9]; [9;9;9;9;9]; [9;9;9;9;9] ].
Proof. exact ex_2d_rows. Qed.

Example C09_nonvacuous_errors :
  scale_req 9 ex_src2 (5, 1, None) = Err /\ scale_req 9 ex_src1 (2, 50, Some 4) = Err /\
  (exists t, scale_req 9 ex_src1 (3, 50, Some 4) = Ok t).
Proof. exact ex_errors. Qed.
