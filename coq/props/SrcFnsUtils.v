(* Source-level tie (informational, see DESIGN 0a): functions translated statement by statement from /repo's CURRENT
   source by go/gosrc (gen/TabSrc.v, regenerated on every run) equal the model's functions for all arguments.
   (Go's int is modelled by Z; inside the size guards of the property theorems no intermediate value leaves int64.)
   One file per package, so that a rewrite of one package's functions cannot hide the others.  Theorems only. *)
From Verif Require Import Prelude Barcode TabSrc.
From Coq Require Import Lia.
Local Open Scope Z_scope.

Theorem SRC_utils_runeint : forall z,
  rune_to_int z = src_utils_RuneToInt z /\ int_to_rune z = src_utils_IntToRune z.
Proof.
  intros z. unfold rune_to_int, int_to_rune, is_digit, src_utils_RuneToInt, src_utils_IntToRune.
  rewrite !Z.geb_leb. split; reflexivity.
Qed.
Print Assumptions SRC_utils_runeint.
