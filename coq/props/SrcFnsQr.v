(* Source-level tie (informational, see DESIGN 0a): functions translated statement by statement from /repo's CURRENT
   source by go/gosrc (gen/TabSrc.v, regenerated on every run) equal the model's functions for all arguments.
   (Go's int is modelled by Z; inside the size guards of the property theorems no intermediate value leaves int64.)
   One file per package, so that a rewrite of one package's functions cannot hide the others.  Theorems only. *)
From Verif Require Import Prelude Barcode TabSrc.
From Verif Require Import TabQr QRMBits.
From Coq Require Import Lia.
Local Open Scope Z_scope.

Theorem SRC_qr_versioninfo_methods : forall vi m,
  let a := vi_version vi in let b := vi_level vi in let c := vi_ecc vi in let d := vi_n1 vi in
  let e := vi_k1 vi in let f := vi_n2 vi in let g := vi_k2 vi in
  total_data_bytes vi = src_qr_totalDataBytes a b c d e f g
  /\ modul_width (vi_version vi) = src_qr_modulWidth a b c d e f g
  /\ char_count_bits (vi_version vi) m = src_qr_charCountBits a b c d e f g m.
Proof.
  intros vi m. cbv zeta. split; [|split].
  - unfold total_data_bytes, src_qr_totalDataBytes. cbv zeta. lia.
  - unfold modul_width, src_qr_modulWidth. lia.
  - unfold char_count_bits, src_qr_charCountBits, qr_numeric_mode, qr_alphanumeric_mode, qr_byte_mode, qr_kanji_mode.
    repeat rewrite Bool.orb_false_r.
    destruct (m =? 1); [reflexivity|]. destruct (m =? 2); [reflexivity|]. destruct (m =? 4); [reflexivity|].
    destruct (m =? 8); reflexivity.
Qed.
Print Assumptions SRC_qr_versioninfo_methods.
