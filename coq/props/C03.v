(* C03 -- Aztec: every accepted payload decodes back to exactly that payload.
   Property theorems only; the proofs live in proofs/AztecP*.v and
   proofs/AztecProps.v.

   Model: model/AztecM.v (az_encode = aztec.EncodeWithColor, line by line; tables
   from gen/TabAztec.v).  Specification: spec/AztecSpec.v (ISO/IEC 24778 from the
   reader's side: aztec_read / aztec_valid / aztec_decode work from the module
   matrix).  Domain az_in_domain: payload bytes in 0..255, length < 2^57, ecc
   percentage >= 0, and bits.Len()*pct < 2^63 (no wrap of the Go int product). *)
From Verif Require Import Prelude Barcode BitListM GFM TabAztec AztecM AztecSpec
     AztecPBase AztecPTab AztecPStuff AztecPLayout AztecPHL AztecPConfig AztecPCompose AztecProps.

(* The composed statement: for every byte string, every percentage >= 0 and
   every layer request (any integer; 0 = automatic) for which the encoder model
   returns a barcode, the image is a valid ISO/IEC 24778 symbol -- finder
   pattern and orientation marks, a mode message that passes its GF(16)
   Reed-Solomon check and agrees with the symbol size, a complete reference
   grid in full-range symbols, data codewords that pass the Reed-Solomon check
   of the symbol's field and contain no all-zero / all-one word -- which the
   reader decodes to exactly the payload; an explicit layer request is
   honoured exactly. *)
Theorem C03_roundtrip : forall data pct req bc,
  az_in_domain data pct -> az_encode data pct req = Ok bc ->
  aztec_valid (bc_rows bc) = true
  /\ aztec_decode (bc_rows bc) = Some data
  /\ (req <> 0 -> exists r, aztec_read (bc_rows bc) = ROk r
                   /\ ar_compact r = (req <? 0) /\ ar_layers r = Z.abs req).
Proof. exact az_c03_roundtrip. Qed.
Print Assumptions C03_roundtrip.

(* Layer 1 (tables, finite): charMap / latchTable / shiftTable / word_size as
   built by the Go source agree with the ISO tables of the specification. *)
Theorem C03_tables :
  (forall m ch, 0 <= m <= 4 -> 0 <= ch < 256 -> cm_entry_ok m ch = true)
  /\ (forall a b, 0 <= a <= 4 -> 0 <= b <= 4 -> latch_entry_ok a b = true)
  /\ (forall a b, 0 <= a <= 4 -> 0 <= b <= 4 -> shift_entry_ok a b = true)
  /\ (forall l, 1 <= l <= 32 -> zget az_word_size l = Some (sp_word_size l))
  /\ (forall compact l, az_total_bits l compact = sp_capacity compact l)
  /\ (az_gf4 = sp_gf4 /\ az_gf6 = sp_gf6 /\ az_gf8 = sp_gf8 /\ az_gf10 = sp_gf10 /\ az_gf12 = sp_gf12).
Proof. exact az_c03_tables. Qed.
Print Assumptions C03_tables.

(* Layer 2 (high level, unbounded): the bit stream chosen by the state-list
   search decodes to the payload, also when followed by up to 11 padding ones. *)
Theorem C03_highlevel : forall data, Forall is_byte data -> zlength data < 2 ^ 57 ->
  exists bits, az_highlevel data = Ok bits
    /\ forall k, (k <= 11)%nat -> aztec_decode_hl (bits ++ repeat true k) = Some data.
Proof. exact az_c03_highlevel. Qed.
Print Assumptions C03_highlevel.

(* Layer 3 (stuffing, unbounded): un-stuffing gives the bits back plus fewer
   than wordSize padding ones (un-stuffing succeeds only if no codeword is
   all-zero or all-one and the length is a multiple of the word size); an empty
   payload yields exactly one padding word. *)
Theorem C03_stuffing : forall (wordSize : Z) (bits : list bool), 2 <= wordSize ->
  exists out k,
    az_stuff_bits bits wordSize = Ok out
    /\ sp_unstuff (Z.to_nat wordSize) out = Some (bits ++ repeat true k)
    /\ (k < Z.to_nat wordSize)%nat
    /\ out <> []
    /\ zlength out mod wordSize = 0
    /\ zlength bits <= zlength out
    /\ (zlength out / wordSize - 1) * (wordSize - 1) <= zlength bits.
Proof. exact az_c03_stuffing. Qed.
Print Assumptions C03_stuffing.

Theorem C03_stuffing_empty : forall wordSize, 2 <= wordSize ->
  az_stuff_bits [] wordSize = Ok (repeat true (Z.to_nat wordSize - 1) ++ [false]).
Proof. exact az_c03_stuffing_empty. Qed.
Print Assumptions C03_stuffing_empty.

(* Layer 4 (layout, 36 configurations): for arbitrary message and mode-message
   bits the drawn matrix has the ISO size, nothing is set outside it, the finder
   pattern / orientation marks / reference grid are as prescribed, and reading
   the mode-message ring and the data spiral gives the bits back. *)
Theorem C03_layout : forall (compact : bool) (L : Z) (msg mm : list bool),
  (if compact then 1 <= L <= 4 else 1 <= L <= 32) ->
  zlength msg = az_total_bits L compact ->
  zlength mm = az_mode_len compact ->
  let n := az_matrix_size compact L in
  let c := n / 2 in
  let M := az_draw compact L msg mm in
  let rows := az_rows (Z.to_nat (am_size M)) 0 M in
  am_size M = n /\ am_bad M = false
  /\ n = sp_size compact L /\ Z.odd n = true /\ 15 <= n
  /\ zlength rows = n /\ Forall (fun r => zlength r = n) rows
  /\ sp_cells_ok rows (sp_finder compact c) = true
  /\ (compact = false ->
      sp_cells_ok rows (sp_finder true c) = false /\ sp_cells_ok rows (sp_grid n c) = true)
  /\ map (fun p => sp_pix rows (fst p) (snd p)) (sp_mode_positions compact c) = mm
  /\ map (fun p => sp_pix rows (fst p) (snd p)) (sp_data_positions compact L c) = msg
  /\ zlength (sp_data_positions compact L c) = sp_capacity compact L.
Proof. exact az_c03_layout. Qed.
Print Assumptions C03_layout.

(* ---- the hypotheses are satisfiable; the statements are not vacuous ---- *)
Example C03_nonvacuous_auto :
  match az_encode c03_hello 33 0 with
  | Ok bc => aztec_decode (bc_rows bc) = Some c03_hello /\ bc_width bc = 19
  | _ => False
  end.
Proof. exact az_c03_example_auto. Qed.

Example C03_nonvacuous_layers :
  exists bc r, az_encode c03_hello 23 5 = Ok bc /\ aztec_read (bc_rows bc) = ROk r
    /\ ar_layers r = 5 /\ ar_compact r = false /\ ar_payload r = c03_hello /\ bc_width bc = 37.
Proof. exact az_c03_example_layers. Qed.

Example C03_nonvacuous_empty :
  match az_encode [] 33 0 with
  | Ok bc => aztec_read (bc_rows bc)
             = ROk {| ar_compact := true; ar_layers := 1; ar_datawords := 1;
                      ar_checkwords := 16; ar_payload := [] |}
  | _ => False
  end.
Proof. exact az_c03_example_empty. Qed.

Example C03_domain_inhabited : az_in_domain c03_hello 33.
Proof. exact az_c03_example_domain. Qed.

(* Found while proving (fixed in /repo since, kept as witnesses in comments):
   - full-range symbols with 12 or 27 layers lacked the outermost reference-grid
     line (loop bound i < baseMatrixSize/2-1): aztec.Encode("HELLO",0,12) left
     column 65 blank;
   - aztec.Encode(data, pct, math.MinInt64) panicked (negation overflow). *)
