(* placeholder while the development is being built *)
From Verif Require Import Prelude AztecM AztecSpec.
Example C03_placeholder : aztec_decode_hl [] = Some [].
Proof. reflexivity. Qed.
Print Assumptions C03_placeholder.
