(* boolean representability predicates of Aztec and PDF417 used by the C10 oracle; kept free of
   the cross-cutting proof files so that the extracted driver still builds when some unrelated
   proof no longer checks *)
From Verif Require Import Prelude Barcode AztecM AztecSpec AztecPBase AztecPConfig TabPdf417 Pdf417M.

Definition az_representable_b (data : list Z) (pct req : Z) : bool :=
  match az_highlevel data with
  | Ok hl =>
    if req =? 0 then existsb (fun j => fits_at hl (az_ecc_bits hl pct) j) (zseq 0 33)
    else (-4 <=? req) && (req <=? 32) && az_fits hl (az_ecc_bits hl pct) (req <? 0) (Z.abs req)
  | _ => false
  end.


(* representable: a defined security level and few enough codewords for the largest shape *)
Definition pdf_representable_b (data : list Z) (level : Z) : bool :=
  (level <=? 8) &&
  match pdf_highlevel data with
  | Ok dw => zlength dw + 1 + pdf_ec_count level <=? pdf_max_rows * pdf_max_cols
  | _ => false
  end.

