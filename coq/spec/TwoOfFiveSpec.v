(* Specification of the two "2 of 5" symbologies written from their descriptions
   (Industrial / Standard 2 of 5; Interleaved 2 of 5, ANSI/AIM BC2, ISO/IEC 16390),
   NOT from the encoder.

   Every digit has five elements of which exactly two are wide; the elements
   carry the weights 1 2 4 7 and parity (0 is 4+7).  Wide = 3 modules, narrow = 1.
   Standard: only bars carry data, every bar is followed by a narrow space;
     start = bars 11 0 11 0 1 0, stop = 11 0 1 0 11.
   Interleaved: digits are taken in pairs, the first digit of a pair is drawn in
     the five bars, the second in the five spaces between and after them;
     start = narrow bar, space, bar, space (1010), stop = wide bar, narrow space,
     narrow bar (11101).  The number of digits must be even. *)
From Verif Require Import Prelude Barcode RunLenSpec.

Local Notation n := false.   (* narrow *)
Local Notation W := true.    (* wide *)

(* digit -> five elements *)
Definition tof_table : list (Z * list bool) :=
  [ (0, [n;n;W;W;n]);
    (1, [W;n;n;n;W]);
    (2, [n;W;n;n;W]);
    (3, [W;W;n;n;n]);
    (4, [n;n;W;n;W]);
    (5, [W;n;W;n;n]);
    (6, [n;W;W;n;n]);
    (7, [n;n;n;W;W]);
    (8, [W;n;n;W;n]);
    (9, [n;W;n;W;n]) ].

Definition tof_narrow : nat := 1%nat.
Definition tof_wide : nat := 3%nat.
Definition tof_elem_width (wide : bool) : nat := if wide then tof_wide else tof_narrow.

(* start / stop patterns as modules *)
Definition tof_std_start : list bool := [true; true; false; true; true; false; true; false].
Definition tof_std_stop : list bool := [true; true; false; true; false; true; true].
Definition tof_int_start : list bool := [true; false; true; false].
Definition tof_int_stop : list bool := [true; true; true; false; true].

(* ---------- which contents are representable ---------- *)
Definition tof_representable (interleaved : bool) (s : list Z) : bool :=
  negb (length s =? 0)%nat && forallb is_digit s && (negb interleaved || Nat.even (length s)).

(* ---------- reference decoders (on runs) ---------- *)
Definition tof_classify (k : nat) : option bool :=
  match k with
  | 1%nat => Some n
  | 3%nat => Some W
  | _ => None
  end.

Definition tof_digit (ks : list nat) : option Z :=
  match ks with
  | [k1; k2; k3; k4; k5] =>
    match tof_classify k1, tof_classify k2, tof_classify k3, tof_classify k4, tof_classify k5 with
    | Some e1, Some e2, Some e3, Some e4, Some e5 => find_flags tof_table [e1; e2; e3; e4; e5]
    | _, _, _, _, _ => None
    end
  | _ => None
  end.

Definition is_bar (r : bool * nat) : bool := fst r.
Definition is_space (r : bool * nat) : bool := negb (fst r).

(* standard: five (bar, narrow space) pairs per digit, until only the stop pattern is left *)
Fixpoint tof_std_digits (stop : list (bool * nat)) (rl : list (bool * nat)) : option (list Z) :=
  if runs_eqb rl stop then Some [] else
  match rl with
  | b1 :: s1 :: b2 :: s2 :: b3 :: s3 :: b4 :: s4 :: b5 :: s5 :: rest =>
    if is_bar b1 && is_bar b2 && is_bar b3 && is_bar b4 && is_bar b5
       && forallb (fun s => run_eqb s (false, tof_narrow)) [s1; s2; s3; s4; s5] then
      match tof_digit [snd b1; snd b2; snd b3; snd b4; snd b5], tof_std_digits stop rest with
      | Some d, Some ds => Some (d :: ds)
      | _, _ => None
      end
    else None
  | _ => None
  end.

(* interleaved: ten alternating elements per digit pair *)
Fixpoint tof_int_digits (stop : list (bool * nat)) (rl : list (bool * nat)) : option (list Z) :=
  if runs_eqb rl stop then Some [] else
  match rl with
  | b1 :: s1 :: b2 :: s2 :: b3 :: s3 :: b4 :: s4 :: b5 :: s5 :: rest =>
    if is_bar b1 && is_bar b2 && is_bar b3 && is_bar b4 && is_bar b5
       && is_space s1 && is_space s2 && is_space s3 && is_space s4 && is_space s5 then
      match tof_digit [snd b1; snd b2; snd b3; snd b4; snd b5],
            tof_digit [snd s1; snd s2; snd s3; snd s4; snd s5],
            tof_int_digits stop rest with
      | Some d, Some e, Some ds => Some (d :: e :: ds)
      | _, _, _ => None
      end
    else None
  | _ => None
  end.

(* modules -> digits; a symbol without data characters is not valid *)
Definition tof_decode (interleaved : bool) (m : list bool) : option (list Z) :=
  let start := runs (if interleaved then tof_int_start else tof_std_start) in
  let stop := runs (if interleaved then tof_int_stop else tof_std_stop) in
  match strip_runs start (runs m) with
  | None => None
  | Some rl =>
    match (if interleaved then tof_int_digits stop rl else tof_std_digits stop rl) with
    | Some (d :: ds) => Some (d :: ds)
    | _ => None
    end
  end.

(* ---------- check digit ---------- *)
(* weight 3 on the rightmost data digit, alternating 3,1 leftwards; the check
   digit itself has weight 1 *)
Fixpoint tof_weighted_sum (ds : list Z) : Z :=
  match ds with
  | [] => 0
  | d :: t => (if Nat.even (length t) then 3 else 1) * d + tof_weighted_sum t
  end.

Definition tof_check_ok (ds : list Z) (c : Z) : bool :=
  (0 <=? c) && (c <=? 9) && ((tof_weighted_sum ds + c) mod 10 =? 0).

Definition tofcs_representable (s : list Z) : bool :=
  negb (length s =? 0)%nat && forallb is_digit s.
