(* Specification of Code 93 (AIM USS-93), written from the standard's character
   table, NOT from the encoder: literal tables, symbol layout, check characters C
   and K, reference decoder modules -> symbol characters -> (strip C,K) ->
   (resolve full-ASCII shift pairs) -> text.  Texts are byte lists.  No proofs. *)
From Coq Require Import String Ascii.
From Verif Require Import Prelude Code39Spec.

(* ---------- the Code 93 character set ---------- *)
(* The 47 data characters in the order of their values 0..46.  Values 43..46 are
   the four shift characters ($) (%) (/) (+), written a b c d in this file. *)
Definition c93_charset : list Z :=
  Eval vm_compute in str_bytes "0123456789ABCDEFGHIJKLMNOPQRSTUVWXYZ-. $/+%abcd".

(* symbol character number 47 is the start/stop character *)
Definition c93_start_stop : Z := 47.

(* Each character is 9 modules: bar,space,bar,space,bar,space with these widths.
   Rows: 0-7, 8-F, G-N, O-V, W-Z - . space $, / + % ($) (%) (/) (+) start/stop. *)
Definition c93_width_patterns : list string :=
  ["131112"; "111213"; "111312"; "111411"; "121113"; "121212"; "121311"; "111114";
   "131211"; "141111"; "211113"; "211212"; "211311"; "221112"; "221211"; "231111";
   "112113"; "112212"; "112311"; "122112"; "132111"; "111123"; "111222"; "111321";
   "121122"; "131121"; "212112"; "212211"; "211122"; "211221"; "221121"; "222111";
   "112122"; "112221"; "122121"; "123111"; "121131"; "311112"; "311211"; "321111";
   "112131"; "113121"; "211131"; "121221"; "312111"; "311121"; "122211"; "111141"]%string.

(* modules of a width pattern, bars and spaces alternating, starting with `bar`;
   the widths are the digits 1..4 *)
Fixpoint c93_expand (bar : bool) (p : list Z) : list bool :=
  match p with
  | [] => []
  | c :: t => repeat bar (Z.to_nat (c - 48)) ++ c93_expand (negb bar) t
  end.

Definition c93_symbols : list (list bool) :=
  Eval vm_compute in map (fun s => c93_expand true (str_bytes s)) c93_width_patterns.

Definition c93_sym_modules (v : Z) : list bool := nth (Z.to_nat v) c93_symbols [].

(* ---------- symbol layout ---------- *)
(* the symbol characters one after the other, then the termination bar *)
Definition c93_layout (syms : list Z) : list bool :=
  flat_map c93_sym_modules syms ++ [true].

(* weighted sum: the rightmost value has weight 1, the next 2, ... up to maxw,
   then again 1; rvals is the value sequence reversed, i the position from the right *)
Fixpoint c93_wsum (maxw : Z) (i : Z) (rvals : list Z) : Z :=
  match rvals with
  | [] => 0
  | v :: t => v * (i mod maxw + 1) + c93_wsum maxw (i + 1) t
  end.

Definition c93_check (maxw : Z) (vals : list Z) : Z := (c93_wsum maxw 0 (rev vals)) mod 47.

(* check character C: weights 1..20 over the data; K: weights 1..15 over data and C *)
Definition c93_check_c (vals : list Z) : Z := c93_check 20 vals.
Definition c93_check_k (vals : list Z) : Z := c93_check 15 (vals ++ [c93_check_c vals]).

Definition c93_symbol (includeCheck : bool) (vals : list Z) : list Z :=
  [c93_start_stop] ++ vals
  ++ (if includeCheck then [c93_check_c vals; c93_check_k vals] else [])
  ++ [c93_start_stop].

(* ---------- texts ---------- *)
(* Basic mode: a text denotes a sequence of data characters.  The 43 printable
   ones are themselves; the library's documented way to write the four shift
   characters ($) (%) (/) (+) in a text is FNC1..FNC4 = U+00F1..U+00F4, in a
   (UTF-8) Go string the byte pairs C3 B1 .. C3 B4. *)
Definition c93_value_text (v : Z) : list Z :=
  if v <? 43 then [nth (Z.to_nat v) c93_charset 0] else [195; 177 + (v - 43)].

Definition c93_values_text (vals : list Z) : list Z := flat_map c93_value_text vals.

(* the data values a basic-mode text denotes; None if it is not such a text *)
Fixpoint c93_text_values (s : list Z) : option (list Z) :=
  match s with
  | [] => Some []
  | b :: t =>
    match char_index b (firstn 43 c93_charset) 0 with
    | Some v => let? r := c93_text_values t in Some (v :: r)
    | None =>
      if b =? 195 then
        match t with
        | b1 :: t' =>
          if (177 <=? b1) && (b1 <=? 180)
          then let? r := c93_text_values t' in Some (43 + (b1 - 177) :: r)
          else None
        | [] => None
        end
      else None
    end
  end.

(* ---------- full ASCII (standard table of the 128 spellings; a b c d = the shifts) ---------- *)
Definition c93_full_ascii : list string :=
  ["bU"; "aA"; "aB"; "aC"; "aD"; "aE"; "aF"; "aG"; "aH"; "aI"; "aJ"; "aK"; "aL"; "aM"; "aN"; "aO";
   "aP"; "aQ"; "aR"; "aS"; "aT"; "aU"; "aV"; "aW"; "aX"; "aY"; "aZ"; "bA"; "bB"; "bC"; "bD"; "bE";
   " "; "cA"; "cB"; "cC"; "$"; "%"; "cF"; "cG"; "cH"; "cI"; "cJ"; "+"; "cL"; "-"; "."; "/";
   "0"; "1"; "2"; "3"; "4"; "5"; "6"; "7"; "8"; "9"; "cZ"; "bF"; "bG"; "bH"; "bI"; "bJ";
   "bV"; "A"; "B"; "C"; "D"; "E"; "F"; "G"; "H"; "I"; "J"; "K"; "L"; "M"; "N"; "O";
   "P"; "Q"; "R"; "S"; "T"; "U"; "V"; "W"; "X"; "Y"; "Z"; "bK"; "bL"; "bM"; "bN"; "bO";
   "bW"; "dA"; "dB"; "dC"; "dD"; "dE"; "dF"; "dG"; "dH"; "dI"; "dJ"; "dK"; "dL"; "dM"; "dN"; "dO";
   "dP"; "dQ"; "dR"; "dS"; "dT"; "dU"; "dV"; "dW"; "dX"; "dY"; "dZ"; "bP"; "bQ"; "bR"; "bS"; "bT"]%string.

(* alternative spellings a reader also accepts: (/)A..(/)O are ! .. / throughout,
   (%)X..(%)Z are DEL *)
Definition c93_full_ascii_alt : list (list Z * Z) :=
  Eval vm_compute in
  [(str_bytes "cD", 36); (str_bytes "cE", 37); (str_bytes "cK", 43); (str_bytes "cM", 45);
   (str_bytes "cN", 46); (str_bytes "cO", 47);
   (str_bytes "bX", 127); (str_bytes "bY", 127); (str_bytes "bZ", 127)].

Definition c93_pair_table : list (list Z * Z) :=
  Eval vm_compute in fa_number c93_full_ascii 0 ++ c93_full_ascii_alt.

(* a b c d *)
Definition c93_is_shift (c : Z) : bool := (97 <=? c) && (c <=? 100).

Definition c93_value_char (v : Z) : Z := nth (Z.to_nat v) c93_charset 0.

(* full-ASCII text of a sequence of data values *)
Definition c93_unspell (vals : list Z) : option (list Z) :=
  fa_unspell c93_is_shift c93_pair_table (map c93_value_char vals).

(* all spellings of an ASCII code as value sequences *)
Definition c93_spellings (b : Z) : list (list Z) :=
  map (fun e => map (fun c => match char_index c c93_charset 0 with Some v => v | None => -1 end) (fst e))
      (filter (fun e => snd e =? b) c93_pair_table).

(* ---------- reference decoder ---------- *)
Definition c93_read_symbol (m : list bool) : option Z := pattern_index m c93_symbols 0.

(* 9-module characters, then the single termination bar *)
Fixpoint c93_read_symbols (fuel : nat) (bits : list bool) : option (list Z) :=
  match fuel with
  | O => None
  | S f =>
    match c93_read_symbol (firstn 9 bits) with
    | Some v => let? r := c93_read_symbols f (skipn 9 bits) in Some (v :: r)
    | None => if bools_eqb bits [true] then Some [] else None
    end
  end.

Definition c93_strip_frame (syms : list Z) : option (list Z) :=
  match syms with
  | s :: t =>
    match rev t with
    | e :: rmid =>
      if (s =? c93_start_stop) && (e =? c93_start_stop)
         && forallb (fun v => (0 <=? v) && (v <? 47)) rmid
      then Some (rev rmid) else None
    | [] => None
    end
  | [] => None
  end.

(* verify and remove C and K *)
Definition c93_strip_check (includeCheck : bool) (vals : list Z) : option (list Z) :=
  if includeCheck then
    match rev vals with
    | k :: c :: rd =>
      let d := rev rd in
      if (c =? c93_check_c d) && (k =? c93_check_k d) then Some d else None
    | _ => None
    end
  else Some vals.

Definition c93_decode_values (includeCheck : bool) (bits : list bool) : option (list Z) :=
  let? syms := c93_read_symbols (length bits) bits in
  let? mid := c93_strip_frame syms in
  c93_strip_check includeCheck mid.

Definition c93_decode (includeCheck fullASCII : bool) (bits : list bool) : option (list Z) :=
  let? vals := c93_decode_values includeCheck bits in
  if fullASCII then c93_unspell vals else Some (c93_values_text vals).

(* ---------- which texts are encodable ---------- *)
Definition c93_accepts (fullASCII : bool) (s : list Z) : bool :=
  if fullASCII then forallb is_ascii s
  else match c93_text_values s with Some _ => true | None => false end.

(* ---------- the character table as a map from runes ---------- *)
(* the rune the library uses for a symbol character: the printed character, FNC1..FNC4
   = U+00F1..U+00F4 for the shift characters, "*" for start/stop *)
Definition c93_value_rune (v : Z) : Z :=
  if v <? 43 then nth (Z.to_nat v) c93_charset 0
  else if v =? 47 then 42 else 241 + (v - 43).

(* what the standard's table says about a rune: (value, modules); start/stop is
   symbol character 47 *)
Definition c93_spec_entry (r : Z) : option (Z * list bool) :=
  match char_index r (firstn 43 c93_charset) 0 with
  | Some v => Some (v, c93_sym_modules v)
  | None =>
    if (241 <=? r) && (r <=? 244) then Some (43 + (r - 241), c93_sym_modules (43 + (r - 241)))
    else if r =? 42 then Some (c93_start_stop, c93_sym_modules c93_start_stop)
    else None
  end.

(* every width pattern: six widths 1..4 that add up to 9 modules *)
Definition c93_widths_ok (p : list Z) : bool :=
  Nat.eqb (length p) 6 && forallb (fun c => (49 <=? c) && (c <=? 52)) p
  && (fold_right (fun c a => (c - 48) + a) 0 p =? 9).
