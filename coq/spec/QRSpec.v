(* Specification of QR Code symbols, written from ISO/IEC 18004:2006 -- not from
   the encoder.  Contents:
     - symbol structure: size, function patterns (7.3), alignment centres (Annex E),
       format information (7.9, BCH(15,5) computed), version information (7.10,
       Golay(18,6) computed), data masks (Table 10), module placement (7.7.3) in the
       column-pair formulation, block structure (Table 9 as two literal arrays + the
       codeword-count formula)
     - the reference reader qr_read: size -> version, both format copies (must be
       equal and BCH-valid), version information (v >= 7), unmasking, codewords in
       placement order, de-interleaving, syndrome check of every block over
       GF(256)/285 at alpha^0..alpha^(e-1), segment parsing (numeric, alphanumeric,
       byte), terminator and pad-codeword check
     - qr_decode / qr_valid and the capacity predicates used by C10/C13.
   No proofs here.  Coordinates are (x, y) = (column, row), origin top left.
   The Galois-field arithmetic (gf_new, poly_eval) is the executable one of GFM,
   whose laws are property C17. *)
From Verif Require Import Prelude GFM.

(* ---------- small helpers (the spec shares no code with the encoder model) ---------- *)
Fixpoint sseq (lo : Z) (n : nat) : list Z :=
  match n with
  | O => []
  | S m => lo :: sseq (lo + 1) m
  end.

Definition bits_to_Z (l : list bool) : Z :=
  fold_left (fun acc (b : bool) => 2 * acc + (if b then 1 else 0)) l 0.

(* ---------- levels ---------- *)
Inductive qlevel := LvL | LvM | LvQ | LvH.

(* the two-bit indicators of Table 25 *)
Definition level_bits (l : qlevel) : Z :=
  match l with LvL => 1 | LvM => 0 | LvQ => 3 | LvH => 2 end.

Definition level_of_bits (b : Z) : option qlevel :=
  if b =? 1 then Some LvL else if b =? 0 then Some LvM
  else if b =? 3 then Some LvQ else if b =? 2 then Some LvH else None.

(* the library's numbering of its level constants: L, M, Q, H = 0, 1, 2, 3 *)
Definition level_of_Z (z : Z) : option qlevel :=
  if z =? 0 then Some LvL else if z =? 1 then Some LvM
  else if z =? 2 then Some LvQ else if z =? 3 then Some LvH else None.

Definition level_index (l : qlevel) : nat :=
  match l with LvL => 0 | LvM => 1 | LvQ => 2 | LvH => 3 end%nat.

Definition qlevel_eqb (a b : qlevel) : bool := Nat.eqb (level_index a) (level_index b).

(* ---------- symbol size ---------- *)
Definition spec_size (v : Z) : Z := 17 + 4 * v.

Definition version_of_size (size : Z) : option Z :=
  let v := (size - 17) / 4 in
  if (1 <=? v) && (v <=? 40) && (size =? spec_size v) then Some v else None.

(* ---------- block structure (Table 9) ---------- *)
(* number of error correction codewords per block, rows L M Q H, versions 1..40 *)
Definition ecc_per_block : list (list Z) :=
  [[7; 10; 15; 20; 26; 18; 20; 24; 30; 18; 20; 24; 26; 30; 22; 24; 28; 30; 28; 28;
    28; 28; 30; 30; 26; 28; 30; 30; 30; 30; 30; 30; 30; 30; 30; 30; 30; 30; 30; 30];
   [10; 16; 26; 18; 24; 16; 18; 22; 22; 26; 30; 22; 22; 24; 24; 28; 28; 26; 26; 26;
    26; 28; 28; 28; 28; 28; 28; 28; 28; 28; 28; 28; 28; 28; 28; 28; 28; 28; 28; 28];
   [13; 22; 18; 26; 18; 24; 18; 22; 20; 24; 28; 26; 24; 20; 30; 24; 28; 28; 26; 30;
    28; 30; 30; 30; 30; 28; 30; 30; 30; 30; 30; 30; 30; 30; 30; 30; 30; 30; 30; 30];
   [17; 28; 22; 16; 22; 28; 26; 26; 24; 28; 24; 28; 22; 24; 24; 30; 28; 28; 26; 28;
    30; 24; 30; 30; 30; 30; 30; 30; 30; 30; 30; 30; 30; 30; 30; 30; 30; 30; 30; 30]].

(* number of error correction blocks, rows L M Q H, versions 1..40 *)
Definition num_blocks : list (list Z) :=
  [[1; 1; 1; 1; 1; 2; 2; 2; 2; 4; 4; 4; 4; 4; 6; 6; 6; 6; 7; 8;
    8; 9; 9; 10; 12; 12; 12; 13; 14; 15; 16; 17; 18; 19; 19; 20; 21; 22; 24; 25];
   [1; 1; 1; 2; 2; 4; 4; 4; 5; 5; 5; 8; 9; 9; 10; 10; 11; 13; 14; 16;
    17; 17; 18; 20; 21; 23; 25; 26; 28; 29; 31; 33; 35; 37; 38; 40; 43; 45; 47; 49];
   [1; 1; 2; 2; 4; 4; 6; 6; 8; 8; 8; 10; 12; 16; 12; 17; 16; 18; 21; 20;
    23; 23; 25; 27; 29; 34; 34; 35; 38; 40; 43; 45; 48; 51; 53; 56; 59; 62; 65; 68];
   [1; 1; 2; 4; 4; 4; 5; 6; 8; 8; 11; 11; 16; 16; 18; 16; 19; 21; 25; 25;
    25; 34; 30; 32; 35; 37; 40; 42; 45; 48; 51; 54; 57; 60; 63; 66; 70; 74; 77; 81]].

Definition table_at (t : list (list Z)) (l : qlevel) (v : Z) : Z :=
  nth (Z.to_nat (v - 1)) (nth (level_index l) t []) 0.

(* alignment patterns per side: 0 for version 1, else v/7 + 2 (Annex E) *)
Definition align_count (v : Z) : Z := if v =? 1 then 0 else v / 7 + 2.

(* modules available for data and error correction: the square minus finder patterns
   with separators (3*64), timing (2*(size-16)), the dark module and format
   information (31), alignment patterns (25 each, those on the timing lines overlap
   5 modules of it) and version information (36, v >= 7) *)
Definition raw_modules (v : Z) : Z :=
  let size := spec_size v in
  let a := align_count v in
  size * size - 192 - 2 * (size - 16) - 31
  - (if a =? 0 then 0 else 25 * (a * a - 3) - 10 * (a - 2))
  - (if v >=? 7 then 36 else 0).

Definition total_codewords (v : Z) : Z := raw_modules v / 8.
Definition remainder_bits (v : Z) : Z := raw_modules v mod 8.

(* (ecc per block, blocks in group 1, data codewords per group-1 block, blocks in group 2);
   group-2 blocks carry one data codeword more *)
Record block_layout := { bl_e : Z; bl_n1 : Z; bl_k1 : Z; bl_n2 : Z }.

Definition spec_blocks (v : Z) (l : qlevel) : block_layout :=
  let e := table_at ecc_per_block l v in
  let nb := table_at num_blocks l v in
  let total := total_codewords v in
  let n2 := total mod nb in
  {| bl_e := e; bl_n1 := nb - n2; bl_k1 := total / nb - e; bl_n2 := n2 |}.

Definition spec_data_codewords (v : Z) (l : qlevel) : Z :=
  let b := spec_blocks v l in bl_n1 b * bl_k1 b + bl_n2 b * (bl_k1 b + 1).

(* the library's level numbering, inverse of level_of_Z *)
Definition level_Z (l : qlevel) : Z := Z.of_nat (level_index l).

(* Table 9 in the row format of the library: (version, level, ecc per block, blocks in
   group 1, data codewords per group-1 block, blocks in group 2, data codewords per
   group-2 block; the last is 0 when there is no group 2), versions ascending *)
Definition iso_row (v : Z) (l : qlevel) : Z * Z * Z * Z * Z * Z * Z :=
  let b := spec_blocks v l in
  (v, level_Z l, bl_e b, bl_n1 b, bl_k1 b, bl_n2 b, if bl_n2 b =? 0 then 0 else bl_k1 b + 1).

Definition iso_rows : list (Z * Z * Z * Z * Z * Z * Z) :=
  flat_map (fun v => map (iso_row v) [LvL; LvM; LvQ; LvH]) (sseq 1 40).

(* ---------- alignment pattern centres (Annex E, Table E.1) ---------- *)
Definition alignment_table : list (list Z) :=
  [[]; [6; 18]; [6; 22]; [6; 26]; [6; 30]; [6; 34];
   [6; 22; 38]; [6; 24; 42]; [6; 26; 46]; [6; 28; 50]; [6; 30; 54]; [6; 32; 58]; [6; 34; 62];
   [6; 26; 46; 66]; [6; 26; 48; 70]; [6; 26; 50; 74]; [6; 30; 54; 78]; [6; 30; 56; 82];
   [6; 30; 58; 86]; [6; 34; 62; 90];
   [6; 28; 50; 72; 94]; [6; 26; 50; 74; 98]; [6; 30; 54; 78; 102]; [6; 28; 54; 80; 106];
   [6; 32; 58; 84; 110]; [6; 30; 58; 86; 114]; [6; 34; 62; 90; 118];
   [6; 26; 50; 74; 98; 122]; [6; 30; 54; 78; 102; 126]; [6; 26; 52; 78; 104; 130];
   [6; 30; 56; 82; 108; 134]; [6; 34; 60; 86; 112; 138]; [6; 30; 58; 86; 114; 142];
   [6; 34; 62; 90; 118; 146];
   [6; 30; 54; 78; 102; 126; 150]; [6; 24; 50; 76; 102; 128; 154]; [6; 28; 54; 80; 106; 132; 158];
   [6; 32; 58; 84; 110; 136; 162]; [6; 26; 54; 82; 110; 138; 166]; [6; 30; 58; 86; 114; 142; 170]].

Definition alignment_centres (v : Z) : list Z := nth (Z.to_nat (v - 1)) alignment_table [].

(* ---------- function patterns (7.3) ---------- *)
Definition zabs_max (a b : Z) : Z := Z.max (Z.abs a) (Z.abs b).

(* finder pattern with its separator around centre (cx, cy): Chebyshev distance <= 4;
   dark on rings 0, 1 and 3 *)
Definition finder_at (cx cy x y : Z) : option bool :=
  let d := zabs_max (x - cx) (y - cy) in
  if d <=? 4 then Some (negb ((d =? 2) || (d =? 4))) else None.

(* alignment pattern: 5x5 around (cx, cy) for every pair of centre coordinates of the
   version except the three pairs that would overlap a finder pattern; dark except
   ring 1.  (Centre coordinates are more than 4 apart, so at most one is within
   distance 2 of a given coordinate.) *)
Definition near_centre (cs : list Z) (x : Z) : option Z :=
  find (fun c => Z.abs (x - c) <=? 2) cs.

Definition alignment_at (v x y : Z) : option bool :=
  let cs := alignment_centres v in
  let size := spec_size v in
  match near_centre cs x, near_centre cs y with
  | Some cx, Some cy =>
    if ((cx =? 6) && (cy =? 6)) || ((cx =? 6) && (cy =? size - 7))
       || ((cx =? size - 7) && (cy =? 6)) then None
    else Some (negb (zabs_max (x - cx) (y - cy) =? 1))
  | _, _ => None
  end.

(* the colour the standard prescribes for a fixed-pattern module, None elsewhere *)
Definition fixed_pattern (v x y : Z) : option bool :=
  let size := spec_size v in
  match finder_at 3 3 x y with Some b => Some b | None =>
  match finder_at (size - 4) 3 x y with Some b => Some b | None =>
  match finder_at 3 (size - 4) x y with Some b => Some b | None =>
  match alignment_at v x y with Some b => Some b | None =>
  if (y =? 6) then Some (x mod 2 =? 0)
  else if (x =? 6) then Some (y mod 2 =? 0)
  else if (x =? 8) && (y =? size - 8) then Some true      (* dark module (4V+9, 8) *)
  else None
  end end end end.

(* format information areas (including the dark module position) *)
Definition is_format_area (v x y : Z) : bool :=
  let size := spec_size v in
  ((y =? 8) && ((x <=? 8) || (size - 8 <=? x)))
  || ((x =? 8) && ((y <=? 8) || (size - 8 <=? y))).

(* version information areas: 6x3 blocks, versions 7..40 *)
Definition is_version_area (v x y : Z) : bool :=
  let size := spec_size v in
  (7 <=? v)
  && (((y <? 6) && (size - 11 <=? x) && (x <=? size - 9))
      || ((x <? 6) && (size - 11 <=? y) && (y <=? size - 9))).

Definition is_function (v x y : Z) : bool :=
  match fixed_pattern v x y with
  | Some _ => true
  | None => is_format_area v x y || is_version_area v x y
  end.

(* ---------- format information (7.9) ---------- *)
(* remainder of data * x^10 modulo G(x) = x^10+x^8+x^5+x^4+x^2+x+1 (10100110111) *)
Fixpoint bch_rem (steps : nat) (top gen rem : Z) : Z :=
  match steps with
  | O => rem
  | S k =>
    let r2 := 2 * rem in
    bch_rem k top gen (if r2 >=? top then Z.lxor r2 gen else r2)
  end.

Definition format_word_raw (data5 : Z) : Z := data5 * 1024 + bch_rem 10 1024 1335 data5.

(* XOR mask 101010000010010 *)
Definition format_word (l : qlevel) (mask : Z) : Z :=
  Z.lxor (format_word_raw (level_bits l * 8 + mask)) 21522.

(* module of format bit i (bit 14 = most significant), Figure 25: first copy around
   the top-left finder, second copy split between bottom-left and top-right *)
Definition format_coord1 (i : Z) : Z * Z :=
  if i <=? 5 then (8, i) else if i =? 6 then (8, 7) else if i =? 7 then (8, 8)
  else if i =? 8 then (7, 8) else (14 - i, 8).

Definition format_coord2 (size i : Z) : Z * Z :=
  if i <=? 7 then (size - 1 - i, 8) else (8, size - 15 + i).

Definition msb_indices (n : nat) : list Z := map (fun i => Z.of_nat n - 1 - i) (sseq 0 n).

(* the n low bits of w, most significant first *)
Definition word_bits (n : nat) (w : Z) : list bool := map (Z.testbit w) (msb_indices n).

Definition format_coords1 : list (Z * Z) := map format_coord1 (msb_indices 15).
Definition format_coords2 (size : Z) : list (Z * Z) := map (format_coord2 size) (msb_indices 15).

(* a 15-bit word is a valid format word iff, with the XOR mask removed, its low
   10 bits are the BCH remainder of its high 5 bits *)
Definition decode_format (w : Z) : option (qlevel * Z) :=
  let d := Z.lxor w 21522 in
  let data5 := d / 1024 in
  if format_word_raw data5 =? d then
    match level_of_bits (data5 / 8) with
    | Some l => Some (l, data5 mod 8)
    | None => None
    end
  else None.

(* ---------- version information (7.10) ---------- *)
(* Golay(18,6): remainder of v * x^12 modulo x^12+x^11+x^10+x^9+x^8+x^5+x^2+1 (1111100100101) *)
Definition version_word (v : Z) : Z := v * 4096 + bch_rem 12 4096 7973 v.

(* bit i (bit 0 = least significant) sits at (size-11 + i mod 3, i / 3) and transposed *)
Definition version_coord1 (size i : Z) : Z * Z := (size - 11 + i mod 3, i / 3).
Definition version_coord2 (size i : Z) : Z * Z := (i / 3, size - 11 + i mod 3).
Definition version_coords1 (size : Z) : list (Z * Z) := map (version_coord1 size) (msb_indices 18).
Definition version_coords2 (size : Z) : list (Z * Z) := map (version_coord2 size) (msb_indices 18).

(* ---------- data masks (Table 10): i = row = y, j = column = x ---------- *)
Definition spec_mask (mask x y : Z) : bool :=
  let i := y in let j := x in
  if mask =? 0 then (i + j) mod 2 =? 0
  else if mask =? 1 then i mod 2 =? 0
  else if mask =? 2 then j mod 3 =? 0
  else if mask =? 3 then (i + j) mod 3 =? 0
  else if mask =? 4 then (i / 2 + j / 3) mod 2 =? 0
  else if mask =? 5 then (i * j) mod 2 + (i * j) mod 3 =? 0
  else if mask =? 6 then ((i * j) mod 2 + (i * j) mod 3) mod 2 =? 0
  else ((i + j) mod 2 + (i * j) mod 3) mod 2 =? 0.

(* ---------- module placement (7.7.3), column-pair formulation ---------- *)
(* two-module wide columns from the right edge leftwards, skipping the vertical
   timing column 6; alternately upwards and downwards, in each row the right
   module first; function modules are skipped *)
Definition column_rights (size : Z) : list Z :=
  map (fun k => let r := size - 1 - 2 * k in if r <=? 6 then r - 1 else r)
      (sseq 0 (Z.to_nat ((size - 1) / 2))).

Definition column_cells (size right : Z) : list (Z * Z) :=
  let upward := Z.land (right + 1) 2 =? 0 in
  flat_map (fun vert =>
    let y := if upward then size - 1 - vert else vert in
    [(right, y); (right - 1, y)]) (sseq 0 (Z.to_nat size)).

Definition spec_order (v : Z) : list (Z * Z) :=
  let size := spec_size v in
  filter (fun p => negb (is_function v (fst p) (snd p)))
         (flat_map (column_cells size) (column_rights size)).

(* ---------- reading ---------- *)
Definition pixels := Z -> Z -> bool.

Definition read_at (px : pixels) (coords : list (Z * Z)) : list bool :=
  map (fun p => px (fst p) (snd p)) coords.

Definition read_format (px : pixels) (size : Z) : option (qlevel * Z) :=
  let w1 := bits_to_Z (read_at px format_coords1) in
  let w2 := bits_to_Z (read_at px (format_coords2 size)) in
  if w1 =? w2 then decode_format w1 else None.

Definition version_info_ok (px : pixels) (v size : Z) : bool :=
  if v <? 7 then true else
  (bits_to_Z (read_at px (version_coords1 size)) =? version_word v)
  && (bits_to_Z (read_at px (version_coords2 size)) =? version_word v).

Definition unmask (px : pixels) (mask : Z) (coords : list (Z * Z)) : list bool :=
  map (fun p => xorb (px (fst p) (snd p)) (spec_mask mask (fst p) (snd p))) coords.

(* groups of 8 bits, most significant first; an incomplete last group is dropped *)
Fixpoint codewords_of (l : list bool) : list Z :=
  match l with
  | b7 :: b6 :: b5 :: b4 :: b3 :: b2 :: b1 :: b0 :: rest =>
    bits_to_Z [b7; b6; b5; b4; b3; b2; b1; b0] :: codewords_of rest
  | _ => []
  end.

(* ---------- de-interleaving (7.6) ---------- *)
Fixpoint stream_rows (k N : nat) (l : list Z) : list (list Z) :=
  match k with
  | O => []
  | S k' => firstn N l :: stream_rows k' N (skipn N l)
  end.

Fixpoint zip_cons (row : list Z) (cols : list (list Z)) : list (list Z) :=
  match row, cols with
  | x :: r, c :: cs => (x :: c) :: zip_cons r cs
  | _, _ => []
  end.

Fixpoint transpose (N : nat) (rows : list (list Z)) : list (list Z) :=
  match rows with
  | [] => repeat [] N
  | r :: rs => zip_cons r (transpose N rs)
  end.

Fixpoint append_each (bl : list (list Z)) (xs : list Z) : list (list Z) :=
  match bl, xs with
  | b :: bl', x :: xs' => (b ++ [x]) :: append_each bl' xs'
  | _, _ => []
  end.

(* codeword stream -> blocks (data, ecc): k1 rounds deal one data codeword to every
   block, one more round deals to the group-2 blocks only, then e rounds of ecc *)
Definition deinterleave (b : block_layout) (cw : list Z) : list (list Z * list Z) :=
  let N := Z.to_nat (bl_n1 b + bl_n2 b) in
  let k1 := Z.to_nat (bl_k1 b) in
  let n1 := Z.to_nat (bl_n1 b) in
  let n2 := Z.to_nat (bl_n2 b) in
  let short := transpose N (stream_rows k1 N cw) in
  let rest1 := skipn (k1 * N) cw in
  let extras := firstn n2 rest1 in
  let rest2 := skipn n2 rest1 in
  let eccs := transpose N (stream_rows (Z.to_nat (bl_e b)) N rest2) in
  combine (firstn n1 short ++ append_each (skipn n1 short) extras) eccs.

(* ---------- Reed-Solomon check (7.5.2, Annex A): GF(2^8), 100011101, roots alpha^0.. ---------- *)
Definition spec_field : gfield := gf_new 285 256 0.

Definition block_ok (e : Z) (blk : list Z * list Z) : bool :=
  forallb (fun i => poly_eval spec_field (fst blk ++ snd blk) (tget (gf_alog spec_field) i) =? 0)
          (sseq 0 (Z.to_nat e)).

(* ---------- data segments (7.4) ---------- *)
Inductive smode := SNumeric | SAlnum | SByte.

(* character count indicator lengths, Table 3 *)
Definition spec_ccb (m : smode) (v : Z) : Z :=
  match m with
  | SNumeric => if v <=? 9 then 10 else if v <=? 26 then 12 else 14
  | SAlnum => if v <=? 9 then 9 else if v <=? 26 then 11 else 13
  | SByte => if v <=? 9 then 8 else 16
  end.

(* the alphanumeric character set, Table 5, value = position *)
(* 0-9 (48..57), A-Z (65..90), space, $ % * + - . / :   as ISO 646 codes *)
Definition iso_alnum : list Z :=
  [48; 49; 50; 51; 52; 53; 54; 55; 56; 57;
   65; 66; 67; 68; 69; 70; 71; 72; 73; 74; 75; 76; 77; 78; 79; 80; 81; 82; 83; 84; 85; 86; 87; 88; 89; 90;
   32; 36; 37; 42; 43; 45; 46; 47; 58].

Definition alnum_char (v : Z) : Z := nth (Z.to_nat v) iso_alnum 0.

Fixpoint take_bits (n : nat) (l : list bool) : option (list bool * list bool) :=
  match n with
  | O => Some ([], l)
  | S k =>
    match l with
    | [] => None
    | b :: t =>
      match take_bits k t with
      | Some (h, r) => Some (b :: h, r)
      | None => None
      end
    end
  end.

Definition read_int (n : nat) (l : list bool) : option (Z * list bool) :=
  match take_bits n l with
  | Some (h, r) => Some (bits_to_Z h, r)
  | None => None
  end.

Definition digit (d : Z) : Z := 48 + d.

(* 3 digits in 10 bits, a final group of 2 in 7 bits or of 1 in 4 bits *)
Fixpoint parse_numeric (cnt : nat) (l : list bool) : option (list Z * list bool) :=
  match cnt with
  | O => Some ([], l)
  | S O =>
    match read_int 4 l with
    | Some (v, r) => if v <? 10 then Some ([digit v], r) else None
    | None => None
    end
  | S (S O) =>
    match read_int 7 l with
    | Some (v, r) => if v <? 100 then Some ([digit (v / 10); digit (v mod 10)], r) else None
    | None => None
    end
  | S (S (S c)) =>
    match read_int 10 l with
    | Some (v, r) =>
      if v <? 1000 then
        match parse_numeric c r with
        | Some (ds, r') => Some (digit (v / 100) :: digit (v / 10 mod 10) :: digit (v mod 10) :: ds, r')
        | None => None
        end
      else None
    | None => None
    end
  end.

(* 2 characters in 11 bits (45*c1 + c2), a final single character in 6 bits *)
Fixpoint parse_alnum (cnt : nat) (l : list bool) : option (list Z * list bool) :=
  match cnt with
  | O => Some ([], l)
  | S O =>
    match read_int 6 l with
    | Some (v, r) => if v <? 45 then Some ([alnum_char v], r) else None
    | None => None
    end
  | S (S c) =>
    match read_int 11 l with
    | Some (v, r) =>
      if v <? 2025 then
        match parse_alnum c r with
        | Some (cs, r') => Some (alnum_char (v / 45) :: alnum_char (v mod 45) :: cs, r')
        | None => None
        end
      else None
    | None => None
    end
  end.

Fixpoint parse_bytes (cnt : nat) (l : list bool) : option (list Z * list bool) :=
  match cnt with
  | O => Some ([], l)
  | S c =>
    match read_int 8 l with
    | Some (v, r) =>
      match parse_bytes c r with
      | Some (bs, r') => Some (v :: bs, r')
      | None => None
      end
    | None => None
    end
  end.

(* a sequence of segments ended by the terminator 0000 or by the end of the data
   (fewer than 4 bits left); returns the bytes and the bits after the terminator *)
Fixpoint parse_segments (fuel : nat) (v : Z) (l : list bool) : option (list Z * list bool) :=
  match fuel with
  | O => None
  | S f =>
    match l with
    | m3 :: m2 :: m1 :: m0 :: rest =>
      let mode := bits_to_Z [m3; m2; m1; m0] in
      let seg (m : smode) (parse : nat -> list bool -> option (list Z * list bool)) :=
        match read_int (Z.to_nat (spec_ccb m v)) rest with
        | Some (cnt, r1) =>
          match parse (Z.to_nat cnt) r1 with
          | Some (cs, r2) =>
            match parse_segments f v r2 with
            | Some (more, r3) => Some (cs ++ more, r3)
            | None => None
            end
          | None => None
          end
        | None => None
        end in
      if mode =? 0 then Some ([], rest)
      else if mode =? 1 then seg SNumeric parse_numeric
      else if mode =? 2 then seg SAlnum parse_alnum
      else if mode =? 4 then seg SByte parse_bytes
      else None
    | _ => Some ([], l)
    end
  end.

(* after the terminator: zero bits up to the codeword boundary, then the pad
   codewords 11101100 and 00010001 alternately (7.4.9, 7.4.10).  The whole stream
   is a whole number of codewords, so the distance to the boundary is the length
   of the rest modulo 8. *)
Fixpoint pad_codewords_ok (l : list Z) (first : bool) : bool :=
  match l with
  | [] => true
  | c :: t => (c =? (if first then 236 else 17)) && pad_codewords_ok t (negb first)
  end.

Definition padding_ok (rest : list bool) : bool :=
  let z := (length rest mod 8)%nat in
  forallb negb (firstn z rest) && pad_codewords_ok (codewords_of (skipn z rest)) true.

(* ---------- the reader ---------- *)
Record qr_reading := {
  rd_version : Z;
  rd_level : qlevel;
  rd_mask : Z;
  rd_blocks : list (list Z * list Z);   (* (data, ecc) per block *)
  rd_content : list Z;                   (* decoded bytes *)
  rd_padding_ok : bool;                  (* terminator / padding bits / pad codewords conform *)
  rd_remainder_ok : bool                 (* remainder bits are zero *)
}.

Definition bits_of_codewords (l : list Z) : list bool :=
  flat_map (fun c => map (fun i => Z.testbit c i) [7; 6; 5; 4; 3; 2; 1; 0]) l.

Definition qr_read (px : pixels) (size : Z) : option qr_reading :=
  match version_of_size size with
  | None => None
  | Some v =>
    match read_format px size with
    | None => None
    | Some (lvl, mask) =>
      if version_info_ok px v size then
        let bits := unmask px mask (spec_order v) in
        let ncw := Z.to_nat (total_codewords v) in
        let cw := firstn ncw (codewords_of bits) in
        let remainder := skipn (8 * ncw) bits in
        let layout := spec_blocks v lvl in
        let blocks := deinterleave layout cw in
        if (length cw =? ncw)%nat && forallb (block_ok (bl_e layout)) blocks then
          let data := bits_of_codewords (flat_map fst blocks) in
          match parse_segments (S (length data)) v data with
          | Some (content, rest) =>
            Some {| rd_version := v; rd_level := lvl; rd_mask := mask; rd_blocks := blocks;
                    rd_content := content; rd_padding_ok := padding_ok rest;
                    rd_remainder_ok := forallb negb remainder |}
          | None => None
          end
        else None
      else None
    end
  end.

(* all fixed patterns have the prescribed colour *)
Definition patterns_ok (px : pixels) (v : Z) : bool :=
  let size := spec_size v in
  let idx := sseq 0 (Z.to_nat size) in
  forallb (fun y => forallb (fun x =>
    match fixed_pattern v x y with
    | Some b => Bool.eqb (px x y) b
    | None => true
    end) idx) idx.

Definition qr_decode (px : pixels) (size : Z) : option (list Z) :=
  match qr_read px size with
  | Some r => Some (rd_content r)
  | None => None
  end.

(* structurally valid symbol: readable, fixed patterns in place, remainder bits
   zero, terminator and padding conformant *)
Definition qr_valid (px : pixels) (size : Z) : bool :=
  match qr_read px size with
  | Some r => patterns_ok px (rd_version r) && rd_padding_ok r && rd_remainder_ok r
  | None => false
  end.

(* ---------- a symbol given as rows of modules, as a reader sees the image ---------- *)
Definition px_of_rows (rows : list (list bool)) : pixels :=
  fun x y => nth (Z.to_nat x) (nth (Z.to_nat y) rows []) false.

Definition rows_square (rows : list (list bool)) : bool :=
  forallb (fun r => (length r =? length rows)%nat) rows.

Definition qr_read_rows (rows : list (list bool)) : option qr_reading :=
  if rows_square rows then qr_read (px_of_rows rows) (zlength rows) else None.

Definition qr_decode_rows (rows : list (list bool)) : option (list Z) :=
  if rows_square rows then qr_decode (px_of_rows rows) (zlength rows) else None.

Definition qr_valid_rows (rows : list (list bool)) : bool :=
  rows_square rows && qr_valid (px_of_rows rows) (zlength rows).

(* ---------- capacity (Tables 7-11 follow from these) ---------- *)
(* length in bits of the data of n characters *)
Definition spec_data_bits (m : smode) (n : Z) : Z :=
  match m with
  | SNumeric => 10 * (n / 3) + (if n mod 3 =? 0 then 0 else if n mod 3 =? 1 then 4 else 7)
  | SAlnum => 11 * (n / 2) + 6 * (n mod 2)
  | SByte => 8 * n
  end.

(* one segment of n characters fits version v at level l: mode indicator + count +
   data within the data codewords (the terminator may be shortened or omitted) *)
Definition spec_fits (m : smode) (l : qlevel) (n v : Z) : bool :=
  4 + spec_ccb m v + spec_data_bits m n <=? 8 * spec_data_codewords v l.

Definition spec_fits_some (m : smode) (l : qlevel) (n : Z) : bool :=
  existsb (spec_fits m l n) (sseq 1 40).

(* the alphabet of each mode *)
Definition in_mode_alphabet (m : smode) (content : list Z) : bool :=
  match m with
  | SNumeric => forallb (fun c => (48 <=? c) && (c <=? 57)) content
  | SAlnum => forallb (fun c => existsb (Z.eqb c) iso_alnum) content
  | SByte => true
  end.

(* the number of characters a version holds: largest n that fits (for sanity examples) *)
Definition spec_capacity (m : smode) (l : qlevel) (v : Z) : Z :=
  let avail := 8 * spec_data_codewords v l - 4 - spec_ccb m v in
  match m with
  | SNumeric => 3 * (avail / 10) + (if avail mod 10 >=? 7 then 2 else if avail mod 10 >=? 4 then 1 else 0)
  | SAlnum => 2 * (avail / 11) + (if avail mod 11 >=? 6 then 1 else 0)
  | SByte => avail / 8
  end.

(* ---------- representable contents, smallest version (C10, C13) ---------- *)
(* the library numbers its Encoding constants Auto, Numeric, AlphaNumeric, Unicode = 0..3 *)
Definition mode_representable (m : smode) (l : qlevel) (content : list Z) : bool :=
  in_mode_alphabet m content && spec_fits_some m l (zlength content).

(* representable: the level exists, the content is in the alphabet of the mode and some
   version up to 40 has room for it; Auto: in one of the three modes *)
Definition qr_representable (content : list Z) (level mode : Z) : bool :=
  match level_of_Z level with
  | None => false
  | Some l =>
    if mode =? 1 then mode_representable SNumeric l content
    else if mode =? 2 then mode_representable SAlnum l content
    else if mode =? 3 then mode_representable SByte l content
    else mode_representable SNumeric l content || mode_representable SAlnum l content
         || mode_representable SByte l content
  end.

(* the mode a symbol is expected to use: the requested one; Auto: the densest mode whose
   alphabet contains the content (numeric < alphanumeric < byte) *)
Definition spec_mode_used (mode : Z) (content : list Z) : smode :=
  if mode =? 1 then SNumeric
  else if mode =? 2 then SAlnum
  else if mode =? 3 then SByte
  else if in_mode_alphabet SNumeric content then SNumeric
  else if in_mode_alphabet SAlnum content then SAlnum else SByte.

Definition spec_min_version (m : smode) (l : qlevel) (n : Z) : option Z :=
  find (spec_fits m l n) (sseq 1 40).
