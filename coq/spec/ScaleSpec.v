(* Specification of property C09 "Scale: integer, centred, distortion-free
   enlargement or an error", written from the property text (NOT from
   scaledbarcode.go).  It reuses only the record `source` of ScaleM.v, the abstract
   view of a barcode.Barcode value (what its interfaces expose).

   Contents
     - scale_spec:  the relation between a source symbol, a request
                    (width, height, fill) and the outcome of scaling
     - stages_spec: the same for a chain of repeated scalings
     - chain_geom:  the composed geometry of a chain (product of the factors,
                    accumulated offsets)
     - validate:    an EXECUTABLE validator of scale_spec for a concrete result
                    image (used as oracle on the implementation's pixels; proved
                    sound w.r.t. scale_spec in ScaleP.validate_sound)            *)
From Verif Require Import Prelude ScaleM.

Section ScaleSpecification.
Variable C : Type.
Variable white : C.
Notation source := (source C).
Notation request := (request C).

(* ---------- the symbol ---------- *)
Definition sym_w (s : source) : Z := s_x1 s - s_x0 s.
Definition sym_h (s : source) : Z := s_y1 s - s_y0 s.

(* module (i,j) of the symbol, 0 <= i < sym_w, 0 <= j < sym_h; for a 1-D symbol
   module i is the bar (i,0) *)
Definition module (s : source) (i j : Z) : C := s_px s (s_x0 s + i) (s_y0 s + j).

(* ---------- domain ---------- *)
Definition two31 : Z := 4611686018427387904.  (* 2^62: see the guard below; the name is historical *)

(* every encoder of /repo and every scaled barcode has Bounds().Min = (0,0) *)
Definition origin_anchored (s : source) : Prop := s_x0 s = 0 /\ s_y0 s = 0.

(* a non-empty symbol whose extents fit comfortably into Go's 64-bit int: below 2^62 no intermediate value of
   the (integer) arithmetic of scaledbarcode.go can overflow: orgWidth*factor <= width, x-offset < width *)
Definition source_ok (s : source) : Prop :=
  origin_anchored s /\ 1 <= sym_w s < two31 /\ 1 <= sym_h s < two31.

Definition size_ok (width height : Z) : Prop :=
  1 <= width < two31 /\ 1 <= height < two31.

Definition request_ok (r : request) : Prop := size_ok (fst (fst r)) (snd (fst r)).

(* ---------- "an error exactly when the request is smaller than the symbol in a
   dimension that is scaled (width for 1D; width or height for 2D)" ---------- *)
Definition too_small (s : source) (width height : Z) : Prop :=
  width < sym_w s \/ (s_dims s = 2 /\ height < sym_h s).

(* ---------- "f being the largest integer factor that fits" ---------- *)
Definition fits (s : source) (width height g : Z) : Prop :=
  g * sym_w s <= width /\ (s_dims s = 2 -> g * sym_h s <= height).

Definition largest_fitting (s : source) (width height f : Z) : Prop :=
  1 <= f /\ fits s width height f /\ forall g, fits s width height g -> g <= f.

(* ---------- "the block grid is centred to within one pixel": `used` pixels placed
   at offset `off` inside `total`: inside the image, and the margins before and
   after differ by at most one ---------- *)
Definition centred (total used off : Z) : Prop :=
  0 <= off /\ off + used <= total /\ -1 <= (total - used - off) - off <= 1.

(* pixel column/row x lies in the block of module index i *)
Definition in_block (off f i x : Z) : Prop := off + i * f <= x < off + (i + 1) * f.

(* ---------- "every source module appears as one f-by-f block of that module's
   colour (1D: f wide over the full height) ... and all remaining pixels have the
   fill colour" ---------- *)
Record image_spec (s : source) (width height : Z) (fill : C) (t : source)
                  (f ox oy : Z) : Prop := {
  img_blocks2 : s_dims s = 2 -> forall i j x y,
      0 <= i < sym_w s -> 0 <= j < sym_h s ->
      in_block ox f i x -> in_block oy f j y ->
      s_px t x y = module s i j;
  img_blocks1 : s_dims s = 1 -> forall i x y,
      0 <= i < sym_w s -> in_block ox f i x -> 0 <= y < height ->
      s_px t x y = module s i 0;
  img_rest2 : s_dims s = 2 -> forall x y,
      0 <= x < width -> 0 <= y < height ->
      (forall i j, 0 <= i < sym_w s -> 0 <= j < sym_h s ->
                   ~ (in_block ox f i x /\ in_block oy f j y)) ->
      s_px t x y = fill;
  img_rest1 : s_dims s = 1 -> forall x y,
      0 <= x < width -> 0 <= y < height ->
      (forall i, 0 <= i < sym_w s -> ~ in_block ox f i x) ->
      s_px t x y = fill
}.

(* "Content, Metadata and CheckSum of the result equal those of the source" *)
Definition same_accessors (s t : source) : Prop :=
  s_content t = s_content s /\ s_kind t = s_kind s /\ s_dims t = s_dims s /\
  s_checksum t = s_checksum s.

Definition bounds_are (t : source) (width height : Z) : Prop :=
  s_x0 t = 0 /\ s_y0 t = 0 /\ s_x1 t = width /\ s_y1 t = height.

(* the result of scaling s to width x height with fill colour `fill`.
   (Dimensions other than 1 and 2 are outside the property text: an error.) *)
Definition scale_spec (s : source) (width height : Z) (fill : C) (r : outcome source) : Prop :=
  match r with
  | Err => (s_dims s <> 1 /\ s_dims s <> 2) \/ too_small s width height
  | Ok t =>
      (s_dims s = 1 \/ s_dims s = 2) /\ ~ too_small s width height /\
      bounds_are t width height /\
      same_accessors s t /\
      exists f ox oy,
        largest_fitting s width height f /\
        centred width (f * sym_w s) ox /\
        (s_dims s = 2 -> centred height (f * sym_h s) oy) /\
        (s_dims s = 1 -> oy = 0) /\
        image_spec s width height fill t f ox oy
  | Panic | OutOfFuel => False
  end.

(* "the given one; by default the barcode's background, or white if it exposes no
   colour scheme" *)
Definition resolve_fill (s : source) (f : option C) : C :=
  match f with
  | Some c => c
  | None => match s_scheme s with Some (_, bg) => bg | None => white end
  end.

(* ---------- chains of repeated scaling: every stage is a scaling of the previous
   stage's result; the chain stops at the first error ---------- *)
Fixpoint stages_spec (s : source) (rs : list request) (stages : list (outcome source)) : Prop :=
  match rs, stages with
  | [], [] => True
  | (width, height, f) :: t, o :: ot =>
      scale_spec s width height (resolve_fill s f) o /\
      match o with
      | Ok s1 => stages_spec s1 t ot
      | _ => ot = []
      end
  | _, _ => False
  end.

(* ---------- composed geometry of a successful chain ---------- *)
(* largest fitting factor and centring offsets as closed formulas (justified by
   ScaleP.stage_factor_largest / stage_offset_centred) *)
Definition stage_factor (dims w h width height : Z) : Z :=
  if dims =? 2 then Z.min (width / w) (height / h) else width / w.

Definition stage_offset (total used : Z) : Z := (total - used) / 2.

(* the geometry of one scaling of s to width x height *)
Definition geom_f (s : source) (width height : Z) : Z :=
  stage_factor (s_dims s) (sym_w s) (sym_h s) width height.
Definition geom_ox (s : source) (width height : Z) : Z :=
  stage_offset width (geom_f s width height * sym_w s).
Definition geom_oy (s : source) (width height : Z) : Z :=
  if s_dims s =? 2 then stage_offset height (geom_f s width height * sym_h s) else 0.

(* (F, OX, OY): the original modules are F-by-F blocks at offset (OX, OY) of the
   final image.  For 1-D symbols OY stays 0 (bars span the full height). *)
Fixpoint chain_geom (dims w h : Z) (rs : list request) : Z * Z * Z :=
  match rs with
  | [] => (1, 0, 0)
  | (width, height, _) :: t =>
    let f := stage_factor dims w h width height in
    let ox := stage_offset width (f * w) in
    let oy := if dims =? 2 then stage_offset height (f * h) else 0 in
    let '(F, OX, OY) := chain_geom dims width height t in
    (f * F, OX + ox * F, OY + oy * F)
  end.

Fixpoint chain_size (w h : Z) (rs : list request) : Z * Z :=
  match rs with
  | [] => (w, h)
  | (width, height, _) :: t => chain_size width height t
  end.

(* the fill colours of the stages: the first stage's default is the source's
   background (or white), a scaled barcode exposes no colour scheme: white *)
Definition chain_fills (s : source) (rs : list request) : list C :=
  match rs with
  | [] => []
  | (_, _, f) :: t =>
    resolve_fill s f :: map (fun r : request => match snd r with Some c => c | None => white end) t
  end.

(* which row of a 1-D source a row y of the final image shows: an unscaled source
   is shown as it is; every scaling of a 1-D code draws row 0 over the full height *)
Definition src_row (rs : list request) (y : Z) : Z :=
  match rs with [] => y | _ :: _ => 0 end.

(* the final image t of a chain over s *)
Definition enlargement_spec (s : source) (rs : list request) (t : source) : Prop :=
  let '(F, OX, OY) := chain_geom (s_dims s) (sym_w s) (sym_h s) rs in
  let '(W, H) := chain_size (sym_w s) (sym_h s) rs in
  bounds_are t W H /\ same_accessors s t /\
  1 <= F /\ 0 <= OX /\ OX + F * sym_w s <= W /\
  (s_dims s = 2 ->
     0 <= OY /\ OY + F * sym_h s <= H /\
     (forall i j x y, 0 <= i < sym_w s -> 0 <= j < sym_h s ->
        in_block OX F i x -> in_block OY F j y -> s_px t x y = module s i j) /\
     (forall x y, 0 <= x < W -> 0 <= y < H ->
        ~ (OX <= x < OX + F * sym_w s /\ OY <= y < OY + F * sym_h s) ->
        In (s_px t x y) (chain_fills s rs))) /\
  (s_dims s = 1 ->
     (forall i x y, 0 <= i < sym_w s -> in_block OX F i x -> 0 <= y < H ->
        s_px t x y = module s i (src_row rs y)) /\
     (forall x y, 0 <= x < W -> 0 <= y < H ->
        ~ (OX <= x < OX + F * sym_w s) ->
        In (s_px t x y) (chain_fills s rs))).

(* ================= executable validator ================= *)
Variable ceqb : C -> C -> bool.    (* colour equality test supplied by the caller *)

Fixpoint zrange_from (start : Z) (n : nat) : list Z :=
  match n with
  | O => []
  | S m => start :: zrange_from (start + 1) m
  end.
Definition zrange (n : Z) : list Z := zrange_from 0 (Z.to_nat n).

Fixpoint zlist_eqb (a b : list Z) : bool :=
  match a, b with
  | [], [] => true
  | x :: a', y :: b' => (x =? y) && zlist_eqb a' b'
  | _, _ => false
  end.

Definition optz_eqb (a b : option Z) : bool :=
  match a, b with
  | None, None => true
  | Some x, Some y => x =? y
  | _, _ => false
  end.

Definition too_small_b (s : source) (width height : Z) : bool :=
  (width <? sym_w s) || ((s_dims s =? 2) && (height <? sym_h s)).

Definition centred_b (total used off : Z) : bool :=
  (0 <=? off) && (off + used <=? total) &&
  (-1 <=? (total - used - off) - off) && ((total - used - off) - off <=? 1).

(* f fits, f+1 does not, the offsets are centred *)
Definition geom_check (s : source) (width height f ox oy : Z) : bool :=
  (1 <=? f) && (f * sym_w s <=? width) &&
  (if s_dims s =? 2 then f * sym_h s <=? height else true) &&
  ((width <? (f + 1) * sym_w s) ||
   (if s_dims s =? 2 then height <? (f + 1) * sym_h s else false)) &&
  centred_b width (f * sym_w s) ox &&
  (if s_dims s =? 2 then centred_b height (f * sym_h s) oy else oy =? 0).

(* the colour the property prescribes for pixel (x,y), given the geometry *)
Definition expected_pixel (s : source) (fill : C) (f ox oy x y : Z) : C :=
  if s_dims s =? 2 then
    if (ox <=? x) && (x <? ox + f * sym_w s) && (oy <=? y) && (y <? oy + f * sym_h s)
    then module s ((x - ox) / f) ((y - oy) / f) else fill
  else
    if (ox <=? x) && (x <? ox + f * sym_w s)
    then module s ((x - ox) / f) 0 else fill.

Definition check_pixels (s : source) (width height : Z) (fill : C) (t : source)
                        (f ox oy : Z) : bool :=
  forallb (fun y =>
    forallb (fun x => ceqb (s_px t x y) (expected_pixel s fill f ox oy x y)) (zrange width))
    (zrange height).

Definition accessors_b (s t : source) : bool :=
  zlist_eqb (s_content t) (s_content s) && zlist_eqb (s_kind t) (s_kind s) &&
  (s_dims t =? s_dims s) && optz_eqb (s_checksum t) (s_checksum s).

Definition bounds_b (t : source) (width height : Z) : bool :=
  (s_x0 t =? 0) && (s_y0 t =? 0) && (s_x1 t =? width) && (s_y1 t =? height).

(* everything of scale_spec except the pixels (used alone for huge images, where
   only sampled pixels are compared with expected_pixel) *)
Definition validate_header (s : source) (width height : Z) (r : outcome source)
                           (f ox oy : Z) : bool :=
  match r with
  | Err => (negb (s_dims s =? 1) && negb (s_dims s =? 2)) || too_small_b s width height
  | Ok t =>
      ((s_dims s =? 1) || (s_dims s =? 2)) && negb (too_small_b s width height) &&
      bounds_b t width height && accessors_b s t && geom_check s width height f ox oy
  | _ => false
  end.

(* validator of scale_spec with the witnesses f, ox, oy supplied (untrusted) *)
Definition validate (s : source) (width height : Z) (fill : C) (r : outcome source)
                    (f ox oy : Z) : bool :=
  validate_header s width height r f ox oy &&
  match r with
  | Ok t => check_pixels s width height fill t f ox oy
  | _ => true
  end.

End ScaleSpecification.

Arguments sym_w {C} _.
Arguments sym_h {C} _.
Arguments module {C} _ _ _.
Arguments origin_anchored {C} _.
Arguments source_ok {C} _.
Arguments request_ok {C} _.
Arguments too_small {C} _ _ _.
Arguments fits {C} _ _ _ _.
Arguments largest_fitting {C} _ _ _ _.
Arguments image_spec {C} _ _ _ _ _ _ _ _.
Arguments same_accessors {C} _ _.
Arguments bounds_are {C} _ _ _.
Arguments scale_spec {C} _ _ _ _ _.
Arguments resolve_fill {C} _ _ _.
Arguments stages_spec {C} _ _ _ _.
Arguments geom_f {C} _ _ _.
Arguments geom_ox {C} _ _ _.
Arguments geom_oy {C} _ _ _.
Arguments chain_geom {C} _ _ _ _.
Arguments chain_size {C} _ _ _.
Arguments chain_fills {C} _ _ _.
Arguments src_row {C} _ _.
Arguments enlargement_spec {C} _ _ _ _.
Arguments too_small_b {C} _ _ _.
Arguments geom_check {C} _ _ _ _ _ _.
Arguments expected_pixel {C} _ _ _ _ _ _ _.
Arguments check_pixels {C} _ _ _ _ _ _ _ _ _.
Arguments accessors_b {C} _ _.
Arguments bounds_b {C} _ _ _.
Arguments validate_header {C} _ _ _ _ _ _ _.
Arguments validate {C} _ _ _ _ _ _ _ _ _.
