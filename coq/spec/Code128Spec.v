(* Specification of Code 128 written from ISO/IEC 15417, independent of the
   encoder in /repo/code128: the bar/space width table of the 107 symbol
   characters, the meaning of every symbol value in code sets A, B and C, and a
   reference decoder from a module row to a rune list.  No proofs here. *)
From Verif Require Import Prelude.

(* ---------- Table 1: bar/space widths (B S B S B S, stop: B S B S B S B) ---------- *)
Definition c128_spec_widths : list Z :=
  [ 212222; 222122; 222221; 121223; 121322; 131222; 122213; 122312; 132212; 221213;
    221312; 231212; 112232; 122132; 122231; 113222; 123122; 123221; 223211; 221132;
    221231; 213212; 223112; 312131; 311222; 321122; 321221; 312212; 322112; 322211;
    212123; 212321; 232121; 111323; 131123; 131321; 112313; 132113; 132311; 211313;
    231113; 231311; 112133; 112331; 132131; 113123; 113321; 133121; 313121; 211331;
    231131; 213113; 213311; 213131; 311123; 311321; 331121; 312113; 312311; 332111;
    314111; 221411; 431111; 111224; 111422; 121124; 121421; 141122; 141221; 112214;
    112412; 122114; 122411; 142112; 142211; 241211; 221114; 413111; 241112; 134111;
    111242; 121142; 121241; 114212; 124112; 124211; 411212; 421112; 421211; 212141;
    214121; 412121; 111143; 111341; 131141; 114113; 114311; 411113; 411311; 113141;
    114131; 311141; 411131;
    211412;    (* 103 Start A *)
    211214;    (* 104 Start B *)
    211232;    (* 105 Start C *)
    2331112 ]. (* 106 Stop *)

(* decimal digits of a width word, most significant first (at most 8 digits) *)
Fixpoint c128_digits_aux (fuel : nat) (n : Z) (acc : list Z) : list Z :=
  match fuel with
  | O => acc
  | S f => if n <=? 0 then acc else c128_digits_aux f (n / 10) (n mod 10 :: acc)
  end.
Definition c128_digits (n : Z) : list Z := c128_digits_aux 8 n [].

(* widths -> modules, starting with a bar (true), alternating *)
Fixpoint c128_expand (ws : list Z) (bar : bool) : list bool :=
  match ws with
  | [] => []
  | w :: t => repeat bar (Z.to_nat w) ++ c128_expand t (negb bar)
  end.

Definition c128_spec_pattern_of (w : Z) : list bool := c128_expand (c128_digits w) true.

(* all 107 module patterns, value order *)
Definition c128_spec_patterns : list (list bool) := map c128_spec_pattern_of c128_spec_widths.

(* the 106 symbol characters that can occur before the stop pattern *)
Definition c128_spec_char_patterns : list (list bool) := firstn 106 c128_spec_patterns.
Definition c128_spec_stop_pattern : list bool := nth 106 c128_spec_patterns [].

(* ---------- code sets ---------- *)
Inductive c128_set := SetA | SetB | SetC.

(* the FNC placeholders in the decoder's output *)
Definition spec_FNC1 : Z := 241.  (* U+00F1 *)
Definition spec_FNC2 : Z := 242.  (* U+00F2 *)
Definition spec_FNC3 : Z := 243.  (* U+00F3 *)
Definition spec_FNC4 : Z := 244.  (* U+00F4 *)

Inductive c128_meaning :=
| MData (rs : list Z)       (* data characters / FNC placeholder *)
| MShift                    (* next symbol character is read in the other of A/B *)
| MCode (s : c128_set)      (* latch to code set s *)
| MNone.                    (* start/stop value or out of range: not allowed as data *)

Definition c128_meaning_A (v : Z) : c128_meaning :=
  if v <? 0 then MNone
  else if v <=? 63 then MData [v + 32]      (* space .. _ *)
  else if v <=? 95 then MData [v - 64]      (* NUL .. US *)
  else if v =? 96 then MData [spec_FNC3]
  else if v =? 97 then MData [spec_FNC2]
  else if v =? 98 then MShift
  else if v =? 99 then MCode SetC
  else if v =? 100 then MCode SetB
  else if v =? 101 then MData [spec_FNC4]
  else if v =? 102 then MData [spec_FNC1]
  else MNone.

Definition c128_meaning_B (v : Z) : c128_meaning :=
  if v <? 0 then MNone
  else if v <=? 95 then MData [v + 32]      (* space .. DEL *)
  else if v =? 96 then MData [spec_FNC3]
  else if v =? 97 then MData [spec_FNC2]
  else if v =? 98 then MShift
  else if v =? 99 then MCode SetC
  else if v =? 100 then MData [spec_FNC4]
  else if v =? 101 then MCode SetA
  else if v =? 102 then MData [spec_FNC1]
  else MNone.

Definition c128_meaning_C (v : Z) : c128_meaning :=
  if v <? 0 then MNone
  else if v <=? 99 then MData [48 + v / 10; 48 + v mod 10]   (* "00" .. "99" *)
  else if v =? 100 then MCode SetB
  else if v =? 101 then MCode SetA
  else if v =? 102 then MData [spec_FNC1]
  else MNone.

Definition c128_meaning_of (s : c128_set) (v : Z) : c128_meaning :=
  match s with
  | SetA => c128_meaning_A v
  | SetB => c128_meaning_B v
  | SetC => c128_meaning_C v
  end.

Definition c128_shifted (s : c128_set) : c128_set :=
  match s with SetA => SetB | SetB => SetA | SetC => SetC end.

(* interpretation of the data symbol values from code set s; sh = a Shift
   character has just been read *)
Fixpoint c128_interp (s : c128_set) (sh : bool) (vals : list Z) : option (list Z) :=
  match vals with
  | [] => if sh then None else Some []
  | v :: t =>
    match c128_meaning_of (if sh then c128_shifted s else s) v with
    | MData rs =>
      match c128_interp s false t with
      | Some o => Some (rs ++ o)
      | None => None
      end
    | MShift => if sh then None else c128_interp s true t
    | MCode s' => if sh then None else c128_interp s' false t
    | MNone => None
    end
  end.

Definition c128_start_set (v : Z) : option c128_set :=
  if v =? 103 then Some SetA
  else if v =? 104 then Some SetB
  else if v =? 105 then Some SetC
  else None.

(* ---------- modules -> symbol values ---------- *)
Fixpoint c128_bits_eqb (a b : list bool) : bool :=
  match a, b with
  | [], [] => true
  | x :: a', y :: b' => Bool.eqb x y && c128_bits_eqb a' b'
  | _, _ => false
  end.

Fixpoint c128_lookup_from (pats : list (list bool)) (p : list bool) (i : Z) : option Z :=
  match pats with
  | [] => None
  | q :: t => if c128_bits_eqb q p then Some i else c128_lookup_from t p (i + 1)
  end.

(* value 0..105 of an 11-module symbol character *)
Definition c128_spec_lookup (p : list bool) : option Z :=
  c128_lookup_from c128_spec_char_patterns p 0.

(* cut k characters of 11 modules off the front *)
Fixpoint c128_take_chars (k : nat) (bits : list bool) : list (list bool) * list bool :=
  match k with
  | O => ([], bits)
  | S k' =>
    let '(cs, rest) := c128_take_chars k' (skipn 11 bits) in
    (firstn 11 bits :: cs, rest)
  end.

Fixpoint c128_map_opt {A B} (f : A -> option B) (l : list A) : option (list B) :=
  match l with
  | [] => Some []
  | x :: t =>
    match f x, c128_map_opt f t with
    | Some y, Some r => Some (y :: r)
    | _, _ => None
    end
  end.

(* a symbol is k >= 1 characters of 11 modules followed by the 13-module stop
   pattern; result: the values of the k characters (start, data, [check]) *)
Definition c128_spec_values (bits : list bool) : option (list Z) :=
  let n := zlength bits in
  if n <? 24 then None
  else if negb ((n - 13) mod 11 =? 0) then None
  else
    let '(cs, rest) := c128_take_chars (Z.to_nat ((n - 13) / 11)) bits in
    if c128_bits_eqb rest c128_spec_stop_pattern then c128_map_opt c128_spec_lookup cs
    else None.

(* ---------- check character ---------- *)
Fixpoint c128_wsum (i : Z) (vs : list Z) : Z :=
  match vs with
  | [] => 0
  | v :: t => i * v + c128_wsum (i + 1) t
  end.

(* (start value + sum of position * value, positions from 1) mod 103 *)
Definition c128_spec_checksum (vals : list Z) : Z :=
  match vals with
  | [] => 0
  | s :: data => (s + c128_wsum 1 data) mod 103
  end.

(* split off the last value and verify it *)
Definition c128_strip_check (vals : list Z) : option (list Z) :=
  match rev vals with
  | [] => None
  | c :: ri =>
    let init := rev ri in
    if c =? c128_spec_checksum init then Some init else None
  end.

(* ---------- the reference decoder ----------
   check = true : the last character before the stop is the modulo-103 check
   character and must verify; check = false: no check character is present. *)
Definition c128_spec_decode (check : bool) (bits : list bool) : option (list Z) :=
  match c128_spec_values bits with
  | None => None
  | Some vals =>
    match (if check then c128_strip_check vals else Some vals) with
    | None => None
    | Some [] => None
    | Some (s :: data) =>
      match c128_start_set s with
      | None => None
      | Some st => c128_interp st false data
      end
    end
  end.

(* the alphabet of the property: ASCII 0..127 and the four FNC placeholders *)
Definition c128_in_alphabet (r : Z) : bool :=
  ((0 <=? r) && (r <=? 127)) || ((spec_FNC1 <=? r) && (r <=? spec_FNC4)).

(* the characters of code sets A and B by value 0..95 *)
Definition c128_spec_setA_chars : list Z :=
  map (fun v => if v <=? 63 then v + 32 else v - 64) (map Z.of_nat (seq 0 96)).
Definition c128_spec_setB_chars : list Z :=
  map (fun v => v + 32) (map Z.of_nat (seq 0 96)).
