(* Specification of Data Matrix ECC 200 square symbols, written from ISO/IEC
   16022 and NOT from the encoder in /repo/datamatrix:
     - the symbol attribute table (ISO/IEC 16022 Table 7, square symbols),
     - the finder / clock pattern of every data region,
     - the normative module placement algorithm of Annex F (transliterated from
       the standard's C program: module, utah, corner1..4, ecc200),
     - Reed-Solomon validity over GF(256)/x^8+x^5+x^3+x^2+1 (301), roots
       alpha^1 .. alpha^e, blocks interleaved,
     - the ASCII encodation decoder and the 253-state pad check,
   assembled into a reference reader [dm_decode] and a structural validator
   [dm_valid] that work on the pixel rows of a symbol (true = dark module).
   No proofs here. *)
From Coq Require Import FMapPositive.
From Verif Require Import Prelude GFM.

(* ---------- Table 7: ECC 200 square symbol attributes ---------- *)
Record iso_entry := {
  iso_size : Z;      (* symbol size, rows = columns, including finder/clock *)
  iso_region : Z;    (* side of one (square) data region *)
  iso_k : Z;         (* data regions per side: the symbol has iso_k * iso_k regions *)
  iso_data : Z;      (* total data codewords *)
  iso_ecc : Z;       (* total error correction codewords *)
  iso_blocks : Z     (* interleaved Reed-Solomon blocks *)
}.

Definition iso (size region k data ecc blocks : Z) : iso_entry :=
  {| iso_size := size; iso_region := region; iso_k := k;
     iso_data := data; iso_ecc := ecc; iso_blocks := blocks |}.

Definition iso_table : list iso_entry :=
  [ iso 10 8 1 3 5 1;       iso 12 10 1 5 7 1;      iso 14 12 1 8 10 1;
    iso 16 14 1 12 12 1;    iso 18 16 1 18 14 1;    iso 20 18 1 22 18 1;
    iso 22 20 1 30 20 1;    iso 24 22 1 36 24 1;    iso 26 24 1 44 28 1;
    iso 32 14 2 62 36 1;    iso 36 16 2 86 42 1;    iso 40 18 2 114 48 1;
    iso 44 20 2 144 56 1;   iso 48 22 2 174 68 1;   iso 52 24 2 204 84 2;
    iso 64 14 4 280 112 2;  iso 72 16 4 368 144 4;  iso 80 18 4 456 192 4;
    iso 88 20 4 576 224 4;  iso 96 22 4 696 272 4;  iso 104 24 4 816 336 6;
    iso 120 18 6 1050 408 6; iso 132 20 6 1304 496 8; iso 144 22 6 1558 620 10 ].

(* largest data capacity of any symbol *)
Definition iso_max_data : Z := 1558.

Definition iso_lookup (h w : Z) : option iso_entry :=
  if h =? w then find (fun e => iso_size e =? h) iso_table else None.

Definition iso_total (e : iso_entry) : Z := iso_data e + iso_ecc e.
(* side of the mapping matrix (all data regions put together) *)
Definition iso_map_side (e : iso_entry) : Z := iso_region e * iso_k e.

(* ---------- Annex F: module placement ---------- *)
(* array[row*ncol+col] = 10*chr + bit (chr from 1, bit 1 = most significant .. 8);
   0 (absent) = not placed; 1 = dark module of the fixed lower-right pattern *)
Definition arr := PositiveMap.t Z.

Definition aget (a : arr) (i : Z) : Z :=
  if i <? 0 then 0 else
  match PositiveMap.find (Z.to_pos (i + 1)) a with Some v => v | None => 0 end.

Definition aset (a : arr) (i v : Z) : arr := PositiveMap.add (Z.to_pos (i + 1)) v a.

Definition module (nrow ncol : Z) (a : arr) (row col chr bit : Z) : arr :=
  let '(row, col) :=
    if row <? 0 then (row + nrow, col + 4 - ((nrow + 4) mod 8)) else (row, col) in
  let '(row, col) :=
    if col <? 0 then (row + 4 - ((ncol + 4) mod 8), col + ncol) else (row, col) in
  aset a (row * ncol + col) (10 * chr + bit).

Definition utah (nrow ncol : Z) (a : arr) (row col chr : Z) : arr :=
  let a := module nrow ncol a (row - 2) (col - 2) chr 1 in
  let a := module nrow ncol a (row - 2) (col - 1) chr 2 in
  let a := module nrow ncol a (row - 1) (col - 2) chr 3 in
  let a := module nrow ncol a (row - 1) (col - 1) chr 4 in
  let a := module nrow ncol a (row - 1) col chr 5 in
  let a := module nrow ncol a row (col - 2) chr 6 in
  let a := module nrow ncol a row (col - 1) chr 7 in
  module nrow ncol a row col chr 8.

Definition f_corner1 (nrow ncol : Z) (a : arr) (chr : Z) : arr :=
  let a := module nrow ncol a (nrow - 1) 0 chr 1 in
  let a := module nrow ncol a (nrow - 1) 1 chr 2 in
  let a := module nrow ncol a (nrow - 1) 2 chr 3 in
  let a := module nrow ncol a 0 (ncol - 2) chr 4 in
  let a := module nrow ncol a 0 (ncol - 1) chr 5 in
  let a := module nrow ncol a 1 (ncol - 1) chr 6 in
  let a := module nrow ncol a 2 (ncol - 1) chr 7 in
  module nrow ncol a 3 (ncol - 1) chr 8.

Definition f_corner2 (nrow ncol : Z) (a : arr) (chr : Z) : arr :=
  let a := module nrow ncol a (nrow - 3) 0 chr 1 in
  let a := module nrow ncol a (nrow - 2) 0 chr 2 in
  let a := module nrow ncol a (nrow - 1) 0 chr 3 in
  let a := module nrow ncol a 0 (ncol - 4) chr 4 in
  let a := module nrow ncol a 0 (ncol - 3) chr 5 in
  let a := module nrow ncol a 0 (ncol - 2) chr 6 in
  let a := module nrow ncol a 0 (ncol - 1) chr 7 in
  module nrow ncol a 1 (ncol - 1) chr 8.

Definition f_corner3 (nrow ncol : Z) (a : arr) (chr : Z) : arr :=
  let a := module nrow ncol a (nrow - 3) 0 chr 1 in
  let a := module nrow ncol a (nrow - 2) 0 chr 2 in
  let a := module nrow ncol a (nrow - 1) 0 chr 3 in
  let a := module nrow ncol a 0 (ncol - 2) chr 4 in
  let a := module nrow ncol a 0 (ncol - 1) chr 5 in
  let a := module nrow ncol a 1 (ncol - 1) chr 6 in
  let a := module nrow ncol a 2 (ncol - 1) chr 7 in
  module nrow ncol a 3 (ncol - 1) chr 8.

Definition f_corner4 (nrow ncol : Z) (a : arr) (chr : Z) : arr :=
  let a := module nrow ncol a (nrow - 1) 0 chr 1 in
  let a := module nrow ncol a (nrow - 1) (ncol - 1) chr 2 in
  let a := module nrow ncol a 0 (ncol - 3) chr 3 in
  let a := module nrow ncol a 0 (ncol - 2) chr 4 in
  let a := module nrow ncol a 0 (ncol - 1) chr 5 in
  let a := module nrow ncol a 1 (ncol - 3) chr 6 in
  let a := module nrow ncol a 1 (ncol - 2) chr 7 in
  module nrow ncol a 1 (ncol - 1) chr 8.

(* state of ecc200(): array, next character, fired corner cases (latest first) *)
Definition fst3 := (arr * Z * list Z)%type.

Definition f_special (c : bool) (k : Z) (f : arr -> Z -> arr) (st : fst3) : fst3 :=
  let '(a, chr, fired) := st in
  if c then (f a chr, chr + 1, k :: fired) else st.

(* do { if (...) utah(row,col,chr++); row -= 2; col += 2; } while (row >= 0 && col < ncol) *)
Fixpoint f_up (fuel : nat) (nrow ncol : Z) (a : arr) (chr row col : Z) : option (arr * Z * Z * Z) :=
  match fuel with
  | O => None
  | S f =>
    let '(a, chr) :=
      if (row <? nrow) && (col >=? 0) && (aget a (row * ncol + col) =? 0)
      then (utah nrow ncol a row col chr, chr + 1) else (a, chr) in
    let row := row - 2 in
    let col := col + 2 in
    if (row >=? 0) && (col <? ncol) then f_up f nrow ncol a chr row col
    else Some (a, chr, row, col)
  end.

(* do { if (...) utah(row,col,chr++); row += 2; col -= 2; } while (row < nrow && col >= 0) *)
Fixpoint f_down (fuel : nat) (nrow ncol : Z) (a : arr) (chr row col : Z) : option (arr * Z * Z * Z) :=
  match fuel with
  | O => None
  | S f =>
    let '(a, chr) :=
      if (row >=? 0) && (col <? ncol) && (aget a (row * ncol + col) =? 0)
      then (utah nrow ncol a row col chr, chr + 1) else (a, chr) in
    let row := row + 2 in
    let col := col - 2 in
    if (row <? nrow) && (col >=? 0) then f_down f nrow ncol a chr row col
    else Some (a, chr, row, col)
  end.

(* the outer do { ... } while ((row < nrow) || (col < ncol)) *)
Fixpoint f_main (fuel : nat) (nrow ncol : Z) (st : fst3) (row col : Z) : option fst3 :=
  match fuel with
  | O => None
  | S f =>
    let st := f_special ((row =? nrow) && (col =? 0)) 1 (f_corner1 nrow ncol) st in
    let st := f_special ((row =? nrow - 2) && (col =? 0) && negb (ncol mod 4 =? 0)) 2
                (f_corner2 nrow ncol) st in
    let st := f_special ((row =? nrow - 2) && (col =? 0) && (ncol mod 8 =? 4)) 3
                (f_corner3 nrow ncol) st in
    let st := f_special ((row =? nrow + 4) && (col =? 2) && (ncol mod 8 =? 0)) 4
                (f_corner4 nrow ncol) st in
    let '(a, chr, fired) := st in
    match f_up (Z.to_nat (nrow + ncol)) nrow ncol a chr row col with
    | None => None
    | Some (a, chr, row, col) =>
      match f_down (Z.to_nat (nrow + ncol)) nrow ncol a chr (row + 1) (col + 3) with
      | None => None
      | Some (a, chr, row, col) =>
        let row := row + 3 in
        let col := col + 1 in
        if (row <? nrow) || (col <? ncol) then f_main f nrow ncol (a, chr, fired) row col
        else Some (a, chr, fired)
      end
    end
  end.

(* ecc200(): the filled array, the number of placed characters, the corner
   cases that fired (in order), whether the fixed pattern was used *)
Definition ecc200 (nrow ncol : Z) : option (arr * Z * list Z * bool) :=
  match f_main (Z.to_nat (nrow + ncol)) nrow ncol (PositiveMap.empty Z, 1, []) 4 0 with
  | None => None
  | Some (a, chr, fired) =>
    if aget a (nrow * ncol - 1) =? 0
    then Some (aset (aset a (nrow * ncol - 1) 1) (nrow * ncol - ncol - 2) 1, chr - 1, rev fired, true)
    else Some (a, chr - 1, rev fired, false)
  end.

(* ---------- reading a symbol ---------- *)
Definition pixel (rows : list (list bool)) (r c : Z) : bool :=
  if (r <? 0) || (c <? 0) then false else
  match nth_error rows (Z.to_nat r) with
  | Some row => match nth_error row (Z.to_nat c) with Some b => b | None => false end
  | None => false
  end.

(* mapping matrix coordinate -> symbol coordinate: every region of side g is
   surrounded by one module of finder / clock *)
Definition sym_coord (e : iso_entry) (i : Z) : Z :=
  (i / iso_region e) * (iso_region e + 2) + i mod iso_region e + 1.

Fixpoint zrange_s (start : Z) (n : nat) : list Z :=
  match n with O => [] | S m => start :: zrange_s (start + 1) m end.
Definition zrange0 (n : Z) : list Z := zrange_s 0 (Z.to_nat n).

(* position in the array of every (chr, bit): key 10*chr+bit *)
Definition placement_index (a : arr) : PositiveMap.t Z :=
  PositiveMap.fold (fun k v acc => if v >? 1 then PositiveMap.add (Z.to_pos v) (Zpos k - 1) acc else acc)
    a (PositiveMap.empty Z).

Fixpoint opt_all {A} (l : list (option A)) : option (list A) :=
  match l with
  | [] => Some []
  | None :: _ => None
  | Some x :: t => match opt_all t with Some r => Some (x :: r) | None => None end
  end.

(* for every codeword (in order) the symbol coordinates (row, column) of its
   eight modules, most significant bit first *)
Definition reader_locs (e : iso_entry) (a : arr) : option (list (list (Z * Z))) :=
  let n := iso_map_side e in
  let ix := placement_index a in
  opt_all (map (fun chr =>
    opt_all (map (fun bit =>
      match PositiveMap.find (Z.to_pos (10 * chr + bit)) ix with
      | Some pos => Some (sym_coord e (pos / n), sym_coord e (pos mod n))
      | None => None
      end) [1; 2; 3; 4; 5; 6; 7; 8]))
    (zrange_s 1 (Z.to_nat (iso_total e)))).

(* modules of the mapping matrix that carry no codeword bit: the fixed pattern
   (dark where the array holds 1, light where it holds 0) *)
Definition fixed_cells (e : iso_entry) (a : arr) : list (Z * Z * bool) :=
  let n := iso_map_side e in
  flat_map (fun pos =>
    let v := aget a pos in
    if v <=? 1 then [(sym_coord e (pos / n), sym_coord e (pos mod n), v =? 1)] else [])
    (zrange0 (n * n)).

(* finder and clock of every data region: solid left column and bottom row,
   alternating top row (dark at even offsets) and right column (dark at odd
   offsets, so that the top right module is light and the bottom right dark) *)
Definition finder_cells (e : iso_entry) : list (Z * Z * bool) :=
  let w := iso_region e + 2 in
  flat_map (fun i =>
    flat_map (fun j =>
      let r0 := i * w in
      let c0 := j * w in
      flat_map (fun t =>
        [ (r0 + t, c0, true);                     (* left column *)
          (r0 + w - 1, c0 + t, true);             (* bottom row *)
          (r0, c0 + t, Z.even t);                 (* top row *)
          (r0 + t, c0 + w - 1, Z.odd t) ])        (* right column *)
        (zrange0 w))
      (zrange0 (iso_k e)))
    (zrange0 (iso_k e)).

Definition expect_ok (rows : list (list bool)) (x : Z * Z * bool) : bool :=
  let '(r, c, b) := x in Bool.eqb (pixel rows r c) b.

Definition bits_to_byte (bits : list bool) : Z :=
  fold_left (fun acc (b : bool) => 2 * acc + (if b then 1 else 0)) bits 0.

Definition read_codeword (rows : list (list bool)) (locs : list (Z * Z)) : Z :=
  bits_to_byte (map (fun rc => pixel rows (fst rc) (snd rc)) locs).

(* what a reader knows once it has the dimensions: the symbol attributes, the
   module coordinates of every codeword and the fixed cells *)
Definition reader_info (e : iso_entry)
  : option (list (list (Z * Z)) * list (Z * Z * bool)) :=
  match ecc200 (iso_map_side e) (iso_map_side e) with
  | None => None
  | Some (a, placed, _, _) =>
    if placed =? iso_total e then
      match reader_locs e a with
      | Some locs => Some (locs, finder_cells e ++ fixed_cells e a)
      | None => None
      end
    else None
  end.

Definition dm_read (rows : list (list bool))
  : option (iso_entry * list (Z * Z * bool) * list Z) :=
  match rows with
  | [] => None
  | r0 :: _ =>
    let h := zlength rows in
    let w := zlength r0 in
    match iso_lookup h w with
    | None => None
    | Some e =>
      if forallb (fun r => zlength r =? w) rows then
        match reader_info e with
        | Some (locs, exps) => Some (e, exps, map (read_codeword rows) locs)
        | None => None
        end
      else None
    end
  end.

(* ---------- Reed-Solomon validity ---------- *)
Definition iso_field : gfield := gf_new 301 256 1.

(* codeword i of the symbol belongs to block i mod B (data and check words
   separately); block b as a polynomial, highest degree first *)
Definition rs_block (e : iso_entry) (cws : list Z) (b : Z) : list Z :=
  let B := iso_blocks e in
  let D := iso_data e in
  let nd := (D - b + B - 1) / B in         (* 156/155 for the 144x144 symbol *)
  let ne := iso_ecc e / B in
  map (fun j => nth (Z.to_nat (b + j * B)) cws 0) (zrange0 nd) ++
  map (fun j => nth (Z.to_nat (D + b + j * B)) cws 0) (zrange0 ne).

(* all syndromes S_i = c(alpha^i), i = 1..e, vanish *)
Definition rs_block_ok (e : iso_entry) (cws : list Z) (b : Z) : bool :=
  let blk := rs_block e cws b in
  forallb (fun i => poly_eval iso_field blk (tget (gf_alog iso_field) i) =? 0)
          (zrange_s 1 (Z.to_nat (iso_ecc e / iso_blocks e))).

Definition rs_ok (e : iso_entry) (cws : list Z) : bool :=
  forallb (rs_block_ok e cws) (zrange0 (iso_blocks e)).

(* ---------- ASCII encodation and padding ---------- *)
(* 253-state algorithm: the pad codeword at (1-based) position pos *)
Definition unrandomise_253 (cw pos : Z) : Z :=
  let r := (149 * pos) mod 253 + 1 in
  let t := cw - r in
  if t <? 1 then t + 254 else t.

Fixpoint dm_pads_ok (l : list Z) (pos : Z) : bool :=
  match l with
  | [] => true
  (* a pad codeword is a codeword value (1..254: neither 0 nor 255 is one) whose un-randomised value is 129 *)
  | cw :: t => (1 <=? cw) && (cw <=? 254) && (unrandomise_253 cw pos =? 129) && dm_pads_ok t (pos + 1)
  end.

Definition prepend (x : list Z) (o : option (list Z * bool)) : option (list Z * bool) :=
  match o with Some (l, ok) => Some (x ++ l, ok) | None => None end.

(* decoded bytes, and whether everything after the first pad codeword is a
   correctly randomised pad.  pos = 1-based position of the head of l.
     1..128   ASCII value + 1
     129      pad: end of message
     130..229 two digits 00..99
     235      upper shift: next codeword v in 1..128 stands for v - 1 + 128 *)
Fixpoint dm_ascii (l : list Z) (pos : Z) : option (list Z * bool) :=
  match l with
  | [] => Some ([], true)
  | cw :: t =>
    if cw =? 129 then Some ([], dm_pads_ok t (pos + 1))
    else if (1 <=? cw) && (cw <=? 128) then prepend [cw - 1] (dm_ascii t (pos + 1))
    else if (130 <=? cw) && (cw <=? 229) then
      prepend [48 + (cw - 130) / 10; 48 + (cw - 130) mod 10] (dm_ascii t (pos + 1))
    else if cw =? 235 then
      match t with
      | v :: t' =>
        if (1 <=? v) && (v <=? 128) then prepend [v + 127] (dm_ascii t' (pos + 2)) else None
      | [] => None
      end
    else None
  end.

(* number of codewords of the ASCII encodation of a byte string (digit pairs
   taken greedily from the left, two codewords per byte >= 128) *)
Fixpoint dm_ascii_len (s : list Z) : Z :=
  match s with
  | [] => 0
  | c :: t =>
    match t with
    | c2 :: t2 =>
      if (48 <=? c) && (c <=? 57) && (48 <=? c2) && (c2 <=? 57) then 1 + dm_ascii_len t2
      else (if c >=? 128 then 2 else 1) + dm_ascii_len t
    | [] => if c >=? 128 then 2 else 1
    end
  end.

(* a content is representable when its ASCII encodation fits the largest symbol;
   the symbol to use is the first (smallest) one of the ascending table that
   holds the encodation *)
Definition dm_representable (s : list Z) : bool := dm_ascii_len s <=? iso_max_data.
Definition dm_smallest (n : Z) : option iso_entry :=
  find (fun e => n <=? iso_data e) iso_table.

(* ---------- the reference reader and the validator ---------- *)
Definition dm_decode (rows : list (list bool)) : option (list Z) :=
  match dm_read rows with
  | Some (e, _, cws) =>
    match dm_ascii (firstn (Z.to_nat (iso_data e)) cws) 1 with
    | Some (msg, _) => Some msg
    | None => None
    end
  | None => None
  end.

Definition dm_valid (rows : list (list bool)) : bool :=
  match dm_read rows with
  | Some (e, exps, cws) =>
    forallb (expect_ok rows) exps
    && rs_ok e cws
    && match dm_ascii (firstn (Z.to_nat (iso_data e)) cws) 1 with
       | Some (_, pads) => pads
       | None => false
       end
  | None => false
  end.

(* the symbol attributes a reader derives from the dimensions (for C12/C13) *)
Definition dm_symbol_entry (rows : list (list bool)) : option iso_entry :=
  match dm_read rows with Some (e, _, _) => Some e | None => None end.

Definition dm_codewords (rows : list (list bool)) : option (list Z) :=
  match dm_read rows with Some (_, _, cws) => Some cws | None => None end.
