(* Specification of Codabar (ANSI/AIM BC3-1995, "USS Codabar"; also NW-7,
   JIS X 0503) written from the standard, NOT from the encoder.

   Every character has seven elements: bar space bar space bar space bar, each
   narrow or wide.  The 12 characters 0-9 - $ have one wide bar and one wide
   space, the four characters : / . + have three wide bars, the start/stop
   characters A B C D have one wide bar and two wide spaces.  Characters are
   separated by a narrow space (inter-character gap).  This encoder draws
   narrow = 1 module and wide = 2 modules, so the first group is 9 modules wide
   and the other two groups are 10 modules wide.  A symbol is a start character,
   any number of data characters, a stop character. *)
From Verif Require Import Prelude Barcode RunLenSpec.

Local Notation n := false.   (* narrow element *)
Local Notation W := true.    (* wide element *)

(* character -> elements B S B S B S B ; listed in ascending character code *)
Definition codabar_table : list (Z * list bool) :=
  [ (36, [n;n;W;W;n;n;n]);   (* $ *)
    (43, [n;n;W;n;W;n;W]);   (* + *)
    (45, [n;n;n;W;W;n;n]);   (* - *)
    (46, [W;n;W;n;W;n;n]);   (* . *)
    (47, [W;n;W;n;n;n;W]);   (* / *)
    (48, [n;n;n;n;n;W;W]);   (* 0 *)
    (49, [n;n;n;n;W;W;n]);   (* 1 *)
    (50, [n;n;n;W;n;n;W]);   (* 2 *)
    (51, [W;W;n;n;n;n;n]);   (* 3 *)
    (52, [n;n;W;n;n;W;n]);   (* 4 *)
    (53, [W;n;n;n;n;W;n]);   (* 5 *)
    (54, [n;W;n;n;n;n;W]);   (* 6 *)
    (55, [n;W;n;n;W;n;n]);   (* 7 *)
    (56, [n;W;W;n;n;n;n]);   (* 8 *)
    (57, [W;n;n;W;n;n;n]);   (* 9 *)
    (58, [W;n;n;n;W;n;W]);   (* : *)
    (65, [n;n;W;W;n;W;n]);   (* A *)
    (66, [n;W;n;W;n;n;W]);   (* B *)
    (67, [n;n;n;W;n;W;W]);   (* C *)
    (68, [n;n;n;W;W;W;n]) ]. (* D *)

Definition codabar_start_stop : list Z := [65; 66; 67; 68].
Definition codabar_data_chars : list Z :=
  [48; 49; 50; 51; 52; 53; 54; 55; 56; 57; 45; 36; 58; 47; 46; 43].

(* module widths *)
Definition codabar_width (wide : bool) : nat := if wide then 2%nat else 1%nat.
Definition codabar_gap : nat := 1%nat.

(* the modules of one character: elements drawn alternately, starting with a bar *)
Definition codabar_modules (es : list bool) : list bool :=
  draw_alt true (map codabar_width es).

(* ---------- which texts are representable ---------- *)
Definition codabar_representable (s : list Z) : bool :=
  match s with
  | a :: ((_ :: _) as t) =>
    zmem a codabar_start_stop && zmem (last t 0) codabar_start_stop
    && forallb (fun c => zmem c codabar_data_chars) (removelast t)
  | _ => false
  end.

(* ---------- reference decoder ---------- *)
Definition codabar_classify (k : nat) : option bool :=
  match k with
  | 1%nat => Some n
  | 2%nat => Some W
  | _ => None
  end.

Fixpoint classify_all (f : nat -> option bool) (ks : list nat) : option (list bool) :=
  match ks with
  | [] => Some []
  | k :: t =>
    match f k, classify_all f t with
    | Some e, Some es => Some (e :: es)
    | _, _ => None
    end
  end.

(* seven runs bar space bar space bar space bar -> character *)
Definition codabar_char (seven : list (bool * nat)) : option Z :=
  if flags_eqb (map fst seven) [true; false; true; false; true; false; true] then
    match classify_all codabar_classify (map snd seven) with
    | Some es => find_flags codabar_table es
    | None => None
    end
  else None.

(* character, then either the end of the symbol or a narrow space and more characters *)
Fixpoint codabar_decode_runs (rl : list (bool * nat)) : option (list Z) :=
  match rl with
  | r1 :: r2 :: r3 :: r4 :: r5 :: r6 :: r7 :: rest =>
    match codabar_char [r1; r2; r3; r4; r5; r6; r7] with
    | None => None
    | Some ch =>
      match rest with
      | [] => Some [ch]
      | gap :: rest' =>
        if run_eqb gap (false, codabar_gap) then
          match codabar_decode_runs rest' with
          | Some t => Some (ch :: t)
          | None => None
          end
        else None
      end
    end
  | _ => None
  end.

(* modules -> text; only symbols framed by start and stop characters are valid *)
Definition codabar_decode (m : list bool) : option (list Z) :=
  match codabar_decode_runs (runs m) with
  | Some t => if codabar_representable t then Some t else None
  | None => None
  end.
