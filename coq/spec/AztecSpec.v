(* Specification side of C03: Aztec Code as ISO/IEC 24778 describes it to a
   READER.  Written from the standard, not from the encoder: the five literal
   character tables, the high-level decoder (latch / shift / binary shift /
   two-byte punctuation codes), bit un-stuffing, and a structural reader of the
   module matrix (finder, orientation marks, mode message with its GF(16)
   Reed-Solomon check, symbol size, reference grid, data extraction spiral,
   Reed-Solomon syndromes over the field of the symbol's word size).
   Uses only base/ (Prelude, GFM for the Galois-field arithmetic). *)
From Verif Require Import Prelude GFM.

(* ------------------------------------------------------------------ *)
(* 1. Character tables (ISO/IEC 24778, Table 2)                        *)
Inductive smode := SUpper | SLower | SMixed | SPunct | SDigit.

Inductive sym :=
| Ch (c : Z)            (* one byte *)
| Pair (a b : Z)        (* the two-byte punctuation codes *)
| Latch (m : smode)
| Shift (m : smode)
| BinShift              (* B/S *)
| Flg.                  (* FLG(n): FNC1 / ECI, not produced by this library *)

Fixpoint zseq (s : Z) (n : nat) : list Z :=
  match n with O => [] | S m => s :: zseq (s + 1) m end.

(* codes 0..31 *)
Definition tbl_upper : list sym :=
  [Shift SPunct; Ch 32] ++ map Ch (zseq 65 26)                 (* SP A..Z *)
  ++ [Latch SLower; Latch SMixed; Latch SDigit; BinShift].
Definition tbl_lower : list sym :=
  [Shift SPunct; Ch 32] ++ map Ch (zseq 97 26)                 (* SP a..z *)
  ++ [Shift SUpper; Latch SMixed; Latch SDigit; BinShift].
Definition tbl_mixed : list sym :=
  [Shift SPunct; Ch 32] ++ map Ch (zseq 1 13)                  (* SP ^A..^M *)
  ++ map Ch [27; 28; 29; 30; 31;                                (* ESC FS GS RS US *)
             64; 92; 94; 95; 96; 124; 126; 127]                 (* at, backslash, caret, underscore, grave, bar, tilde, DEL *)
  ++ [Latch SLower; Latch SUpper; Latch SPunct; BinShift].
Definition tbl_punct : list sym :=
  [Flg; Ch 13; Pair 13 10; Pair 46 32; Pair 44 32; Pair 58 32]
  (* CR, CR LF, full stop + space, comma + space, colon + space *)
  (* codes 6..20: exclamation mark, double quote, number sign, dollar, percent,
     ampersand, apostrophe, parentheses, asterisk, plus, comma, hyphen, full stop,
     slash; codes 21..30: colon, semicolon, less, equals, greater, question mark,
     square brackets, braces *)
  ++ map Ch [33; 34; 35; 36; 37; 38; 39; 40; 41; 42; 43; 44; 45; 46; 47;
             58; 59; 60; 61; 62; 63; 91; 93; 123; 125]
  ++ [Latch SUpper].
(* codes 0..15 *)
Definition tbl_digit : list sym :=
  [Shift SPunct; Ch 32] ++ map Ch (zseq 48 10)                 (* SP 0..9 *)
  ++ [Ch 44; Ch 46; Latch SUpper; Shift SUpper].                (* , . U/L U/S *)

Definition sp_tbl (m : smode) : list sym :=
  match m with
  | SUpper => tbl_upper | SLower => tbl_lower | SMixed => tbl_mixed
  | SPunct => tbl_punct | SDigit => tbl_digit
  end.

Definition sp_width (m : smode) : nat := match m with SDigit => 4%nat | _ => 5%nat end.

(* ------------------------------------------------------------------ *)
(* 2. High-level decoder                                               *)
(* read k bits MSB first *)
Fixpoint sp_rd (k : nat) (acc : Z) (l : list bool) : option (Z * list bool) :=
  match k with
  | O => Some (acc, l)
  | S k' => match l with
            | [] => None
            | b :: t => sp_rd k' (2 * acc + (if b then 1 else 0)) t
            end
  end.

Fixpoint sp_rd_bytes (n : nat) (l : list bool) : option (list Z * list bool) :=
  match n with
  | O => Some ([], l)
  | S m => match sp_rd 8 0 l with
           | None => None
           | Some (b, r) => match sp_rd_bytes m r with
                            | None => None
                            | Some (bs, r') => Some (b :: bs, r')
                            end
           end
  end.

(* result of reading one item in mode m: bytes emitted, the mode afterwards
   and the remaining bits; SStop = the bits end inside the item (only padding
   is left); SBad = a code that may not occur there *)
Inductive sres :=
| SEmit (out : list Z) (m : smode) (rest : list bool)
| SStop
| SBad.

Definition sp_bytes (m : smode) (n : Z) (bits : list bool) : sres :=
  match sp_rd_bytes (Z.to_nat n) bits with
  | Some (bs, r) => SEmit bs m r
  | None => SStop
  end.

(* binary shift invoked from mode m, the bits after the B/S code: 5-bit length;
   0 = an 11-bit length minus 31 follows; then the bytes; afterwards the mode
   is the one B/S was invoked from *)
Definition sp_binshift (m : smode) (rest : list bool) : sres :=
  match sp_rd 5 0 rest with
  | None => SStop
  | Some (n, rest2) =>
    if n =? 0 then
      match sp_rd 11 0 rest2 with
      | None => SStop
      | Some (n2, rest3) => sp_bytes m (n2 + 31) rest3
      end
    else sp_bytes m n rest2
  end.

Definition sp_step (m : smode) (bits : list bool) : sres :=
  match sp_rd (sp_width m) 0 bits with
  | None => SStop
  | Some (c, rest) =>
    match nth_error (sp_tbl m) (Z.to_nat c) with
    | None => SBad
    | Some (Ch a) => SEmit [a] m rest
    | Some (Pair a b) => SEmit [a; b] m rest
    | Some (Latch m') => SEmit [] m' rest
    | Some (Shift m') =>
      (* one code of the other table, then back to m *)
      match sp_rd (sp_width m') 0 rest with
      | None => SStop
      | Some (c2, rest2) =>
        match nth_error (sp_tbl m') (Z.to_nat c2) with
        | Some (Ch a) => SEmit [a] m rest2
        | Some (Pair a b) => SEmit [a; b] m rest2
        | Some BinShift =>
          (* a binary shift inside a shift: this reader does not interpret it,
             but the padding of a symbol that ends in Digit mode reads as
             U/S B/S followed by too few bits, which is the end of the data *)
          match sp_binshift m' rest2 with
          | SStop => SStop
          | _ => SBad
          end
        | _ => SBad
        end
      end
    | Some BinShift => sp_binshift m rest
    | Some Flg => SBad
    end
  end.

(* decode from mode m; returns the bytes and the final mode.  When the bits end
   inside an item the remainder must be padding: all 1. *)
Fixpoint sp_dec (fuel : nat) (m : smode) (bits : list bool) : option (list Z * smode) :=
  match fuel with
  | O => None
  | S f =>
    match sp_step m bits with
    | SEmit out m' rest =>
      match sp_dec f m' rest with
      | Some (o, mf) => Some (out ++ o, mf)
      | None => None
      end
    | SStop => if forallb (fun b => b) bits then Some ([], m) else None
    | SBad => None
    end
  end.

Definition sp_dec_from (m : smode) (bits : list bool) : option (list Z * smode) :=
  sp_dec (S (length bits)) m bits.

Definition aztec_decode_hl (bits : list bool) : option (list Z) :=
  match sp_dec_from SUpper bits with
  | Some (o, _) => Some o
  | None => None
  end.

(* ------------------------------------------------------------------ *)
(* 3. Codewords and bit stuffing                                       *)
(* w-bit words; None unless the length is a multiple of w *)
Fixpoint sp_chunks (fuel : nat) (w : nat) (bits : list bool) : option (list (list bool)) :=
  match bits with
  | [] => Some []
  | _ =>
    match fuel with
    | O => None
    | S f =>
      if Nat.ltb (length (firstn w bits)) w then None
      else match sp_chunks f w (skipn w bits) with
           | None => None
           | Some r => Some (firstn w bits :: r)
           end
    end
  end.

Definition sp_all (v : bool) (l : list bool) : bool := forallb (Bool.eqb v) l.

(* a data codeword whose first w-1 bits are equal carries only those w-1 bits,
   its last bit is the complement; a codeword of w equal bits is illegal *)
Definition sp_unstuff_word (w : nat) (word : list bool) : option (list bool) :=
  let hd := firstn (w - 1) word in
  match skipn (w - 1) word with
  | [lastb] =>
    if sp_all true hd then (if lastb then None else Some hd)
    else if sp_all false hd then (if lastb then Some hd else None)
    else Some word
  | _ => None
  end.

Fixpoint sp_unstuff_words (w : nat) (words : list (list bool)) : option (list bool) :=
  match words with
  | [] => Some []
  | x :: t =>
    match sp_unstuff_word w x, sp_unstuff_words w t with
    | Some a, Some b => Some (a ++ b)
    | _, _ => None
    end
  end.

Definition sp_unstuff (w : nat) (bits : list bool) : option (list bool) :=
  match sp_chunks (length bits) w bits with
  | None => None
  | Some ws => sp_unstuff_words w ws
  end.

Fixpoint sp_val (l : list bool) (acc : Z) : Z :=
  match l with
  | [] => acc
  | b :: t => sp_val t (2 * acc + (if b then 1 else 0))
  end.

(* ------------------------------------------------------------------ *)
(* 4. Symbol structure                                                 *)
(* codeword size by number of layers *)
Definition sp_word_size (layers : Z) : Z :=
  if layers <=? 2 then 6 else if layers <=? 8 then 8 else if layers <=? 22 then 10 else 12.

(* the Galois fields: GF(16) x^4+x+1 for the mode message, GF(64) x^6+x+1,
   GF(256) x^8+x^5+x^3+x^2+1, GF(1024) x^10+x^3+1, GF(4096) x^12+x^6+x^5+x^3+1;
   generator roots alpha^1 .. alpha^k *)
Definition sp_gf4 : gfield := Eval vm_compute in gf_new 19 16 1.
Definition sp_gf6 : gfield := Eval vm_compute in gf_new 67 64 1.
Definition sp_gf8 : gfield := Eval vm_compute in gf_new 301 256 1.
Definition sp_gf10 : gfield := Eval vm_compute in gf_new 1033 1024 1.
Definition sp_gf12 : gfield := Eval vm_compute in gf_new 4201 4096 1.

Definition sp_gf (w : Z) : gfield :=
  if w =? 6 then sp_gf6 else if w =? 8 then sp_gf8 else if w =? 10 then sp_gf10
  else if w =? 12 then sp_gf12 else sp_gf4.

(* all syndromes S_1..S_k of the received word are zero *)
Fixpoint sp_syndromes_zero (f : gfield) (word : list Z) (k : nat) (i : Z) : bool :=
  match k with
  | O => true
  | S k' => (poly_eval f word (tget (gf_alog f) i) =? 0)
            && sp_syndromes_zero f word k' (i + 1)
  end.

Definition sp_rs_ok (f : gfield) (word : list Z) (ncheck : Z) : bool :=
  sp_syndromes_zero f word (Z.to_nat ncheck) 1.

(* side length of a symbol *)
Definition sp_full_sizes : list Z :=
  [19; 23; 27; 31; 37; 41; 45; 49; 53; 57; 61; 67; 71; 75; 79; 83; 87; 91; 95; 101;
   105; 109; 113; 117; 121; 125; 131; 135; 139; 143; 147; 151].

Definition sp_size (compact : bool) (layers : Z) : Z :=
  if compact then 11 + 4 * layers
  else nth (Z.to_nat (layers - 1)) sp_full_sizes 0.

(* module (x, y): column x of row y; outside the image = light *)
Definition sp_pix (rows : list (list bool)) (x y : Z) : bool :=
  if (x <? 0) || (y <? 0) then false
  else nth (Z.to_nat x) (nth (Z.to_nat y) rows []) false.

(* -d, ..., d *)
Definition sp_span (d : Z) : list Z := zseq (- d) (Z.to_nat (2 * d + 1)).

(* a prescribed module: column, row, colour (true = dark) *)
Definition pcell : Type := Z * Z * bool.

Definition sp_cells_ok (rows : list (list bool)) (cells : list pcell) : bool :=
  forallb (fun p : pcell =>
    let '(x, y, v) := p in Bool.eqb (sp_pix rows x y) v) cells.

(* the square ring at distance d from the centre, all of colour v *)
Definition sp_ring (c d : Z) (v : bool) : list pcell :=
  flat_map (fun t => [ (c + t, c - d, v); (c + t, c + d, v); (c - d, c + t, v); (c + d, c + t, v) ])
           (sp_span d).

(* bullseye: rings 0 .. r alternate, the centre is dark *)
Definition sp_bullseye (c r : Z) : list pcell :=
  flat_map (fun d => sp_ring c d (Z.even d)) (zseq 0 (Z.to_nat (r + 1))).

(* orientation marks in the corners of the ring at distance s: three dark
   modules top-left, two top-right, one bottom-right, none bottom-left *)
Definition sp_orientation (c s : Z) : list pcell :=
  [ (c - s, c - s, true); (c - s + 1, c - s, true); (c - s, c - s + 1, true);
    (c + s, c - s, true); (c + s, c - s + 1, true); (c + s - 1, c - s, false);
    (c + s, c + s - 1, true); (c + s, c + s, false); (c + s - 1, c + s, false);
    (c - s, c + s, false); (c - s + 1, c + s, false); (c - s, c + s - 1, false) ].

(* finder pattern: compact = bullseye of radius 4 and marks at distance 5;
   full-range = radius 6 and marks at distance 7 *)
Definition sp_finder (compact : bool) (c : Z) : list pcell :=
  if compact then sp_bullseye c 4 ++ sp_orientation c 5
  else sp_bullseye c 6 ++ sp_orientation c 7.

(* mode message modules, clockwise from the top-left corner; in a full-range
   symbol the middle module of each side belongs to the reference grid *)
Definition sp_mode_offsets (compact : bool) : list Z :=
  if compact then zseq (-3) 7 else zseq (-5) 5 ++ zseq 1 5.

Definition sp_mode_positions (compact : bool) (c : Z) : list (Z * Z) :=
  let s := if compact then 5 else 7 in
  let o := sp_mode_offsets compact in
  map (fun t => (c + t, c - s)) o ++ map (fun t => (c + s, c + t)) o
  ++ map (fun t => (c - t, c + s)) o ++ map (fun t => (c - s, c - t)) o.

(* reference grid of a full-range symbol: every row and column whose distance
   from the centre is a multiple of 16 alternates dark / light, dark where the
   distance along the line from the centre is even *)
Definition sp_grid (n c : Z) : list pcell :=
  let lines := filter (fun t => (0 <=? t) && (t <? n))
                      (map (fun a => c + 16 * a) (sp_span (c / 16))) in
  flat_map (fun l =>
    flat_map (fun k => [ (l, k, Z.even (k - c)); (k, l, Z.even (k - c)) ])
             (zseq 0 (Z.to_nat n))) lines.

(* the data spiral.  Logical coordinates 0..base-1 ignore the reference grid;
   sp_phys inserts the grid lines *)
Definition sp_base (compact : bool) (layers : Z) : Z :=
  if compact then 11 + 4 * layers else 14 + 4 * layers.

Definition sp_phys (compact : bool) (base c idx : Z) : Z :=
  if compact then idx else
  let half := base / 2 in
  if idx <? half then let i := half - 1 - idx in c - 1 - (i + i / 15)
  else let i := idx - half in c + 1 + i + i / 15.

(* layer i (0 = outermost), its four sides in the order left column (downwards),
   bottom row (rightwards), right column (upwards), top row (leftwards); each
   side is 2 modules thick and rowSize long, the two modules of a domino first *)
Definition sp_layer_positions (compact : bool) (layers c i : Z) : list (Z * Z) :=
  let base := sp_base compact layers in
  let ph := sp_phys compact base c in
  let rowSize := (layers - i) * 4 + (if compact then 9 else 12) in
  let low := 2 * i in
  let high := base - 1 - low in
  let js := zseq 0 (Z.to_nat rowSize) in
  flat_map (fun j => [ (ph low, ph (low + j)); (ph (low + 1), ph (low + j)) ]) js
  ++ flat_map (fun j => [ (ph (low + j), ph high); (ph (low + j), ph (high - 1)) ]) js
  ++ flat_map (fun j => [ (ph high, ph (high - j)); (ph (high - 1), ph (high - j)) ]) js
  ++ flat_map (fun j => [ (ph (high - j), ph low); (ph (high - j), ph (low + 1)) ]) js.

Definition sp_data_positions (compact : bool) (layers c : Z) : list (Z * Z) :=
  flat_map (sp_layer_positions compact layers c) (zseq 0 (Z.to_nat layers)).

(* capacity in bits *)
Definition sp_capacity (compact : bool) (layers : Z) : Z :=
  ((if compact then 88 else 112) + 16 * layers) * layers.

(* ------------------------------------------------------------------ *)
(* 5. The reader                                                       *)
Inductive rres (A : Type) :=
| ROk (a : A)
| RFail (code : Z).
Arguments ROk {A} a.
Arguments RFail {A} code.

Record azread := {
  ar_compact : bool;
  ar_layers : Z;
  ar_datawords : Z;
  ar_checkwords : Z;
  ar_payload : list Z
}.

Definition sp_words_of (w : nat) (bits : list bool) : option (list Z) :=
  match sp_chunks (length bits) w bits with
  | None => None
  | Some ws => Some (map (fun x => sp_val x 0) ws)
  end.

(* failure codes: 1 image not an odd square; 2 no finder pattern / orientation
   marks; 4 mode message fails its Reed-Solomon check; 5 size does not match the
   mode message; 6 reference grid; 7 impossible data-word count; 8 data fails its
   Reed-Solomon check; 9 illegal (all-0/all-1) data codeword; 10 high-level
   decoding fails *)
Definition aztec_read (rows : list (list bool)) : rres azread :=
  let n := zlength rows in
  if negb (forallb (fun r => zlength r =? n) rows) || Z.even n || (n <? 15) then RFail 1 else
  let c := n / 2 in
  let is_compact := sp_cells_ok rows (sp_finder true c) in
  let is_full := sp_cells_ok rows (sp_finder false c) in
  if negb (is_compact || is_full) then RFail 2 else
  let compact := is_compact in
  let mbits := map (fun p => sp_pix rows (fst p) (snd p)) (sp_mode_positions compact c) in
  match sp_words_of 4 mbits with
  | None => RFail 4
  | Some mwords =>
    if negb (sp_rs_ok sp_gf4 mwords (if compact then 5 else 6)) then RFail 4 else
    let layers := (if compact then sp_val (firstn 2 mbits) 0 else sp_val (firstn 5 mbits) 0) + 1 in
    let dwords := (if compact then sp_val (firstn 6 (skipn 2 mbits)) 0
                   else sp_val (firstn 11 (skipn 5 mbits)) 0) + 1 in
    if negb (sp_size compact layers =? n) then RFail 5 else
    if negb compact && negb (sp_cells_ok rows (sp_grid n c)) then RFail 6 else
    let raw := map (fun p => sp_pix rows (fst p) (snd p)) (sp_data_positions compact layers c) in
    let w := sp_word_size layers in
    let total := zlength raw in
    (* the first total mod w modules are unused *)
    match sp_words_of (Z.to_nat w) (skipn (Z.to_nat (total mod w)) raw) with
    | None => RFail 7
    | Some words =>
      let nwords := zlength words in
      if nwords <=? dwords then RFail 7 else
      if negb (sp_rs_ok (sp_gf w) words (nwords - dwords)) then RFail 8 else
      let dbits := firstn (Z.to_nat (dwords * w)) (skipn (Z.to_nat (total mod w)) raw) in
      match sp_unstuff (Z.to_nat w) dbits with
      | None => RFail 9
      | Some bits =>
        match aztec_decode_hl bits with
        | None => RFail 10
        | Some payload =>
          ROk {| ar_compact := compact; ar_layers := layers; ar_datawords := dwords;
                 ar_checkwords := nwords - dwords; ar_payload := payload |}
        end
      end
    end
  end.

Definition aztec_valid (rows : list (list bool)) : bool :=
  match aztec_read rows with ROk _ => true | RFail _ => false end.

Definition aztec_decode (rows : list (list bool)) : option (list Z) :=
  match aztec_read rows with ROk r => Some (ar_payload r) | RFail _ => None end.
