(* Specification of Code 39 (ISO/IEC 16388, AIM USS-39), written from the standard's
   character table, NOT from the encoder: literal tables, symbol layout, reference
   decoder modules -> symbol characters -> (strip check) -> (resolve full-ASCII
   shift pairs) -> text.  Texts are byte lists.  No proofs. *)
From Coq Require Import String Ascii.
From Verif Require Import Prelude.

(* ---------- small helpers (shared with Code93Spec) ---------- *)
Fixpoint str_bytes (s : string) : list Z :=
  match s with
  | EmptyString => []
  | String a t => Z.of_N (N_of_ascii a) :: str_bytes t
  end.

Fixpoint bools_eqb (a b : list bool) : bool :=
  match a, b with
  | [], [] => true
  | x :: a', y :: b' => Bool.eqb x y && bools_eqb a' b'
  | _, _ => false
  end.

Fixpoint zlist_eqb (a b : list Z) : bool :=
  match a, b with
  | [], [] => true
  | x :: a', y :: b' => (x =? y) && zlist_eqb a' b'
  | _, _ => false
  end.

Definition obind_opt {A B} (o : option A) (f : A -> option B) : option B :=
  match o with Some a => f a | None => None end.
Notation "'let?' x := o 'in' f" := (obind_opt o (fun x => f))
  (at level 200, x pattern, o at level 100, f at level 200, right associativity).

(* position of the first pattern equal to m, counted from i *)
Fixpoint pattern_index (m : list bool) (tbl : list (list bool)) (i : Z) : option Z :=
  match tbl with
  | [] => None
  | p :: t => if bools_eqb m p then Some i else pattern_index m t (i + 1)
  end.

(* position of the first element equal to c, counted from i *)
Fixpoint char_index (c : Z) (l : list Z) (i : Z) : option Z :=
  match l with
  | [] => None
  | x :: t => if c =? x then Some i else char_index c t (i + 1)
  end.

(* full-ASCII shift-pair resolution, generic in the symbology's tables.
   `table` lists (spelling, ASCII code); a shift character must be followed by a
   second character and the pair must be in the table; any other character must
   be in the table on its own. *)
Fixpoint fa_resolve (table : list (list Z * Z)) (sp : list Z) : option Z :=
  match table with
  | [] => None
  | (k, a) :: t => if zlist_eqb sp k then Some a else fa_resolve t sp
  end.

Fixpoint fa_unspell (is_shift : Z -> bool) (table : list (list Z * Z)) (l : list Z)
  : option (list Z) :=
  match l with
  | [] => Some []
  | c :: t =>
    if is_shift c then
      match t with
      | d :: t' =>
        let? a := fa_resolve table [c; d] in
        let? r := fa_unspell is_shift table t' in Some (a :: r)
      | [] => None
      end
    else
      let? a := fa_resolve table [c] in
      let? r := fa_unspell is_shift table t in Some (a :: r)
  end.

(* numbered spellings: (s0, 0); (s1, 1); ... *)
Fixpoint fa_number (l : list string) (i : Z) : list (list Z * Z) :=
  match l with
  | [] => []
  | s :: t => (str_bytes s, i) :: fa_number t (i + 1)
  end.

(* ---------- the Code 39 character set ---------- *)
(* the 43 data characters in the order of their values 0..42 *)
(* (`Eval vm_compute in` makes the definition the literal byte list, so that the
   extracted decoder does not contain Coq's string type) *)
Definition c39_charset : list Z :=
  Eval vm_compute in str_bytes "0123456789ABCDEFGHIJKLMNOPQRSTUVWXYZ-. $/+%".

(* symbol character number 43 is the start/stop character, printed "*" *)
Definition c39_start_stop : Z := 43.

(* Each character: 9 elements bar,space,bar,space,bar,space,bar,space,bar of which
   3 are wide (W) and 6 narrow (N).  Rows: 0-7, 8-F, G-N, O-V, W-$ , / + % and "*". *)
Definition c39_width_patterns : list string :=
  ["NNNWWNWNN"; "WNNWNNNNW"; "NNWWNNNNW"; "WNWWNNNNN"; "NNNWWNNNW"; "WNNWWNNNN"; "NNWWWNNNN"; "NNNWNNWNW";
   "WNNWNNWNN"; "NNWWNNWNN"; "WNNNNWNNW"; "NNWNNWNNW"; "WNWNNWNNN"; "NNNNWWNNW"; "WNNNWWNNN"; "NNWNWWNNN";
   "NNNNNWWNW"; "WNNNNWWNN"; "NNWNNWWNN"; "NNNNWWWNN"; "WNNNNNNWW"; "NNWNNNNWW"; "WNWNNNNWN"; "NNNNWNNWW";
   "WNNNWNNWN"; "NNWNWNNWN"; "NNNNNNWWW"; "WNNNNNWWN"; "NNWNNNWWN"; "NNNNWNWWN"; "WWNNNNNNW"; "NWWNNNNNW";
   "WWWNNNNNN"; "NWNNWNNNW"; "WWNNWNNNN"; "NWWNWNNNN"; "NWNNNNWNW"; "WWNNNNWNN"; "NWWNNNWNN"; "NWNWNWNNN";
   "NWNWNNNWN"; "NWNNNWNWN"; "NNNWNWNWN"; "NWNNWNWNN"]%string.

(* modules of a width pattern: narrow = 1 module, wide = 2 modules (the ratio this
   encoder draws), bars and spaces alternating, starting with `bar` *)
Fixpoint c39_expand (bar : bool) (p : list Z) : list bool :=
  match p with
  | [] => []
  | c :: t => (if c =? 87 then [bar; bar] else [bar]) ++ c39_expand (negb bar) t
  end.

(* the 44 symbol characters as module rows (12 modules each) *)
Definition c39_symbols : list (list bool) :=
  Eval vm_compute in map (fun s => c39_expand true (str_bytes s)) c39_width_patterns.

Definition c39_sym_modules (v : Z) : list bool := nth (Z.to_nat v) c39_symbols [].

(* printed character of a data value *)
Definition c39_value_char (v : Z) : Z := nth (Z.to_nat v) c39_charset 0.

(* ---------- symbol layout ---------- *)
(* first symbol character, then every further one preceded by one narrow space
   (the inter-character gap) *)
Definition c39_layout (syms : list Z) : list bool :=
  match syms with
  | [] => []
  | v :: t => c39_sym_modules v ++ flat_map (fun w => false :: c39_sym_modules w) t
  end.

(* check character: sum of the data values modulo 43 *)
Definition c39_check (vals : list Z) : Z := (fold_right Z.add 0 vals) mod 43.

(* the whole symbol for data values vals *)
Definition c39_symbol (includeCheck : bool) (vals : list Z) : list Z :=
  [c39_start_stop] ++ vals ++ (if includeCheck then [c39_check vals] else []) ++ [c39_start_stop].

(* ---------- full ASCII (standard table of the 128 spellings) ---------- *)
Definition c39_full_ascii : list string :=
  ["%U"; "$A"; "$B"; "$C"; "$D"; "$E"; "$F"; "$G"; "$H"; "$I"; "$J"; "$K"; "$L"; "$M"; "$N"; "$O";
   "$P"; "$Q"; "$R"; "$S"; "$T"; "$U"; "$V"; "$W"; "$X"; "$Y"; "$Z"; "%A"; "%B"; "%C"; "%D"; "%E";
   " "; "/A"; "/B"; "/C"; "/D"; "/E"; "/F"; "/G"; "/H"; "/I"; "/J"; "/K"; "/L"; "-"; "."; "/O";
   "0"; "1"; "2"; "3"; "4"; "5"; "6"; "7"; "8"; "9"; "/Z"; "%F"; "%G"; "%H"; "%I"; "%J";
   "%V"; "A"; "B"; "C"; "D"; "E"; "F"; "G"; "H"; "I"; "J"; "K"; "L"; "M"; "N"; "O";
   "P"; "Q"; "R"; "S"; "T"; "U"; "V"; "W"; "X"; "Y"; "Z"; "%K"; "%L"; "%M"; "%N"; "%O";
   "%W"; "+A"; "+B"; "+C"; "+D"; "+E"; "+F"; "+G"; "+H"; "+I"; "+J"; "+K"; "+L"; "+M"; "+N"; "+O";
   "+P"; "+Q"; "+R"; "+S"; "+T"; "+U"; "+V"; "+W"; "+X"; "+Y"; "+Z"; "%P"; "%Q"; "%R"; "%S"; "%T"]%string.

(* alternative spellings a reader also accepts *)
Definition c39_full_ascii_alt : list (list Z * Z) :=
  Eval vm_compute in
  [(str_bytes "/M", 45); (str_bytes "/N", 46);
   (str_bytes "%X", 127); (str_bytes "%Y", 127); (str_bytes "%Z", 127)].

Definition c39_pair_table : list (list Z * Z) :=
  Eval vm_compute in fa_number c39_full_ascii 0 ++ c39_full_ascii_alt.

(* $ % / + *)
Definition c39_is_shift (c : Z) : bool := (c =? 36) || (c =? 37) || (c =? 47) || (c =? 43).

Definition c39_unspell (chars : list Z) : option (list Z) :=
  fa_unspell c39_is_shift c39_pair_table chars.

(* the standard spelling of an ASCII text *)
Definition c39_full_ascii_bytes : list (list Z) := Eval vm_compute in map str_bytes c39_full_ascii.
Definition c39_spelling (b : Z) : list Z := nth (Z.to_nat b) c39_full_ascii_bytes [].
Definition c39_spell (s : list Z) : list Z := flat_map c39_spelling s.

(* ---------- reference decoder ---------- *)
Definition c39_read_symbol (m : list bool) : option Z := pattern_index m c39_symbols 0.

(* 12-module characters separated by exactly one space module *)
Fixpoint c39_read_symbols (fuel : nat) (bits : list bool) : option (list Z) :=
  match fuel with
  | O => None
  | S f =>
    let? v := c39_read_symbol (firstn 12 bits) in
    match skipn 12 bits with
    | [] => Some [v]
    | false :: rest => let? r := c39_read_symbols f rest in Some (v :: r)
    | true :: _ => None
    end
  end.

(* start ... stop with only data characters in between *)
Definition c39_strip_frame (syms : list Z) : option (list Z) :=
  match syms with
  | s :: t =>
    match rev t with
    | e :: rmid =>
      if (s =? c39_start_stop) && (e =? c39_start_stop)
         && forallb (fun v => (0 <=? v) && (v <? 43)) rmid
      then Some (rev rmid) else None
    | [] => None
    end
  | [] => None
  end.

(* verify and remove the check character *)
Definition c39_strip_check (includeCheck : bool) (vals : list Z) : option (list Z) :=
  if includeCheck then
    match rev vals with
    | c :: rd => if c =? c39_check (rev rd) then Some (rev rd) else None
    | [] => None
    end
  else Some vals.

(* the data values of a symbol (frame and check removed) *)
Definition c39_decode_values (includeCheck : bool) (bits : list bool) : option (list Z) :=
  let? syms := c39_read_symbols (length bits) bits in
  let? mid := c39_strip_frame syms in
  c39_strip_check includeCheck mid.

(* the text of a symbol *)
Definition c39_decode (includeCheck fullASCII : bool) (bits : list bool) : option (list Z) :=
  let? vals := c39_decode_values includeCheck bits in
  let chars := map c39_value_char vals in
  if fullASCII then c39_unspell chars else Some chars.

(* ---------- which texts are encodable ---------- *)
Definition c39_basic_char (b : Z) : bool := existsb (fun c => b =? c) c39_charset.
Definition is_ascii (b : Z) : bool := (0 <=? b) && (b <=? 127).

Definition c39_accepts (fullASCII : bool) (s : list Z) : bool :=
  if fullASCII then forallb is_ascii s else forallb c39_basic_char s.

(* ---------- the character table as a map from runes ---------- *)
(* what the standard's table says about a rune: (value, modules).  The start/stop
   character "*" has no data value; -1 marks that. *)
Definition c39_spec_entry (r : Z) : option (Z * list bool) :=
  match char_index r c39_charset 0 with
  | Some v => Some (v, c39_sym_modules v)
  | None => if r =? 42 then Some (-1, c39_sym_modules c39_start_stop) else None
  end.

(* every width pattern has 9 elements of which exactly 3 are wide *)
Definition c39_three_of_nine (p : list Z) : bool :=
  Nat.eqb (length p) 9 && Nat.eqb (length (filter (fun c => c =? 87) p)) 3
  && Nat.eqb (length (filter (fun c => c =? 78) p)) 6.
