(* Width-modulated linear symbologies (Codabar, 2 of 5): a row of modules seen as
   alternating bars and spaces of measured widths.  Used by the reference
   decoders of CodabarSpec and TwoOfFiveSpec.  No proofs here. *)
From Verif Require Import Prelude.

(* maximal runs of equal modules, as (colour, length); true = bar *)
Fixpoint runs_aux (cur : bool) (k : nat) (l : list bool) : list (bool * nat) :=
  match l with
  | [] => [(cur, k)]
  | b :: t => if Bool.eqb b cur then runs_aux cur (S k) t else (cur, k) :: runs_aux b 1 t
  end.

Definition runs (l : list bool) : list (bool * nat) :=
  match l with
  | [] => []
  | b :: t => runs_aux b 1 t
  end.

(* elements of the given widths drawn with alternating colours, the first with colour c *)
Fixpoint draw_alt (c : bool) (ws : list nat) : list bool :=
  match ws with
  | [] => []
  | w :: t => repeat c w ++ draw_alt (negb c) t
  end.

(* the same elements as (colour, width) pairs *)
Fixpoint alt (c : bool) (ws : list nat) : list (bool * nat) :=
  match ws with
  | [] => []
  | w :: t => (c, w) :: alt (negb c) t
  end.

Definition run_eqb (a b : bool * nat) : bool := Bool.eqb (fst a) (fst b) && (snd a =? snd b)%nat.

Fixpoint runs_eqb (a b : list (bool * nat)) : bool :=
  match a, b with
  | [], [] => true
  | x :: a', y :: b' => run_eqb x y && runs_eqb a' b'
  | _, _ => false
  end.

(* remove an exact sequence of runs from the front *)
Fixpoint strip_runs (p rl : list (bool * nat)) : option (list (bool * nat)) :=
  match p, rl with
  | [], _ => Some rl
  | x :: p', y :: rl' => if run_eqb x y then strip_runs p' rl' else None
  | _ :: _, [] => None
  end.

Fixpoint flags_eqb (a b : list bool) : bool :=
  match a, b with
  | [], [] => true
  | x :: a', y :: b' => Bool.eqb x y && flags_eqb a' b'
  | _, _ => false
  end.

(* first key of an association list whose value is the given flag list *)
Fixpoint find_flags (t : list (Z * list bool)) (es : list bool) : option Z :=
  match t with
  | [] => None
  | (k, v) :: t' => if flags_eqb v es then Some k else find_flags t' es
  end.

Fixpoint assoc_flags (t : list (Z * list bool)) (k : Z) : option (list bool) :=
  match t with
  | [] => None
  | (k', v) :: t' => if k' =? k then Some v else assoc_flags t' k
  end.

Definition zmem (c : Z) (l : list Z) : bool := existsb (Z.eqb c) l.
