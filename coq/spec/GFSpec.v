(* Specification side for C17: the primitive polynomials of the standards, the
   textbook (shift-and-add) multiplication in GF(2)[x]/(pp), and the fields the
   library constructs, rebuilt from the tables dumped by gotab. *)
From Coq Require Import FMapPositive.
From Verif Require Import Prelude GFM TabGF.

(* ISO/IEC 18004 (QR): x^8+x^4+x^3+x^2+1, first root alpha^0;
   ISO/IEC 16022 (DataMatrix): x^8+x^5+x^3+x^2+1, first root alpha^1;
   ISO/IEC 24778 (Aztec): GF(16) x^4+x+1, GF(64) x^6+x+1, GF(256) x^8+x^5+x^3+x^2+1,
   GF(1024) x^10+x^3+1, GF(4096) x^12+x^6+x^5+x^3+1, first root alpha^1 *)
Definition iso_fields : list (Z * Z * Z) :=
  [(285, 256, 0); (301, 256, 1); (19, 16, 1); (67, 64, 1); (301, 256, 1); (1033, 1024, 1); (4201, 4096, 1)].

Fixpoint table_of_list (l : list Z) (i : Z) (t : table) : table :=
  match l with
  | [] => t
  | x :: r => table_of_list r (i + 1) (tset t i x)
  end.

Definition field_of_dump (d : Z * Z * list Z * list Z) : gfield :=
  let '(size, base, al, lg) := d in
  {| gf_size := size; gf_base := base;
     gf_alog := table_of_list al 0 (PositiveMap.empty Z);
     gf_log := table_of_list lg 0 (PositiveMap.empty Z) |}.

Definition library_fields : list gfield := map field_of_dump gfdump_all.

Fixpoint zseq (s : Z) (n : nat) : list Z :=
  match n with O => [] | S m => s :: zseq (s + 1) m end.

(* the tables of a field as lists *)
Definition field_tables (f : gfield) : list Z * list Z :=
  (map (tget (gf_alog f)) (zseq 0 (Z.to_nat (gf_size f))),
   map (tget (gf_log f)) (zseq 0 (Z.to_nat (gf_size f)))).

Definition dump_matches (d : Z * Z * list Z * list Z) (p : Z * Z * Z) : bool :=
  let '(size, base, al, lg) := d in
  let '(pp, size', base') := p in
  let f := gf_new pp size' base' in
  (size =? size') && (base =? base')
  && (length al =? Z.to_nat size)%nat && (length lg =? Z.to_nat size)%nat
  && forallb (fun q => fst q =? snd q) (combine al (fst (field_tables f)))
  && forallb (fun q => fst q =? snd q) (combine lg (snd (field_tables f))).

(* textbook multiplication: for each bit of b from the top, double (reducing by
   pp when the degree reaches m) and add a *)
Fixpoint clmul (pp size : Z) (nbits : nat) (a b : Z) : Z :=
  match nbits with
  | O => 0
  | S k =>
    let acc := clmul pp size k a (Z.shiftr b 1) in
    let dbl := 2 * acc in
    let red := if dbl >=? size then Z.lxor dbl pp else dbl in
    if Z.odd b then Z.lxor red a else red
  end.
