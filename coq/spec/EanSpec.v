(* Specification of EAN-8 / EAN-13 written from the GS1 General Specifications
   (section 5.2: symbol structure, number sets A/B/C, auxiliary patterns; section
   7.9: check digit), NOT from the encoder.  Names: L = number set A (odd parity),
   G = number set B, R = number set C. *)
From Verif Require Import Prelude Barcode.

(* ---------- check digit (GS1 modulo 10) ---------- *)
(* Weighted sum over the data digits: the digit with an even number of digits
   to its right (the rightmost, third from the right, ...) has weight 3, the
   others weight 1. *)
Fixpoint gs1_sum (ds : list Z) : Z :=
  match ds with
  | [] => 0
  | d :: t => (if Nat.even (length t) then 3 else 1) * d + gs1_sum t
  end.

(* the check digit brings the total to a multiple of ten *)
Definition gs1_check (ds : list Z) : Z := (10 - gs1_sum ds mod 10) mod 10.

(* ---------- number sets ---------- *)
(* o = light module, X = dark module *)
Local Notation o := false.
Local Notation X := true.

(* number set A ("L", left odd parity); index = digit *)
Definition ean_L : list (list bool) :=
  [ [o;o;o;X;X;o;X];   (* 0 *)
    [o;o;X;X;o;o;X];   (* 1 *)
    [o;o;X;o;o;X;X];   (* 2 *)
    [o;X;X;X;X;o;X];   (* 3 *)
    [o;X;o;o;o;X;X];   (* 4 *)
    [o;X;X;o;o;o;X];   (* 5 *)
    [o;X;o;X;X;X;X];   (* 6 *)
    [o;X;X;X;o;X;X];   (* 7 *)
    [o;X;X;o;X;X;X];   (* 8 *)
    [o;o;o;X;o;X;X] ]. (* 9 *)

(* number set C ("R") is the complement of A; number set B ("G") is C mirrored *)
Definition ean_R : list (list bool) := map (map negb) ean_L.
Definition ean_G : list (list bool) := map (@rev bool) ean_R.

Inductive eset := SetL | SetG | SetR.

Definition eset_eqb (a b : eset) : bool :=
  match a, b with
  | SetL, SetL | SetG, SetG | SetR, SetR => true
  | _, _ => false
  end.

Definition ean_set (s : eset) : list (list bool) :=
  match s with SetL => ean_L | SetG => ean_G | SetR => ean_R end.

(* the 7 modules of digit d in number set s *)
Definition ean_code (s : eset) (d : Z) : list bool := nth (Z.to_nat d) (ean_set s) [].

(* EAN-13: number sets of the six left-half digits as a function of the
   implicit first digit (true = G / set B, false = L / set A) *)
Definition ean_parity : list (list bool) :=
  [ [o;o;o;o;o;o];   (* 0  LLLLLL *)
    [o;o;X;o;X;X];   (* 1  LLGLGG *)
    [o;o;X;X;o;X];   (* 2  LLGGLG *)
    [o;o;X;X;X;o];   (* 3  LLGGGL *)
    [o;X;o;o;X;X];   (* 4  LGLLGG *)
    [o;X;X;o;o;X];   (* 5  LGGLLG *)
    [o;X;X;X;o;o];   (* 6  LGGGLL *)
    [o;X;o;X;o;X];   (* 7  LGLGLG *)
    [o;X;o;X;X;o];   (* 8  LGLGGL *)
    [o;X;X;o;X;o] ]. (* 9  LGGLGL *)

Definition ean_parity_row (d : Z) : list bool := nth (Z.to_nat d) ean_parity [].

(* what the source table of an encoder must contain: for each digit character
   its three codes and its parity row *)
Definition ean_standard_table : list (Z * (list bool * list bool * list bool * list bool)) :=
  map (fun d => (48 + d, (ean_code SetL d, ean_code SetG d, ean_code SetR d, ean_parity_row d)))
      [0; 1; 2; 3; 4; 5; 6; 7; 8; 9].

(* auxiliary patterns *)
Definition ean_normal_guard : list bool := [X;o;X].
Definition ean_centre_guard : list bool := [o;X;o;X;o].

(* ---------- reference decoder ---------- *)
Fixpoint bits_eqb (a b : list bool) : bool :=
  match a, b with
  | [], [] => true
  | x :: a', y :: b' => Bool.eqb x y && bits_eqb a' b'
  | _, _ => false
  end.

(* position of a 7-module group in a number set *)
Fixpoint find_code (tbl : list (list bool)) (g : list bool) (i : Z) : option Z :=
  match tbl with
  | [] => None
  | c :: t => if bits_eqb c g then Some i else find_code t g (i + 1)
  end.

(* a 7-module group read as (number set, digit) *)
Definition decode_digit (g : list bool) : option (eset * Z) :=
  match find_code ean_L g 0 with
  | Some d => Some (SetL, d)
  | None =>
    match find_code ean_G g 0 with
    | Some d => Some (SetG, d)
    | None =>
      match find_code ean_R g 0 with
      | Some d => Some (SetR, d)
      | None => None
      end
    end
  end.

(* read n consecutive 7-module groups; returns them and the remaining modules *)
Fixpoint decode_groups (n : nat) (m : list bool) : option (list (eset * Z) * list bool) :=
  match n with
  | O => Some ([], m)
  | S k =>
    match decode_digit (firstn 7 m) with
    | None => None
    | Some sd =>
      match decode_groups k (skipn 7 m) with
      | None => None
      | Some (sds, rest) => Some (sd :: sds, rest)
      end
    end
  end.

(* remove a fixed pattern from the front *)
Fixpoint strip_prefix (p m : list bool) : option (list bool) :=
  match p, m with
  | [], _ => Some m
  | x :: p', y :: m' => if Bool.eqb x y then strip_prefix p' m' else None
  | _ :: _, [] => None
  end.

(* guard | n groups | centre | n groups | guard, nothing else *)
Definition ean_split (n : nat) (m : list bool)
  : option (list (eset * Z) * list (eset * Z)) :=
  match strip_prefix ean_normal_guard m with
  | None => None
  | Some m1 =>
    match decode_groups n m1 with
    | None => None
    | Some (lft, m2) =>
      match strip_prefix ean_centre_guard m2 with
      | None => None
      | Some m3 =>
        match decode_groups n m3 with
        | None => None
        | Some (rgt, m4) =>
          if bits_eqb m4 ean_normal_guard then Some (lft, rgt) else None
        end
      end
    end
  end.

Definition all_in_set (s : eset) (sds : list (eset * Z)) : bool :=
  forallb (fun sd => eset_eqb (fst sd) s) sds.

(* EAN-8: 67 modules, four set-A digits, four set-C digits *)
Definition ean8_decode (m : list bool) : option (list Z) :=
  match ean_split 4 m with
  | None => None
  | Some (lft, rgt) =>
    if all_in_set SetL lft && all_in_set SetR rgt
    then Some (map snd lft ++ map snd rgt) else None
  end.

(* EAN-13: 95 modules; the left half mixes sets A and B, the pattern gives the
   first digit; the right half is set C *)
Definition ean13_decode (m : list bool) : option (list Z) :=
  match ean_split 6 m with
  | None => None
  | Some (lft, rgt) =>
    if forallb (fun sd => negb (eset_eqb (fst sd) SetR)) lft && all_in_set SetR rgt then
      match find_code ean_parity (map (fun sd => eset_eqb (fst sd) SetG) lft) 0 with
      | None => None
      | Some d0 => Some (d0 :: map snd lft ++ map snd rgt)
      end
    else None
  end.

(* structural validator: module count and the three guard patterns in place *)
Definition ean_frame_ok (m : list bool) : bool :=
  let n := length m in
  let half := if (n =? 67)%nat then 28%nat else 42%nat in
  ((n =? 67)%nat || (n =? 95)%nat)
  && bits_eqb (firstn 3 m) ean_normal_guard
  && bits_eqb (firstn 5 (skipn (3 + half) m)) ean_centre_guard
  && bits_eqb (skipn (3 + half + 5 + half) m) ean_normal_guard.

Definition ean_decode (m : list bool) : option (list Z) :=
  if (length m =? 67)%nat then ean8_decode m
  else if (length m =? 95)%nat then ean13_decode m
  else None.

(* ---------- which inputs are representable, and as what ---------- *)
Definition digits_of (s : list Z) : list Z := map digit_val s.
Definition chars_of (ds : list Z) : list Z := map (fun d => d + 48) ds.
Definition all_digits (s : list Z) : bool := forallb is_digit s.

(* an input string is representable when it consists of 7 or 12 ASCII digits, or
   of 8 or 13 ASCII digits the last of which is the GS1 check digit of the others *)
Definition ean_representable (s : list Z) : bool :=
  let n := length s in
  all_digits s &&
  ((n =? 7)%nat || (n =? 12)%nat ||
   (((n =? 8)%nat || (n =? 13)%nat) &&
    (last (digits_of s) 0 =? gs1_check (removelast (digits_of s))))).

(* the full number the symbol must carry *)
Definition ean_full_number (s : list Z) : list Z :=
  let n := length s in
  if (n =? 7)%nat || (n =? 12)%nat then digits_of s ++ [gs1_check (digits_of s)]
  else digits_of s.
