(* Executable model of /repo/utils/galoisfield.go, gfpoly.go, reedsolomon.go.
   No proofs here.  Tables are PositiveMaps (O(log n) lookup) so that the
   extracted Reed-Solomon encoder is fast; lookups outside a table return 0 and
   proofs/GFP.v shows that no lookup of the modelled code is ever out of range
   for in-range operands (so the Go code does not panic there). *)
From Coq Require Import FMapPositive.
From Verif Require Import Prelude.

Definition table := PositiveMap.t Z.

Definition tget (t : table) (i : Z) : Z :=
  if i <? 0 then 0 else
  match PositiveMap.find (Z.to_pos (i + 1)) t with Some v => v | None => 0 end.

Definition tset (t : table) (i : Z) (v : Z) : table :=
  PositiveMap.add (Z.to_pos (i + 1)) v t.

Record gfield := {
  gf_size : Z;
  gf_base : Z;
  gf_alog : table;   (* ALogTbl, indices 0..size-1 *)
  gf_log : table     (* LogTbl,  indices 0..size-1 *)
}.

(* NewGaloisField(pp, fieldSize, b) *)
Fixpoint gf_fill_alog (n : nat) (i x pp size : Z) (t : table) : table :=
  match n with
  | O => t
  | S m =>
    let t' := tset t i x in
    let x2 := x * 2 in
    let x' := if x2 >=? size then Z.land (Z.lxor x2 pp) (size - 1) else x2 in
    gf_fill_alog m (i + 1) x' pp size t'
  end.

Fixpoint gf_fill_log (n : nat) (i : Z) (alog : table) (t : table) : table :=
  match n with
  | O => t
  | S m => gf_fill_log m (i + 1) alog (tset t (tget alog i) i)
  end.

Definition gf_new (pp size b : Z) : gfield :=
  let alog := gf_fill_alog (Z.to_nat size) 0 1 pp size (PositiveMap.empty Z) in
  let log := gf_fill_log (Z.to_nat size) 0 alog (PositiveMap.empty Z) in
  {| gf_size := size; gf_base := b; gf_alog := alog; gf_log := log |}.

Definition gf_add (a b : Z) : Z := Z.lxor a b.

(* Multiply: (LogTbl[a]+LogTbl[b]) % (Size-1); operands are non-negative so Go's
   % is the mathematical mod *)
Definition gf_mul (f : gfield) (a b : Z) : Z :=
  if (a =? 0) || (b =? 0) then 0
  else tget (gf_alog f) ((tget (gf_log f) a + tget (gf_log f) b) mod (gf_size f - 1)).

(* Divide: panics on b = 0.  (LogTbl[a]-LogTbl[b]+Size-1) % (Size-1) with Go's
   truncating %; the dividend is non-negative after the fix, so rem = mod *)
Definition gf_div (f : gfield) (a b : Z) : outcome Z :=
  if b =? 0 then Panic
  else if a =? 0 then Ok 0
  else Ok (tget (gf_alog f)
             (go_mod (tget (gf_log f) a - tget (gf_log f) b + gf_size f - 1) (gf_size f - 1))).

Definition gf_inv (f : gfield) (a : Z) : Z :=
  tget (gf_alog f) ((gf_size f - 1) - tget (gf_log f) a).

(* ---------- gfpoly.go : coefficient lists, highest degree first ---------- *)
Definition poly := list Z.

(* NewGFPoly: strip leading zeros while len > 1 *)
Fixpoint poly_norm (c : list Z) : poly :=
  match c with
  | x :: ((_ :: _) as t) => if x =? 0 then poly_norm t else c
  | _ => c
  end.

Definition poly_zero : poly := [0].
Definition poly_degree (p : poly) : Z := zlength p - 1.
(* Zero(): Coefficients[0] == 0 ; an empty coefficient slice would panic *)
Definition poly_is_zero (p : poly) : bool :=
  match p with x :: _ => x =? 0 | [] => true end.

(* element-wise xor of two equally long lists *)
Fixpoint xor_lists (a b : list Z) : list Z :=
  match a, b with
  | x :: a', y :: b' => Z.lxor x y :: xor_lists a' b'
  | _, _ => []
  end.

(* AddOrSubstract *)
Definition poly_add (p q : poly) : poly :=
  if poly_is_zero p then q
  else if poly_is_zero q then p
  else
    let '(small, large) := if Nat.ltb (length q) (length p) then (q, p) else (p, q) in
    let d := (length large - length small)%nat in
    poly_norm (firstn d large ++ xor_lists small (skipn d large)).

(* MultByMonominal(degree, coeff) *)
Definition poly_mul_mono (f : gfield) (p : poly) (degree : nat) (coeff : Z) : poly :=
  if coeff =? 0 then poly_zero
  else poly_norm (map (fun c => gf_mul f c coeff) p ++ repeat 0 degree).

(* Multiply: product[i+j] ^= a[i]*b[j] *)
Fixpoint poly_mul_row (f : gfield) (ac : Z) (b : list Z) (acc : list Z) : list Z :=
  match b, acc with
  | bc :: b', x :: acc' => Z.lxor x (gf_mul f ac bc) :: poly_mul_row f ac b' acc'
  | _, _ => acc
  end.

Fixpoint poly_mul_rows (f : gfield) (a b : list Z) (acc : list Z) : list Z :=
  match a with
  | [] => acc
  | ac :: a' =>
    match poly_mul_row f ac b acc with
    | x :: rest => x :: poly_mul_rows f a' b rest
    | [] => []
    end
  end.

Definition poly_mul (f : gfield) (p q : poly) : poly :=
  if poly_is_zero p || poly_is_zero q then poly_zero
  else poly_norm (poly_mul_rows f p q (repeat 0 (length p + length q - 1))).

(* NewMonominalPoly *)
Definition poly_monomial (degree : nat) (coeff : Z) : poly :=
  if coeff =? 0 then poly_zero else coeff :: repeat 0 degree.

(* GetCoefficient(Degree()) = Coefficients[0] *)
Definition poly_lead (p : poly) : Z := match p with x :: _ => x | [] => 0 end.

(* Divide: loop while remainder.Degree() >= other.Degree() && !remainder.Zero() *)
Fixpoint poly_div_loop (f : gfield) (fuel : nat) (other : poly) (inv_lead : Z)
         (quot rem : poly) : outcome (poly * poly) :=
  if Nat.leb (length other) (length rem) && negb (poly_is_zero rem) then
    match fuel with
    | O => OutOfFuel
    | S fuel' =>
      let dd := (length rem - length other)%nat in
      let scale := gf_mul f (poly_lead rem) inv_lead in
      let term := poly_mul_mono f other dd scale in
      let itq := poly_monomial dd scale in
      poly_div_loop f fuel' other inv_lead (poly_add quot itq) (poly_add rem term)
    end
  else Ok (quot, rem).

Definition poly_div (f : gfield) (p other : poly) : outcome (poly * poly) :=
  match other with
  | [] => Panic
  | _ => poly_div_loop f (S (length p)) other (gf_inv f (poly_lead other)) poly_zero p
  end.

(* ---------- reedsolomon.go ---------- *)
(* the generator cache: polynomes[d] = prod_{i<d} (x + alog(i + base)) *)
Definition rs_cache := list poly.
Definition rs_init : rs_cache := [[1]].

Fixpoint rs_extend (f : gfield) (n : nat) (d : Z) (last : poly) (acc : list poly) : list poly * poly :=
  match n with
  | O => (acc, last)
  | S m =>
    let next := poly_mul f last (poly_norm [1; tget (gf_alog f) (d - 1 + gf_base f)]) in
    rs_extend f m (d + 1) next (next :: acc)
  end.

(* getPolynomial(degree): returns the new cache and the generator *)
Definition rs_get_poly (f : gfield) (cache : rs_cache) (degree : Z) : outcome (rs_cache * poly) :=
  if degree <? 0 then Panic else
  let len := zlength cache in
  let cache' :=
    if degree >=? len then
      match last cache [] with
      | last_p =>
        let '(added_rev, _) := rs_extend f (Z.to_nat (degree - len + 1)) len last_p [] in
        cache ++ rev added_rev
      end
    else cache in
  match nth_error cache' (Z.to_nat degree) with
  | Some g => Ok (cache', g)
  | None => Panic
  end.

(* Encode(data, eccCount) *)
Definition rs_encode (f : gfield) (cache : rs_cache) (data : list Z) (ecc : Z)
  : outcome (rs_cache * list Z) :=
  do (cache', gen) <- rs_get_poly f cache ecc;
  let info := poly_mul_mono f (poly_norm data) (Z.to_nat ecc) 1 in
  do (_, rem) <- poly_div f info gen;
  let numZero := ecc - zlength rem in
  if numZero <? 0 then Panic
  else Ok (cache', repeat 0 (Z.to_nat numZero) ++ rem).

(* the history-free specification of Encode: always from the initial cache *)
Definition rs_encode_fresh (f : gfield) (data : list Z) (ecc : Z) : outcome (list Z) :=
  do (_, r) <- rs_encode f rs_init data ecc; Ok r.

(* polynomial evaluation (Horner), highest coefficient first *)
Definition poly_eval (f : gfield) (p : list Z) (x : Z) : Z :=
  fold_left (fun acc c => Z.lxor (gf_mul f acc x) c) p 0.
