(* Prelude: common imports, Go integer semantics, outcome type. No axioms. *)
From Coq Require Export List ZArith NArith Bool Lia.
From Coq Require Export ZifyBool ZifyNat ZifyN.
Export ListNotations.

#[global] Open Scope Z_scope.

(* Outcome of a modelled Go call: every partial Go operation (index out of
   range, explicit panic, nil dereference) is an explicit Panic; error returns
   are Err; exhausted fuel is OutOfFuel (excluded by theorems). *)
Inductive outcome (A : Type) : Type :=
| Ok (a : A)
| Err
| Panic
| OutOfFuel.
Arguments Ok {A} a.
Arguments Err {A}.
Arguments Panic {A}.
Arguments OutOfFuel {A}.

Definition obind {A B} (o : outcome A) (f : A -> outcome B) : outcome B :=
  match o with
  | Ok a => f a
  | Err => Err
  | Panic => Panic
  | OutOfFuel => OutOfFuel
  end.

Notation "'do' x <- o ; f" := (obind o (fun x => f))
  (at level 200, x pattern, o at level 100, f at level 200, right associativity).

(* Go integer division and remainder truncate toward zero. *)
Definition go_div (a b : Z) : Z := Z.quot a b.
Definition go_mod (a b : Z) : Z := Z.rem a b.

(* int32 wrap-around *)
Definition wrap32 (z : Z) : Z := (z + 2147483648) mod 4294967296 - 2147483648.

(* list helpers used by executable models: total, linear *)
Fixpoint nth_Z {A} (l : list A) (i : nat) : option A :=
  match l, i with
  | [], _ => None
  | x :: _, O => Some x
  | _ :: t, S j => nth_Z t j
  end.

Definition zlength {A} (l : list A) : Z := Z.of_nat (length l).

(* index a list with a Z; None if out of range (Go would panic) *)
Definition zget {A} (l : list A) (i : Z) : option A :=
  if i <? 0 then None else nth_error l (Z.to_nat i).

Fixpoint set_nth {A} (l : list A) (i : nat) (v : A) : list A :=
  match l, i with
  | [], _ => []
  | _ :: t, O => v :: t
  | x :: t, S j => x :: set_nth t j v
  end.

Lemma set_nth_length {A} (l : list A) i v : length (set_nth l i v) = length l.
Proof. revert i; induction l as [|x l IH]; intros [|i]; simpl; auto. Qed.

Lemma nth_error_set_nth_eq {A} (l : list A) i v :
  (i < length l)%nat -> nth_error (set_nth l i v) i = Some v.
Proof.
  revert i; induction l as [|x l IH]; intros [|i] H; simpl in *; try lia; auto.
  apply IH; lia.
Qed.

Lemma nth_error_set_nth_neq {A} (l : list A) i j v :
  i <> j -> nth_error (set_nth l i v) j = nth_error l j.
Proof.
  revert i j; induction l as [|x l IH]; intros [|i] [|j] H; simpl; auto; try congruence.
Qed.
