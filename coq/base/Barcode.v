(* Common result type of all encoder models: what a barcode.Barcode exposes. *)
From Verif Require Import Prelude.

Inductive kind :=
| KAztec | KCodabar | KCode128 | KCode39 | KCode93 | KDataMatrix
| KEAN8 | KEAN13 | KPDF | KQR | K2of5 | K2of5I.

(* barcode.go: the Type* string constants *)
Definition kind_dims (k : kind) : Z :=
  match k with
  | KAztec | KDataMatrix | KPDF | KQR => 2
  | _ => 1
  end.

Record barcode := {
  bc_kind : kind;              (* Metadata().CodeKind *)
  bc_content : list Z;         (* Content() as bytes *)
  bc_checksum : option Z;      (* CheckSum() when the barcode is a BarcodeIntCS *)
  bc_width : Z;                (* Bounds().Max.X, Min is (0,0) *)
  bc_height : Z;               (* Bounds().Max.Y *)
  bc_rows : list (list bool)   (* bc_height rows of bc_width modules, true = foreground *)
}.

(* a 1-D code: one row of modules *)
Definition mk1d (k : kind) (content : list Z) (cs : option Z) (bits : list bool) : barcode :=
  {| bc_kind := k; bc_content := content; bc_checksum := cs;
     bc_width := zlength bits; bc_height := 1; bc_rows := [bits] |}.

(* strings are lists of bytes (Z in 0..255); ASCII helpers *)
Definition is_digit (c : Z) : bool := (48 <=? c) && (c <=? 57).
Definition digit_val (c : Z) : Z := c - 48.

(* utils.RuneToInt / IntToRune *)
Definition rune_to_int (r : Z) : Z := if is_digit r then r - 48 else -1.
Definition int_to_rune (i : Z) : Z := if (0 <=? i) && (i <=? 9) then i + 48 else 70.
