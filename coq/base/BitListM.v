(* Executable model of /repo/utils/bitlist.go.  No proofs here.
   Words are Go int32 values represented as Z (two's complement via Z.lor /
   Z.land / Z.lnot / Z.shiftr; the only wrap is 1<<31 which is written out). *)
From Verif Require Import Prelude.

Record bitlist := { bl_count : Z; bl_data : list Z }.

(* NewBitList(capacity): make panics on negative length *)
Definition bl_new (capacity : Z) : outcome bitlist :=
  if capacity <? 0 then Panic else
  let x := if go_mod capacity 32 =? 0 then 0 else 1 in
  Ok {| bl_count := capacity;
        bl_data := repeat 0 (Z.to_nat (go_div capacity 32 + x)) |}.

Definition bl_len (bl : bitlist) : Z := bl_count bl.

(* grow(): growBy = len; <128 -> 128; >=1024 -> 1024 *)
Definition bl_grow (bl : bitlist) : bitlist :=
  let n := zlength (bl_data bl) in
  let growBy := if n <? 128 then 128 else if n >=? 1024 then 1024 else n in
  {| bl_count := bl_count bl;
     bl_data := bl_data bl ++ repeat 0 (Z.to_nat growBy) |}.

(* SetBit(index, value) : index/32 and 31 - index%32 with Go semantics *)
Definition bl_setbit (bl : bitlist) (index : Z) (value : bool) : outcome bitlist :=
  let itm := go_div index 32 in
  let sh := 31 - go_mod index 32 in
  match zget (bl_data bl) itm with
  | None => Panic
  | Some w =>
    (* for a negative index with itm = 0 the shift count uint(sh) exceeds 31 and
       the int32 shift yields 0; that case is folded into wrap32 *)
    let mask := wrap32 (Z.shiftl 1 sh) in
    let w' := if value then Z.lor w mask else Z.land w (Z.lnot mask) in
    Ok {| bl_count := bl_count bl;
          bl_data := set_nth (bl_data bl) (Z.to_nat itm) w' |}
  end.

Definition bl_getbit (bl : bitlist) (index : Z) : outcome bool :=
  let itm := go_div index 32 in
  let sh := 31 - go_mod index 32 in
  match zget (bl_data bl) itm with
  | None => Panic
  | Some w => Ok (Z.land (Z.shiftr w sh) 1 =? 1)
  end.

(* for itmIndex >= len(data) { grow() } ; at most 1 iteration is ever needed
   because grow adds >= 128 words; modelled with fuel 2 *)
Definition bl_addbit (bl : bitlist) (bit : bool) : outcome bitlist :=
  let itm := go_div (bl_count bl) 32 in
  let bl1 := if itm >=? zlength (bl_data bl) then bl_grow bl else bl in
  if itm >=? zlength (bl_data bl1) then OutOfFuel else
  do bl2 <- bl_setbit bl1 (bl_count bl1) bit;
  Ok {| bl_count := bl_count bl2 + 1; bl_data := bl_data bl2 |}.

Fixpoint bl_addbits_list (bl : bitlist) (bits : list bool) : outcome bitlist :=
  match bits with
  | [] => Ok bl
  | b :: t => do bl1 <- bl_addbit bl b; bl_addbits_list bl1 t
  end.

(* bits of v from index k-1 down to 0.  Go: (v >> uint(i)) & 1 == 1 on a 64-bit
   int; that is bit i of v's two's-complement representation, Z.testbit v i
   (for i >= 64 both give the sign bit). *)
Fixpoint msb_bits (k : nat) (v : Z) : list bool :=
  match k with
  | O => []
  | S j => Z.testbit v (Z.of_nat j) :: msb_bits j v
  end.

(* AddByte(b byte): b in 0..255 *)
Definition bl_addbyte (bl : bitlist) (b : Z) : outcome bitlist :=
  bl_addbits_list bl (msb_bits 8 b).

(* AddBits(b int, count byte): count in 0..255 *)
Definition bl_addbits (bl : bitlist) (b : Z) (count : Z) : outcome bitlist :=
  bl_addbits_list bl (msb_bits (Z.to_nat count) b).

(* GetBytes *)
Definition bl_nbytes (bl : bitlist) : Z :=
  Z.shiftr (bl_count bl) 3 + (if go_mod (bl_count bl) 8 =? 0 then 0 else 1).

Fixpoint bl_getbytes_from (data : list Z) (i : Z) (n : nat) : outcome (list Z) :=
  match n with
  | O => Ok []
  | S m =>
    let shift := (3 - go_mod i 4) * 8 in
    match zget data (go_div i 4) with
    | None => Panic
    | Some w =>
      do rest <- bl_getbytes_from data (i + 1) m;
      Ok (Z.land (Z.shiftr w shift) 255 :: rest)
    end
  end.

Definition bl_getbytes (bl : bitlist) : outcome (list Z) :=
  bl_getbytes_from (bl_data bl) 0 (Z.to_nat (bl_nbytes bl)).

(* IterateBytes: the producer goroutine's send sequence (c = count; while c>0:
   send; c -= 8).  Same indices as GetBytes. *)
Fixpoint bl_iter_from (data : list Z) (c : Z) (shift : Z) (i : Z) (fuel : nat)
  : outcome (list Z) :=
  if c <=? 0 then Ok [] else
  match fuel with
  | O => OutOfFuel
  | S f =>
    match zget data i with
    | None => Panic
    | Some w =>
      let b := Z.land (Z.shiftr w shift) 255 in
      let shift' := shift - 8 in
      do rest <- (if shift' <? 0 then bl_iter_from data (c - 8) 24 (i + 1) f
                  else bl_iter_from data (c - 8) shift' i f);
      Ok (b :: rest)
    end
  end.

Definition bl_iterbytes (bl : bitlist) : outcome (list Z) :=
  bl_iter_from (bl_data bl) (bl_count bl) 24 0 (Z.to_nat (bl_count bl)).

(* ---------- operation histories ---------- *)
Inductive blop :=
| OpAddBit (b : bool)
| OpAddByte (b : Z)
| OpAddBits (v : Z) (k : Z)
| OpSetBit (i : Z) (b : bool)
| OpGetBit (i : Z)
| OpLen
| OpGetBytes
| OpIterBytes.

Inductive blout :=
| OutNone
| OutBool (b : bool)
| OutInt (z : Z)
| OutBytes (l : list Z)
| OutPanic.

Definition bl_step (bl : bitlist) (o : blop) : outcome (bitlist * blout) :=
  match o with
  | OpAddBit b => do bl' <- bl_addbit bl b; Ok (bl', OutNone)
  | OpAddByte b => do bl' <- bl_addbyte bl b; Ok (bl', OutNone)
  | OpAddBits v k => do bl' <- bl_addbits bl v k; Ok (bl', OutNone)
  | OpSetBit i b => do bl' <- bl_setbit bl i b; Ok (bl', OutNone)
  | OpGetBit i => do r <- bl_getbit bl i; Ok (bl, OutBool r)
  | OpLen => Ok (bl, OutInt (bl_len bl))
  | OpGetBytes => do r <- bl_getbytes bl; Ok (bl, OutBytes r)
  | OpIterBytes => do r <- bl_iterbytes bl; Ok (bl, OutBytes r)
  end.

Fixpoint bl_run (bl : bitlist) (ops : list blop) : outcome (bitlist * list blout) :=
  match ops with
  | [] => Ok (bl, [])
  | o :: t =>
    do (bl1, out) <- bl_step bl o;
    do (bl2, outs) <- bl_run bl1 t;
    Ok (bl2, out :: outs)
  end.

Definition bl_history (n : Z) (ops : list blop) : outcome (bitlist * list blout) :=
  do bl <- bl_new n; bl_run bl ops.

(* ---------- abstract specification: a growable sequence of booleans ---------- *)
(* byte i of a bit sequence: bits 8i..8i+7, MSB first, missing bits are 0 *)
Definition byte_at (l : list bool) (i : nat) : Z :=
  let g m := Z.b2z (nth (8 * i + m) l false) in
  128 * g 0%nat + 64 * g 1%nat + 32 * g 2%nat + 16 * g 3%nat
  + 8 * g 4%nat + 4 * g 5%nat + 2 * g 6%nat + g 7%nat.

Definition pack8 (l : list bool) : list Z :=
  map (byte_at l) (seq 0 ((length l + 7) / 8)).

Definition spec_step (l : list bool) (o : blop) : list bool * blout :=
  match o with
  | OpAddBit b => (l ++ [b], OutNone)
  | OpAddByte b => (l ++ map (fun i => Z.testbit b (Z.of_nat i)) (rev (seq 0 8)), OutNone)
  | OpAddBits v k =>
    (l ++ map (fun i => Z.testbit v (Z.of_nat i)) (rev (seq 0 (Z.to_nat k))), OutNone)
  | OpSetBit i b => (set_nth l (Z.to_nat i) b, OutNone)
  | OpGetBit i => (l, OutBool (nth (Z.to_nat i) l false))
  | OpLen => (l, OutInt (zlength l))
  | OpGetBytes => (l, OutBytes (pack8 l))
  | OpIterBytes => (l, OutBytes (pack8 l))
  end.

Fixpoint spec_run (l : list bool) (ops : list blop) : list bool * list blout :=
  match ops with
  | [] => (l, [])
  | o :: t =>
    let '(l1, out) := spec_step l o in
    let '(l2, outs) := spec_run l1 t in
    (l2, out :: outs)
  end.

(* an operation is inside the property's domain for a sequence of length n *)
Definition op_valid (n : Z) (o : blop) : bool :=
  match o with
  | OpSetBit i _ | OpGetBit i => (0 <=? i) && (i <? n)
  | OpAddBits _ k => (0 <=? k) && (k <=? 255)
  | OpAddByte b => (0 <=? b) && (b <=? 255)
  | _ => true
  end.

Fixpoint ops_valid (l : list bool) (ops : list blop) : bool :=
  match ops with
  | [] => true
  | o :: t => op_valid (zlength l) o && ops_valid (fst (spec_step l o)) t
  end.

(* abstraction function: the first count bits, read through GetBit *)
Fixpoint bl_abs_from (bl : bitlist) (i : Z) (n : nat) : list bool :=
  match n with
  | O => []
  | S m => (match bl_getbit bl i with Ok b => b | _ => false end) :: bl_abs_from bl (i + 1) m
  end.

Definition bl_abs (bl : bitlist) : list bool :=
  bl_abs_from bl 0 (Z.to_nat (bl_count bl)).
