"""C16 — Encoders are safe for concurrent use and leave nothing running."""
from common import *
import jobs as J

PID = "C16"
PROPS = "props/C16.v"
GOFILES = ["all.go"]
GOTAB = ["qr.go"]   # C16_qr_producer_always_finishes rests on the QR capacity tables


def run_gosync():
    d = os.path.join(VERIF, "go", "gosync")
    exe = os.path.join(BUILD, "gosync")
    with Lock("gosync"):
        rc, out = sh(["go", "build", "-o", exe, "."], cwd=d, env=GOENV, timeout=600)
        if rc != 0:
            raise BuildError("gosync build", out)
        with Lock("gen"):
            rc, out = sh([exe, os.path.join(COQ, "gen", "TabSync.v")], cwd=REPO, env=GOENV, timeout=600)
        if rc != 0:
            raise BuildError("gosync run (source no longer parses / type-checks)", out)
    return out.strip()


def setup():
    build_race()


def build_race():
    name = "impl_race_" + PID
    env = dict(GOENV, CGO_ENABLED="1")
    with Lock(name):
        rc, out = sh(["go", "build", "-race", "-tags", "verif", "-o", os.path.join(BUILD, name), "main.go", "util.go"] + GOFILES,
                     cwd=os.path.join(VERIF, "go", "impl"), env=env, timeout=900)
        if rc != 0:
            raise BuildError("race-detector build of the harness", out)
    return os.path.join(BUILD, name)


def run_par(exe, lines, g, procs, timeout=900):
    p = subprocess.run([exe, "-par", str(g), "-procs", str(procs)], input=("\n".join(lines) + "\n").encode(),
                       stdout=subprocess.PIPE, stderr=subprocess.PIPE, timeout=timeout,
                       env=dict(os.environ, GORACE="halt_on_error=0 exitcode=66"))
    out = p.stdout.decode("utf-8", "replace").split("\n")
    if out and out[-1] == "":
        out.pop()
    return p.returncode, out, p.stderr.decode("utf-8", "replace")


def main(tier, seed):
    rep = Report(PID, tier, seed)
    rng = rng_for(seed, PID)
    broken = []
    bad = grep_gate()
    if bad:
        broken.append(("grep-gate", "; ".join(bad[:5])))
    try:
        rep.cov["translator"] = run_gosync()
    except BuildError as e:
        broken.append(("translator", e.what + ": " + first_error(e.log)))
    try:
        rep.cov["tables"] = run_gotab(sys.modules[__name__])
    except BuildError as e:
        broken.append(("translator", e.what + ": " + first_error(e.log)))
    ok, log = coq_build([PROPS[:-2] + ".vo"])
    info = parse_assumptions(PROPS, log)
    rep.cov["obligations"] = len(info["theorems"])
    rep.cov["theorems"] = info["theorems"]
    rep.cov["checker_cmd"] = "make -C /verif/coq props/C16.vo   (coqc 8.16.1, Print Assumptions under each theorem)"
    if ok and not info["axioms"] and info["closed"] >= len(info["printed"]):
        rep.cov["discharged"] = len(info["theorems"])
    else:
        rep.cov["discharged"] = 0 if not ok else info["closed"]
        broken.append(("theorem", "proof obligation no longer checks (structural facts of the source changed, or a proof broke): " + first_error(log)))

    # correspondence / failing-input search: concurrent runs under the race detector vs sequential runs
    found = []
    nruns = 0
    njobs_total = 0
    configs = [(2, 1), (8, 4), (64, 16)] if tier == "quick" else \
              [(2, 1), (2, 2), (3, 16), (8, 1), (8, 4), (16, 8), (32, 16), (64, 1), (64, 16)]
    reps = 2 if tier == "quick" else 6
    if broken:
        reps *= 3   # something no longer checks: search harder for a concrete failure
    njobs = 160 if tier == "quick" else 500
    try:
        impl = build_impl(sys.modules[__name__])
        race = build_race()
        samples = []
        dist = {}
        for r in range(reps):
            lines = J.jobs(rng, njobs)
            # QR contents at every length (hits every capacity boundary of the small versions: the
            # IterateBytes / splitToBlocks hand-over is exact only if the bit stream has exactly
            # 8*totalDataBytes bits) and the largest symbols
            for L in range(1, 130, 1 if r == 0 else 3):
                lines.append("enc qr %d 1 %s" % (rng.randrange(4), J.hx("".join(rng.choice("0123456789") for _ in range(L)))))
                if L < 90:
                    lines.append("enc qr %d 2 %s" % (rng.randrange(4), J.hx("".join(rng.choice(J.ALNUM) for _ in range(L)))))
            import held
            for tj in held.qr_tie_jobs():
                lines.append("enc " + tj)
                lines.append("enc " + tj)
            lines.append("enc qr 0 1 %s" % J.hx("7" * 7089))
            lines.append("enc qr 0 2 %s" % J.hx("A" * 4296))
            lines.append("enc az 33 0 %s" % J.hx("A" * 1600))
            rng.shuffle(lines)
            # sequential reference: each job in its own fresh process group of 40 (cold caches), no race build
            expected = run_lines(impl, lines, shards=NCPU)
            for l in lines:
                k = l.split()[1] if l.startswith("enc ") else l.split()[3]
                dist[k] = dist.get(k, 0) + 1
            for (g, p) in configs:
                rc, out, err = run_par(race, lines, g, p)
                nruns += 1
                njobs_total += len(lines)
                why = None
                if "DATA RACE" in err or rc == 66:
                    why = "race detector reports a data race"
                elif rc != 0:
                    why = "concurrent run crashed (exit %d)" % rc
                elif len(out) != len(lines) + 1 or not out[-1].startswith("GOROUTINES"):
                    why = "concurrent run produced %d lines for %d jobs" % (len(out), len(lines))
                else:
                    gb, ga = out[-1].split()[1:3]
                    if gb != ga:
                        why = "goroutines still alive after all calls returned: before=%s after=%s" % (gb, ga)
                    else:
                        diff = [i for i in range(len(lines)) if out[i] != expected[i]]
                        if diff:
                            why = "a concurrent call returned a different result than the same call alone: job %r gave %r, alone %r" % (
                                lines[diff[0]], out[diff[0]][:200], expected[diff[0]][:200])
                if why:
                    jf = os.path.join(VERIF, "replays", "C16-jobs-%d-%d.txt" % (seed, len(found)))
                    os.makedirs(os.path.dirname(jf), exist_ok=True)
                    open(jf, "w").write("\n".join(lines) + "\n")
                    found.append({"why": why, "goroutines": g, "gomaxprocs": p, "jobs_file": jf,
                                  "replay": "%s -par %d -procs %d < %s" % (race, g, p, jf), "stderr": err[-1500:]})
                    break
            if not samples:
                samples = [{"job": lines[i], "result": expected[i][:160]} for i in (0, len(lines) // 2)]
            if found:
                break
        rep.cov["samples"] = samples
        rep.cov["distribution"] = dist
    except BuildError as e:
        broken.append(("harness", e.what + ": " + first_error(e.log)))

    rep.cov["evaluations"] = njobs_total
    rep.cov["distinct_nontrivial"] = nruns
    rep.cov["rule"] = ("each evaluation = one encoder/Scale call executed inside a fresh process by G goroutines that start "
                       "simultaneously (cold generator caches), built with the Go race detector; configurations (G,GOMAXPROCS) = %s, %d job "
                       "sets of %d jobs over all 11 encoders; every result compared with the same call executed alone; goroutine count "
                       "before/after compared; distinct_nontrivial counts distinct concurrent process runs" % (configs, reps, njobs))
    if found:
        rep.violation({"kind": "concurrent use is not safe", **found[0], "broken": broken})
    elif broken:
        rep.violation({"kind": "proof obligation / structural fact no longer checks", "broken": broken,
                       "note": "race-detector stress (%d concurrent runs, %d calls) found no concrete failure" % (nruns, njobs_total)},
                      found_input=False)
    rep.assumptions = ["Go memory model, scheduler and race detector are not modelled; absence of data races in the compiled program is supported by the race-detector runs only",
                       "the thread program of the Coq model is built from the structural facts gosync extracts (lock first, deferred unlock, cache private, no mutated globals, goroutines close their channel last)"]
    return rep.finish()
