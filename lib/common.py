"""Shared machinery of the /verif checks: builds, differential runs, evidence.

Every check (one per property) does, in this order:
  1. regenerate coq/gen/Tab*.v from /repo's current working tree (gotab)
  2. coqc the property's theorem file (full .vo build through make)
  3. build the implementation harness (-tags verif, replace => /repo) and the
     extracted OCaml model/spec driver
  4. run generated cases through implementation, model and specification oracle
  5. on any break: search for a failing input, write a replay, print VIOLATION
  6. write evidence/<id>.json
"""
import fcntl
import hashlib
import json
import os
import random
import re
import subprocess
import sys
import time

VERIF = os.path.dirname(os.path.dirname(os.path.abspath(__file__)))
REPO = os.environ.get("VERIF_REPO", "/repo")
BUILD = os.path.join(VERIF, "build")
COQ = os.path.join(VERIF, "coq")
GOENV = dict(os.environ, GOFLAGS="-mod=mod", GOPROXY="off", GOSUMDB="off",
             GOTOOLCHAIN="local", CGO_ENABLED=os.environ.get("CGO_ENABLED", "0"))
NCPU = os.cpu_count() or 4

TRUSTED_BASE = [
    "Coq 8.16.1 kernel incl. vm_compute (no native_compute)",
    "axioms: none (Print Assumptions under every property theorem must say 'Closed under the global context')",
    "gotab translator (/verif/go/gotab): prints the tables of /repo's current source into coq/gen/Tab*.v",
    "extraction: Require Extraction + ExtrOcamlBasic only (bool, option, list, prod, unit, sumbool); no Extract Constant; N/Z/positive/nat stay inductive",
    "OCaml driver glue (/verif/ocaml/conv.ml, driver.ml) and Go harness (/verif/go/impl)",
    "correspondence check (differential run model vs implementation): sampled except on the finite sub-domains flagged exhaustive",
    "Go compiler/runtime, image/color, regexp, strconv, unicode/utf8: modelled, not verified",
]


class Lock:
    """exclusive lock around shared build directories"""

    def __init__(self, name):
        os.makedirs(BUILD, exist_ok=True)
        self.path = os.path.join(BUILD, name + ".lock")

    def __enter__(self):
        self.f = open(self.path, "w")
        fcntl.flock(self.f, fcntl.LOCK_EX)
        return self

    def __exit__(self, *a):
        fcntl.flock(self.f, fcntl.LOCK_UN)
        self.f.close()


def sh(cmd, cwd=None, env=None, timeout=3600, inp=None):
    p = subprocess.run(cmd, cwd=cwd, env=env, shell=isinstance(cmd, str),
                       stdout=subprocess.PIPE, stderr=subprocess.STDOUT,
                       timeout=timeout, input=inp)
    return p.returncode, p.stdout.decode("utf-8", "replace")


class BuildError(Exception):
    def __init__(self, what, log):
        super().__init__(what)
        self.what = what
        self.log = log


# --------------------------------------------------------------------------
# step 1: translator
def run_gotab(mod=None):
    """Regenerate coq/gen/Tab*.v from the current /repo tree (write-if-changed).
    mod.GOTAB lists the dumper files of go/gotab this property depends on
    (None = all)."""
    gotab_dir = os.path.join(VERIF, "go", "gotab")
    files = getattr(mod, "GOTAB", None) if mod is not None else None
    if files is not None and not files:
        return {"tables": "none needed"}
    if files is None:
        files = sorted(f for f in os.listdir(gotab_dir) if f.endswith(".go") and f != "main.go")
        name = "gotab"
    else:
        name = "gotab_" + mod.PID
    exe = os.path.join(BUILD, name)
    with Lock(name):
        rc, out = sh(["go", "build", "-tags", "verif", "-o", exe, "main.go"] + list(files),
                     cwd=gotab_dir, env=GOENV, timeout=600)
        if rc != 0:
            raise BuildError("gotab build (translator/hooks no longer compile against /repo)", out)
        with Lock("gen"):
            rc, out = sh([exe, os.path.join(COQ, "gen")], cwd=REPO, timeout=600)
        if rc != 0:
            raise BuildError("gotab run", out)
    return {"log": out.strip().splitlines()[-8:]}


def run_gosrc():
    """Translate the listed loop-free integer functions of /repo's current source into coq/gen/TabSrc.v."""
    d = os.path.join(VERIF, "go", "gosrc")
    exe = os.path.join(BUILD, "gosrc")
    with Lock("gosrc"):
        rc, out = sh(["go", "build", "-o", exe, "."], cwd=d, env=GOENV, timeout=600)
        if rc != 0:
            raise BuildError("gosrc build", out)
        with Lock("gen"):
            rc, out = sh([exe, os.path.join(COQ, "gen", "TabSrc.v")], cwd=REPO, env=GOENV, timeout=600)
        if rc != 0:
            raise BuildError("gosrc run (source no longer parses)", out)
    return out.strip()


# --------------------------------------------------------------------------
# step 2: Coq
def write_if_changed(path, text):
    try:
        if open(path).read() == text:
            return False
    except OSError:
        pass
    with open(path, "w") as f:
        f.write(text)
    return True


COQ_DIRS = ["base", "gen", "model", "spec", "proofs", "props"]


def gen_project_files():
    """_CoqProject lists all .v files under the source directories (generated)."""
    files = []
    for d in COQ_DIRS:
        dd = os.path.join(COQ, d)
        if os.path.isdir(dd):
            files += sorted("%s/%s" % (d, f) for f in os.listdir(dd) if f.endswith(".v") and not f.startswith("."))
    # the source-level tie (proofs/SrcFnP.v, props/SrcFns.v) needs gen/TabSrc.v, which go/gosrc writes (setup, C10)
    if not os.path.exists(os.path.join(COQ, "gen", "TabSrc.v")):
        files = [f for f in files if not os.path.basename(f).startswith("SrcFn")]
    proj = "".join("-Q %s Verif\n" % d for d in COQ_DIRS) + "".join(f + "\n" for f in files)
    return write_if_changed(os.path.join(COQ, "_CoqProject"), proj)


def find_module(name):
    for d in COQ_DIRS:
        if os.path.exists(os.path.join(COQ, d, name + ".v")):
            return "%s/%s" % (d, name)
    raise BuildError("extract list names unknown module " + name, "")


def coq_q_flags():
    fl = []
    for d in COQ_DIRS:
        fl += ["-Q", os.path.join(COQ, d), "Verif"]
    return fl


def coq_makefile():
    changed = gen_project_files()
    mk = os.path.join(COQ, "Makefile")
    if changed or not os.path.exists(mk):
        rc, out = sh("coq_makefile -f _CoqProject -o Makefile", cwd=COQ)
        if rc != 0:
            raise BuildError("coq_makefile", out)


def coq_build(targets, clean=False, timeout=7200):
    """Full .vo build of the given targets.  Returns (ok, log)."""
    with Lock("coq"):
        coq_makefile()
        if clean:
            sh("make clean", cwd=COQ)
        # force re-check of the property files so that Print Assumptions output is fresh
        for t in targets:
            if t.startswith("props/"):
                for ext in (".vo", ".vok", ".vos", ".glob"):
                    try:
                        os.remove(os.path.join(COQ, t[:-3] + ext))
                    except OSError:
                        pass
        rc, out = sh(["make", "-j%d" % NCPU] + targets, cwd=COQ, timeout=timeout)
    return rc == 0, out


def parse_assumptions(props_file, log):
    """Count theorems in the props file (obligations) and the Print Assumptions
    verdicts in the compile log (discharged)."""
    src = open(os.path.join(COQ, props_file)).read()
    src_nc = re.sub(r"\(\*.*?\*\)", "", src, flags=re.S)
    theorems = re.findall(r"^\s*(?:Theorem|Example|Corollary|Lemma)\s+(\w+)", src_nc, flags=re.M)
    prints = re.findall(r"^\s*Print Assumptions\s+(\w+)", src_nc, flags=re.M)
    closed = log.count("Closed under the global context")
    axioms = re.findall(r"^Axioms:\n((?:.+\n)+)", log, flags=re.M)
    return {"theorems": theorems, "printed": prints, "closed": closed, "axioms": axioms}


FORBIDDEN = re.compile(
    r"\b(Admitted|admit|Axiom|Axioms|Parameter|Parameters|Conjecture|Conjectures|Admit Obligations|"
    r"Unset Guard Checking|Unset Positivity Checking|Unset Universe Checking|bypass_check|"
    r"type-in-type|impredicative-set)\b")


def grep_gate():
    """No Admitted/admit/Axiom/Parameter/... anywhere in the development."""
    bad = []
    for root, _, files in os.walk(COQ):
        for fn in files:
            if not fn.endswith(".v") and fn != "_CoqProject":
                continue
            p = os.path.join(root, fn)
            txt = open(p, errors="replace").read()
            txt = re.sub(r"\(\*.*?\*\)", "", txt, flags=re.S)
            for m in FORBIDDEN.finditer(txt):
                # Hypothesis/Variable inside Section are fine; the listed words are not
                bad.append("%s: %s" % (os.path.relpath(p, VERIF), m.group(0)))
    return bad


# --------------------------------------------------------------------------
# step 3: harness + extracted model
def build_impl(mod):
    """go build of the harness: main.go util.go + mod.GOFILES, -tags verif, against /repo."""
    name = "impl_" + mod.PID
    with Lock(name):
        d = os.path.join(VERIF, "go", "impl")
        rc, out = sh(["go", "build", "-tags", "verif", "-o", os.path.join(BUILD, name), "main.go", "util.go"]
                     + list(mod.GOFILES), cwd=d, env=GOENV, timeout=900)
        if rc != 0:
            raise BuildError("implementation harness build with -tags verif (hooks or API no longer compile)", out)
    return os.path.join(BUILD, name)


def build_model(mod):
    """Extract the modules named in coq/extract/<l>.list for l in mod.EXTRACT and
    compile them with conv.ml, mod.HANDLERS and driver.ml into build/model_<PID>."""
    name = "model_" + mod.PID
    exe = os.path.join(BUILD, name)
    mods, names = [], []
    for lf in mod.EXTRACT:
        for line in open(os.path.join(COQ, "extract", lf + ".list")):
            line = line.split("#")[0].split()
            if not line:
                continue
            if line[0] not in mods:
                mods.append(line[0])
            for n in line[1:]:
                if n not in names:
                    names.append(n)
    ext = ("(* GENERATED from coq/extract/*.list.  Only ExtrOcamlBasic: bool, option, list, prod, unit,\n"
           "   sumbool map to OCaml types; N, Z, positive, nat stay inductive.  No Extract Constant. *)\n"
           "Require Extraction.\nRequire Import ExtrOcamlBasic.\n"
           "From Verif Require Import %s.\n"
           "Extraction \"Model.ml\" %s.\n" % (" ".join(mods), " ".join(names)))
    gen = os.path.join(BUILD, "extract_" + mod.PID)
    os.makedirs(gen, exist_ok=True)
    with Lock("coq"):
        coq_makefile()
        rc, out = sh(["make", "-j%d" % NCPU] + [find_module(m) + ".vo" for m in mods], cwd=COQ, timeout=3600)
        if rc != 0:
            raise BuildError("model/spec no longer compiles", out)
    with Lock(name):
        write_if_changed(os.path.join(gen, "Extract.v"), ext)
        srcs = [os.path.join(COQ, find_module(m) + ".vo") for m in mods] + \
               [os.path.join(VERIF, "ocaml", f) for f in ["conv.ml", "driver.ml"] + list(mod.HANDLERS)] + \
               [os.path.join(gen, "Extract.v")]
        if os.path.exists(exe) and all(os.path.getmtime(x) <= os.path.getmtime(exe) for x in srcs):
            return exe
        rc, out = sh(["coqc"] + coq_q_flags() + ["Extract.v"], cwd=gen, timeout=1800)
        if rc != 0 or not os.path.exists(os.path.join(gen, "Model.ml")):
            raise BuildError("extraction failed", out)
        for f in ["conv.ml", "driver.ml"] + list(mod.HANDLERS):
            sh(["cp", os.path.join(VERIF, "ocaml", f), gen])
        mls = ["Model.mli", "Model.ml", "conv.ml"] + list(mod.HANDLERS) + ["driver.ml"]
        rc, out = sh(["ocamlfind", "ocamlopt", "-O3", "-w", "-a"] + mls + ["-o", exe], cwd=gen, timeout=1800)
        if rc != 0:
            raise BuildError("ocaml driver build", out)
    return exe


# --------------------------------------------------------------------------
# step 4: differential run
def run_lines(exe, lines, shards=1, timeout=3600, mem_gb=8):
    """Feed case lines to exe (one result line per case); shard over processes."""
    if not lines:
        return []
    shards = max(1, min(shards, len(lines)))
    chunks = [lines[i::shards] for i in range(shards)]
    procs = []
    pre = "ulimit -v %d; ulimit -s 1000000 2>/dev/null || ulimit -s unlimited 2>/dev/null; exec " % (mem_gb * 1024 * 1024)
    for ch in chunks:
        p = subprocess.Popen(["bash", "-c", pre + exe], stdin=subprocess.PIPE, stdout=subprocess.PIPE,
                             stderr=subprocess.PIPE)
        procs.append((p, ch))
    outs = []
    import threading
    results = [None] * len(procs)

    def work(i, p, ch):
        data = ("\n".join(ch) + "\n").encode()
        try:
            o, e = p.communicate(data, timeout=timeout)
            results[i] = (o.decode("utf-8", "replace").split("\n"), e.decode("utf-8", "replace"), p.returncode)
        except subprocess.TimeoutExpired:
            p.kill()
            results[i] = ([], "TIMEOUT", -9)

    ths = [threading.Thread(target=work, args=(i, p, ch)) for i, (p, ch) in enumerate(procs)]
    for t in ths:
        t.start()
    for t in ths:
        t.join()
    merged = [None] * len(lines)
    for i, (p, ch) in enumerate(procs):
        o, e, rc = results[i]
        for j in range(len(ch)):
            if j < len(o) and (j < len(o) - 1 or o[j] != ""):
                merged[i + j * shards] = o[j]
            else:
                merged[i + j * shards] = "CRASH(rc=%s %s)" % (rc, e.strip()[-200:])
    return merged


# --------------------------------------------------------------------------
# reporting
class Report:
    def __init__(self, pid, tier, seed):
        self.pid = pid
        self.tier = tier
        self.seed = seed
        self.t0 = time.time()
        self.violations = []   # (replay path, suffix)
        self.known = []
        self.cov = {
            "obligations": 0, "discharged": 0, "checker_cmd": "", "trusted_base": list(TRUSTED_BASE),
            "evaluations": 0, "distinct_nontrivial": 0, "rule": "", "samples": [],
        }
        self.assumptions = []
        self.notes = []

    def replay_path(self, n=None):
        d = os.path.join(VERIF, "replays")
        os.makedirs(d, exist_ok=True)
        k = len(self.violations) if n is None else n
        return os.path.join(d, "%s-%s-%d.json" % (self.pid, self.tier, k))

    def violation(self, replay_obj, found_input=True):
        p = self.replay_path()
        replay_obj = dict(replay_obj, property=self.pid, seed=self.seed, tier=self.tier)
        with open(p, "w") as f:
            json.dump(replay_obj, f, indent=1, sort_keys=True)
        self.violations.append((p, "" if found_input else " no-failing-input-found"))

    def finish(self):
        ev = {
            "property_id": self.pid, "tier": self.tier, "seed": self.seed, "level": "proof",
            "coverage": self.cov, "assumptions": self.assumptions,
            "wall_s": round(time.time() - self.t0, 2), "violations": len(self.violations),
        }
        if self.notes:
            ev["coverage"]["notes"] = self.notes
        if os.environ.get("VERIF_NO_EVIDENCE") != "1":   # a --replay run does not overwrite the evidence of the check
            os.makedirs(os.path.join(VERIF, "evidence"), exist_ok=True)
            with open(os.path.join(VERIF, "evidence", self.pid + ".json"), "w") as f:
                json.dump(ev, f, indent=1, sort_keys=True)
        for k in self.known:
            print("KNOWN-FINDING: property=%s %s" % (self.pid, k))
        for p, suffix in self.violations:
            print("VIOLATION property=%s replay=%s%s" % (self.pid, p, suffix))
        sys.stdout.flush()
        return 1 if self.violations else 0


def load_known_findings():
    p = os.path.join(VERIF, "known_findings.txt")
    res = []
    if os.path.exists(p):
        for line in open(p):
            line = line.strip()
            if line and not line.startswith("#"):
                res.append(line)
    return res


def rng_for(seed, pid):
    h = hashlib.sha256(("%d:%s" % (seed, pid)).encode()).digest()
    return random.Random(int.from_bytes(h[:8], "big"))


# --------------------------------------------------------------------------
# kernel-side sample: evaluate the model inside Coq (vm_compute) on a few of
# the very cases the implementation ran, to tie the extracted code to the kernel
def kernel_sample(pid, header, case_terms, timeout=900):
    d = os.path.join(BUILD, "kernel")
    os.makedirs(d, exist_ok=True)
    fn = os.path.join(d, "Cases%s.v" % pid)
    with open(fn, "w") as f:
        f.write(header)
        f.write("\nDefinition cases := [\n  %s\n].\n" % ";\n  ".join(case_terms))
        f.write("Definition bad := Eval vm_compute in\n"
                "  filter (fun p => negb (snd p)) (combine (seq 0 (length cases)) (map case_ok cases)).\n")
        f.write("Print bad.\n")
    args = ["coqc"]
    for sub in ("base", "gen", "model", "spec"):
        args += ["-Q", os.path.join(COQ, sub), "Verif"]
    rc, out = sh(args + [fn], cwd=d, timeout=timeout)
    ok = rc == 0 and re.search(r"bad\s*=\s*\[\s*\]", out) is not None
    return ok, out


def first_error(log):
    m = re.search(r'File "([^"]+)", line (\d+)[^\n]*\n(Error:(?:.|\n){0,400})', log)
    if m:
        return "%s:%s %s" % (m.group(1), m.group(2), " ".join(m.group(3).split())[:300])
    return " ".join(log.strip().split())[-300:]


def standard_check(mod, tier, seed):
    """The common flow (see module docstring).  `mod` provides:
       PID, PROPS, cases(tier, rng) -> [line], nontrivial(line) -> bool,
       optional: oracle_lines(lines, impl_outs) -> [line] and
                 oracle_verdict(line, impl_out, oracle_out) -> None | reason,
                 coq_case(line, impl_out) -> term, KERNEL_HEADER,
                 known(line) -> None | description (known finding match),
                 compare(impl_out, model_out) -> bool
    """
    rep = Report(mod.PID, tier, seed)
    rng = rng_for(seed, mod.PID)
    broken = []   # (what, detail) : proof obligations / correspondence that no longer check

    # 0. grep gate
    bad = grep_gate()
    if bad:
        broken.append(("grep-gate", "forbidden vernacular: " + "; ".join(bad[:5])))

    # 1. translator
    try:
        rep.cov["translator"] = run_gotab(mod)
    except BuildError as e:
        broken.append(("translator", e.what + ": " + first_error(e.log)))
    # further translators of this property (e.g. gosync's structural facts), also before the theorems are built
    if hasattr(mod, "translate"):
        try:
            rep.cov["translator_extra"] = mod.translate()
        except BuildError as e:
            broken.append(("translator", e.what + ": " + first_error(e.log)))

    # 2. theorems
    ok, log = coq_build([mod.PROPS[:-2] + ".vo"], clean=(tier == "thorough" and os.environ.get("VERIF_CLEAN") == "1"))
    info = parse_assumptions(mod.PROPS, log)
    rep.cov["obligations"] = len(info["theorems"])
    rep.cov["theorems"] = info["theorems"]
    rep.cov["checker_cmd"] = "make -C /verif/coq %s.vo   (coqc 8.16.1 full .vo build, Print Assumptions under each theorem)" % mod.PROPS[:-2]
    if ok:
        if info["axioms"]:
            broken.append(("axioms", "a property theorem depends on axioms: " + " ".join(info["axioms"])[:300]))
            rep.cov["discharged"] = info["closed"]
        elif info["closed"] < len(info["printed"]):
            broken.append(("print-assumptions", "only %d of %d theorems reported closed" % (info["closed"], len(info["printed"]))))
            rep.cov["discharged"] = info["closed"]
        else:
            rep.cov["discharged"] = len(info["theorems"])
    else:
        rep.cov["discharged"] = 0
        broken.append(("theorem", "proof obligation no longer checks: " + first_error(log)))
    rep.cov["axioms_reported"] = info["axioms"]
    # thorough tier: independent re-check of the compiled theorems and everything they depend on
    if ok and tier == "thorough" and os.environ.get("VERIF_COQCHK", "1") != "0":
        modname = "Verif." + os.path.basename(mod.PROPS)[:-2]
        rc, out = sh(["coqchk", "-silent", "-o"] + coq_q_flags() + [modname], cwd=COQ, timeout=7200)
        summary = out[out.find("CONTEXT SUMMARY"):] if "CONTEXT SUMMARY" in out else out[-600:]
        rep.cov["coqchk"] = {"rc": rc, "summary": " ".join(summary.split())[:600]}
        if rc != 0 or "* Axioms: <none>" not in summary:
            broken.append(("coqchk", "independent checker does not accept the development or reports axioms: " + " ".join(summary.split())[:300]))

    # 3. harness + model
    impl_ok = model_ok = True
    impl_exe = model_exe = None
    try:
        impl_exe = build_impl(mod)
    except BuildError as e:
        impl_ok = False
        broken.append(("harness", e.what + ": " + first_error(e.log)))
    try:
        model_exe = build_model(mod)
    except BuildError as e:
        model_ok = False
        broken.append(("model", e.what + ": " + first_error(e.log)))

    # 4. cases
    lines = []
    corpus = os.path.join(VERIF, "corpus", mod.PID + ".txt")
    if os.path.exists(corpus):
        lines += [l.rstrip("\n") for l in open(corpus) if l.strip() and not l.startswith("#")]
    ncorpus = len(lines)
    # a proof obligation / table theorem / build no longer checks: search harder for a concrete input
    # (case generators that sample in the quick tier sweep their whole finite domain instead)
    if broken:
        os.environ["VERIF_SEARCH_HARDER"] = "1"
        rep.cov["search_harder"] = True
    lines += mod.cases(tier, rng)
    shards = NCPU if tier == "thorough" or len(lines) > 2000 else min(NCPU, 8)
    impl_lines = lines
    if not impl_ok and hasattr(mod, "public_line"):
        # the hook files no longer compile against the edited tree: fall back to the public API only
        # (harness built WITHOUT the verif tag from main.go util.go all.go) for the cases that have a
        # public equivalent, so that a concrete failing input can still be found
        try:
            with Lock("impl_pub"):
                rc, out = sh(["go", "build", "-o", os.path.join(BUILD, "impl_pub"), "main.go", "util.go", "all.go"],
                             cwd=os.path.join(VERIF, "go", "impl"), env=GOENV, timeout=900)
            if rc == 0:
                keep = [(l, mod.public_line(l)) for l in lines]
                keep = [(l, p) for l, p in keep if p]
                lines = [l for l, p in keep]
                impl_lines = [p for l, p in keep]
                impl_exe = os.path.join(BUILD, "impl_pub")
                impl_ok = True
                rep.notes.append("hooks do not compile: fell back to the public API for %d cases" % len(lines))
        except Exception:
            pass
    impl_out = run_lines(impl_exe, impl_lines, shards) if impl_ok else [None] * len(lines)
    model_out = run_lines(model_exe, lines, shards) if model_ok else [None] * len(lines)
    compare = getattr(mod, "compare", lambda a, b: a == b)
    mism = [i for i in range(len(lines)) if impl_ok and model_ok and not compare(impl_out[i], model_out[i])]

    # oracle on implementation outputs
    oracle_bad = []
    if impl_ok and model_ok and hasattr(mod, "oracle_lines"):
        ol = mod.oracle_lines(lines, impl_out)
        idx = [i for i, l in enumerate(ol) if l is not None]
        oo = run_lines(model_exe, [ol[i] for i in idx], shards)
        unavailable = 0
        for i, o in zip(idx, oo):
            if o is None or o.startswith(("CRASH", "STACKOVERFLOW")):
                # the ORACLE (our extracted specification) ran out of memory / stack on this case: that says nothing
                # about the implementation; the model comparison still covers the case
                unavailable += 1
                continue
            why = mod.oracle_verdict(lines[i], impl_out[i], o)
            if why:
                oracle_bad.append((i, why, o))
        rep.cov["oracle_evaluations"] = len(idx) - unavailable
        if unavailable:
            rep.cov["oracle_unavailable"] = unavailable

    known = getattr(mod, "known", lambda line: None)
    nontriv = set()
    for i, l in enumerate(lines):
        if impl_ok and mod.nontrivial(l) if mod.nontrivial.__code__.co_argcount == 1 else (impl_ok and mod.nontrivial(l, impl_out[i])):
            nontriv.add(l)
    rep.cov["evaluations"] = len(lines)
    rep.cov["distinct_nontrivial"] = len(nontriv)
    rep.cov["corpus_cases"] = ncorpus
    rep.cov["rule"] = getattr(mod, "RULE", "")
    rep.cov["samples"] = [{"case": lines[i][:400], "impl": (impl_out[i] or "")[:400]} for i in
                          sorted(set([0, len(lines) // 2, len(lines) - 1])) if lines]
    if hasattr(mod, "distribution") and impl_ok:
        try:
            rep.cov["distribution"] = mod.distribution(lines, impl_out)
        except Exception as e:      # descriptive statistics only: never decide anything
            rep.cov["distribution"] = {"error": repr(e)[:200]}
    rep.cov["model_impl_mismatches"] = len(mism)
    rep.cov["oracle_rejections"] = len(oracle_bad)

    # property-specific extra phases (e.g. fresh-process comparison, probes); each returns violation dicts
    extra_viol = []
    if impl_ok and hasattr(mod, "extra"):
        try:
            extra_viol = mod.extra(rep, impl_exe, model_exe, rng, tier) or []
        except BuildError as e:
            broken.append(("extra", e.what + ": " + first_error(e.log)))

    # 5. verdicts
    reported = set()
    for v in extra_viol[:3]:
        rep.violation(v)
    for i, why, o in oracle_bad:
        k = known(lines[i])
        if k:
            if k not in rep.known:
                rep.known.append(k)
            continue
        if len(reported) < 5:
            rep.violation({"kind": "specification oracle rejects the implementation's output",
                           "case": lines[i], "impl_output": impl_out[i], "oracle_output": o, "why": why,
                           "replay": "echo '%s' | %s" % (lines[i], impl_exe)})
        reported.add(i)
    unexplained = [i for i in mism if i not in reported and not known(lines[i])]
    for i in mism:
        k = known(lines[i])
        if k and k not in rep.known:
            rep.known.append(k)
    if unexplained and not reported and not extra_viol:
        i = unexplained[0]
        if hasattr(mod, "shrink"):
            try:
                lines_i = mod.shrink(lines[i])
            except Exception:
                lines_i = lines[i]
        else:
            lines_i = lines[i]
        found = getattr(mod, "MODEL_IS_SPEC", False)
        # a panic / crash / hang of the implementation where the proved model returns normally is itself
        # a concrete failing input (every property requires a normal return on its domain)
        crashed = [j for j in unexplained if (impl_out[j] or "").startswith(("PANIC", "CRASH", "HANG", "BOTHNIL", "BOTHSET"))
                   and not (model_out[j] or "").startswith(("PANIC", "CRASH"))]
        if crashed:
            i = crashed[0]
            lines_i = lines[i]
            found = True
        rep.violation({"kind": "correspondence model-vs-implementation no longer checks",
                       "correspondence": "%s differential run (%d of %d cases differ)" % (mod.PID, len(unexplained), len(lines)),
                       "case": lines_i, "impl_output": impl_out[i], "model_output": model_out[i],
                       "replay": "echo '%s' | %s" % (lines_i, impl_exe)}, found_input=found)
    if broken and not rep.violations:
        rep.violation({"kind": "proof obligation / build no longer checks", "broken": broken,
                       "note": "no concrete failing input found in %d cases (model-impl mismatches: %d, oracle rejections: %d)"
                               % (len(lines), len(mism), len(oracle_bad))}, found_input=False)
    elif broken:
        rep.notes.append({"broken": broken})

    # 6. kernel sample
    if impl_ok and hasattr(mod, "coq_case") and not broken:
        k = 30 if tier == "quick" else 200
        pick = [i for i in range(len(lines)) if len(lines[i]) < 3000 and i not in mism
                and getattr(mod, "kernel_ok", lambda l: True)(lines[i])]
        rng2 = rng_for(seed, mod.PID + "kernel")
        rng2.shuffle(pick)
        pick = pick[:k]
        okk, out = kernel_sample(mod.PID, mod.KERNEL_HEADER, [mod.coq_case(lines[i], impl_out[i]) for i in pick])
        rep.cov["kernel_vm_compute_cases"] = len(pick)
        if not okk:
            rep.violation({"kind": "kernel-side evaluation of the model disagrees with the implementation (or extraction is unfaithful)",
                           "log": out[-1500:]}, found_input=False)
    return rep.finish()
