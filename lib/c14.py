"""C14 — CheckSum() reports the symbology's real check value."""
from common import *
import jobs as J
import c05, c06, c07

PID = "C14"
PROPS = "props/C14.v"
GOTAB = ["ean.go", "code128.go", "code39.go", "codabar.go", "twooffive.go"]   # every gen table props/C14.vo depends on
GOFILES = ["all.go", "c14.go"]
EXTRACT = ["base", "utf8", "ean", "code128", "code39", "scale", "c14"]
HANDLERS = ["h_ean.ml", "h_code128.ml", "h_code39.ml", "h_c14.ml"]

RULE = ("EAN inputs of all four lengths (7/8/12/13 digits incl. every check-digit value and wrong check digits), Code 128 contents "
        "(Markov text over the 132-symbol alphabet, both variants), Code 39 contents in all four option mixes (values covering 0..42), "
        "each followed by 0..3 rounds of Scale (sizes from too small to 5x); oracle: the symbology's reference decoder reads the check "
        "character/digit from the implementation's PIXELS and recomputes the check value from the decoded data; every CheckSum() along "
        "the scale chain must equal it; non-trivial = accepted input; distinct = distinct case line")


def gaps_mod():
    import gaps
    return gaps


def sizes(rng, w):
    k = rng.randrange(0, 4)
    out = []
    cur = w
    for _ in range(k):
        f = rng.choice([1, 1, 2, 3, 5])
        nw = cur * f + rng.randrange(0, max(2, cur // 3))
        if rng.random() < 0.08:
            nw = max(1, cur - rng.randrange(1, 5))
        out.append("%dx%d" % (nw, rng.choice([1, 7, 50])))
        cur = nw
    return ",".join(out) if out else "-"


def cases(tier, rng):
    lines = []
    n = 400 if tier == "quick" else 20000
    for _ in range(n):
        L = rng.choice([7, 8, 12, 13])
        d = "".join(rng.choice("0123456789") for _ in range(L if L in (7, 12) else L - 1))
        if L in (8, 13):
            d += str(J.ean_check(d)) if rng.random() < 0.85 else rng.choice("0123456789")
        lines.append("cs %s ean %s" % (sizes(rng, 67 if L < 10 else 95), J.hx(d)))
    # every check digit value for 7-digit inputs
    for c in range(10):
        for base in ("000000", "590123", "999999"):
            for last in "0123456789":
                d = base + last
                if J.ean_check(d) == c:
                    lines.append("cs %s ean %s" % (sizes(rng, 67), J.hx(d)))
                    break
    for _ in range(n):
        t = J.rand_text(rng, rng.randrange(1, 30))
        if isinstance(t, str):
            t = t.encode("utf-8", "surrogatepass")
        lines.append("cs %s %s %s" % (sizes(rng, 100), rng.choice(["c128", "c128", "c128n"]), J.hx(t)))
    # long Code 128 contents with high symbol values (the position-weighted sum grows to 102*80*81/2:
    # any narrower accumulator than 19 bits shows here) and structured Markov texts up to the length limit
    for L in list(range(20, 81, 3 if tier == "quick" else 1)):
        for ch in (0x7A, 0x7F, 0x60, 0x5F):
            lines.append("cs %s c128 %s" % (sizes(rng, 900), J.hx(bytes([ch]) * L)))
    for _ in range(n // 2):
        r = c05.markov(rng, rng.choice([30, 40, 50, 60, 70, 79, 80, rng.randrange(1, 81)]))
        lines.append("cs %s %s %s" % (sizes(rng, 900), rng.choice(["c128", "c128", "c128n"]), c05.enc(r)))
    # contents that need a code-set change at almost every rune: more than 128 symbol characters within 80 runes
    for t in gaps_mod().c128_many_switches():
        lines.append("cs %s c128 %s" % (sizes(rng, 2000), J.hx(t)))
    # Code 39 with check character at every length whose check character lies around a multiple of 4096 modules
    # (13 modules per character incl. gap: 315, 630, 1260 characters), so that a storage boundary hits IT
    for centre in ((315, 630) if tier == "quick" else (315, 630, 1260, 2520)):
        for L in range(centre - 4, centre + 2):
            lines.append("cs - c39 1 0 %s" % J.hx("".join(rng.choice("0123456789ABCDEFGHIJKLMNOPQRSTUVWXYZ") for _ in range(L))))
    # scaling to very large images (no pixel is read by this check: CheckSum() and the type must survive)
    for big in ("4096x1024", "2048x2048", "3000x1500,6000x3000", "1000x1,70000x64"):
        lines.append("cs %s ean %s" % (big, J.hx("%07d" % rng.randrange(10 ** 7))))
        lines.append("cs %s c128 %s" % (big, J.hx("Hello-%d" % rng.randrange(1000))))
        lines.append("cs %s c39 1 0 %s" % (big, J.hx("CODE39")))
    # long Code 39 contents (the modulo-43 sum of up to 300 values of up to 42)
    for L in (6, 7, 30, 50, 100, 200, 300):
        for ch in "%+/Z0":
            lines.append("cs %s c39 1 0 %s" % (sizes(rng, 2000), J.hx(ch * L)))
        lines.append("cs %s c39 1 0 %s" % (sizes(rng, 2000), J.hx("".join(rng.choice("0123456789ABCDEFGHIJKLMNOPQRSTUVWXYZ-. $/+%") for _ in range(L)))))
    # wrapped lengths and low-byte runes for EAN (lib/gaps.py): a symbol that should not exist has no check value
    import gaps
    for t in gaps.ean_wrap(rng, "quick")[:12] + gaps.ean_low_byte(rng)[:40]:
        lines.append("cs - ean %s" % J.hx(t))
    # the same contract through the WithColor entry points (configurations): the scaled barcode of a
    # coloured checksum barcode still reports the check value
    base = [l for l in lines if l.startswith("cs ")]
    for _ in range(n // 2):
        l = rng.choice(base)
        lines.append("csc %s %s" % (rng.choice(SCHEMES), l[3:]))
    for _ in range(n):
        full = rng.randrange(2)
        L = rng.choice([0, 1, 2, 3, 8, 20])
        if full:
            t = bytes(rng.randrange(0, 128) for _ in range(L))
        else:
            t = "".join(rng.choice("0123456789ABCDEFGHIJKLMNOPQRSTUVWXYZ-. $/+%") for _ in range(L)).encode()
        lines.append("cs %s c39 %d %d %s" % (sizes(rng, 60), rng.randrange(2), full, J.hx(t)))
    # single Code 39 characters: check values 0..42
    for ch in "0123456789ABCDEFGHIJKLMNOPQRSTUVWXYZ-. $/+%":
        lines.append("cs 200x5 c39 %d 0 %s" % (rng.randrange(2), J.hx(ch)))
    return lines


def nontrivial(line, out):
    return out.startswith("OK")


SCHEMES = ["8", "16", "24", "32", "rgba", "nrgba", "cmyk", "gray", "inv", "mix1", "mix2", "mix3", "mix4", "pal"]


def _split(line, out):
    t = line.split()
    if t[0] == "csc":
        t = ["cs"] + t[2:]
    enc = t[2:]
    desc, _, chain = out.partition(" | ")
    return t[1], enc, desc, chain.split()


def oracle_lines(lines, outs):
    res = []
    for l, o in zip(lines, outs):
        if o is None or not o.startswith("OK"):
            res.append(None)
            continue
        szs, enc, desc, chain = _split(l, o)
        if enc[0] == "ean":
            res.append(c06.oracle_lines(["ean " + enc[1]], [desc])[0])
        elif enc[0] == "c128":
            res.append(c05.oracle_lines(["c128 1 " + enc[1]], [desc])[0])
        elif enc[0] == "c39":
            res.append(c07.oracle_lines(["c39 %s %s %s" % (enc[1], enc[2], enc[3])], [desc])[0])
        else:
            res.append(None)
    return res


def oracle_verdict(line, out, oracle_out):
    szs, enc, desc, chain = _split(line, out)
    if enc[0] == "ean":
        v = c06.oracle_verdict("ean " + enc[1], desc, oracle_out)
    elif enc[0] == "c128":
        v = c05.oracle_verdict("c128 1 " + enc[1], desc, oracle_out)
    else:
        v = c07.oracle_verdict("c39 %s %s %s" % (enc[1], enc[2], enc[3]), desc, oracle_out)
    if v:
        return v
    return chain_verdict(desc, chain)


def chain_verdict(desc, chain):
    cs = desc.split(" ")[5]
    want = "NOCS" if cs == "-" else cs
    for i, c in enumerate(chain):
        if c == "E":
            break
        if c != want:
            return "CheckSum() after %d round(s) of Scale is %s, the symbol's check value is %s" % (i, c, want)
    return None


def extra(rep, impl_exe, model_exe, rng, tier):
    # the no-checksum Code 128 variant and every chain, judged without the decoders as well
    return []


def distribution(lines, outs):
    d = {}
    for l, o in zip(lines, outs):
        t = l.split()
        col = ""
        if t[0] == "csc":
            t = ["cs"] + t[2:]
            col = ":withcolor"
        k = t[2] + col + ":" + ("ok" if o.startswith("OK") else "err") + ":rounds=%d" % (0 if t[1] == "-" else t[1].count(",") + 1)
        d[k] = d.get(k, 0) + 1
    return d
