"""C15 — Encoding is a pure function: deterministic, history-free, no aliasing."""
from common import *
import jobs as J
import c16

PID = "C15"
PROPS = "props/C15.v"
GOTAB = ["gf.go", "code39.go", "code93.go"]
GOFILES = ["all.go", "gf.go", "purity.go"]
EXTRACT = ["base", "gf", "gfspec"]
HANDLERS = ["h_gf.ml"]

RULE = ("model-compared cases: Reed-Solomon request histories on the package-level qr/datamatrix encoders inside one process (cache carries over "
        "between cases) against the history-free model; extra phases: (a) a random sequence of encodes over all 11 encoders + Scale executed in ONE "
        "process, every result compared with the same call executed alone in a FRESH process, each job issued twice at different points of the "
        "history; (b) aliasing probes on the only []byte entry point (aztec): input untouched by Encode, Content() and all pixels unchanged after "
        "every byte of the caller's buffer is overwritten; non-trivial = accepted encode / non-empty request; distinct = distinct case line")


def cases(tier, rng):
    lines = []
    n = 150 if tier == "quick" else 3000
    for _ in range(n):
        which = rng.choice(["qr", "dm"])
        nreq = rng.randrange(1, 5)
        ks = [str(rng.choice([1, 2, 7, 10, 13, 30, 68, rng.randrange(1, 69)])) for _ in range(nreq)]
        ds = [",".join(str(rng.randrange(256)) for _ in range(rng.randrange(1, 50))) for _ in range(nreq)]
        lines.append("rslib %s %s %s" % (which, ";".join(ks), ";".join(ds)))
    return lines


def nontrivial(line, out):
    return True


def oracle_lines(lines, outs):
    res = []
    for l, o in zip(lines, outs):
        t = l.split()
        if o is None or o.startswith(("PANIC", "CRASH")):
            res.append(None)
        else:
            f = "285 256 0" if t[1] == "qr" else "301 256 1"
            res.append("rsspec %s %s %s %s" % (f, t[2], t[3], ";".join(o.split())))
    return res


def oracle_verdict(line, out, oracle_out):
    return None if oracle_out == "OK" else "syndrome oracle rejects a result obtained after a request history: " + oracle_out


def run_fresh_each(exe, lines, workers=NCPU):
    """every line in its own, freshly started process"""
    from concurrent.futures import ThreadPoolExecutor

    def one(l):
        p = subprocess.run([exe], input=(l + "\n").encode(), stdout=subprocess.PIPE, stderr=subprocess.PIPE, timeout=120)
        o = p.stdout.decode("utf-8", "replace").split("\n")
        return o[0] if o and o[0] else "CRASH(rc=%s)" % p.returncode
    with ThreadPoolExecutor(workers) as ex:
        return list(ex.map(one, lines))


def translate():
    # structural facts of the current source (gen/TabSync.v), regenerated BEFORE the theorems are built
    return c16.run_gosync()


def extra(rep, impl_exe, model_exe, rng, tier):
    viol = []
    # (a) one long history in one process vs each call alone in a fresh process
    n = 150 if tier == "quick" else 1500
    base = J.jobs(rng, n)
    # Reed-Solomon blocks whose last division step has scale 1, framed by ordinary contents of the same size
    import rs_py
    for c in rs_py.dm_scale_one_contents(rng, 2 if tier == "quick" else 8):
        ref = "enc dm %s" % J.hx(bytes(rng.randrange(65, 91) for _ in range(len(c))))
        base += [ref, "enc dm %s" % J.hx(c), ref]
    hist = base + base[:]
    second = base[:]
    rng.shuffle(second)
    hist = base + second
    in_hist = run_lines(impl_exe, hist, shards=1)
    uniq = sorted(set(base))
    fresh = dict(zip(uniq, run_fresh_each(impl_exe, uniq)))
    bad = [i for i, l in enumerate(hist) if in_hist[i] != fresh[l]]
    rep.cov["history_calls"] = len(hist)
    rep.cov["fresh_process_calls"] = len(uniq)
    rep.cov["history_accepted"] = sum(1 for o in in_hist if o and o.startswith("OK"))
    if bad:
        i = bad[0]
        jf = os.path.join(VERIF, "replays", "C15-history-%d.txt" % rep.seed)
        os.makedirs(os.path.dirname(jf), exist_ok=True)
        open(jf, "w").write("\n".join(hist[:i + 1]) + "\n")
        viol.append({"kind": "a call returned a different barcode after a history of calls than alone in a fresh process",
                     "call": hist[i], "position_in_history": i, "in_history": in_hist[i], "fresh_process": fresh[hist[i]],
                     "history_file": jf, "replay": "%s < %s | tail -1 ; echo '%s' | %s" % (impl_exe, jf, hist[i], impl_exe)})
    # (a1) adversarial QR order (see held.qr_adversarial_phase)
    import held
    viol += held.qr_adversarial_phase(rep, impl_exe, rng, tier, run_fresh_each)
    # (a2) held barcodes: encode many symbols, keep every returned barcode, re-read all of them at the end
    hjobs = [("hold " + j[4:]) for j in J.jobs(rng, 120 if tier == "quick" else 1200, scale_frac=0.0)]
    # the same symbology repeatedly with different contents and option mixes, back to back
    for k in ["c93 1 0", "c93 0 1", "c39 1 1", "tof 0", "tof 1", "codabar", "c128", "ean"]:
        for i in range(4):
            if k == "codabar":
                c = "A%dB" % rng.randrange(10 ** 6)
            elif k == "ean":
                c = "%07d" % rng.randrange(10 ** 7)
            elif k.startswith("tof"):
                c = "%06d" % rng.randrange(10 ** 6)
            else:
                c = "".join(rng.choice("ABCDEFGHIJKLMNOPQRSTUVWXYZ0123456789") for _ in range(rng.randrange(3, 12)))
            hjobs.append("hold %s %s" % (k, J.hx(c)))
    rng.shuffle(hjobs)
    houts = run_lines(impl_exe, hjobs + ["recheck"], shards=1)
    kept = [o for o in houts[:-1] if o.startswith("OK")]
    later = houts[-1].split(";") if houts[-1] else []
    rep.cov["held_barcodes"] = len(kept)
    if len(later) != len(kept) and kept:
        viol.append({"kind": "held barcodes could not be re-read", "output": houts[-1][:300]})
    else:
        okpos = [i for i, o in enumerate(houts[:-1]) if o.startswith("OK")]
        for k2, (a, b) in enumerate(zip(kept, later)):
            if a != b:
                jf = os.path.join(VERIF, "replays", "C15-held-%d.txt" % rep.seed)
                os.makedirs(os.path.dirname(jf), exist_ok=True)
                open(jf, "w").write("\n".join(hjobs + ["recheck"]) + "\n")
                viol.append({"kind": "a returned barcode changed after later encode calls (not a snapshot)",
                             "call": hjobs[okpos[k2]], "at_encode_time": a, "after_later_calls": b, "jobs_file": jf,
                             "replay": "%s < %s | tail -1" % (impl_exe, jf)})
                break
    # (a3) determinism: the same call repeated in one process gives the same barcode (map iteration order,
    # goroutine scheduling): Code 39/93 with check characters for every pair of characters (every check value),
    # many short QR contents (mask ties), a sample of the other encoders
    reps = []
    A93 = "0123456789ABCDEFGHIJKLMNOPQRSTUVWXYZ-. $/+%"
    step = 3 if tier == "quick" else 1
    for i, c1 in enumerate(A93):
        for j, c2 in enumerate(A93):
            if (i + j) % step == 0:
                reps.append("rep 6 c93 1 0 %s" % J.hx(c1 + c2))
    for c1 in A93:
        reps.append("rep 6 c39 1 0 %s" % J.hx(c1))
        reps.append("rep 6 c93 1 1 %s" % J.hx(c1.lower()))
    for _ in range(300 if tier == "quick" else 3000):
        n = rng.randrange(1, 12)
        t = rng.choice(["HELLO %d" % rng.randrange(1000), str(rng.randrange(10 ** n)),
                        "".join(rng.choice(J.ALNUM) for _ in range(n))])
        reps.append("rep 8 qr %d %d %s" % (rng.randrange(4), rng.choice([0, 0, 1, 2, 3]) if t.isdigit() else rng.choice([0, 0, 2, 3]), J.hx(t)))
    for j in J.jobs(rng, 60 if tier == "quick" else 600, scale_frac=0.0):
        reps.append("rep 4 " + j[4:])
    # contents whose two best QR masks have exactly the same penalty (found with the model, corpus/qr_ties.txt):
    # whatever decides a tie must not depend on scheduling or iteration order
    for j in held.qr_tie_jobs():
        reps.append("rep %d %s" % (24 if len(j) < 400 else (8 if tier == "quick" else 30), j))
    routs = run_lines(impl_exe, reps, shards=NCPU)
    rep.cov["determinism_calls"] = len(reps)
    for l, o in zip(reps, routs):
        if not o.startswith("SAME"):
            viol.append({"kind": "the same call does not always return the same barcode (or crashed)", "case": l, "impl_output": o[:400],
                         "replay": "echo '%s' | %s" % (l, impl_exe)})
            break
    # (b) aliasing probes
    probes = []
    for _ in range(80 if tier == "quick" else 2000):
        data = J.rand_text(rng, rng.choice([0, 1, 2, 5, 17, 40, 100, 300]))
        probes.append("alias %d %d %d %s" % (rng.randrange(2), rng.choice([0, 23, 33, 100]),
                                             rng.choice([0, 0, 0, -1, -4, 1, 3, 12, 27, 32]), J.hx(data)))
    outs = run_lines(impl_exe, probes, shards=4)
    rep.cov["alias_probes"] = len(probes)
    rep.cov["alias_probes_accepted"] = sum(1 for o in outs if o.startswith("SNAPSHOT"))
    for l, o in zip(probes, outs):
        if not (o.startswith("SNAPSHOT") or o == "ERR"):
            viol.append({"kind": "returned barcode is not a snapshot / encoder touched the caller's buffer", "case": l,
                         "impl_output": o, "replay": "echo '%s' | %s" % (l, impl_exe)})
            break
    rep.cov["evaluations_extra"] = len(hist) + len(uniq) + len(probes)
    rep.assumptions += ["fresh-process equality is observed (differential run), not proved: the Go runtime/start-up is outside the model",
                        "strings are immutable in Go, so only the []byte entry points (aztec) can alias caller memory"]
    return viol


def distribution(lines, outs):
    return {"rslib_histories": len(lines)}
