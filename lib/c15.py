"""C15 — Encoding is a pure function: deterministic, history-free, no aliasing."""
from common import *
import jobs as J
import c16

PID = "C15"
PROPS = "props/C15.v"
GOTAB = ["gf.go"]
GOFILES = ["all.go", "gf.go", "purity.go"]
EXTRACT = ["base", "gf", "gfspec"]
HANDLERS = ["h_gf.ml"]

RULE = ("model-compared cases: Reed-Solomon request histories on the package-level qr/datamatrix encoders inside one process (cache carries over "
        "between cases) against the history-free model; extra phases: (a) a random sequence of encodes over all 11 encoders + Scale executed in ONE "
        "process, every result compared with the same call executed alone in a FRESH process, each job issued twice at different points of the "
        "history; (b) aliasing probes on the only []byte entry point (aztec): input untouched by Encode, Content() and all pixels unchanged after "
        "every byte of the caller's buffer is overwritten; non-trivial = accepted encode / non-empty request; distinct = distinct case line")


def cases(tier, rng):
    lines = []
    n = 150 if tier == "quick" else 3000
    for _ in range(n):
        which = rng.choice(["qr", "dm"])
        nreq = rng.randrange(1, 5)
        ks = [str(rng.choice([1, 2, 7, 10, 13, 30, 68, rng.randrange(1, 69)])) for _ in range(nreq)]
        ds = [",".join(str(rng.randrange(256)) for _ in range(rng.randrange(1, 50))) for _ in range(nreq)]
        lines.append("rslib %s %s %s" % (which, ";".join(ks), ";".join(ds)))
    return lines


def nontrivial(line, out):
    return True


def oracle_lines(lines, outs):
    res = []
    for l, o in zip(lines, outs):
        t = l.split()
        if o is None or o.startswith(("PANIC", "CRASH")):
            res.append(None)
        else:
            f = "285 256 0" if t[1] == "qr" else "301 256 1"
            res.append("rsspec %s %s %s %s" % (f, t[2], t[3], ";".join(o.split())))
    return res


def oracle_verdict(line, out, oracle_out):
    return None if oracle_out == "OK" else "syndrome oracle rejects a result obtained after a request history: " + oracle_out


def run_fresh_each(exe, lines, workers=NCPU):
    """every line in its own, freshly started process"""
    from concurrent.futures import ThreadPoolExecutor

    def one(l):
        p = subprocess.run([exe], input=(l + "\n").encode(), stdout=subprocess.PIPE, stderr=subprocess.PIPE, timeout=120)
        o = p.stdout.decode("utf-8", "replace").split("\n")
        return o[0] if o and o[0] else "CRASH(rc=%s)" % p.returncode
    with ThreadPoolExecutor(workers) as ex:
        return list(ex.map(one, lines))


def extra(rep, impl_exe, model_exe, rng, tier):
    viol = []
    # structural facts come from gosync (also used by the theorems)
    rep.cov["translator_sync"] = c16.run_gosync()
    # (a) one long history in one process vs each call alone in a fresh process
    n = 150 if tier == "quick" else 1500
    base = J.jobs(rng, n)
    hist = base + base[:]
    second = base[:]
    rng.shuffle(second)
    hist = base + second
    in_hist = run_lines(impl_exe, hist, shards=1)
    uniq = sorted(set(base))
    fresh = dict(zip(uniq, run_fresh_each(impl_exe, uniq)))
    bad = [i for i, l in enumerate(hist) if in_hist[i] != fresh[l]]
    rep.cov["history_calls"] = len(hist)
    rep.cov["fresh_process_calls"] = len(uniq)
    rep.cov["history_accepted"] = sum(1 for o in in_hist if o and o.startswith("OK"))
    if bad:
        i = bad[0]
        jf = os.path.join(VERIF, "replays", "C15-history-%d.txt" % rep.seed)
        os.makedirs(os.path.dirname(jf), exist_ok=True)
        open(jf, "w").write("\n".join(hist[:i + 1]) + "\n")
        viol.append({"kind": "a call returned a different barcode after a history of calls than alone in a fresh process",
                     "call": hist[i], "position_in_history": i, "in_history": in_hist[i], "fresh_process": fresh[hist[i]],
                     "history_file": jf, "replay": "%s < %s | tail -1 ; echo '%s' | %s" % (impl_exe, jf, hist[i], impl_exe)})
    # (b) aliasing probes
    probes = []
    for _ in range(80 if tier == "quick" else 2000):
        data = J.rand_text(rng, rng.choice([0, 1, 2, 5, 17, 40, 100, 300]))
        probes.append("alias %d %d %d %s" % (rng.randrange(2), rng.choice([0, 23, 33, 100]),
                                             rng.choice([0, 0, 0, -1, -4, 1, 3, 12, 27, 32]), J.hx(data)))
    outs = run_lines(impl_exe, probes, shards=4)
    rep.cov["alias_probes"] = len(probes)
    rep.cov["alias_probes_accepted"] = sum(1 for o in outs if o.startswith("SNAPSHOT"))
    for l, o in zip(probes, outs):
        if not (o.startswith("SNAPSHOT") or o == "ERR"):
            viol.append({"kind": "returned barcode is not a snapshot / encoder touched the caller's buffer", "case": l,
                         "impl_output": o, "replay": "echo '%s' | %s" % (l, impl_exe)})
            break
    rep.cov["evaluations_extra"] = len(hist) + len(uniq) + len(probes)
    rep.assumptions += ["fresh-process equality is observed (differential run), not proved: the Go runtime/start-up is outside the model",
                        "strings are immutable in Go, so only the []byte entry points (aztec) can alias caller memory"]
    return viol


def distribution(lines, outs):
    return {"rslib_histories": len(lines)}
