"""Shared extra phase: returned barcodes must stay what they were when later encodes happen
(go/impl/all.go tags hold / recheck).  Used by the per-symbology checks and by C15."""
import os
from common import *
import jobs as J


def content_for(rng, k):
    if k == "codabar":
        return "A%dB" % rng.randrange(10 ** rng.randrange(1, 9))
    if k == "ean":
        return ("%07d" if rng.random() < 0.5 else "%012d") % rng.randrange(10 ** 7)
    if k.startswith("tof"):
        return "%06d" % rng.randrange(10 ** 6)
    if k.startswith("qr") and rng.random() < 0.3:
        # large symbols (version >= 21): several contents of nearly the same length land in the same version
        return "".join(rng.choice("ABCDEFGHIJKLMNOPQRSTUVWXYZ0123456789 abc") for _ in range(rng.randrange(1010, 1060)))
    if k.startswith("qr") or k.startswith("dm") or k.startswith("az") or k.startswith("pdf"):
        return "".join(rng.choice("ABCDEFGHIJKLMNOPQRSTUVWXYZ0123456789 abc") for _ in range(rng.randrange(1, 60)))
    return "".join(rng.choice("ABCDEFGHIJKLMNOPQRSTUVWXYZ0123456789") for _ in range(rng.randrange(1, 14)))


def near_duplicate(rng, k, c):
    """a content that shares a long prefix (or suffix) with an earlier one: caches keyed by part of the content"""
    if len(c) < 2:
        return c
    if k == "ean":
        i = rng.choice([7, 7, len(c) - 1]) if len(c) > 7 else len(c) - 1
        return c[:i] + "".join(rng.choice("0123456789") for _ in range(len(c) - i))
    if k == "codabar":
        body = c[1:-1]
        return c[0] + body[:len(body) // 2] + "".join(rng.choice("0123456789") for _ in range(len(body) - len(body) // 2)) + c[-1]
    alpha = "0123456789" if (k.startswith("tof") or c.isdigit()) else "ABCDEFGHIJKLMNOPQRSTUVWXYZ0123456789"
    if rng.random() < 0.7:
        i = rng.randrange(1, len(c))
        return c[:i] + "".join(rng.choice(alpha) for _ in range(len(c) - i))
    i = rng.randrange(1, len(c))
    return "".join(rng.choice(alpha) for _ in range(i)) + c[i:]


BAD = {"ean": ["12345x7", "1234567890ab", "123"], "codabar": ["A12", "12B", "AxB"], "tof": ["12a4", "4711x", "1234a6"],
       "c128": ["ab\u00e9", "\u00e9"], "c39": ["ok\u00e9", "AB*"], "c93": ["ok\u00e9", "A*B"],
       "qr": ["\u00e9" * 3000], "dm": ["a" * 1600], "az": ["A" * 4000], "pdf": ["A" * 3000]}


def held_phase(rep, impl_exe, rng, kinds, n=12):
    """kinds: encoder-argument prefixes of all.go's encodeAny, e.g. ["c93 1 0", "c93 0 1"]"""
    hjobs = []
    for k in kinds:
        prev = []
        for _ in range(n):
            c = near_duplicate(rng, k, rng.choice(prev)) if prev and rng.random() < 0.45 else content_for(rng, k)
            prev.append(c)
            hjobs.append("hold %s %s" % (k, J.hx(c)))
        # rejected calls in between (state left behind on an error path must not leak into later symbols)
        fam = k.split()[0].rstrip("n")
        for b in BAD.get(fam, [])[:2]:
            hjobs.append("hold %s %s" % (k, J.hx(b)))
    # keep each family's order (near-duplicates follow their originals) but interleave the families
    rng.shuffle(hjobs)
    houts = run_lines(impl_exe, hjobs + ["recheck"], shards=1)
    kept = [o for o in houts[:-1] if o.startswith("OK")]
    later = houts[-1].split(";") if houts[-1] else []
    rep.cov["held_barcodes"] = len(kept)
    if not kept:
        return []
    if len(later) != len(kept):
        return [{"kind": "held barcodes could not be re-read", "output": houts[-1][:300]}]
    okpos = [i for i, o in enumerate(houts[:-1]) if o.startswith("OK")]
    for k2, (a, b) in enumerate(zip(kept, later)):
        if a != b:
            jf = os.path.join(VERIF, "replays", "%s-held-%d.txt" % (rep.pid, rep.seed))
            os.makedirs(os.path.dirname(jf), exist_ok=True)
            open(jf, "w").write("\n".join(hjobs + ["recheck"]) + "\n")
            return [{"kind": "a returned barcode changed after later encode calls: the symbol no longer decodes to its text",
                     "call": hjobs[okpos[k2]], "at_encode_time": a, "after_later_calls": b, "jobs_file": jf,
                     "replay": "%s < %s | tail -1" % (impl_exe, jf)}]
    return []


def qr_adversarial_phase(rep, impl_exe, rng, tier, run_fresh_each):
    """For every version x level and every ordered pair of modes: a content that fills the version exactly
    in the first mode followed by a content with the SAME payload bit count in the second mode (a result
    cached under too coarse a key would be replayed), all in one process; every result is compared with
    the same call alone in a fresh process."""
    import c01

    def pbits(m, n):
        return 10 * (n // 3) + (0, 4, 7)[n % 3] if m == 1 else 11 * (n // 2) + 6 * (n % 2) if m == 2 else 8 * n
    seq = []
    for lvl in range(4):
        for v in (range(1, 41) if tier == "thorough" else [1, 2, 5, 9, 10, 11, 17, 26, 27, 33, 40]):
            for m1 in (1, 2, 3):
              for c1 in (c01.capacity(m1, lvl, v), c01.capacity(m1, lvl, v) + 1):
                P = pbits(m1, c1)
                for m2 in (1, 2, 3):
                    if m2 == m1:
                        continue
                    n2 = [n for n in range(max(0, P // 11 - 2), P // 3 + 3) if pbits(m2, n) == P]
                    if n2:
                        seq.append("enc qr %d %d %s" % (lvl, m1, J.hx(c01.content_for(m1, c1, rng))))
                        seq.append("enc qr %d %d %s" % (lvl, rng.choice([m2, 0]) if m2 == 3 else m2, J.hx(c01.content_for(m2, n2[0], rng))))
    # the same content at every level back to back, in several orders and modes (a result cached under a
    # key that confuses levels would be replayed)
    for n in (list(range(1, 30)) + [41, 77, 127, 200] if tier == "quick" else list(range(1, 200))):
        dig = c01.content_for(1, n, rng)
        aln = c01.content_for(2, n, rng)
        for order in ([0, 2, 1, 3], [3, 1, 2, 0], [2, 0, 3, 1]):
            for lvl in order:
                seq.append("enc qr %d %d %s" % (lvl, rng.choice([1, 0]), J.hx(dig)))
            for lvl in order:
                seq.append("enc qr %d %d %s" % (lvl, rng.choice([2, 0]), J.hx(aln)))
    sq_hist = run_lines(impl_exe, seq, shards=1)
    sq_uniq = sorted(set(seq))
    sq_fresh = dict(zip(sq_uniq, run_fresh_each(impl_exe, sq_uniq)))
    rep.cov["qr_adversarial_pairs"] = len(seq) // 2
    for i, l in enumerate(seq):
        if sq_hist[i] != sq_fresh[l]:
            jf = os.path.join(VERIF, "replays", "%s-qrpairs-%d.txt" % (rep.pid, rep.seed))
            os.makedirs(os.path.dirname(jf), exist_ok=True)
            open(jf, "w").write("\n".join(seq[:i + 1]) + "\n")
            return [{"kind": "a call returned a different barcode after a history of calls than alone in a fresh process",
                     "call": l[:300], "previous_call": (seq[i - 1] if i else "")[:300], "in_history": sq_hist[i], "fresh_process": sq_fresh[l],
                     "history_file": jf, "replay": "%s < %s | tail -1   (compare with the last line of the file run alone)" % (impl_exe, jf)}]
    return []


def run_fresh_each(exe, lines, workers=NCPU):
    """every line in its own, freshly started process"""
    from concurrent.futures import ThreadPoolExecutor

    def one(l):
        p = subprocess.run([exe], input=(l + "\n").encode(), stdout=subprocess.PIPE, stderr=subprocess.PIPE, timeout=120)
        o = p.stdout.decode("utf-8", "replace").split("\n")
        return o[0] if o and o[0] else "CRASH(rc=%s)" % p.returncode
    with ThreadPoolExecutor(workers) as ex:
        return list(ex.map(one, lines))


def qr_tie_jobs():
    """encoder-argument strings 'qr <level> <mode> <hex>' of contents whose two best masks tie (corpus/qr_ties.txt)"""
    out = []
    path = os.path.join(VERIF, "corpus", "qr_ties.txt")
    if os.path.exists(path):
        for l in open(path):
            l = l.split("#")[0].strip()
            if l:
                out.append("qr " + l)
    return out
