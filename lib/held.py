"""Shared extra phase: returned barcodes must stay what they were when later encodes happen
(go/impl/all.go tags hold / recheck).  Used by the per-symbology checks and by C15."""
import os
from common import *
import jobs as J


def content_for(rng, k):
    if k == "codabar":
        return "A%dB" % rng.randrange(10 ** rng.randrange(1, 9))
    if k == "ean":
        return ("%07d" if rng.random() < 0.5 else "%012d") % rng.randrange(10 ** 7)
    if k.startswith("tof"):
        return "%06d" % rng.randrange(10 ** 6)
    if k.startswith("qr") or k.startswith("dm") or k.startswith("az") or k.startswith("pdf"):
        return "".join(rng.choice("ABCDEFGHIJKLMNOPQRSTUVWXYZ0123456789 abc") for _ in range(rng.randrange(1, 60)))
    return "".join(rng.choice("ABCDEFGHIJKLMNOPQRSTUVWXYZ0123456789") for _ in range(rng.randrange(1, 14)))


def held_phase(rep, impl_exe, rng, kinds, n=12):
    """kinds: encoder-argument prefixes of all.go's encodeAny, e.g. ["c93 1 0", "c93 0 1"]"""
    hjobs = []
    for k in kinds:
        for _ in range(n):
            hjobs.append("hold %s %s" % (k, J.hx(content_for(rng, k))))
    rng.shuffle(hjobs)
    houts = run_lines(impl_exe, hjobs + ["recheck"], shards=1)
    kept = [o for o in houts[:-1] if o.startswith("OK")]
    later = houts[-1].split(";") if houts[-1] else []
    rep.cov["held_barcodes"] = len(kept)
    if not kept:
        return []
    if len(later) != len(kept):
        return [{"kind": "held barcodes could not be re-read", "output": houts[-1][:300]}]
    okpos = [i for i, o in enumerate(houts[:-1]) if o.startswith("OK")]
    for k2, (a, b) in enumerate(zip(kept, later)):
        if a != b:
            jf = os.path.join(VERIF, "replays", "%s-held-%d.txt" % (rep.pid, rep.seed))
            os.makedirs(os.path.dirname(jf), exist_ok=True)
            open(jf, "w").write("\n".join(hjobs + ["recheck"]) + "\n")
            return [{"kind": "a returned barcode changed after later encode calls: the symbol no longer decodes to its text",
                     "call": hjobs[okpos[k2]], "at_encode_time": a, "after_later_calls": b, "jobs_file": jf,
                     "replay": "%s < %s | tail -1" % (impl_exe, jf)}]
    return []
