"""C06 — EAN-8/EAN-13: digits, parity and check digit are encoded and validated."""
import itertools

from common import *

PID = "C06"
PROPS = "props/C06.v"
GOTAB = ["ean.go"]
GOFILES = ["ean.go", "all.go"]
EXTRACT = ["base", "ean"]
HANDLERS = ["h_ean.ml"]

RULE = ("single cases `ean <hex>`: every length 0..14 (and 20, 40) of digit strings, every position replaced by "
        "every boundary non-digit ('/', ':', 'B', 'F', space, NUL, 0x80, 0xff) and by multi-byte UTF-8 that keeps or "
        "changes the byte length, all ten last digits for 8/13-digit strings (one accepted, nine wrong check digits), "
        "12/13-digit strings covering every (first digit, position, digit) triple, random digit strings; "
        "sweeps `ean7 <start> <count>` / `ean8p` / `ean12 <prefix>`: every number of the range is encoded by "
        "implementation and model (compact records compared as strings) and every implementation record is judged by "
        "the specification (representable?, content = full number, kind, bounds, guard bars, reference decoder, "
        "CheckSum); thorough: all 10^7 seven-digit strings and all 10^8 eight-digit strings (projection: accepted last "
        "digits per 7-digit prefix); non-trivial = an accepted input or a rejected input of length 7/8/12/13; "
        "distinct = distinct case line (sweep lines count once, their size is in distribution.sweep_numbers)")

NONDIGITS = [b"/", b":", b"B", b"F", b" ", b"\x00", b"\x80", b"\xff", b"+", b"-"]
MULTI = [b"\xc3\xa9", b"\xef\xbc\x91", b"\xd9\xa1", b"\xf0\x9d\x9f\x8f", b"\xc2", b"\xe2\x82", b"\xc0\xb1",
         b"\xed\xa0\x80", b"\xef\xbf\xbd"]


def hx(b):
    return b.hex() if b else "-"


def gs1(ds):
    s = sum(int(c) * (3 if (len(ds) - 1 - i) % 2 == 0 else 1) for i, c in enumerate(ds))
    return str((10 - s % 10) % 10)


def rand_digits(rng, n):
    return "".join(rng.choice("0123456789") for _ in range(n))


def single_cases(tier, rng):
    out = []
    add = lambda b: out.append("ean " + hx(b))
    # lengths
    for n in list(range(0, 15)) + [20, 40]:
        for _ in range(3):
            add(rand_digits(rng, n).encode())
        add(b"0" * n)
        add(b"9" * n)
    # check digits: all ten last digits
    for n in (7, 12):
        for _ in range(60 if tier == "quick" else 600):
            base = rand_digits(rng, n)
            add(base.encode())
            for d in "0123456789":
                add((base + d).encode())
    # every (first digit, position, digit) for 12 and 13 digits, every (position, digit) for 7 and 8
    for n in (12, 7):
        for f in "0123456789":
            for p in range(1, n):
                for d in "0123456789":
                    s = list(rand_digits(rng, n))
                    s[0] = f
                    s[p] = d
                    s = "".join(s)
                    add(s.encode())
                    add((s + gs1(s)).encode())
    # non-digits and multi-byte UTF-8 at every position of every interesting length
    for n in (7, 8, 12, 13):
        base = rand_digits(rng, n)
        if n in (8, 13):
            base = base[:-1] + gs1(base[:-1])
        for p in range(n):
            for x in NONDIGITS:
                add(base[:p].encode() + x + base[p + 1:].encode())
            for x in MULTI:
                add(base[:p].encode() + x + base[p + 1:].encode())          # changes the byte length
                keep = base[:p].encode() + x + base[p + len(x):].encode()    # keeps the byte length
                add(keep[:n] if len(keep) >= n else keep)
    # byte length 7/8/12/13 reached only through multi-byte runes; trailing 'B' (the encoder's error rune)
    for s in [b"123456B", b"1234567B", b"12345678901B", b"123456789012B", b"B" * 8, b"B" * 13, b"F" * 8,
              b"12345\xc3\xa9", b"123456\xc3\xa9", b"1234567890\xc3\xa9", b"12345678901\xc3\xa9",
              b"\xc3\xa9" * 4, b"\xef\xbc\x91" * 4 + b"1", b"\xf0\x9d\x9f\x8f" * 2, b"\xf0\x9d\x9f\x8f" * 3,
              b"1234x67B", b"123456789x12B", b"\xff" * 7, b"\xff" * 8, b"\xff" * 12, b"\xff" * 13]:
        add(s)
    # lengths that wrap around an 8/16-bit counter onto 7/8/12/13, runes whose low byte is a digit (lib/gaps.py)
    import gaps
    for t in gaps.ean_wrap(rng, tier) + gaps.ean_low_byte(rng):
        add(t.encode("utf-8"))
    for g in gaps.family(rng, tier, ("ean",)):
        out.append(g)
    for t in gaps.ean_sums(rng):          # every weighted sum 0..216 / 0..135
        add(t.encode())
        add((t + gs1(t)).encode())
    for _ in range(300 if tier == "quick" else 3000):
        n = rng.choice([7, 8, 12, 13])
        add(bytes(rng.choice(b"0123456789") if rng.random() < 0.9 else rng.randrange(256) for _ in range(n)))
    return out


def sweep_cases(tier, rng):
    out = []
    if tier == "quick":
        # 40 blocks of 250 seven-digit numbers spread over the range, 20 blocks of 100 prefixes, some 12-digit blocks
        for k in range(40):
            out.append("ean7 %d 250" % rng.randrange(0, 10 ** 7 - 250))
        out += ["ean7 0 250", "ean7 9999750 250"]
        for k in range(20):
            out.append("ean8p %d 100" % rng.randrange(0, 10 ** 7 - 100))
        out += ["ean8p 0 100", "ean8p 9999900 100"]
        for k in range(20):
            out.append("ean12 %s %d 250" % (rand_digits(rng, 5), rng.randrange(0, 10 ** 7 - 250)))
    else:
        step = 5000
        for s in range(0, 10 ** 7, step):
            out.append("ean7 %d %d" % (s, step))
        for s in range(0, 10 ** 7, step):
            out.append("ean8p %d %d" % (s, step))
        for k in range(400):
            out.append("ean12 %s %d 5000" % (rand_digits(rng, 5), rng.randrange(0, 10 ** 7 - 5000)))
    return out


def cases(tier, rng):
    lines = single_cases(tier, rng) + sweep_cases(tier, rng)
    return lines


def nontrivial(line, impl_out):
    t = line.split()
    if t[0] != "ean":
        return True
    n = 0 if t[1] == "-" else len(t[1]) // 2
    return (impl_out or "").startswith("OK") or n in (7, 8, 12, 13)


def oracle_lines(lines, impl_outs):
    res = []
    for l, o in zip(lines, impl_outs):
        t = l.split()
        if o is None:
            res.append(None)
        elif t[0] == "ean":
            res.append("eanspec %s %s" % (t[1], o))
        else:
            res.append("%sspec %s %s" % (t[0], " ".join(t[1:]), o.replace(" ", "_")))
    return res


def oracle_verdict(line, impl_out, oracle_out):
    if oracle_out == "fine" or (oracle_out or "").startswith("fine "):
        return None
    return "specification: " + (oracle_out or "no output")[:300]


def distribution(lines, impl_outs):
    d = {"single_ok": 0, "single_err": 0, "single_other": 0, "sweep_lines": 0, "sweep_numbers": 0,
         "sweep_encode_calls": 0, "by_length": {}}
    for l, o in zip(lines, impl_outs):
        t = l.split()
        if t[0] == "ean":
            n = 0 if t[1] == "-" else len(t[1]) // 2
            k = "ok" if (o or "").startswith("OK") else "err" if o == "ERR" else "other"
            d["single_" + k] += 1
            key = "len%d_%s" % (n, k)
            d["by_length"][key] = d["by_length"].get(key, 0) + 1
        else:
            cnt = int(t[-1])
            d["sweep_lines"] += 1
            d["sweep_numbers"] += cnt
            d["sweep_encode_calls"] += cnt * (10 if t[0] == "ean8p" else 1)
    return d


def shrink(line):
    """a sweep line that differs: find the first single number on which implementation and model differ"""
    t = line.split()
    if t[0] == "ean":
        return line
    impl, model = os.path.join(BUILD, "impl_" + PID), os.path.join(BUILD, "model_" + PID)
    if t[0] == "ean12":
        prefix, start, cnt = t[1], int(t[2]), int(t[3])
    else:
        prefix, start, cnt = "", int(t[1]), int(t[2])
    cand = []
    for i in range(start, start + cnt):
        s = "%s%07d" % (prefix, i)
        if t[0] == "ean8p":
            cand += ["ean " + (s + d).encode().hex() for d in "0123456789"]
        else:
            cand.append("ean " + s.encode().hex())
    a, b = run_lines(impl, cand, NCPU), run_lines(model, cand, NCPU)
    for c, x, y in zip(cand, a, b):
        if x != y:
            return c
    return line


# ---- kernel-side sample: the model evaluated by vm_compute inside Coq on cases the implementation ran ----
def coq_case(line, impl_out):
    t = line.split()
    if t[0] != "ean":
        return "([], noR)"      # sweep lines are not sampled (trivially consistent entry)
    bs = [] if t[1] == "-" else [str(int(t[1][i:i + 2], 16)) for i in range(0, len(t[1]), 2)]
    inp = "[%s]" % "; ".join(bs)
    if not impl_out.startswith("OK"):
        return "(%s, noR)" % inp
    f = impl_out.split()
    content = "[%s]" % "; ".join(str(int(f[4][i:i + 2], 16)) for i in range(0, len(f[4]), 2))
    bits = "[%s]" % "; ".join("true" if c == "1" else "false" for c in f[6])
    return "(%s, Some (%s, %s, %s, %s))" % (inp, "true" if f[1] == "EAN_8" else "false", content, f[5], bits)


KERNEL_HEADER = """From Verif Require Import Prelude Barcode EanM EanSpec.
Definition noR : option (bool * list Z * Z * list bool) := None.
Definition zs_eqb (x y : list Z) : bool :=
  (length x =? length y)%nat && forallb (fun p => fst p =? snd p) (combine x y).
Definition case_ok (c : list Z * option (bool * list Z * Z * list bool)) : bool :=
  let '(inp, want) := c in
  match inp, want with
  | [], None => true
  | _, _ =>
    match ean_encode inp, want with
    | Err, None => true
    | Ok bc, Some (is8, content, cs, bits) =>
      (match bc_kind bc, is8 with KEAN8, true => true | KEAN13, false => true | _, _ => false end)
      && zs_eqb (bc_content bc) content
      && (match bc_checksum bc with Some z => z =? cs | None => false end)
      && (match bc_rows bc with [r] => bits_eqb r bits | _ => false end)
      && (bc_width bc =? zlength bits) && (bc_height bc =? 1)
    | _, _ => false
    end
  end.
"""


def extra(rep, impl_exe, model_exe, rng, tier):
    # returned barcodes must remain what they were when other symbols are encoded afterwards
    import held
    return held.held_phase(rep, impl_exe, rng, ['ean'], n=10 if tier == "quick" else 80)


def public_line(line):
    t = line.split(" ")
    return "encfull " + line if t[0] == "ean" and len(t) == 2 else None
