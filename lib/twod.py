"""Shared by C12 / C13: boundary-directed contents for the four 2-D symbologies and the reader oracles."""
from common import *
import jobs as J
import c01
import c10

GOTAB = c10.GOTAB
GOFILES = ["all.go", "twod.go"]
EXTRACT = c10.EXTRACT
HANDLERS = c10.HANDLERS

DM_CAPS = [3, 5, 8, 12, 18, 22, 30, 36, 44, 62, 86, 114, 144, 174, 204, 280, 368, 456, 576, 696, 816, 1050, 1304, 1558]
DM_SIZES = [10, 12, 14, 16, 18, 20, 22, 24, 26, 32, 36, 40, 44, 48, 52, 64, 72, 80, 88, 96, 104, 120, 132, 144]
LEVELS = ["L", "M", "Q", "H"]


def jobs2d(rng, tier):
    """encoder-argument strings (for all.go's encodeAny) sweeping capacity boundaries"""
    L = []
    # QR: cap-1, cap, cap+1 of version x level x mode (all in thorough, seeded subset in quick)
    combos = [(v, l, m) for v in range(1, 41) for l in range(4) for m in (1, 2, 3)]
    if tier == "quick" and not os.environ.get("VERIF_SEARCH_HARDER"):
        rng.shuffle(combos)
        combos = combos[:40] + [(1, 0, 1), (9, 2, 3), (10, 2, 3), (26, 1, 2), (27, 1, 2), (40, 0, 1), (40, 3, 3)]
    for (v, l, m) in combos:
        cap = c01.capacity(m, l, v)
        for n in (cap - 1, cap, cap + 1):
            if n >= 0:
                c = c01.content_for(m, n, rng)
                L.append("qr %d %d %s" % (l, m if rng.random() < 0.6 else 0, J.hx(c)))
            if m == 3 and n >= 4:
                # byte mode with well-formed UTF-8 of every width filling the symbol exactly / one byte more or less
                # (nothing but the byte count may decide the version: no room for an ECI header that is not written)
                for lead in ("\u00e9", "\u20ac", "\U0001F600", "\u0416\u4e2d"):
                    b = lead.encode("utf-8")
                    t = b + b"a" * (n - len(b)) if rng.random() < 0.5 else b"a" * (n - len(b)) + b
                    L.append("qr %d %d %s" % (l, rng.choice([0, 3]), J.hx(t)))
    # DataMatrix: every size boundary with different codeword/byte ratios
    # Auto mode (and explicit modes) at every short length x level: the mode Auto picks decides the version,
    # and a length that is no capacity boundary of the mode used can still be one for the mode Auto should not pick
    for l in range(4):
        for n in (range(1, 62) if tier == "quick" else range(1, 330)):
            for m in (1, 2, 3):
                c = c01.content_for(m, n, rng)
                L.append("qr %d 0 %s" % (l, J.hx(c)))
    for v in range(1, 5 if tier == "quick" else 12):
        for l in range(4):
            cap = c01.capacity(3, l, v)
            for lead in ("\u20ac", "\U0001F600"):
                b = lead.encode("utf-8")
                for n in (cap - 1, cap, cap + 1):
                    if n > len(b):
                        L.append("qr %d %d %s" % (l, rng.choice([0, 3]), J.hx(b + b"a" * (n - len(b)))))
    for i, c in enumerate(DM_CAPS):
        # an interior point of every size's range as well as its two ends
        lo = DM_CAPS[i - 1] + 1 if i else 1
        mid = rng.randrange(lo, c + 1)
        L.append("dm %s" % J.hx("a" * mid))
        L.append("dm %s" % J.hx("7" * (2 * mid)))
        for d in (-1, 0, 1):
            L.append("dm %s" % J.hx("a" * max(0, c + d)))
            L.append("dm %s" % J.hx("7" * max(0, 2 * (c + d))))
            L.append("dm %s" % J.hx(b"\xe9" * max(0, (c + d) // 2)))
    # Aztec: percentages x payload lengths x layer requests
    for pct in ((0, 23, 33, 100) if tier == "quick" else (0, 1, 10, 23, 33, 50, 90, 100, 200)):
        for n in ((1, 12, 40, 150, 600) if tier == "quick" else (0, 1, 5, 12, 20, 40, 80, 150, 300, 600, 1200, 1900)):
            t = "".join(rng.choice("ABCDEFGHIJ KLMNOPQ") for _ in range(n))
            L.append("az %d 0 %s" % (pct, J.hx(t)))
            L.append("az %d 0 %s" % (pct, J.hx(J.rand_text(rng, n))))
        # stuffing-heavy payloads on the automatic path (bit stuffing grows the message after the size was estimated)
        for n in ((5, 20, 60, 85, 200) if tier == "quick" else (3, 5, 10, 20, 40, 60, 85, 120, 200, 400, 800)):
            L.append("az %d 0 %s" % (pct, J.hx(b"\xff" * n)))
            L.append("az %d 0 %s" % (pct, J.hx(b"\x00" * n)))
            L.append("az %d 0 %s" % (pct, J.hx(bytes(rng.choice([0, 255]) for _ in range(n)))))
        for req in ((-4, -1, 1, 5, 22, 23) if tier == "quick" else list(range(-4, 0)) + list(range(1, 33))):
            L.append("az %d %d %s" % (pct, req, J.hx("AZ%d" % req)))
    import gaps
    for a in gaps.aztec_stuffing(rng, tier):
        L.append("az " + a)
    for t in gaps.dm_misaligned_digits(DM_CAPS):
        L.append("dm %s" % J.hx(t))
    # PDF417: codeword counts 1..~900 x levels
    for lvl in range(9):
        for n in ((0, 7, 60, 400, 1200) if tier == "quick" else (0, 1, 2, 5, 7, 20, 60, 150, 400, 800, 1200, 1700)):
            L.append("pdf %d %s" % (lvl, J.hx("".join(rng.choice("PDF four17 ,;:") for _ in range(n)))))
            L.append("pdf %d %s" % (lvl, J.hx("".join(rng.choice("0123456789") for _ in range(n)))))
    return L


def reader_line(job, out):
    """oracle line: the extracted reference reader applied to the implementation's pixels"""
    if not out or not out.startswith("OK"):
        return None
    desc = out.split(" | ")[0]
    rows = desc.split(" ")[-1]
    t = job.split()
    if t[0] == "qr":
        return "qrdec %s %s %s %s" % (rows, t[1], t[2], t[3])
    if t[0] == "dm":
        return "dmdec %s %s" % (rows, t[1])
    if t[0] == "az":
        return "azspec %s" % rows
    if t[0] == "pdf":
        # the implementation draws every row moduleHeight (2) pixel rows high; the reader takes pixel rows
        return "pdfdec %s" % rows
    return None


def run_readers(rep, impl_exe, model_exe, rng, tier):
    js = jobs2d(rng, tier)
    lines = ["ecx " + j for j in js]
    outs = run_lines(impl_exe, lines, shards=NCPU)
    rl = [reader_line(j, o) for j, o in zip(js, outs)]
    idx = [i for i, l in enumerate(rl) if l]
    # each reference reader lives in the extracted specification of its own symbology
    import c01, c02, c03, c04
    exes = {"qr": build_model(c01), "dm": build_model(c02), "az": build_model(c03), "pdf": build_model(c04)}
    readings = {}
    for k, exe in exes.items():
        sub = [i for i in idx if js[i].split()[0] == k]
        ro = run_lines(exe, [rl[i] for i in sub], shards=NCPU)
        readings.update({i: r for i, r in zip(sub, ro)})
    rep.cov["reader_evaluations"] = len(idx)
    rep.cov["symbols_accepted"] = sum(1 for o in outs if o.startswith("OK"))
    return js, outs, readings


def aztec_word_size(layers):
    return 6 if layers <= 2 else 8 if layers <= 8 else 10 if layers <= 22 else 12


def aztec_size(compact, layers):
    if compact:
        return 11 + 4 * layers
    base = 14 + 4 * layers
    return base + 1 + 2 * ((base // 2 - 1) // 15)
