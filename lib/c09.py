"""C09 — Scale: integer, centred, distortion-free enlargement or an error.

Correspondence design (see also ocaml/h_scale.ml, go/impl/scale.go):
the MODEL side has no encoder.  cases() first runs the already built
implementation harness with `scsrc <srcspec>` lines to obtain, for every source
symbol (real encoders of /repo through their public API, plus hand-made
barcode.Barcode values), its observables and pixels; every case line then carries
that description inline after "|".  The implementation handler rebuilds the
source from <srcspec> (ignoring the inline part) and prints its own description
followed by every stage of the requested chain of Scale/ScaleWithFill calls with
ALL pixels; the model handler parses the inline description and prints the same
line computed with the extracted Coq model.  standard_check compares the two
strings.  The oracle (scspec/scatspec) is the extracted executable validator of
the specification applied to the implementation's output, stage by stage.
"""
import os
from common import *

PID = "C09"
PROPS = "props/C09.v"
GOTAB = []                    # no tables
GOFILES = ["scale.go"]
EXTRACT = ["base", "scale"]
HANDLERS = ["h_scale.ml"]

MAXI = (1 << 31) - 1


def hx(s):
    return s.encode().hex() if s else "-"


# (family, content, approximate role)
ONE_D = [
    ("ean", "1234567"), ("ean", "590123412345"), ("code128", "A"), ("code128nc", "A"),
    ("code39", "A"), ("code93", "A"), ("codabar", "A1B"), ("2of5", "12"), ("2of5i", "12"),
]
TWO_D = [("qr", "A"), ("dm", "A"), ("aztec", "A"), ("pdf417", "A"), ("dm", "ABCDEFGHIJKLMNOPQRSTUVWX"),
         ("qr", "HELLO WORLD HELLO WORLD 01234")]
VARIANTS = ["d", "c", "8", "i"]

RAW = [
    # dims x0 y0 cs scheme rows
    "raw:2:0:0:-:0:10/01", "raw:2:0:0:7:1:101/010", "raw:2:0:0:-:1:1", "raw:2:0:0:3:0:10110/01001/11100/00011/10101/01110/10001",
    "raw:1:0:0:-:0:101", "raw:1:0:0:5:1:1", "raw:1:0:0:9:1:10011/01100/11111",   # a "1-D" image whose rows differ: row 0 is shown
    "raw:1:0:0:-:1:1101001",
]
RAW_BAD_DIMS = ["raw:0:0:0:-:0:10/01", "raw:3:0:0:5:1:101", "raw:255:0:0:-:1:11/00"]
RAW_SHIFTED = ["raw:1:1:0:5:1:101", "raw:2:2:1:-:0:10/01", "raw:2:0:3:4:1:110/011"]   # Bounds().Min != (0,0): model only


def all_specs():
    specs = []
    for fam, content in ONE_D + TWO_D:
        for v in VARIANTS:
            specs.append("%s:%s:%s" % (fam, v, hx(content)))
    return specs + RAW + RAW_BAD_DIMS + RAW_SHIFTED


def parse_desc(desc):
    """desc tokens -> dict (python-side helper for choosing requests; not trusted)"""
    t = desc.split(" ")
    b = t[2]
    mn, mx = b.split("-")
    x0, y0 = [int(v) for v in mn.split(",")]
    x1, y1 = [int(v) for v in mx.split("x")]
    return {"kind": t[0], "dims": int(t[1]), "x0": x0, "y0": y0, "w": x1 - x0, "h": y1 - y0}


def geom(dims, w, h, W, H):
    """python arithmetic, only to pick interesting requests/coordinates"""
    if dims == 2:
        f = min(W // w, H // h)
    else:
        f = W // w
    if f <= 0:
        return None
    ox = (W - f * w) // 2
    oy = (H - f * h) // 2 if dims == 2 else 0
    return f, ox, oy


FILLS = ["d", "d", "d", "a", "b", "c", "0", "1", "w"]


def step(W, H, fill):
    return "%dx%d:%s" % (W, H, fill)


def window(info):
    """the property's window: 1 .. 3*size+5 (1-D: heights 1..50)"""
    wmax = 3 * info["w"] + 5
    hmax = 3 * info["h"] + 5 if info["dims"] == 2 else 50
    return wmax, hmax


def boundary_sizes(n, nmax):
    s = set()
    for k in (1, 2, 3):
        for d in (-1, 0, 1):
            v = k * n + d
            if 1 <= v <= nmax:
                s.add(v)
    s.update([1, nmax])
    return sorted(s)


def line_sc(spec, steps, desc):
    return "sc %s %s | %s" % (spec, " ".join(steps), desc)


def line_scat(spec, steps, coords, desc):
    return "scat %s %s @ %s | %s" % (spec, " ".join(steps), " ".join("%d,%d" % c for c in coords), desc)


def interesting_coords(rng, dims, w, h, W, H, extra=6):
    g = geom(dims, w, h, W, H)
    xs = {0, W - 1, W // 2}
    ys = {0, H - 1, H // 2}
    if g:
        f, ox, oy = g
        for m in (0, 1, w // 2, w - 1, w):
            for d in (-1, 0, 1):
                xs.add(ox + m * f + d)
                xs.add(ox + m * f + f // 2)
        if dims == 2:
            for m in (0, 1, h // 2, h - 1, h):
                for d in (-1, 0, 1):
                    ys.add(oy + m * f + d)
    for _ in range(extra):
        xs.add(rng.randrange(W))
        ys.add(rng.randrange(H))
    xs = sorted(x for x in xs if 0 <= x < W)
    ys = sorted(y for y in ys if 0 <= y < H)
    if len(ys) > 8:
        ys = sorted(rng.sample(ys, 8))
    return [(x, y) for y in ys for x in xs]


def cases(tier, rng):
    exe = os.path.join(BUILD, "impl_" + PID)
    if not os.path.exists(exe):
        return []
    specs = all_specs()
    descs = run_lines(exe, ["scsrc " + s for s in specs], shards=1)
    src = {}
    for s, d in zip(specs, descs):
        if d and d != "ERR" and not d.startswith(("CRASH", "PANIC", "UNKNOWN")):
            src[s] = (d, parse_desc(d))
    quick = tier == "quick"
    lines = []

    def add_sc(spec, steps):
        lines.append(line_sc(spec, steps, src[spec][0]))

    # 1. hand-made sources: the complete window, every fill kind
    for spec in RAW:
        d, info = src[spec]
        wmax, hmax = window(info)
        if info["dims"] == 1:
            hmax = 6 if quick else 50
        for W in range(1, wmax + 1):
            for H in range(1, hmax + 1):
                add_sc(spec, [step(W, H, FILLS[(W * 7 + H * 3) % len(FILLS)])])
    # unsupported dimensions, shifted bounds
    for spec in RAW_BAD_DIMS + RAW_SHIFTED:
        d, info = src[spec]
        for W, H in [(1, 1), (info["w"], info["h"]), (2 * info["w"] + 1, 2 * info["h"] + 1), (7, 9)]:
            for fill in ("d", "a"):
                add_sc(spec, [step(W, H, fill)])

    # 2. real encoders: the window 1..3*size+5 x (1..3*size+5 | 1..50)
    real = [s for s in specs if not s.startswith("raw") and s in src]
    full_window = [] if quick else ["dm:c:" + hx("A"), "aztec:d:" + hx("A"), "qr:c:" + hx("A"), "qr:i:" + hx("A"),
                                    "2of5i:c:" + hx("12"), "code128nc:8:" + hx("A"), "ean:c:" + hx("1234567"),
                                    "code39:i:" + hx("A"), "pdf417:c:" + hx("A")]
    for spec in real:
        d, info = src[spec]
        wmax, hmax = window(info)
        if spec in full_window:
            for W in range(1, wmax + 1):
                for H in range(1, hmax + 1):
                    add_sc(spec, [step(W, H, FILLS[(W * 5 + H) % len(FILLS)])])
            continue
        big = info["w"] * info["h"] > 2000
        pairs = set()
        bw = boundary_sizes(info["w"], wmax)
        bh = boundary_sizes(info["h"], hmax) if info["dims"] == 2 else [1, 2, 17, 50]
        nb = 4 if big else (10 if quick else 40)
        for _ in range(nb):
            pairs.add((rng.choice(bw), rng.choice(bh)))
        nr = (3 if big else 22) if quick else (15 if big else 300)
        for _ in range(nr):
            pairs.add((rng.randrange(1, wmax + 1), rng.randrange(1, hmax + 1)))
        for W, H in sorted(pairs):
            add_sc(spec, [step(W, H, rng.choice(FILLS))])

    # 3. 1-D codes with every height 1..50 at a few widths
    for spec in [s for s in real if src[s][1]["dims"] == 1][:: (6 if quick else 1)]:
        d, info = src[spec]
        for W in (info["w"], 2 * info["w"] + 3):
            for H in range(1, 51):
                add_sc(spec, [step(W, H, "d" if H % 2 else "b")])

    # 4. chains of 2-3 scalings (each stage: within 1..3*previous+5, capped)
    nchains = 260 if quick else 4000
    small = [s for s in src if src[s][1]["w"] * src[s][1]["h"] <= 700 and s not in RAW_SHIFTED]
    for _ in range(nchains):
        spec = rng.choice(small)
        d, info = src[spec]
        w, h = info["w"], info["h"]
        steps = []
        for k in range(rng.choice([2, 2, 3])):
            cap = 160 if quick else 260
            wmax = min(3 * w + 5, cap)
            hmax = min(3 * h + 5, cap) if info["dims"] == 2 else 12
            mode = rng.random()
            if mode < 0.15:      # may be too small -> error stage
                W, H = rng.randrange(1, wmax + 1), rng.randrange(1, hmax + 1)
            else:
                W = rng.randrange(min(w, wmax), wmax + 1)
                H = rng.randrange(min(h, hmax), hmax + 1) if info["dims"] == 2 else rng.randrange(1, hmax + 1)
            steps.append(step(W, H, rng.choice(FILLS)))
            w, h = W, H
        add_sc(spec, steps)

    # 4b. chains of 3-4 EXACT enlargements (no padding: an implementation that looks through / collapses plain
    # enlargements must compose the factors), optionally with one padded stage in between
    tiny = [s for s in src if src[s][1]["w"] * src[s][1]["h"] <= 500 and s not in RAW_SHIFTED and s not in RAW_BAD_DIMS]
    for _ in range(70 if quick else 800):
        spec = rng.choice(tiny)
        d, info = src[spec]
        w, h = info["w"], info["h"]
        steps = []
        n = rng.choice([3, 3, 4])
        padded_at = rng.choice([-1, -1, 0, 1, 2])
        for k in range(n):
            fx = rng.choice([1, 2, 2, 3, 4])
            fy = fx if rng.random() < 0.7 else rng.choice([1, 2, 3])
            W, H = w * fx, (h * fy if info["dims"] == 2 else rng.choice([1, 3, 7]))
            if k == padded_at:
                W, H = W + rng.randrange(1, 4), (H + rng.randrange(0, 3) if info["dims"] == 2 else H)
            if W * H > 400000 or W > 3000:
                break
            steps.append(step(W, H, rng.choice(FILLS)))
            w, h = W, H
        if len(steps) >= 3:
            add_sc(spec, steps)

    # 5. the float64 boundary: widths k*w-1, k*w, k*w+1 for big k (up to 2^31-1), sampled pixels
    nh = 6 if quick else 60
    for spec in [s for s in src if s not in RAW_SHIFTED and s not in RAW_BAD_DIMS]:
        d, info = src[spec]
        if spec.split(":")[1] not in ("c", "d") and not spec.startswith("raw") and quick:
            continue
        w, h, dims = info["w"], info["h"], info["dims"]
        kmax = MAXI // w
        ks = {kmax, kmax - 1, (1 << 30) // w, (1 << 24) // w + 1, 4097, 1000003 if 1000003 <= kmax else kmax // 3}
        while len(ks) < nh + 4:
            ks.add(rng.randrange(1, kmax + 1))
        for k in sorted(ks):
            for dlt in (-1, 0, 1):
                W = k * w + dlt
                if not (1 <= W <= MAXI):
                    continue
                if dims == 2:
                    kh = rng.choice([k, k + 1, max(1, k - 1), rng.randrange(1, MAXI // h + 1)])
                    H = min(MAXI, max(1, kh * h + rng.choice([-1, 0, 1])))
                else:
                    H = rng.choice([1, 7, MAXI])
                fill = rng.choice(FILLS)
                steps = [step(W, H, fill)]
                coords = interesting_coords(rng, dims, w, h, W, H)
                if rng.random() < 0.3 and W < MAXI // 2:
                    # second stage on top of the huge image
                    W2 = rng.choice([W, W + 1, min(MAXI, 2 * W - 1), min(MAXI, 2 * W), MAXI])
                    H2 = rng.choice([H, min(MAXI, 2 * H + 1), MAXI]) if dims == 2 else rng.choice([1, 3])
                    steps.append(step(W2, H2, rng.choice(FILLS)))
                    coords += interesting_coords(rng, dims, W, H, W2, H2, extra=2)[:60]
                lines.append(line_scat(spec, steps, coords[:160], d))
    # 6. requests far beyond 2^31 (the guard of the theorems is 2^62): products of the request with the symbol
    # size exceed 2^63 here, so any comparison by cross-multiplication or any 64-bit intermediate overflows
    BIG = [(1 << 62) - 1, 5 * 10 ** 17, 878416384462359601, 3 * 10 ** 18, (1 << 61) + 12345, 7 * 10 ** 9, (1 << 32) + 1]
    for spec in [s for s in src if s not in RAW_SHIFTED and s not in RAW_BAD_DIMS][:: (3 if quick else 1)]:
        d, info = src[spec]
        w, h, dims = info["w"], info["h"], info["dims"]
        for Wb in (rng.sample(BIG, 3) if quick else BIG):
            for (W, H) in ((Wb, rng.choice([h, 3 * h + 1, 100, 50])), (rng.choice([w, 2 * w + 1, 100]), Wb), (Wb, Wb - rng.randrange(0, 1000))):
                if dims == 1 and H == Wb:
                    H = rng.choice([1, 7, Wb])
                steps = [step(W, H, rng.choice(FILLS))]
                coords = interesting_coords(rng, dims, w, h, W, H)
                lines.append(line_scat(spec, steps, coords[:120], d))
    return lines


def stage_tokens(impl_out):
    if not impl_out or " => " not in impl_out:
        return None
    return impl_out.split(" => ", 1)[1].split(" ; ")


def nontrivial(line, impl_out):
    st = stage_tokens(impl_out)
    return bool(st) and any(s.startswith("OK ") for s in st)


def oracle_lines(lines, impl_outs):
    res = []
    for l, o in zip(lines, impl_outs):
        if not o or " => " not in o:
            res.append("scpanic")     # panic/crash: the specification admits only a result or an error
            continue
        info = parse_desc(o)
        if info["x0"] != 0 or info["y0"] != 0:
            res.append(None)          # outside the hypothesis origin_anchored: model comparison only
            continue
        front = l.split(" | ", 1)[0].split(" ")
        tag = "scspec" if front[0] == "sc" else "scatspec"
        res.append("%s %s | %s" % (tag, " ".join(front[2:]), o))
    return res


def oracle_verdict(line, impl_out, oracle_out):
    if oracle_out is None or not oracle_out.startswith("VALID"):
        return "validator of the specification rejects the implementation's result: %s" % oracle_out
    return None


def shrink(line):
    # drop the inline source description from the replay (the harness ignores it)
    return line.split(" | ", 1)[0]


def outside_guard_probe():
    """NOT part of the verdict: documents what happens beyond the 2^31 guard, where float64(width) is inexact.
    EAN-8 (67 modules), k = 134435809772260, width = 67*k - 1 > 2^53: float64(width) rounds to 67*k, the code takes
    factor k although k*67 > width; the model (integer division) and the property say factor k-1, offset 33."""
    try:
        impl = os.path.join(BUILD, "impl_" + PID)
        model = os.path.join(BUILD, "model_" + PID)
        spec = "ean:d:" + hx("1234567")
        d = run_lines(impl, ["scsrc " + spec], 1)[0]
        l = "scat %s 9007199254741419x1:a @ 0,0 32,0 33,0 | %s" % (spec, d)
        i = run_lines(impl, [l], 1)[0].split(" ")[-1]
        m = run_lines(model, [l], 1)[0].split(" ")[-1]
        return {"case": l.split(" | ")[0], "impl_pixels": i, "integer_model_pixels": m,
                "agree": i == m,
                "note": "outside the guard 1 <= width < 2^31 of the theorems; reported as a finding, not a violation of the checked domain"}
    except Exception as e:      # never let the probe influence the check
        return {"error": str(e)}


def distribution(lines, impl_outs):
    from collections import Counter
    kinds, status, factors, fills, nst, parity = Counter(), Counter(), Counter(), Counter(), Counter(), Counter()
    huge = 0
    for l, o in zip(lines, impl_outs):
        front = l.split(" | ", 1)[0].split(" ")
        if front[0] == "scat":
            huge += 1
        steps = [s for s in front[2:] if s != "@" and ":" in s and "x" in s.split(":")[0]]
        st = stage_tokens(o)
        if st is None:
            status["no-output"] += 1
            continue
        info = parse_desc(o)
        kinds[info["kind"]] += 1
        nst[len(steps)] += 1
        w, h, dims = info["w"], info["h"], info["dims"]
        for s, r in zip(steps, st):
            wh, fill = s.split(":")
            W, H = [int(v) for v in wh.split("x")]
            fills["default" if fill == "d" else "explicit"] += 1
            status[r.split(" ")[0]] += 1
            if r.startswith("OK") and dims in (1, 2) and w > 0 and h > 0:
                g = geom(dims, w, h, W, H)
                if g:
                    f = g[0]
                    factors["1" if f == 1 else "2" if f == 2 else "3" if f == 3 else "4-9" if f < 10
                            else "10-999" if f < 1000 else ">=1000"] += 1
                    parity["odd free width" if (W - f * w) % 2 else "even free width"] += 1
            w, h = W, H
    probe = outside_guard_probe()
    return {"outside_guard_probe": probe, "symbologies": dict(kinds), "stage_status": dict(status), "factors": dict(factors),
            "fill": dict(fills), "chain_lengths": {str(k): v for k, v in nst.items()},
            "free_space_parity": dict(parity), "huge_sampled_cases": huge}


RULE = ("sources: 9 1-D and 6 2-D symbols from the public encoders of /repo (ean, code128 with/without checksum, code39, "
        "code93, codabar, 2of5, 2of5 interleaved, qr, datamatrix, aztec, pdf417), each with the default scheme, a custom "
        "RGBA scheme with non-white background, ColorScheme8 and an inverted scheme, plus hand-made Barcode values (2-D/1-D, "
        "with/without ColorScheme and CheckSum, dims 0/3/255, shifted Bounds().Min). Requests: full window "
        "1..3*size+5 (1-D heights 1..50) for the hand-made sources (thorough: also for 9 encoder sources), seeded subset + "
        "k*size-1/k*size/k*size+1 boundaries for the others, all heights 1..50 for 1-D codes, chains of 2-3 scalings with "
        "default/explicit fills, and widths k*w-1,k*w,k*w+1 for k up to (2^31-1)/w with At() sampled at block/margin "
        "boundaries. Every pixel of every non-huge stage is compared model vs implementation and validated against the "
        "specification. non-trivial = at least one stage produced an image; distinct = distinct case line")


# --------------------------------------------------------------------------
# kernel-side sample: the same model evaluated by Coq's vm_compute on cases the
# implementation ran (ties the extracted OCaml code to the Gallina definitions)
def _fill_term(tok, white):
    if tok == "d":
        return "None"
    return "Some %d" % (ord(white) if tok == "w" else ord(tok))


def _trivial_case():
    return "(mk 1 0 0 [[49]] None None, 119, [], [])"


def coq_case(line, impl_out):
    st = stage_tokens(impl_out)
    if st is None:
        return _trivial_case()
    front, desc = line.split(" | ", 1)
    ft = front.split(" ")
    t = desc.split(" ")
    info = parse_desc(desc)
    white = t[7]
    rows = [] if t[8] == "-" else t[8].split("/")
    rows_t = "[%s]" % "; ".join("[%s]" % "; ".join(str(ord(c)) for c in r) for r in rows)
    scheme = "None" if t[6] == "-" else "Some (%d, %d)" % (ord(t[6][0]), ord(t[6][1]))
    cs = "None" if t[4] == "-" else "Some (%s)" % t[4]
    src = "mk %d %d %d %s (%s) (%s)" % (info["dims"], info["x0"], info["y0"], rows_t, scheme, cs)
    if "@" in ft:
        k = ft.index("@")
        steps, coords = ft[2:k], [tuple(int(v) for v in c.split(",")) for c in ft[k + 1:]]
    else:
        steps, coords = ft[2:], None
    reqs = []
    for s in steps:
        wh, fill = s.split(":")
        W, H = wh.split("x")
        reqs.append("(%s, %s, %s)" % (W, H, _fill_term(fill, white)))
    exp = []
    for r in st:
        if not r.startswith("OK "):
            exp.append("None")
            continue
        rt = r.split(" ")[1:]
        ri = parse_desc(" ".join(rt))
        rcs = "None" if rt[4] == "-" else "Some (%s)" % rt[4]
        px = []
        if coords is not None:
            sm = rt[8]
            if sm != "-":
                px = [(x, y, sm[i]) for i, (x, y) in enumerate(coords) if i < len(sm)]
        else:
            rr = rt[8].split("/") if rt[8] != "-" else []
            allpx = [(x, y, c) for y, row in enumerate(rr) for x, c in enumerate(row)]
            stride = max(1, len(allpx) // 1200)
            px = allpx[::stride] + allpx[-1:]
        exp.append("Some (%d, %d, %s, [%s])" % (ri["w"], ri["h"], rcs,
                                               "; ".join("(%d, %d, %d)" % (x, y, ord(c)) for x, y, c in px)))
    return "(%s, %d, [%s], [%s])" % (src, ord(white), "; ".join(reqs), "; ".join(exp))


KERNEL_HEADER = """From Verif Require Import Prelude ScaleM.
(* colours are the protocol's pixel characters (their codes); 111 = 'o' outside a raw source *)
Definition mk (dims x0 y0 : Z) (rows : list (list Z)) (scheme : option (Z * Z)) (cs : option Z) : source Z :=
  {| s_dims := dims; s_kind := []; s_content := []; s_cmodel := 0;
     s_x0 := x0; s_y0 := y0; s_x1 := x0 + zlength (hd [] rows); s_y1 := y0 + zlength rows;
     s_px := fun x y =>
       if (x <? x0) || (y <? y0) then 111 else
       match nth_error rows (Z.to_nat (y - y0)) with
       | Some r => match nth_error r (Z.to_nat (x - x0)) with Some c => c | None => 111 end
       | None => 111
       end;
     s_scheme := scheme; s_checksum := cs |}.
Definition optz_eq (a b : option Z) : bool :=
  match a, b with None, None => true | Some x, Some y => x =? y | _, _ => false end.
Definition stage_ok (o : outcome (source Z)) (e : option (Z * Z * option Z * list (Z * Z * Z))) : bool :=
  match o, e with
  | Err, None => true
  | Ok t, Some (x1, y1, cs, px) =>
      (s_x0 t =? 0) && (s_y0 t =? 0) && (s_x1 t =? x1) && (s_y1 t =? y1) && optz_eq (s_checksum t) cs &&
      forallb (fun p : Z * Z * Z => let '(x, y, c) := p in s_px t x y =? c) px
  | _, _ => false
  end.
Definition case_ok (c : source Z * Z * list (request Z) * list (option (Z * Z * option Z * list (Z * Z * Z)))) : bool :=
  let '(src, white, reqs, exp) := c in
  let st := scale_stages white src reqs in
  (length st =? length exp)%nat && forallb (fun p => stage_ok (fst p) (snd p)) (combine st exp).
"""
