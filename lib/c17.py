"""C17 — Galois-field and Reed-Solomon utilities are algebraically correct."""
from common import *

PID = "C17"
PROPS = "props/C17.v"
GOTAB = ["gf.go"]
GOFILES = ["gf.go"]
EXTRACT = ["base", "gf", "gfspec"]
HANDLERS = ["h_gf.ml"]

FIELDS = [(285, 256, 0), (301, 256, 1), (19, 16, 1), (67, 64, 1), (1033, 1024, 1), (4201, 4096, 1)]

RULE = ("exhaustive: every operand pair of every library field (rows a x all b; quick: all rows of fields up to 1024 elements "
        "and 64 seeded rows of GF(4096); thorough: all rows of all fields) for Multiply/Divide/Invers (md5 per row); random single "
        "operations checked by the textbook shift-and-add oracle; random polynomials add/mul/div/monomial; Reed-Solomon histories "
        "(1..6 requests with random degree orders, k in 1..size-base up to 600) on fresh encoders and on the package-level qr/datamatrix "
        "encoders, every result checked by the syndrome oracle; non-trivial = non-zero operands / non-zero data; distinct = distinct case line")


def fs(f):
    return "%d %d %d" % f


def rand_poly(rng, size, maxlen=12):
    n = rng.randrange(1, maxlen)
    l = [rng.randrange(size) for _ in range(n)]
    if rng.random() < 0.3:
        l[0] = 0
    if rng.random() < 0.1:
        l = [0] * n
    return ",".join(map(str, l))


def cases(tier, rng):
    lines = []
    for f in FIELDS:
        size = f[1]
        if size <= 1024 or tier == "thorough":
            rows = range(size)
        else:
            rows = sorted(set([0, 1, 2, size - 1] + [rng.randrange(size) for _ in range(60)]))
        for a in rows:
            lines.append("gfrow %s %d" % (fs(f), a))
    nops = 600 if tier == "quick" else 20000
    for _ in range(nops):
        f = rng.choice(FIELDS)
        a = rng.choice([0, 1, f[1] - 1, rng.randrange(f[1])])
        b = rng.choice([0, 1, f[1] - 1, rng.randrange(f[1])])
        lines.append("gfop %s %d %d" % (fs(f), a, b))
    LIBF = {"qr": 256, "dm": 256, "az4": 16, "az6": 64, "az8": 256, "az10": 1024, "az12": 4096}
    for _ in range(700 if tier == "quick" else 20000):
        w = rng.choice(sorted(LIBF))
        lines.append("gfoplib %s %d %d" % (w, rng.randrange(LIBF[w]), rng.randrange(LIBF[w])))
    npoly = 400 if tier == "quick" else 10000
    for _ in range(npoly):
        f = rng.choice(FIELDS)
        op = rng.choice(["add", "mul", "div", "div", "mono"])
        p = rand_poly(rng, f[1], 40 if op == "div" else 12)
        q = rand_poly(rng, f[1])
        if op == "div":
            # divisor must be non-zero (Go: Invers(0) garbage / endless loop otherwise; outside the property)
            while all(x == "0" for x in q.split(",")):
                q = rand_poly(rng, f[1])
        if op == "mono":
            q = "%d,%d" % (rng.randrange(0, 20), rng.randrange(f[1]))
        lines.append("poly %s %s %s %s" % (fs(f), op, p, q))
    nrs = 150 if tier == "quick" else 4000
    for _ in range(nrs):
        f = rng.choice(FIELDS)
        size, base = f[1], f[2]
        kmax = min(size - base, 600 if tier == "thorough" else 120)
        nreq = rng.randrange(1, 7)
        ks, ds = [], []
        for _ in range(nreq):
            k = rng.choice([1, 2, kmax, rng.randrange(1, kmax + 1), rng.randrange(1, min(kmax, 40) + 1)])
            n = rng.choice([0, 1, rng.randrange(1, 60)])
            d = [rng.randrange(size) for _ in range(n)]
            if d and rng.random() < 0.2:
                d[0] = 0
            ks.append(str(k))
            ds.append(",".join(map(str, d)) if d else "-")
        lines.append("rs %s %s %s" % (fs(f), ";".join(ks), ";".join(ds)))
    # many check symbols over the large fields (k around and above 255, up to 600)
    for f in [(1033, 1024, 1), (4201, 4096, 1)]:
        for k in ([254, 255, 256, 600] if tier == "quick" else [254, 255, 256, 257, 300, 511, 512, 600]):
            d = ",".join(str(rng.randrange(f[1])) for _ in range(rng.randrange(1, 30)))
            lines.append("rs %s %d %s" % (fs(f), k, d))
    # GF(4096) up to and beyond 1024 check symbols (Aztec's largest symbols use up to ~1400), and on ONE encoder
    # large counts in descending / mixed order (a "most recent large generator" memo must compare the degree)
    f = (4201, 4096, 1)
    for k in ([1023, 1024, 1025, 1400] if tier == "quick" else [1000, 1023, 1024, 1025, 1026, 1100, 1400, 1624, 2000]):
        d = ",".join(str(rng.randrange(4096)) for _ in range(rng.randrange(1, 12)))
        lines.append("rs %s %d %s" % (fs(f), k, d))
    for ks in ([1100, 1300, 1300, 1100, 1030], [1400, 1025, 1024, 1023, 1026], [1030, 600, 1029, 1031, 20]):
        ds = [",".join(str(rng.randrange(4096)) for _ in range(rng.randrange(1, 8))) for _ in ks]
        lines.append("rs %s %s %s" % (fs(f), ";".join(map(str, ks)), ";".join(ds)))
    f = (1033, 1024, 1)
    for k in ([1000] if tier == "quick" else [700, 1000, 1020]):
        lines.append("rs %s %d %s" % (fs(f), k, ",".join(str(rng.randrange(1024)) for _ in range(5))))
    # package-level encoders: interleaved request orders, cache carries across lines
    for _ in range(60 if tier == "quick" else 1500):
        which = rng.choice(["qr", "dm"])
        kmax = 68
        nreq = rng.randrange(1, 4)
        ks = [str(rng.randrange(1, kmax + 1)) for _ in range(nreq)]
        ds = [",".join(str(rng.randrange(256)) for _ in range(rng.randrange(1, 40))) for _ in range(nreq)]
        lines.append("rslib %s %s %s" % (which, ";".join(ks), ";".join(ds)))
    rng.shuffle(lines)
    return lines


def nontrivial(line, out):
    t = line.split()
    if t[0] == "gfrow":
        return t[4] != "0"
    if t[0] == "gfop":
        return t[4] != "0" and t[5] != "0"
    if t[0] == "gfoplib":
        return t[2] != "0" and t[3] != "0"
    return True


def oracle_lines(lines, outs):
    res = []
    for l, o in zip(lines, outs):
        t = l.split()
        if o is None or o.startswith("PANIC") or o.startswith("CRASH"):
            res.append(None)
        elif t[0] == "gfop":
            res.append("gfopspec %s %s %s %s" % (" ".join(t[1:4]), t[4], t[5], o))
        elif t[0] == "gfoplib":
            P = {"qr": "285 256 0", "dm": "301 256 1", "az4": "19 16 1", "az6": "67 64 1", "az8": "301 256 1",
                 "az10": "1033 1024 1", "az12": "4201 4096 1"}[t[1]]
            res.append("gfopspec %s %s %s %s" % (P, t[2], t[3], o))
        elif t[0] == "poly" and t[4] == "div" and len(o.split()) == 2:
            res.append("polydivspec %s %s %s %s" % (" ".join(t[1:4]), t[5], t[6], o))
        elif t[0] == "rs":
            res.append("rsspec %s %s %s %s" % (" ".join(t[1:4]), t[4], t[5], ";".join(o.split())))
        elif t[0] == "rslib":
            f = "285 256 0" if t[1] == "qr" else "301 256 1"
            res.append("rsspec %s %s %s %s" % (f, t[2], t[3], ";".join(o.split())))
        else:
            res.append(None)
    return res


def oracle_verdict(line, out, oracle_out):
    if oracle_out != "OK":
        return "algebraic oracle (textbook multiplication / division identity / zero syndromes) rejects: " + oracle_out
    return None


def distribution(lines, outs):
    d = {}
    for l in lines:
        k = l.split()[0]
        d[k] = d.get(k, 0) + 1
    return d
