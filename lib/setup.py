"""setup: build translator output, the Coq theorems, harness and extracted driver of every claimed property."""
from common import *
import importlib


def main():
    t0 = time.time()
    bad = grep_gate()
    if bad:
        print("grep gate:", bad)
        return 1
    m = json.load(open(os.path.join(VERIF, "MANIFEST.json")))
    pids = [c["property_id"] for c in m["checks"]]
    os.makedirs(os.path.join(COQ, "gen"), exist_ok=True)
    mods = [importlib.import_module(p.lower()) for p in pids]
    try:
        import c16
        print("gosync:", c16.run_gosync())
        try:
            print("gosrc:", run_gosrc())
        except BuildError as e:      # informational tie only
            print("gosrc failed:", e.what)
        for mod in mods:
            if getattr(mod, "GOTAB", None):
                print(mod.PID, "gotab:", run_gotab(mod))
        targets = [mod.PROPS[:-2] + ".vo" for mod in mods]
        with Lock("coq"):
            coq_makefile()
            rc, out = sh(["make", "-j%d" % NCPU] + targets, cwd=COQ, timeout=6 * 3600)
        if rc != 0:
            print(out[-3000:])
            return 1
        for mod in mods:
            if hasattr(mod, "GOFILES"):
                build_impl(mod)
            if hasattr(mod, "EXTRACT"):
                build_model(mod)
            if hasattr(mod, "setup"):
                mod.setup()
    except BuildError as e:
        print(e.what)
        print(e.log[-3000:])
        return 1
    print("setup ok in %.0fs for %s" % (time.time() - t0, pids))
    return 0
