"""setup: build translator, whole Coq development, harness and extracted driver."""
from common import *


def main():
    t0 = time.time()
    bad = grep_gate()
    if bad:
        print("grep gate:", bad)
        return 1
    try:
        print("gotab:", run_gotab())
        open(os.path.join(COQ, "gen", ".stamp"), "w").close()
        with Lock("coq"):
            coq_makefile()
            rc, out = sh(["make", "-j%d" % NCPU], cwd=COQ, timeout=6 * 3600)
        if rc != 0:
            print(out[-3000:])
            return 1
        import importlib
        for f in sorted(os.listdir(os.path.join(VERIF, "lib"))):
            if re.match(r"c\d\d\.py$", f):
                mod = importlib.import_module(f[:-3])
                if hasattr(mod, "GOFILES"):
                    build_impl(mod)
                    build_model(mod)
    except BuildError as e:
        print(e.what)
        print(e.log[-3000:])
        return 1
    print("setup ok in %.0fs" % (time.time() - t0))
    return 0
