"""C02 — DataMatrix: every accepted content decodes back to exactly that content
(also carries the DataMatrix cases of C10-C13: error iff too long, rendering
contract, ECC count of the size, smallest size)."""
from common import *

PID = "C02"
PROPS = "props/C02.v"
GOTAB = ["datamatrix.go"]
GOFILES = ["datamatrix.go", "all.go"]
EXTRACT = ["base", "gf", "datamatrix"]
HANDLERS = ["h_datamatrix.ml"]

# ISO/IEC 16022 data capacities of the 24 square symbols (used only to aim the generators)
CAPS = [3, 5, 8, 12, 18, 22, 30, 36, 44, 62, 86, 114, 144, 174, 204, 280, 368, 456, 576, 696, 816, 1050, 1304, 1558]
SIDES = [10, 12, 14, 16, 18, 20, 22, 24, 26, 32, 36, 40, 44, 48, 52, 64, 72, 80, 88, 96, 104, 120, 132, 144]
ECCS = [5, 7, 10, 12, 14, 18, 20, 24, 28, 36, 42, 48, 56, 68, 84, 112, 144, 192, 224, 272, 336, 408, 496, 620]
NSCHEMES = 9


def hx(b):
    return bytes(b).hex() if b else "-"


def unhx(s):
    return b"" if s == "-" else bytes.fromhex(s)


def alen(b):
    """length of the ASCII encodation (digit pairs greedy from the left, 2 per byte >= 128)"""
    n = i = 0
    while i < len(b):
        if 48 <= b[i] <= 57 and i + 1 < len(b) and 48 <= b[i + 1] <= 57:
            i += 2
            n += 1
        else:
            n += 2 if b[i] >= 128 else 1
            i += 1
    return n


NONDIGIT = [c for c in range(128) if not 48 <= c <= 57]


def gen_content(rng, kind, L):
    """a byte string whose ASCII encodation has exactly L codewords"""
    if L <= 0:
        return b""
    if kind == "digits":
        n = rng.choice([2 * L, 2 * L - 1])
        return bytes(rng.randrange(48, 58) for _ in range(n))
    if kind == "ascii":
        return bytes(rng.choice(NONDIGIT) for _ in range(L))
    if kind == "high":
        b = [rng.randrange(128, 256) for _ in range(L // 2)]
        if L % 2:
            b.insert(rng.randrange(len(b) + 1), rng.choice(NONDIGIT))
        return bytes(b)
    for _ in range(200):   # mixed
        toks = []
        while alen(b"".join(toks)) < L:
            k = rng.random()
            if k < 0.3:
                toks.append(bytes([rng.randrange(48, 58), rng.randrange(48, 58)]))
            elif k < 0.45:
                toks.append(bytes([rng.randrange(48, 58)]))
            elif k < 0.7:
                toks.append(bytes([rng.randrange(128, 256)]))
            else:
                toks.append(bytes([rng.randrange(0, 128)]))
        while toks and alen(b"".join(toks)) > L:
            toks.pop()
        s = b"".join(toks)
        while alen(s) < L:
            s += bytes([rng.choice(NONDIGIT)])
        if alen(s) == L:
            return s
    return bytes(rng.choice(NONDIGIT) for _ in range(L))


KINDS = ["digits", "ascii", "high", "mixed"]


def cases(tier, rng):
    quick = tier == "quick"
    lines = ["dmnsizes"]
    lines += ["dmsize %d" % i for i in range(24)]
    lines += ["dmplace %d" % i for i in range(24)]          # exhaustive: every cell of every size
    # encodeText: all single bytes, all pairs over a class alphabet, random
    lines += ["dmtext -"] + ["dmtext %02x" % c for c in range(256)]
    alpha = [0x30, 0x39, 0x2f, 0x3a, 0x00, 0x7f, 0x80, 0xff, 0x41]
    for a in alpha:
        for b in alpha:
            lines.append("dmtext " + hx([a, b]))
            for c in alpha:
                lines.append("dmtext " + hx([a, b, c]))
    for _ in range(200 if quick else 5000):
        n = rng.randrange(1, 40)
        lines.append("dmtext " + hx(gen_content(rng, "mixed", n)))
    # addPadding: every size from several fill levels
    for i, cap in enumerate(CAPS):
        fills = sorted(set([0, 1, cap - 1, cap, max(0, cap - 2), rng.randrange(0, cap + 1)]))
        for f in fills:
            lines.append("dmpad %d %s" % (cap, hx(rng.randrange(1, 256) for _ in range(f))))
    lines.append("dmpad 3 " + hx([1, 2, 3, 4, 5]))
    # calcECC: every size, random data (incl. zeros and 255)
    for i, cap in enumerate(CAPS):
        reps = 2 if quick and i >= 15 else 4 if quick else 30
        for r in range(reps):
            if r == 0:
                data = [0] * cap
            elif r == 1:
                data = [255] * cap
            else:
                data = [rng.randrange(256) for _ in range(cap)]
            lines.append("dmecc %d %s" % (i, hx(data)))
    # blocks whose check codewords begin with one / two zero codewords (see lib/rs_py.py), directly and as symbols
    import rs_py
    for i, (nd, k) in enumerate(rs_py.DM_SMALL):
        for nz in (1, 2):
            d = rs_py.engineer(rs_py.DM, rng, nd, k, nz)
            if d:
                lines.append("dmecc %d %s" % (i, hx(d)))
    for c in rs_py.dm_zero_contents(rng, per=1 if quick else 6):
        lines.append("dm " + hx(c))
    # blocks whose LAST division step has scale exactly 1, each followed by an ordinary content of the same size
    # (a shortcut for "multiply by 1" that returns its operand must not let a later step write into a cached generator)
    for c in rs_py.dm_scale_one_contents(rng, 2 if quick else 10):
        lines.append("dm " + hx(c))
        lines.append("dm " + hx(bytes(rng.randrange(65, 91) for _ in range(len(c)))))
    import gaps
    for t in gaps.dm_misaligned_digits(CAPS):
        lines.append("dm " + hx(t.encode()))
    lines += gaps.family(rng, tier, ("dm",))
    # far more codewords than any symbol holds, incl. counts that wrap around 16 bits onto a valid count
    for n in (1559, 5000, 65535, 65536, 65539, 65536 + 1558, 65536 + 1559, 131072):
        lines.append("dm " + hx(b"a" * n))
    # full encoder: empty, all single bytes, boundaries of every size, capacity limit, random
    lines.append("dm -")
    lines += ["dm %02x" % c for c in range(256)]
    big_subset = set(rng.sample(range(15, 24), 3)) | {23}
    for i, cap in enumerate(CAPS):
        for kind in KINDS:
            for L in (cap - 1, cap, cap + 1):
                if quick and i >= 15 and not (i in big_subset or L == cap or kind == rng.choice(KINDS)):
                    continue
                lines.append("dm " + hx(gen_content(rng, kind, L)))
    for kind in KINDS:
        for L in (1557, 1558, 1559, 1560):
            if quick and kind in ("ascii", "mixed") and L in (1557, 1560):
                continue
            lines.append("dm " + hx(gen_content(rng, kind, L)))
    lines.append("dm " + hx(gen_content(rng, "ascii", 4000)))
    lines.append("dm " + hx(gen_content(rng, "digits", 3200)))
    for _ in range(150 if quick else 6000):
        L = rng.choice([rng.randrange(0, 60), rng.randrange(0, 300), rng.randrange(0, 1700)]) if not quick \
            else rng.choice([rng.randrange(0, 60), rng.randrange(0, 60), rng.randrange(0, 250)])
        lines.append("dm " + hx(gen_content(rng, rng.choice(KINDS), L)))
    # colour schemes: the pattern must not depend on the scheme
    for k in range(NSCHEMES):
        for L in [0, 1, 7, rng.randrange(1, 100)] + ([] if quick else [rng.randrange(100, 1600), 1558, 1559]):
            lines.append("dmc %d %s" % (k, hx(gen_content(rng, rng.choice(KINDS), L))))
    # render of arbitrary codewords (not only encoder-reachable ones)
    for i, cap in enumerate(CAPS):
        if quick and i >= 12 and i not in big_subset:
            continue
        for r in range(2 if quick else 10):
            n = cap + ECCS[i]
            cws = [rng.randrange(256) for _ in range(n)] if r else [255 if j % 2 else 0 for j in range(n)]
            lines.append("dmrender %d %s" % (i, hx(cws)))
    return lines


def nontrivial(line, impl_out):
    t = line.split()
    if t[0] in ("dm", "dmc", "dmrender"):
        return impl_out is not None and (impl_out.startswith("OK") or impl_out == "ERR")
    if t[0] in ("dmtext", "dmpad", "dmecc"):
        return t[-1] != "-"
    return t[0] in ("dmplace", "dmsize")


def _pixels(impl_out):
    f = impl_out.split(" ")
    return f[6] if len(f) >= 7 and f[0] == "OK" else None


def oracle_lines(lines, impl_outs):
    res = []
    for l, o in zip(lines, impl_outs):
        t = l.split()
        if o is None:
            res.append(None)
        elif t[0] in ("dm", "dmc"):
            px = _pixels(o)
            res.append("dmdec %s %s" % (px, t[-1]) if px else "dmexp " + t[-1])
        elif t[0] == "dmrender":
            px = _pixels(o)
            res.append("dmcw " + px if px else None)
        else:
            res.append(None)
    return res


def oracle_verdict(line, impl_out, oracle_out):
    t = line.split()
    if t[0] == "dmrender":
        if oracle_out != t[2]:
            return "reference reader extracts different codewords from the rendered symbol"
        return None
    content = t[-1]
    f = impl_out.split(" ")
    if f[0] != "OK":
        o = oracle_out.split()
        if impl_out == "ERR" and len(o) == 3 and o[1] == "F":
            return None
        if impl_out == "ERR":
            return "error returned for a content whose ASCII encodation (%s codewords) fits a symbol" % o[0]
        return "encoder outcome %s" % impl_out[:40]
    o = oracle_out.split()
    if o[0] == "NOSYMBOL":
        return "dimensions are not an ECC 200 square symbol size"
    if len(f) > 7:
        return "colour contract: " + " ".join(f[7:])
    if "?" in f[6]:
        return "a pixel is neither foreground nor background of the scheme"
    side = int(o[2])
    if f[1] != "DataMatrix" or f[2] != "2" or f[3] != "0,0-%dx%d" % (side, side):
        return "metadata / bounds are not those of a %dx%d DataMatrix symbol" % (side, side)
    if f[4] != content:
        return "Content() differs from the input"
    if o[0] != "T":
        return "structural validator rejects the symbol (finder/clock, fixed pattern, Reed-Solomon or padding)"
    if o[1] != content:
        return "reference reader decodes %s" % o[1][:60]
    if o[6] != o[2]:
        return "symbol size %s, smallest size holding the encodation is %s" % (o[2], o[6])
    return None


def distribution(lines, impl_outs):
    d = {}
    for l, o in zip(lines, impl_outs):
        t = l.split()[0]
        if o is None:
            k = t + ":none"
        elif t in ("dm", "dmc", "dmrender"):
            f = o.split(" ")
            k = "%s:%s" % (t, f[3].split("-")[1] if f[0] == "OK" and len(f) > 3 else f[0])
        else:
            k = t + (":PANIC" if o == "PANIC" else "")
        d[k] = d.get(k, 0) + 1
    return d


def coq_case(line, impl_out):
    t = line.split()
    if t[0] != "dm" or impl_out is None or not (impl_out.startswith("OK") or impl_out == "ERR"):
        return "(true, [], None)"
    content = "[%s]" % "; ".join(str(b) for b in unhx(t[1]))
    if impl_out == "ERR":
        return "(false, %s, None)" % content
    rows = impl_out.split(" ")[6].split("/")
    rs = "; ".join("[%s]" % "; ".join("true" if c == "1" else "false" for c in r) for r in rows)
    return "(false, %s, Some [%s])" % (content, rs)


KERNEL_HEADER = """From Verif Require Import Prelude Barcode DataMatrixM.
Definition row_eqb (a b : list bool) : bool :=
  (length a =? length b)%nat && forallb (fun p => Bool.eqb (fst p) (snd p)) (combine a b).
Definition case_ok (c : bool * list Z * option (list (list bool))) : bool :=
  let '(skip, content, expected) := c in
  if skip then true else
  match dm_encode content, expected with
  | Ok bc, Some rows => (length (bc_rows bc) =? length rows)%nat
                        && forallb (fun p => row_eqb (fst p) (snd p)) (combine (bc_rows bc) rows)
  | Err, None => true
  | _, _ => false
  end.
"""

RULE = ("exhaustive: placement map of all 24 sizes (every cell), region arithmetic of all 24 sizes, encodeText on all 256 "
        "single bytes and all 1-3 byte strings over a 9-byte class alphabet, the full encoder on all 256 single-byte contents; "
        "generated: for every size contents whose ASCII encodation has cap-1/cap/cap+1 codewords (digits-only, ASCII-only, "
        "high-byte-only, mixed), 1557..1560 codewords, far beyond capacity, random contents, all colour schemes, calcECC and "
        "render on random codewords of every size (quick: seeded subset of the sizes >= 64x64); non-trivial = the encoder "
        "produced a symbol or an error / the sub-function had a non-empty input; distinct = distinct case line")


def extra(rep, impl_exe, model_exe, rng, tier):
    # returned barcodes must remain what they were when other symbols are encoded afterwards
    import held
    return held.held_phase(rep, impl_exe, rng, ['dm'], n=10 if tier == "quick" else 80)


def public_line(line):
    t = line.split(" ")
    return "encfull " + line if t[0] == "dm" and len(t) == 2 else None
