"""C10 — Encoders accept exactly the representable inputs and never panic or hang."""
from common import *
import jobs as J

PID = "C10"
PROPS = "props/C10.v"
GOTAB = ["ean.go", "codabar.go", "twooffive.go", "code128.go", "code39.go", "code93.go", "datamatrix.go", "qr.go", "gf.go", "aztec.go", "pdf417.go"]
GOFILES = ["all.go"]
EXTRACT = ["base", "utf8", "gf", "ean", "codabar", "twooffive", "code128", "code39", "code93", "datamatrix", "qr", "aztec", "pdf417", "all"]
HANDLERS = ["all_extra.ml", "h_all.ml"]
ENCODERS = ["ean", "codabar", "c128", "c128n", "c39", "c93", "tof", "qr", "dm", "az", "pdf"]

RULE = ("every public encoder entry point (plain variants; WithColor variants are covered by C11): each byte value 0..255 alone and inside a "
        "valid context, runes around U+007F / U+00F0..U+00F5 / U+FFFD / invalid UTF-8, lengths 0, 1, capacity and capacity+1 (QR: every "
        "version x level x mode boundary in thorough, a seeded third in quick; DataMatrix: every size; Code 128: 80/81 runes), every "
        "defined level/mode constant and out-of-range parameter values; implementation run under recover() with a per-process timeout; "
        "compared with the model (Ok/Err + accessors) and with the specification's representability predicate; non-trivial = accepted; "
        "distinct = distinct case line")

QR_CAP_L40 = {1: 7089, 2: 4296, 3: 2953}


def ctx_variants(enc, byte):
    """the byte alone, and inside an otherwise valid content of that encoder"""
    b = bytes([byte])
    if enc == "ean":
        return [b, b"590123" + b, b + b"590123", b"59012341234" + b]
    if enc == "codabar":
        return [b, b"A" + b + b"B", b"A1" + b, b + b"1B", b"A12" + b + b"34D"]
    if enc in ("c128", "c128n"):
        return [b, b"AB" + b + b"12", b"1234" + b]
    if enc.startswith("c39") or enc.startswith("c93"):
        return [b, b"AB" + b + b"12"]
    if enc.startswith("tof"):
        return [b, b"12" + b, b"1" + b, b"123" + b + b"56"]
    if enc.startswith("qr"):
        return [b, b"12" + b + b"3", b"AB" + b]
    return [b, b"ab" + b + b"12"]


def cases(tier, rng):
    L = []
    add = L.append
    # alphabet boundaries
    for byte in range(256):
        for enc in ["ean", "codabar", "c128", "c128n", "c39 0 0", "c39 1 1", "c39 0 1", "c93 0 0", "c93 1 1", "tof 0", "tof 1",
                    "qr 0 0", "qr 1 1", "qr 2 2", "qr 3 3", "dm"]:
            vs = ctx_variants(enc.split()[0], byte)
            if tier == "quick":
                vs = vs[:2]
            for v in vs:
                add("acc %s %s" % (enc, J.hx(v)))
    # runes around the alphabets' edges, invalid UTF-8
    specials = ["\u007f", "\u0080", "ð", "ñ", "ò", "ó", "ô", "õ", "�", "€", "\U0001F600"]
    raw = [b"\xc3", b"\xc3\x28", b"\xe2\x82", b"\xf0\x9f\x98", b"\xc0\xaf", b"\xed\xa0\x80", b"\xf4\x90\x80\x80", b"\xff\xfe"]
    for enc in ["ean", "codabar", "c128", "c128n", "c39 1 0", "c39 1 1", "c93 1 0", "c93 0 1", "tof 0", "tof 1", "qr 0 0", "qr 0 2", "qr 2 3", "dm"]:
        for s in specials:
            for t in (s, "A" + s, s + "1", "12" + s + s):
                add("acc %s %s" % (enc, J.hx(t)))
        for r in raw:
            for t in (r, b"A" + r, r + b"1"):
                add("acc %s %s" % (enc, J.hx(t)))
    # lengths
    for n in [0, 1, 2, 6, 7, 8, 9, 11, 12, 13, 14, 20]:
        add("acc ean %s" % J.hx("1" * n))
        add("acc ean %s" % J.hx(J.job(rng).split()[-1] if False else "".join(rng.choice("0123456789") for _ in range(n))))
    for n in [0, 1, 79, 80, 81, 82, 160, 200]:
        for ch in ["a", "1", "ñ", "\r"]:
            add("acc c128 %s" % J.hx(ch * n))
            add("acc c128n %s" % J.hx(ch * n))
    for n in [0, 1, 2, 3, 50, 500]:
        add("acc codabar %s" % J.hx("A" * n))
        add("acc tof 0 %s" % J.hx("7" * n))
        add("acc tof 1 %s" % J.hx("7" * n))
        for o in ("0 0", "1 0", "0 1", "1 1"):
            add("acc c39 %s %s" % (o, J.hx("Z" * n)))
            add("acc c93 %s %s" % (o, J.hx("Z" * n)))
    # DataMatrix: every size boundary (data capacities), ascii / digits / high bytes
    caps = [3, 5, 8, 12, 18, 22, 30, 36, 44, 62, 86, 114, 144, 174, 204, 280, 368, 456, 576, 696, 816, 1050, 1304, 1558]
    for c in (caps if tier == "thorough" else caps[::3] + [1558]):
        for d in (-1, 0, 1):
            add("acc dm %s" % J.hx("a" * (c + d)))
            add("acc dm %s" % J.hx("7" * (2 * (c + d))))
            add("acc dm %s" % J.hx(b"\xe9" * max(0, (c + d) // 2)))
    add("acc dm %s" % J.hx("7" * 3117))
    add("acc dm %s" % J.hx("7" * 3116))
    # QR: levels/modes incl. undefined levels; capacity boundaries come from the spec tables via the qr check;
    # here: the global maxima and a sweep of lengths
    for lvl in range(-1, 6):
        for mode in range(0, 4):
            add("acc qr %d %d %s" % (lvl, mode, J.hx("12345")))
    for mode, cap in QR_CAP_L40.items():
        ch = {1: "7", 2: "A", 3: "a"}[mode]
        for d in (-1, 0, 1):
            add("acc qr 0 %d %s" % (mode, J.hx(ch * (cap + d))))
            add("acc qr 0 0 %s" % J.hx(ch * (cap + d)))
    step = 1 if tier == "thorough" else 7
    for n in range(0, 400, step):
        lvl = rng.randrange(4)
        add("acc qr %d 1 %s" % (lvl, J.hx("".join(rng.choice("0123456789") for _ in range(n)))))
        add("acc qr %d 2 %s" % (lvl, J.hx("".join(rng.choice(J.ALNUM) for _ in range(n)))))
        add("acc qr %d 3 %s" % (lvl, J.hx(J.rand_text(rng, n))))
        add("acc qr %d 0 %s" % (lvl, J.hx(J.rand_text(rng, n))))
    # Aztec: every layer request -6..34 (incl. out of range and the extreme ints), percentages, payload sizes around
    # the capacity of the requested configuration
    for req in list(range(-6, 35)) + [-9223372036854775808, 9223372036854775807, -9223372036854775807]:
        for n in (0, 1, 10, 60, 300, 1500, 1900, 3100) if tier == "thorough" else (0, 5, 60):
            add("acc az %d %d %s" % (rng.choice([0, 23, 33, 100]), req, J.hx("A" * n)))
    for pct in (0, 1, 23, 33, 50, 100, 200, 1000) if tier == "thorough" else (0, 33, 200):
        for n in (0, 1, 50, 500, 1000, 1800, 1914, 1915, 3000, 3067, 3068) if tier == "thorough" else (0, 50, 700, 1914, 1915, 3067, 3068):
            add("acc az %d 0 %s" % (pct, J.hx("A" * n)))
            add("acc az %d 0 %s" % (pct, J.hx(b"\xe9" * (n // 2))))
    # PDF417: every security level byte incl. undefined ones, sizes around the 900-codeword limit per level
    for lvl in list(range(0, 12)) + [100, 255]:
        for n in (0, 1, 10, 200):
            add("acc pdf %d %s" % (lvl, J.hx("A" * n)))
    for lvl in range(0, 9):
        k = 2 ** (lvl + 1)
        room = 900 - 1 - k           # data codewords that still fit
        for d in ((-1, 0, 1) if room > 2 else (0,)):
            # text: 2 characters per codeword; bytes: 6 per 5 codewords + latch; digits: 44 per 15 + latch
            add("acc pdf %d %s" % (lvl, J.hx("A" * max(0, 2 * (room + d)))))
            add("acc pdf %d %s" % (lvl, J.hx(b"\x80" * max(0, 6 * ((room + d - 1) // 5)))))
            add("acc pdf %d %s" % (lvl, J.hx("7" * max(0, 44 * ((room + d - 1) // 15)))))
    # sign characters in numeric mode (repaired defect), mixtures
    for t in ["+12", "-0", "+1", "1+2", "12a", "1 2", "０１２"]:
        for mode in (0, 1):
            add("acc qr 0 %d %s" % (mode, J.hx(t)))
    # wrapped lengths, low-byte runes, signs inside numeric groups (lib/gaps.py)
    import gaps
    for g in gaps.acc_cases(rng, tier):
        add("acc " + g)
    # random jobs over everything
    for j in J.jobs(rng, 300 if tier == "quick" else 20000, scale_frac=0.0):
        k = j.split()[1]
        if k in ENCODERS:
            add("acc " + j[4:])
    return L


def nontrivial(line, out):
    return out.startswith("OK")


def compare(impl_out, model_out):
    # PDF417: the model lists the result for every legal column count
    return impl_out == model_out or (model_out is not None and " || " in model_out and impl_out in model_out.split(" || "))


def oracle_lines(lines, outs):
    return ["repr " + l[4:] for l in lines]


def oracle_verdict(line, out, oracle_out):
    if out.startswith(("PANIC", "CRASH", "BOTHNIL", "BOTHSET")):
        return "the encoder did not return normally (barcode XOR error): " + out[:80]
    ok = out.startswith("OK")
    if oracle_out == "REPRESENTABLE" and not ok:
        return "representable content rejected"
    if oracle_out == "NOT-REPRESENTABLE" and ok:
        return "content that is not representable in the symbology was accepted"
    if oracle_out not in ("REPRESENTABLE", "NOT-REPRESENTABLE"):
        return "specification predicate failed: " + oracle_out[:100]
    return None


def distribution(lines, outs):
    d = {}
    for l, o in zip(lines, outs):
        k = l.split()[1] + ":" + ("ok" if o.startswith("OK") else "err" if o == "ERR" else "other")
        d[k] = d.get(k, 0) + 1
    return d


def source_functions(rep):
    """Informational (never a violation): go/gosrc translates 13 small loop-free integer functions of the CURRENT
    source into Gallina (gen/TabSrc.v) and props/SrcFns<Pkg>.v re-prove that they equal the model's functions for
    all arguments (one file per package).  A behaviour-preserving rewrite of one of them can make its proof (or
    its translation) fail; the behavioural correspondence still covers the function then."""
    info = {"note": "informational: regenerate-from-source-and-re-prove tie for loop-free integer functions", "packages": {}}
    try:
        info["translator"] = run_gosrc()
        tab = open(os.path.join(COQ, "gen", "TabSrc.v")).read()
        info["translated"] = tab.count("_ok : bool := true")
        info["not_translatable"] = tab.count("_ok : bool := false")
        proved = 0
        for pk in ("Pdf417", "Aztec", "DataMatrix", "Qr", "Utils"):
            ok, log = coq_build(["props/SrcFns%s.vo" % pk])
            pa = parse_assumptions("props/SrcFns%s.v" % pk, log)
            good = ok and not pa["axioms"] and pa["closed"] >= len(pa["printed"]) and pa["closed"] > 0
            info["packages"][pk] = "proved" if good else ("not proved: " + first_error(log)[:160])
            proved += 1 if good else 0
        info["packages_proved"] = "%d of 5" % proved
    except BuildError as e:
        info["error"] = (e.what + ": " + first_error(e.log))[:300]
    except Exception as e:
        info["error"] = repr(e)[:300]
    rep.cov["source_functions"] = info


def extra(rep, impl_exe, model_exe, rng, tier):
    source_functions(rep)
    return []
