"""C12 — Requested error-correction strength is what the symbol really carries."""
from common import *
import jobs as J
import twod
import c10

PID = "C12"
PROPS = "props/C12.v"
GOTAB = twod.GOTAB
GOFILES = twod.GOFILES
EXTRACT = twod.EXTRACT
HANDLERS = twod.HANDLERS

RULE = ("model-compared: accessors (symbol size!) of QR / DataMatrix / Aztec / PDF417 for contents at capacity boundaries x all levels / "
        "percentages / layer requests; oracle phase: the extracted reference readers applied to the implementation's PIXELS report the "
        "level named by the QR format information and the check codewords per block, the level named by the PDF417 row indicators and "
        "2^(level+1) valid check words, Aztec data/check word counts from its mode message, the DataMatrix size entry; judged against "
        "the request; non-trivial = accepted symbol; distinct = distinct case line")


def cases(tier, rng):
    return ["acc " + j for j in twod.jobs2d(rng, tier)]


def compare(impl_out, model_out):
    return c10.compare(impl_out, model_out)


def nontrivial(line, out):
    return out.startswith("OK")


def extra(rep, impl_exe, model_exe, rng, tier):
    js, outs, readings = twod.run_readers(rep, impl_exe, model_exe, rng, tier)
    viol = []
    stats = {}
    for i, (j, o) in enumerate(zip(js, outs)):
        if i not in readings:
            continue
        r = readings[i].split()
        t = j.split()
        why = None
        if t[0] == "qr":
            if r[0] != "OK":
                why = "reference reader cannot read the symbol: " + readings[i][:80]
            else:
                kv = dict(x.split("=", 1) for x in r[1:] if "=" in x)
                want = twod.LEVELS[int(t[1])]
                if kv.get("l") != want:
                    why = "format information names level %s, requested %s" % (kv.get("l"), want)
                elif kv.get("valid") != "1":
                    why = "blocks do not carry the ISO number of valid check codewords (reader: %s)" % readings[i][:120]
                stats["qr:" + want] = stats.get("qr:" + want, 0) + 1
        elif t[0] == "pdf":
            if r[0] != "T":
                why = "reference reader rejects the symbol: " + readings[i][:80]
            elif r[3] != t[1]:
                why = "row indicators name security level %s, requested %s" % (r[3], t[1])
            stats["pdf:" + t[1]] = stats.get("pdf:" + t[1], 0) + 1
        elif t[0] == "az":
            if r[0] != "VALID":
                why = "reference reader rejects the symbol: " + readings[i][:80]
            else:
                layers, dw, cw = int(r[2]), int(r[3]), int(r[4])
                hl = int(o.split(" | hl=")[1])
                w = twod.aztec_word_size(layers)
                need = hl * int(t[1]) // 100 + 11
                if cw * w < need:
                    why = "check words carry %d bits, requested %d%% of %d data bits + 11 = %d" % (cw * w, int(t[1]), hl, need)
                stats["az:pct" + t[1]] = stats.get("az:pct" + t[1], 0) + 1
        elif t[0] == "dm":
            if r[0] != "T":
                why = "reference reader rejects the symbol (RS blocks / ECC count of its size): " + readings[i][:80]
            stats["dm"] = stats.get("dm", 0) + 1
        if why:
            viol.append({"kind": "the symbol does not carry / declare the requested error-correction strength", "case": "ecx " + j[:300],
                         "why": why, "reader": readings[i][:200], "replay": "echo 'ecx %s' | %s" % (j[:300], impl_exe)})
            break
    rep.cov["checked_by_reader"] = stats
    if not viol:
        # the level a symbol declares must not depend on what was encoded before
        import held
        viol += held.qr_adversarial_phase(rep, impl_exe, rng, tier, held.run_fresh_each)
    return viol


def distribution(lines, outs):
    d = {}
    for l, o in zip(lines, outs):
        k = l.split()[1] + ":" + ("ok" if o.startswith("OK") else "err")
        d[k] = d.get(k, 0) + 1
    return d
