"""Random encode jobs over every public encoder (tags of go/impl/all.go)."""
import random

ALNUM = "0123456789ABCDEFGHIJKLMNOPQRSTUVWXYZ $%*+-./:"


def hx(b):
    if isinstance(b, str):
        b = b.encode("utf-8", "surrogatepass")
    return b.hex() if b else "-"


def ean_check(d):
    x3 = len(d) == 7
    s = 0
    for c in d:
        v = int(c)
        s += v * 3 if x3 else v
        x3 = not x3
    return (10 - s % 10) % 10


def rand_text(rng, n):
    kinds = rng.choice(["digits", "upper", "mixed", "ascii", "bytes", "utf8"])
    if kinds == "digits":
        return "".join(rng.choice("0123456789") for _ in range(n)).encode()
    if kinds == "upper":
        return "".join(rng.choice(ALNUM) for _ in range(n)).encode()
    if kinds == "mixed":
        return "".join(rng.choice("abcXYZ 019,.;:-!?") for _ in range(n)).encode()
    if kinds == "ascii":
        return bytes(rng.randrange(0, 128) for _ in range(n))
    if kinds == "bytes":
        return bytes(rng.randrange(0, 256) for _ in range(n))
    return "".join(rng.choice("aé€😀ßZ9 ") for _ in range(n)).encode("utf-8")


def job(rng, big=False):
    k = rng.choice(["ean", "codabar", "c128", "c128n", "c39", "c93", "tof", "qr", "qr", "qr", "dm", "dm", "az", "az", "pdf", "pdf"])
    n = rng.choice([0, 1, 2, 5, 10, 17, 30, 60]) if not big else rng.choice([100, 300, 700, 1500])
    if k == "ean":
        L = rng.choice([7, 12, 8, 13, 8, 13, 5])
        d = "".join(rng.choice("0123456789") for _ in range(L))
        if L in (8, 13) and rng.random() < 0.8:
            d = d[:-1] + str(ean_check(d[:-1]))
        return "ean %s" % hx(d)
    if k == "codabar":
        body = "".join(rng.choice("0123456789-$:/.+") for _ in range(n % 20))
        s = rng.choice("ABCD") + body + rng.choice("ABCD")
        if rng.random() < 0.1:
            s = body
        return "codabar %s" % hx(s)
    if k in ("c128", "c128n"):
        t = rand_text(rng, min(n, 85))
        return "%s %s" % (k, hx(t))
    if k in ("c39", "c93"):
        full = rng.randrange(2)
        if full:
            t = bytes(rng.randrange(0, 128) for _ in range(min(n, 40)))
        else:
            t = "".join(rng.choice("0123456789ABCDEFGHIJKLMNOPQRSTUVWXYZ-. $/+%") for _ in range(min(n, 40))).encode()
        return "%s %d %d %s" % (k, rng.randrange(2), full, hx(t))
    if k == "tof":
        il = rng.randrange(2)
        d = "".join(rng.choice("0123456789") for _ in range(max(1, n % 30)))
        if il and len(d) % 2 and rng.random() < 0.8:
            d += "0"
        return "tof %d %s" % (il, hx(d))
    if k == "qr":
        mode = rng.randrange(4)
        if mode == 1:
            t = "".join(rng.choice("0123456789") for _ in range(n * (3 if big else 1))).encode()
        elif mode == 2:
            t = "".join(rng.choice(ALNUM) for _ in range(n * (2 if big else 1))).encode()
        else:
            t = rand_text(rng, n)
        return "qr %d %d %s" % (rng.randrange(4), mode, hx(t))
    if k == "dm":
        return "dm %s" % hx(rand_text(rng, n))
    if k == "az":
        layers = rng.choice([0, 0, 0, -1, -2, -4, 1, 2, 5, 12, 27, 32])
        return "az %d %d %s" % (rng.choice([0, 23, 33, 50, 100]), layers, hx(rand_text(rng, n)))
    return "pdf %d %s" % (rng.choice([0, 1, 2, 3, 4, 5, 8]), hx(rand_text(rng, n)))


def jobs(rng, n, big_frac=0.05, scale_frac=0.15):
    res = []
    for _ in range(n):
        j = job(rng, big=rng.random() < big_frac)
        if rng.random() < scale_frac:
            res.append("encs %d %d %s" % (rng.choice([50, 200, 400, 1000]), rng.choice([1, 50, 200, 400, 1000]), j))
        else:
            res.append("enc " + j)
    return res
