"""Small Reed-Solomon encoder over GF(2^8) (python), used only to ENGINEER test data whose check words begin
with zeros (a division remainder with several leading zero coefficients) - about 2^-16 of random blocks."""


class GF:
    def __init__(self, poly, base):
        self.exp = [0] * 512
        self.log = [0] * 256
        x = 1
        for i in range(255):
            self.exp[i] = x
            self.log[x] = i
            x <<= 1
            if x & 0x100:
                x ^= poly
        for i in range(255, 512):
            self.exp[i] = self.exp[i - 255]
        self.base = base
        self.gens = {}

    def mul(self, a, b):
        return 0 if a == 0 or b == 0 else self.exp[self.log[a] + self.log[b]]

    def gen(self, k):
        if k not in self.gens:
            g = [1]
            for d in range(k):
                r = self.exp[d + self.base]
                ng = g + [0]
                for i in range(len(g)):
                    ng[i + 1] ^= self.mul(g[i], r)
                g = ng
            self.gens[k] = g
        return self.gens[k]

    def ecc(self, data, k):
        g = self.gen(k)
        rem = list(data) + [0] * k
        for i in range(len(data)):
            c = rem[i]
            if c:
                for j in range(1, len(g)):
                    rem[i + j] ^= self.mul(g[j], c)
        return rem[len(data):]


QR = GF(285, 0)
DM = GF(301, 1)


def engineer(gf, rng, ndata, k, nzeros, lo=0, hi=255):
    """ndata symbols in lo..hi whose k check symbols start with nzeros (1 or 2) zeros; None if the search fails"""
    for _ in range(40):
        data = [rng.randrange(lo, hi + 1) for _ in range(ndata)]
        if ndata < nzeros:
            return None
        free = list(range(ndata - nzeros, ndata))
        for p in free:
            data[p] = 0
        base = gf.ecc(data, k)[:nzeros]
        unit = []
        for p in free:
            e = [0] * ndata
            e[p] = 1
            unit.append(gf.ecc(e, k)[:nzeros])
        if nzeros == 1:
            for a in range(lo, hi + 1):
                if base[0] ^ gf.mul(a, unit[0][0]) == 0:
                    data[free[0]] = a
                    return data
        else:
            for a in range(lo, hi + 1):
                x0 = base[0] ^ gf.mul(a, unit[0][0])
                x1 = base[1] ^ gf.mul(a, unit[0][1])
                for b in range(lo, hi + 1):
                    if x0 ^ gf.mul(b, unit[1][0]) == 0 and x1 ^ gf.mul(b, unit[1][1]) == 0:
                        data[free[0]], data[free[1]] = a, b
                        return data
    return None


def _first2(gf, data, k):
    e = gf.ecc(data, k)
    return (e[0] << 8) | e[1]


def qr_byte_codewords(content, ndata):
    """data codewords of a byte-mode QR symbol (versions 1..9: 8-bit count) whose content fills it exactly or not"""
    bits = "0100" + format(len(content), "08b") + "".join(format(c, "08b") for c in content)
    room = ndata * 8
    bits += "0" * min(4, room - len(bits))
    bits += "0" * ((8 - len(bits) % 8) % 8)
    out = [int(bits[i:i + 8], 2) for i in range(0, len(bits), 8)]
    pad = [0xEC, 0x11]
    i = 0
    while len(out) < ndata:
        out.append(pad[i % 2])
        i += 1
    return out


# (level, capacity in bytes, data codewords, check codewords) of the single-block version-1/2 symbols
QR_SMALL = [(0, 17, 19, 7), (1, 14, 16, 10), (2, 11, 13, 13), (3, 7, 9, 17), (0, 32, 34, 10), (1, 26, 28, 16)]


def qr_zero_contents(rng, per=2):
    """(level, content bytes) of byte-mode contents whose check codewords start with two zero codewords"""
    out = []
    for (lvl, cap, nd, k) in QR_SMALL:
        for _ in range(per):
            for attempt in range(20):
                c = [rng.randrange(0x20, 0x7F) for _ in range(cap)]
                c[-1] = c[-2] = 0
                base = _first2(QR, qr_byte_codewords(c, nd), k)
                vec = []
                for bit in range(16):
                    d = list(c)
                    d[-2 + bit // 8] ^= 1 << (bit % 8)
                    vec.append(_first2(QR, qr_byte_codewords(d, nd), k) ^ base)
                # solve vec-combination == base over GF(2) by elimination
                sol = _solve_gf2(vec, base)
                if sol is None:
                    continue
                c[-2] = sol & 0xFF
                c[-1] = sol >> 8
                if QR.ecc(qr_byte_codewords(c, nd), k)[:2] == [0, 0]:
                    out.append((lvl, bytes(c)))
                    break
    return out


def _solve_gf2(vec, target):
    """x (16 bits) with XOR of vec[i] for set bits i of x == target, or None"""
    rows = [(vec[i], 1 << i) for i in range(16)]
    piv = []
    for bit in range(15, -1, -1):
        idx = next((j for j, (v, _) in enumerate(rows) if v >> bit & 1), None)
        if idx is None:
            continue
        pv, pc = rows.pop(idx)
        rows = [((v ^ pv, c ^ pc) if v >> bit & 1 else (v, c)) for (v, c) in rows]
        piv = [((v ^ pv, c ^ pc) if v >> bit & 1 else (v, c)) for (v, c) in piv]
        piv.append((pv, pc))
    x, t = 0, target
    for pv, pc in piv:
        hb = pv.bit_length() - 1
        if t >> hb & 1:
            t ^= pv
            x ^= pc
    return x if t == 0 else None


# DataMatrix single-block sizes: (data codewords, check codewords)
DM_SMALL = [(3, 5), (5, 7), (8, 10), (12, 12), (18, 14), (22, 18), (30, 20), (36, 24), (44, 28)]


def dm_zero_contents(rng, per=2):
    """letter-only contents (one codeword per letter: ascii+1) that fill a single-block symbol exactly and whose
    check codewords start with two zeros"""
    out = []
    for (nd, k) in DM_SMALL:
        for _ in range(per):
            d = engineer(DM, rng, nd, k, 2, lo=66, hi=123)
            if d:
                out.append(bytes(x - 1 for x in d))
    return out


def scale_one_data(gf, rng, ndata, k, lo=0, hi=255, which=-1):
    """ndata symbols in lo..hi such that the division step for data position `which` (default: the last) has scale
    exactly 1 (the running remainder's leading coefficient there is 1): in-place / aliasing shortcuts for
    'multiply by 1' are exercised only by such blocks (1 in 255 of random blocks)"""
    g = gf.gen(k)
    pos = which % ndata
    for _ in range(400):
        data = [rng.randrange(lo, hi + 1) for _ in range(ndata)]
        rem = [0] * k
        ok = False
        for i, d in enumerate(data):
            if i == pos:
                want = 1 ^ rem[0]
                if not (lo <= want <= hi):
                    break
                data[i] = d = want
                ok = True
            fb = d ^ rem[0]
            rem = rem[1:] + [0]
            if fb:
                for j in range(k):
                    rem[j] ^= gf.mul(g[j + 1], fb)
        if ok:
            return data
    return None


# DataMatrix sizes whose blocks have 68 check codewords (the longest generator of the library's shared encoders):
# 48x48 = 174 data codewords in one block
def dm_scale_one_contents(rng, n=4):
    out = []
    for (nd, k) in ((174, 68), (144, 56), (114, 48), (44, 28), (5, 7)):
        for _ in range(n):
            d = scale_one_data(DM, rng, nd, k, lo=66, hi=123)
            if d:
                out.append(bytes(x - 1 for x in d))
    return out
