"""C08 — Codabar and 2-of-5: symbols decode to the given digits/characters."""
import itertools

from common import *

PID = "C08"
PROPS = "props/C08.v"
GOTAB = ["codabar.go", "twooffive.go"]
GOFILES = ["codabar.go", "twooffive.go", "all.go"]
EXTRACT = ["base", "codabar", "twooffive"]
HANDLERS = ["h_codabar.ml", "h_twooffive.ml"]

RULE = ("sweeps: `cbx <len> <start> <count>` = all strings of that length over Codabar's 20 characters "
        "(quick: every length <= 3, a third of length 4; thorough: every length <= 6), `tofx <il> <len> ...` / "
        "`tofcsx <len> ...` = all digit strings of that length for both 2-of-5 variants and AddCheckSum (quick: "
        "length <= 4, thorough: <= 7); every number of a sweep is run through implementation and model (compact "
        "records compared as strings) and every implementation record is judged by the specification "
        "(representable?, Content, kind, bounds, reference decoder on the module row / weighted check sum); "
        "single cases: empty string, '!', one letter, every byte 0..255 alone, between A..B and in a digit string, "
        "strings with A-D inside, lower case, ill-formed and multi-byte UTF-8 in every position (incl. the class "
        "'odd rune count in an even byte count' for interleaved, the defect fixed by 63bda0c), random long texts (Codabar up to 60 characters, "
        "2-of-5 up to 80 digits); non-trivial = accepted input, or rejected input that is one edit away from an "
        "accepted one / sweep line; distinct = distinct case line (sweep sizes are in distribution.sweep_strings)")

CB_ALPHA = b"0123456789-$:/.+ABCD"
CB_BODY = b"0123456789-$:/.+"
WEIRD = [b"\xc3\xa9", b"\xef\xbc\x91", b"\xd9\xa1", b"\xf0\x9d\x9f\x8f", b"\xf0\x9f\x98\x80", b"\xc2", b"\xe2\x82",
         b"\xc0\xb1", b"\xed\xa0\x80", b"\xef\xbf\xbd", b"\x80", b"\xff", b"\xc3\x28", b"\xf4\x90\x80\x80"]

def hx(b):
    return b.hex() if b else "-"


def rand_from(rng, alphabet, n):
    return bytes(rng.choice(alphabet) for _ in range(n))


def single_cases(tier, rng):
    out = []
    cb = lambda b: out.append("codabar " + hx(b))
    tof = lambda b: out.extend(["tof 0 " + hx(b), "tof 1 " + hx(b), "tofcs " + hx(b)])
    # ---- Codabar ----
    for s in [b"", b"!", b"A", b"AA", b"A!", b"!A", b"!!", b"A!B", b"AB", b"ABA", b"AAB", b"A1A1A", b"A1B\n", b"\nA1B",
              b"A1B ", b" A1B", b"a1b", b"A1b", b"E1E", b"A1E", b"@1A", b"A1@", b"A,B", b"A*B", b"A B", b"A\x00B",
              b"1A2B", b"A12", b"12B", b"A12B3", b"xA12B", b"A12Bx", b"A12B!", b"!A12B", b"A40156B", b"T12U",
              b"A--$$::B", b"D//..++C", b"B0123456789-$:/.+A"]:
        cb(s)
    for b in range(256):
        cb(bytes([b]))
        cb(b"A" + bytes([b]) + b"B")
        cb(bytes([b]) + b"12B")
        cb(b"A12" + bytes([b]))
    for w in WEIRD:
        for base in (b"A12B", b"C9D"):
            for p in range(len(base) + 1):
                cb(base[:p] + w + base[p:])
                if p < len(base):
                    cb(base[:p] + w + base[p + 1:])
    for _ in range(300 if tier == "quick" else 5000):
        n = rng.choice([2, 3, 5, 8, 13, 21, 40, 60])
        s = bytes([rng.choice(b"ABCD")]) + rand_from(rng, CB_BODY, n - 2) + bytes([rng.choice(b"ABCD")])
        cb(s)
        if rng.random() < 0.5:     # one edit away
            p = rng.randrange(len(s))
            cb(s[:p] + bytes([rng.choice(b"ABCDabcd!*, xE\x80\xff")]) + s[p + 1:])
    # ---- 2 of 5 ----
    for s in [b"", b"0", b"00", b"1", b"12", b"123", b"1234", b"12345670", b"1234567", b" 12", b"12 ", b"1 2", b"+1", b"-1",
              b"1.0", b"12a4", b"a", b"ab", b"1a", b"a1", b"\xc3\xa9", b"12\xc3\xa9", b"\xc3\xa912", b"1\xc3\xa92",
              b"1\xc3\xa9", b"\xc3\xa9\xc3\xa9", b"\xf0\x9d\x9f\x8f", b"12\xf0\x9d\x9f\x8f", b"1\xef\xbc\x91",
              b"\xef\xbc\x91", b"\xef\xbc\x911", b"12\xff", b"12\xff\xff", b"\xff\xff", b"\xc2", b"1\xc2", b"\xd9\xa1\xd9\xa2",
              b"1234\xd9\xa1", b"12345\xd9\xa1", b"0000", b"9999", b"99999", b"0" * 80, b"9" * 81]:
        tof(s)
    for b in range(256):
        tof(bytes([b]))
        tof(b"1" + bytes([b]))
        tof(b"12" + bytes([b]) + b"4")
        tof(b"12" + bytes([b]))
    for w in WEIRD:
        for base in (b"", b"1", b"12", b"123", b"1234"):
            for p in range(len(base) + 1):
                tof(base[:p] + w + base[p:])
    for _ in range(300 if tier == "quick" else 5000):
        n = rng.choice([5, 6, 8, 9, 10, 13, 14, 20, 21, 40, 80])
        s = rand_from(rng, b"0123456789", n)
        tof(s)
        if rng.random() < 0.3:
            p = rng.randrange(len(s))
            tof(s[:p] + bytes([rng.choice(b"/:aA +-\x80\xff")]) + s[p + 1:])
    return out


def blocks(tag, total, step):
    return ["%s %d %d" % (tag, s, min(step, total - s)) for s in range(0, total, step)]


def sweep_cases(tier, rng):
    out = []
    if tier == "quick":
        for n in (1, 2, 3):
            out += blocks("cbx %d" % n, 20 ** n, 1000)
        out += ["cbx 4 %d 1000" % s for s in range(0, 20 ** 4, 3000)]      # a third of length 4
        out += ["cbx 5 %d 500" % rng.randrange(0, 20 ** 5 - 500) for _ in range(10)]
        out += ["cbx 6 %d 500" % rng.randrange(0, 20 ** 6 - 500) for _ in range(10)]
        for n in (1, 2, 3, 4):
            for il in (0, 1):
                out += blocks("tofx %d %d" % (il, n), 10 ** n, 1000)
            out += blocks("tofcsx %d" % n, 10 ** n, 1000)
        for n in (5, 6, 7):
            for il in (0, 1):
                out += ["tofx %d %d %d 500" % (il, n, rng.randrange(0, 10 ** n - 500)) for _ in range(4)]
            out += ["tofcsx %d %d 500" % (n, rng.randrange(0, 10 ** n - 500)) for _ in range(4)]
    else:
        for n in range(1, 7):
            out += blocks("cbx %d" % n, 20 ** n, 20000)
        for n in range(1, 8):
            for il in (0, 1):
                out += blocks("tofx %d %d" % (il, n), 10 ** n, 5000)
            out += blocks("tofcsx %d" % n, 10 ** n, 10000)
    return out


def _cases0(tier, rng):
    return single_cases(tier, rng) + sweep_cases(tier, rng)


SWEEPS = ("cbx", "tofx", "tofcsx")


def nontrivial(line, impl_out):
    t = line.split()
    if t[0] in SWEEPS:
        return True
    return (impl_out or "").startswith("OK") or len(t[-1]) >= 4


def oracle_lines(lines, impl_outs):
    res = []
    for l, o in zip(lines, impl_outs):
        t = l.split()
        if o is None:
            res.append(None)
        elif t[0] in SWEEPS:
            res.append("%sspec %s %s" % (t[0], " ".join(t[1:]), o.replace(" ", "_")))
        else:
            res.append("%sspec %s %s" % (t[0], " ".join(t[1:]), o))
    return res


def oracle_verdict(line, impl_out, oracle_out):
    if oracle_out == "fine" or (oracle_out or "").startswith("fine "):
        return None
    return "specification: " + (oracle_out or "no output")[:300]


def distribution(lines, impl_outs):
    d = {"sweep_lines": 0, "sweep_strings": {}, "single": {}}
    for l, o in zip(lines, impl_outs):
        t = l.split()
        if t[0] in SWEEPS:
            d["sweep_lines"] += 1
            key = " ".join(t[:-2])
            d["sweep_strings"][key] = d["sweep_strings"].get(key, 0) + int(t[-1])
            acc = sum(1 for r in (o or "").split(";") if r and not r.startswith("ERR"))
            d["sweep_strings"][key + " accepted"] = d["sweep_strings"].get(key + " accepted", 0) + acc
        else:
            k = "ok" if (o or "").startswith("OK") else "err" if o == "ERR" else "other"
            key = "%s_%s" % (" ".join(t[:-1]), k)
            d["single"][key] = d["single"].get(key, 0) + 1
    return d


def expand(line):
    t = line.split()
    start, cnt = int(t[-2]), int(t[-1])
    out = []
    for i in range(start, start + cnt):
        if t[0] == "cbx":
            n, s, k = int(t[1]), bytearray(), i
            for _ in range(n):
                s.insert(0, CB_ALPHA[k % 20])
                k //= 20
            out.append("codabar " + hx(bytes(s)))
        elif t[0] == "tofx":
            out.append("tof %s %s" % (t[1], hx(("%0*d" % (int(t[2]), i)).encode())))
        else:
            out.append("tofcs " + hx(("%0*d" % (int(t[1]), i)).encode()))
    return out


def shrink(line):
    """a sweep line that differs: find the first single string on which implementation and model differ"""
    if line.split()[0] not in SWEEPS:
        return line
    impl, model = os.path.join(BUILD, "impl_" + PID), os.path.join(BUILD, "model_" + PID)
    cand = expand(line)
    a, b = run_lines(impl, cand, NCPU), run_lines(model, cand, NCPU)
    for c, x, y in zip(cand, a, b):
        if x != y:
            return c
    return line


# ---- kernel-side sample: the models evaluated by vm_compute inside Coq on cases the implementation ran ----
def zl(hexs):
    return "[%s]" % "; ".join(str(int(hexs[i:i + 2], 16)) for i in range(0, len(hexs), 2)) if hexs != "-" else "[]"


def coq_case(line, impl_out):
    t = line.split()
    if t[0] in SWEEPS or not (impl_out.startswith("OK") or impl_out == "ERR"):
        return "(0, false, [], noB, noC)"
    if t[0] == "tofcs":
        want = "Some %s" % zl(impl_out.split()[1]) if impl_out.startswith("OK") else "noC"
        return "(3, false, %s, noB, %s)" % (zl(t[1]), want)
    il = "true" if (t[0] == "tof" and t[1] == "1") else "false"
    if impl_out.startswith("OK"):
        f = impl_out.split()
        bits = "[%s]" % "; ".join("true" if c == "1" else "false" for c in f[6])
        want = "Some (%s, %s)" % (zl(f[4]), bits)
    else:
        want = "noB"
    return "(%d, %s, %s, %s, noC)" % (1 if t[0] == "codabar" else 2, il, zl(t[-1]), want)


KERNEL_HEADER = """From Verif Require Import Prelude Barcode CodabarM TwoOfFiveM RunLenSpec.
Definition noB : option (list Z * list bool) := None.
Definition noC : option (list Z) := None.
Definition zs_eqb (x y : list Z) : bool :=
  (length x =? length y)%nat && forallb (fun p => fst p =? snd p) (combine x y).
Definition bc_ok (o : outcome barcode) (k : kind -> bool) (inp : list Z) (want : option (list Z * list bool)) : bool :=
  match o, want with
  | Err, None => true
  | Ok bc, Some (content, bits) =>
    k (bc_kind bc) && zs_eqb (bc_content bc) content
    && (match bc_checksum bc with None => true | Some _ => false end)
    && (match bc_rows bc with [r] => flags_eqb r bits | _ => false end)
    && (bc_width bc =? zlength bits) && (bc_height bc =? 1)
  | _, _ => false
  end.
Definition case_ok (c : Z * bool * list Z * option (list Z * list bool) * option (list Z)) : bool :=
  let '(tag, il, inp, want, wantcs) := c in
  if tag =? 0 then true
  else if tag =? 1 then bc_ok (codabar_encode inp) (fun k => match k with KCodabar => true | _ => false end) inp want
  else if tag =? 2 then bc_ok (tof_encode inp il)
         (fun k => match k, il with K2of5, false => true | K2of5I, true => true | _, _ => false end) inp want
  else match tof_add_checksum inp, wantcs with
       | Err, None => true
       | Ok r, Some w => zs_eqb r w
       | _, _ => false
       end.
"""


def extra(rep, impl_exe, model_exe, rng, tier):
    # returned barcodes must remain what they were when other symbols are encoded afterwards
    import held
    return held.held_phase(rep, impl_exe, rng, ['codabar', 'tof 0', 'tof 1'], n=10 if tier == "quick" else 80)


def cases(tier, rng):
    lines = _cases0(tier, rng)
    # long symbols: more than 4096 modules (the BitList's first allocation) and more than 8192
    for n in ([380, 420, 800] if tier == "quick" else [300, 380, 400, 420, 450, 600, 800, 1200, 3000]):
        body = "".join(rng.choice("0123456789-$:/.+") for _ in range(n))
        lines.append("codabar %s" % (rng.choice("ABCD") + body + rng.choice("ABCD")).encode().hex())
        d = "".join(rng.choice("0123456789") for _ in range(n + (n % 2)))
        lines.append("tof 0 %s" % d.encode().hex())
        lines.append("tof 1 %s" % d.encode().hex())
    import gaps
    lines += gaps.family(rng, tier, ("codabar", "tof"))
    for t in gaps.big_value_digit_runs(rng):
        lines.append("tofcs " + t.encode().hex())
    for t in gaps.zero_value_runs("0", "7", (10, 20, 40)):
        lines.append("tofcs " + t.encode().hex())
    # the check-digit helper on very long digit strings (narrow accumulators: 8 bit from 15 nines, 16 bit from 3641)
    for n in ([15, 40, 300, 3641, 5000, 9000] if tier == "quick" else [15, 20, 40, 100, 300, 1000, 3640, 3641, 3642, 5000, 9000, 25000, 70000]):
        lines.append("tofcs " + ("9" * n).encode().hex())
        lines.append("tofcs " + "".join(rng.choice("0123456789") for _ in range(n)).encode().hex())
        lines.append("tofcs " + "".join(rng.choice("789") for _ in range(n + 1)).encode().hex())
    return lines


def public_line(line):
    t = line.split(" ")
    if t[0] == "codabar" and len(t) == 2:
        return "encfull " + line
    if t[0] == "tof" and len(t) == 3:
        return "encfull " + line
    return None
