#!/usr/bin/env python3
"""Regenerates /verif/MANIFEST.json.  Run: python3 lib/manifest_gen.py"""
import json
import os
import subprocess

VERIF = os.path.dirname(os.path.dirname(os.path.abspath(__file__)))

NOTE = ("Trusted: Coq 8.16.1 kernel incl. vm_compute; no axioms (Print Assumptions: closed under the global context); "
        "extraction via ExtrOcamlBasic only; gotab translator printing /repo's tables into coq/gen; OCaml/Go harness glue; "
        "the hand-written Gallina model corresponds to the Go code only as far as the correspondence check shows "
        "(exhaustive on the finite sub-domains named in the evidence, sampled elsewhere); Go runtime modelled not verified.")
TECH = "machine-checked proof in Coq (theorems over an executable Gallina model) + model/implementation correspondence check + spec-decoder oracle on implementation output"

# property id -> (claim text, design ref)
CLAIMS = {
    "C18": ("Coq theorem C18_bitlist_is_bool_sequence: for every initial length and every operation history inside the domain the word-array model of utils/bitlist.go returns exactly the outputs of the boolean-sequence specification (refinement by an invariant over arbitrary histories, unbounded). Tied to the code by a differential run of the extracted model and spec against the real BitList (exhaustive on all <=3-op histories over a 10-op alphabet, random long histories across the 128/1024-word growth boundaries) and a kernel-side vm_compute sample.", "DESIGN.md §5 C18"),
    "C05": ("Coq theorems C05_*: source pattern table = ISO 15417 width table (all 107, distinct, 11/13 modules); for EVERY byte string the Code 128 model never panics, accepts exactly 1..80 runes over ASCII ∪ FNC1-4, and the ISO reference decoder applied to the model's modules returns exactly the rune sequence (induction over the rune list generalised over the current code set), check character = mod-103 value = CheckSum(). Tied to the code by generated tables (gotab), differential run incl. the internal index list (exhaustive short strings over a class alphabet, Markov random), and the extracted reference decoder run on the implementation's pixels.", "DESIGN.md §5 C05"),
}

CLAIMS["C17"] = ("Coq theorems C17_*: the run-time tables of all 7 fields the library constructs (dumped from /repo by gotab) equal the model of NewGaloisField at the ISO primitive polynomials and pass the computable check gf_ok, from which the field laws are proved GENERICALLY for all operands (closure, commutativity, associativity, unit, distributivity over xor via linearity of the doubling map, inverse, division defined for every non-zero divisor and undoing multiplication, explicit panic on zero divisor, no zero divisors); table product = textbook shift-and-add product for all pairs of the fields up to 256 elements; polynomial division terminates without panic with deg r < deg g and AddOrSubstract(Multiply(q,g),r) = dividend as coefficient lists; Reed-Solomon: for every data vector, every k with base+k <= size and EVERY history of earlier requests the encoder returns k field symbols, equal to a fresh encoder's, making data++ecc vanish at alpha^base..alpha^(base+k-1), and these are the unique such symbols when the k roots are distinct (a polynomial of degree < k with k distinct roots is zero). Tied to the code by the table dump, exhaustive differential rows of Multiply/Divide/Invers for every field (all rows in thorough), random polynomial ops, RS request histories incl. the package-level qr/datamatrix encoders, with textbook-multiplication / division-identity / zero-syndrome oracles on the implementation's outputs.", "DESIGN.md §5 C17")

CLAIMS["C09"] = ("Coq theorems C09_* (pure integer arithmetic, all sources, all widths/heights): Scale fails exactly when the request is smaller than the symbol in a scaled dimension, otherwise bounds are (0,0)-(width,height), the factor is the largest fitting integer, margins differ by at most one, every pixel is classified (module block or fill), accessors (Content, Metadata, CheckSum, ColorModel) pass through, a scaled barcode exposes no colour scheme; by induction over arbitrary CHAINS of scalings each stage meets the spec and the final image is one integer enlargement of the original modules. The source barcode is abstract (pixel function, optional scheme/checksum). Tied to the code by a differential run over 12 encoder families x 4 colour schemes and hand-made sources: full (width,height) windows, boundaries k*w-1/k*w/k*w+1 up to 2^31-1 with sampled At(), chains, explicit/default fill; extracted validator as oracle on the implementation's pixels; kernel vm_compute sample.", "DESIGN.md §5 C09")
CLAIMS["C16"] = ("Coq theorems C16_*: (i) an interleaving semantics of N goroutines calling getPolynomial on one shared encoder whose thread program is built from structural facts extracted from /repo's current source by the gosync translator (Lock first, deferred Unlock, cache field private, no package-level variable assigned outside init, only the two RS encoders shared, four goroutines each closing its unbuffered channel last): for ANY number of goroutines, degrees, reachable initial cache and EVERY schedule: cache holds only generators, mutual exclusion, no two goroutines about to access the cache together, every returned call got gen(degree), no deadlock, every step decreases a measure (termination); (ii) unbuffered-channel protocol: a range consumer always drains the producer, a counting consumer leaves the producer running iff it receives fewer values than are sent, and encodeAlphaNumeric receives at least as many values as stringToAlphaIdx sends for every content incl. early returns. PARTIAL: the Go memory model/scheduler are not modelled; absence of data races in the compiled program is supported by race-detector runs (G in 2..64, GOMAXPROCS 1..16, cold start in fresh processes, results compared with the same calls alone, goroutine count before/after), not proved.", "DESIGN.md §5 C16")

CLAIMS["C15"] = ("Coq theorems C15_*: structural facts extracted from the current source by gosync (no package-level variable assigned outside init, the only shared objects with mutating methods are qr.ec and datamatrix.ec, no slice parameter retained or written); the library as a state machine over the two shared generator caches: after ANY history of encode calls every call gets the Reed-Solomon results a fresh process computes (induction over arbitrary op histories, cache invariant); heap model of the only []byte entry point (aztec): for every history of encodes, caller writes and observations each barcode behaves as an immutable snapshot and encode leaves the heap unchanged, with a witness that a slice-retaining implementation (the repaired defect) violates it; Go map searches by value are independent of iteration order when values are unique. PARTIAL: equality with a freshly started process and determinism of the compiled program are observed by the differential run (one long history over all 11 encoders + Scale vs every call alone in a fresh process, every job issued twice; aliasing probes overwriting every input byte), not proved.", "DESIGN.md §5 C15")
CLAIMS["C06"] = ("Coq theorems C06_*: source tables = GS1 tables (R = complement of L, G = reverse of R, parity rows); for EVERY byte string the EAN model accepts exactly 7/12 digits or 8/13 digits with correct GS1 check digit, never panics, and when it accepts: kind, 67/95 modules, guards, Content = full number, CheckSum = last digit, and the reference decoder (L/G/R sets + first-digit parity) applied to the modules returns exactly the full number; everything else is rejected. Tied to the code by generated tables, differential sweeps (thorough: all 10^7 seven-digit strings, all 10^8 eight-digit strings on the accept projection, 2M 12-digit strings), extracted decoder oracle on the implementation's pixels, kernel vm_compute sample.", "DESIGN.md §5 C06")

CLAIMS["C02"] = ("Coq theorem C02_roundtrip (closed, no axioms): for EVERY byte string the DataMatrix model accepts, the ISO 16022 reference reader (size from dimensions, finder/clock per region, Annex F placement transliterated from the standard, fixed pattern, de-interleave, RS syndromes over GF(256)/301 at alpha^1..alpha^e, 253-state pad check, ASCII decode) validates the pixels and returns exactly the content. Layers: the 24 generated size rows = ISO table; model placement = Annex F map for all 24 sizes with every cell written once (corner cases 1/2 and the fixed pattern fire exactly where ISO says); ASCII encodation round trip by induction for all byte strings; padding; interleaved RS blocks valid (via rs_encode_valid); plus never-panic, Err iff encodation > 1558, smallest size, ISO ECC count. Tied to the code by generated tables, exhaustive placement probes of all 24 sizes, boundary contents for every size, and the extracted reader run on the implementation's pixels.", "DESIGN.md §5 C02")
CLAIMS["C07"] = ("Coq theorems C07_*: generated Code 39 / Code 93 tables = literal standard tables (patterns distinct, values unique, search by value independent of map order); for EVERY text and option mix the models never panic, accept exactly the basic alphabets (basic mode) or ASCII 0..127 (full-ASCII), and the reference decoders (pattern -> value, check characters mod 43 / C,K mod 47 with weights 20/15 present exactly when requested, shift-pair resolution) applied to the model's modules return exactly the text; Content and Code 39 CheckSum as specified. Tied to the code by generated tables, exhaustive length<=2 inputs, random longer ones incl. invalid UTF-8, and the extracted decoders run on the implementation's pixels.", "DESIGN.md §5 C07")
CLAIMS["C08"] = ("Coq theorems C08_*: generated Codabar / 2-of-5 tables = standard tables; the Codabar regexp+ReplaceAllString acceptance is modelled explicitly and shown to accept exactly start[A-D] body* stop[A-D]; both 2-of-5 modes accept exactly non-empty digit strings (even length when interleaved) for ALL byte strings incl. multi-byte input (after repair 63bda0c); run-length reference decoders applied to the model's modules return exactly the text; AddCheckSum appends the digit completing the 3-1 weighted sum to a multiple of ten, errors on empty/non-digit. Tied to the code by generated tables, exhaustive sweeps (thorough: all Codabar strings of length <= 6, all digit strings <= 7 for both variants and the helper), extracted decoders as oracle on the implementation's pixels.", "DESIGN.md §5 C08")

CLAIMS["C01"] = ("Coq theorem C01_roundtrip (closed, no axioms): for EVERY byte string, level, mode (Auto/Numeric/AlphaNumeric/Unicode) and each of the 8 masks for which the QR model returns a barcode, the ISO 18004 reference reader (size -> version, both BCH-valid format copies, version info, unmask, codewords in the spec's column-pair order, de-interleave, RS syndromes over GF(256)/285 at alpha^0.., segment parser, terminator/pad check) validates the pixels and returns exactly the content. Layers: the 160 generated version rows = ISO-derived table, format/version words = computed BCH/Golay words, alignment = Annex E, char counts; per-version layout (function modules, zig-zag = column-pair order, duplicate-free) for all 40 versions; mask predicates = Table 10 arithmetically; mode encoders / padding / block split+interleave / placement by induction. The mask choice is an oracle read from the implementation's output (penalty rules not modelled). Tied to the code by generated tables, exhaustive finite sub-domains through hooks, capacity-boundary contents, and the extracted reader run on the implementation's pixels.", "DESIGN.md §5 C01")
CLAIMS["C14"] = ("Coq theorems C14_*: EAN CheckSum() = last digit of Content = GS1 check digit for all four input lengths; Code 128 CheckSum() = modulo-103 weighted sum and the drawn check character has that value; Code 39 CheckSum() = sum of values modulo 43 in every option mix and the drawn character (when requested) has that value; any chain of Scale calls leaves CheckSum() unchanged (via the C09 chain theorem). Tied to the code by a differential run over all three symbologies followed by 0..3 rounds of Scale, with the reference decoders reading the check character from the implementation's pixels.", "DESIGN.md §5 C14")

CLAIMS["C03"] = ("Coq theorem C03_roundtrip (closed, no axioms): for EVERY payload (bytes, length < 2^57), percentage >= 0 (with hlbits*pct < 2^63, the range in which Go's int arithmetic agrees with Z) and layer request for which the Aztec model returns a barcode, the ISO 24778 reference reader (size, bullseye/orientation marks, GF(16) mode message and its agreement with the size, reference grid, spiral extraction, RS syndromes in the field of the word size, un-stuffing, Upper/Lower/Mixed/Punct/Digit/Binary-shift decoder) validates the pixels and returns exactly the payload, and an explicit layer request is honoured. Layers: generated char/latch/shift tables vs the ISO tables; the high-level state-list search decodes back for all byte strings (invariant over the search); stuffing; layout of all 36 configurations; RS validity via rs_encode_valid at the five ISO fields. Tied to the code by generated tables, bit-string and placement hooks, and the extracted reader run on the implementation's pixels.", "DESIGN.md §5 C03")

CLAIMS["C04"] = ("Coq theorem C04_roundtrip (closed, no axioms): for EVERY byte string, security level 0..255 and column count for which the PDF417 model returns a barcode, the ISO 15438 reference reader (start/stop, cluster of every row, left/right indicators agreeing on rows/cols/level, pattern -> codeword per cluster, RS syndromes over GF(929) at 3^1..3^k, length descriptor/padding, text/byte/numeric compaction decoder with all latches, shifts and sub-modes) validates the pixels and returns exactly the data. Layers: all 3x929 patterns well-formed and distinct per cluster (= pinned copy), correction factors = kernel-computed generator products, mixed/punct tables; LFSR Compute = remainder (invariant at the roots); numeric base-900 and six-pack round trips; text sub-mode invariant incl. pad 29 in Punct; segmentation soundness under Go's rune conversion; indicator arithmetic for all shapes. The column count is an oracle read from the implementation's output (aspect-ratio heuristic not modelled). Tied to the code by generated tables, codeword/indicator hooks, and the extracted reader run on the implementation's pixels.", "DESIGN.md §5 C04")

ALL = ["C%02d" % i for i in range(1, 19)]


def main():
    hooks = subprocess.run("git -C /repo log --format=%h --grep='^verif hook' ", shell=True, capture_output=True, text=True).stdout.split()
    m = {
        "version": 1,
        "setup_cmd": "./check setup",
        "hooks": {
            "guard": "verif",
            "enable": "go build -tags verif (harness module /verif/go/impl and translator /verif/go/gotab, replace github.com/boombuler/barcode => /repo); hook files are add-only */verif_export.go with //go:build verif",
            "baseline_off_cmd": "cd /repo && GOFLAGS=-mod=mod GOPROXY=off GOTOOLCHAIN=local go test -vet=off -count=1 ./...",
            "source_commits": hooks,
            "add_only": True,
        },
        "engines": [{
            "name": "coq-proof+correspondence", "path": "/verif/check",
            "serves_properties": [p for p in ALL if p in CLAIMS],
            "kind_free_text": "Coq 8.16.1 theorems about an executable Gallina model; tables regenerated from /repo by the gotab translator on every run; extracted OCaml model + reference decoders run differentially against the real implementation built with -tags verif",
        }],
        "checks": [],
        "not_applicable": [],
        "notes": "See DESIGN.md. known_findings.txt lists repaired defects (fixed:) and unrepaired findings (finding:).",
    }
    for pid in ALL:
        if pid in CLAIMS:
            text, ref = CLAIMS[pid]
            m["checks"].append({
                "property_id": pid,
                "quick_cmd": "./check %s --tier quick" % pid,
                "thorough_cmd": "./check %s --tier thorough" % pid,
                "evidence_file": "/verif/evidence/%s.json" % pid,
                "replay_cmd_template": "./check %s --replay {path}" % pid,
                "engine": "coq-proof+correspondence",
                "level_claimed": {"category": "proof", "text": text, "design_ref": ref},
                "level_note": NOTE,
                "technique": TECH,
            })
        else:
            m["not_applicable"].append({"property_id": pid, "reason": "check still being built in this session (will be claimed at level proof, see DESIGN.md §5); not yet registered"})
    with open(os.path.join(VERIF, "MANIFEST.json"), "w") as f:
        json.dump(m, f, indent=1)
    print("claimed:", [c["property_id"] for c in m["checks"]])


if __name__ == "__main__":
    main()
