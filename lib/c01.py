"""C01 — QR Code: every accepted content decodes back to exactly that content
(also carries the QR parts of C10-C13: accept/reject, rendering contract, level, smallest version)."""
from common import *

PID = "C01"
PROPS = "props/C01.v"
GOTAB = ["qr.go"]
GOFILES = ["qr.go", "all.go"]
EXTRACT = ["base", "qr"]
HANDLERS = ["h_qr.ml"]

# ---------------------------------------------------------------------------
# capacity tables, used ONLY to steer the case generation towards the boundaries
# (ISO 18004 Table 9 as two arrays + the codeword-count formula; the trusted copies
# live in coq/spec/QRSpec.v and are compared with the source by theorem)
_ECC = [
    [7, 10, 15, 20, 26, 18, 20, 24, 30, 18, 20, 24, 26, 30, 22, 24, 28, 30, 28, 28, 28, 28, 30, 30, 26, 28, 30, 30, 30, 30, 30, 30, 30, 30, 30, 30, 30, 30, 30, 30],
    [10, 16, 26, 18, 24, 16, 18, 22, 22, 26, 30, 22, 22, 24, 24, 28, 28, 26, 26, 26, 26, 28, 28, 28, 28, 28, 28, 28, 28, 28, 28, 28, 28, 28, 28, 28, 28, 28, 28, 28],
    [13, 22, 18, 26, 18, 24, 18, 22, 20, 24, 28, 26, 24, 20, 30, 24, 28, 28, 26, 30, 28, 30, 30, 30, 30, 28, 30, 30, 30, 30, 30, 30, 30, 30, 30, 30, 30, 30, 30, 30],
    [17, 28, 22, 16, 22, 28, 26, 26, 24, 28, 24, 28, 22, 24, 24, 30, 28, 28, 26, 28, 30, 24, 30, 30, 30, 30, 30, 30, 30, 30, 30, 30, 30, 30, 30, 30, 30, 30, 30, 30],
]
_NB = [
    [1, 1, 1, 1, 1, 2, 2, 2, 2, 4, 4, 4, 4, 4, 6, 6, 6, 6, 7, 8, 8, 9, 9, 10, 12, 12, 12, 13, 14, 15, 16, 17, 18, 19, 19, 20, 21, 22, 24, 25],
    [1, 1, 1, 2, 2, 4, 4, 4, 5, 5, 5, 8, 9, 9, 10, 10, 11, 13, 14, 16, 17, 17, 18, 20, 21, 23, 25, 26, 28, 29, 31, 33, 35, 37, 38, 40, 43, 45, 47, 49],
    [1, 1, 2, 2, 4, 4, 6, 6, 8, 8, 8, 10, 12, 16, 12, 17, 16, 18, 21, 20, 23, 23, 25, 27, 29, 34, 34, 35, 38, 40, 43, 45, 48, 51, 53, 56, 59, 62, 65, 68],
    [1, 1, 2, 4, 4, 4, 5, 6, 8, 8, 11, 11, 16, 16, 18, 16, 19, 21, 25, 25, 25, 34, 30, 32, 35, 37, 40, 42, 45, 48, 51, 54, 57, 60, 63, 66, 70, 74, 77, 81],
]


def _raw(v):
    r = (16 * v + 128) * v + 64
    if v >= 2:
        a = v // 7 + 2
        r -= (25 * a - 10) * a - 55
    if v >= 7:
        r -= 36
    return r


def data_codewords(v, lvl):
    return _raw(v) // 8 - _ECC[lvl][v - 1] * _NB[lvl][v - 1]


def ccb(mode, v):
    t = {1: (10, 12, 14), 2: (9, 11, 13), 3: (8, 16, 16)}[mode]
    return t[0] if v <= 9 else t[1] if v <= 26 else t[2]


def capacity(mode, lvl, v):
    """characters of encoding `mode` (1 numeric, 2 alphanumeric, 3 byte) version v holds at level lvl"""
    avail = 8 * data_codewords(v, lvl) - 4 - ccb(mode, v)
    if mode == 1:
        return 3 * (avail // 10) + (2 if avail % 10 >= 7 else 1 if avail % 10 >= 4 else 0)
    if mode == 2:
        return 2 * (avail // 11) + (1 if avail % 11 >= 6 else 0)
    return avail // 8


ALNUM = b"0123456789ABCDEFGHIJKLMNOPQRSTUVWXYZ $%*+-./:"
DIGITS = b"0123456789"


def hx(b):
    return b.hex() if b else "-"


def content_for(mode, n, rng):
    """n characters from the alphabet of encoding mode 1/2/3"""
    if mode == 1:
        return bytes(rng.choice(DIGITS) for _ in range(n))
    if mode == 2:
        b = bytearray(rng.choice(ALNUM) for _ in range(n))
        if n > 0 and all(c in DIGITS for c in b):
            b[rng.randrange(n)] = ord("A")
        return bytes(b)
    b = bytearray(rng.randrange(256) for _ in range(n))
    if n > 0 and all(c in ALNUM for c in b):
        b[rng.randrange(n)] = 0x80 + rng.randrange(0x80)
    return bytes(b)


SPECIAL = [
    b"", b"0", b"7", b"12", b"123", b"1234", b"00000", b"+12", b"-0", b"+1", b"-12", b"1+2", b"12+", b" 12", b"1_2",
    b"1e3", b"0x1", b"A", b"AB", b"ABC", b"HELLO WORLD", b"hello world", b"A1", b"1A", b"$%*+-./:", b"a", b"A\n",
    b"\x00", b"\xff", b"\x80", b"\xc3\xa9", b"A\xc3\xa9", b"\xc3", b"\xe2\x82\xac", b"\xf0\x9f\x98\x80", b"\xed\xa0\x80",
    b"\xef\xbf\xbd", b"1\xef\xbf\xbd", b"\xc0\xaf", b"12\xc3", b"\xef\xbc\x91", b"\xd9\xa1\xd9\xa2", b"AB\x00", b"12\x00",
    b"A:", b"A;", b"@", b"[", b"Z", b"/0", b"9:", b" ", b"  ", b"\t",
]

QUICK_VERSIONS = [1, 2, 6, 7, 14, 40]


def boundary_cases(tier, rng):
    """contents with cap-1, cap, cap+1 characters of version x level x mode"""
    combos = [(v, l, m) for v in range(1, 41) for l in range(4) for m in (1, 2, 3)]
    if tier == "quick" and not os.environ.get("VERIF_SEARCH_HARDER"):
        keep = [c for c in combos if c[0] in (1, 9, 10, 26, 27)]
        rest = [c for c in combos if c not in keep]
        rng.shuffle(rest)
        chosen = rng.sample(keep, 14) + rest[:22] + [(40, 0, 1), (40, 0, 2), (40, 0, 3), (40, 3, 3)]
    else:
        chosen = combos
    out = []
    for (v, l, m) in chosen:
        cap = capacity(m, l, v)
        for n in (cap - 1, cap, cap + 1):
            if n < 0:
                continue
            c = content_for(m, n, rng)
            # explicit mode and Auto alternate so that both paths see every boundary
            mode = m if (tier != "quick" or rng.random() < 0.5) else 0
            out.append("qr %d %d %s" % (l, mode, hx(c)))
            if tier != "quick":
                out.append("qr %d 0 %s" % (l, hx(c)))
            out.append("qrbits %d %d %s" % (l, m, hx(c)))
    return out


def cases(tier, rng):
    quick = tier == "quick"
    lines = []
    versions = list(range(1, 41))
    if quick:
        extra = [v for v in versions if v not in QUICK_VERSIONS]
        rng.shuffle(extra)
        lay_versions = sorted(QUICK_VERSIONS + extra[:2])
    else:
        lay_versions = versions
    # --- finite sub-domains through the hooks
    for v in lay_versions:
        lines.append("qrfun %d" % v)
        lines.append("qrorder %d" % v)
    for v in versions:
        lines.append("qralign %d" % v)
        for m in (0, 1, 2, 4, 8, 3):
            lines.append("qrccb %d %d" % (v, m))
        for l in range(4):
            lines.append("qrtdb %d %d" % (v, l))
    for m in range(8):
        lines.append("qrmask %d %d" % (m, 177))
    lines.append("qrmask 8 12")
    fm = [(v, l, m) for v in versions for l in range(4) for m in range(8)]
    if quick:
        rng.shuffle(fm)
        fm = [(v, l, m) for (v, l, m) in fm if v in (1, 7, 40)][:40] + fm[:60]
    for (v, l, m) in fm:
        lines.append("qrfmt %d %d %d" % (v, l, m))
    rows = [(v, l) for v in versions for l in range(4)]
    if quick:
        rng.shuffle(rows)
        rows = rows[:40]
    for (v, l) in rows:
        n = data_codewords(v, l)
        lines.append("qrblocks %d %d %s" % (v, l, hx(bytes(rng.randrange(256) for _ in range(n)))))
    for _ in range(10 if quick else 200):
        k = rng.choice([7, 10, 13, 17, 18, 22, 26, 28, 30])
        lines.append("qrecc %d %s" % (k, hx(bytes(rng.randrange(256) for _ in range(rng.randrange(1, 124))))))
    # blocks whose check codewords begin with one / two zero codewords (a division remainder with leading zero
    # coefficients: about 2^-8 / 2^-16 of random blocks), engineered with lib/rs_py.py; directly and as whole symbols
    import rs_py
    for k in (7, 10, 13, 17, 22, 30):
        for nz in (1, 2):
            d = rs_py.engineer(rs_py.QR, rng, rng.randrange(3, 60), k, nz)
            if d:
                lines.append("qrecc %d %s" % (k, hx(bytes(d))))
    for (lvl, c) in rs_py.qr_zero_contents(rng, per=1 if quick else 6):
        lines.append("qr %d 3 %s" % (lvl, hx(c)))
        lines.append("qr %d 0 %s" % (lvl, hx(c)))
    # every short length x level x alphabet, explicit mode and Auto (the bit count that selects the version is
    # computed per mode: 10 bits per 3 digits, 11 per 2 characters - an odd length, a remainder of 1 or 2 matters)
    for l in range(4):
        for n in (range(1, 62) if quick else range(1, 330)):
            for m in (1, 2, 3):
                c = content_for(m, n, rng)
                lines.append("qr %d %d %s" % (l, m if (n + l) % 2 else 0, hx(c)))
    # normalisation probes (BOM, NUL, blanks ...), UTF-8 oddities, magic sequences, big-valued digit runs (lib/gaps.py)
    import gaps
    lines += gaps.family(rng, tier, ("qr",))
    for (v, l) in (rows[:6] if quick else rows):
        n = _raw(v) // 8
        lines.append("qrrender %d %d %s" % (v, l, hx(bytes(rng.randrange(256) for _ in range(n)))))
    # --- contents
    for c in SPECIAL:
        for mode in range(4):
            lvls = range(4) if not quick else [rng.randrange(4)]
            for l in lvls:
                lines.append("qr %d %d %s" % (l, mode, hx(c)))
                lines.append("qrbits %d %d %s" % (l, mode, hx(c)))
    # unknown level / mode constants
    for (l, mode) in [(4, 0), (4, 1), (255, 3), (0, 4), (1, 5), (3, 255), (7, 7)]:
        lines.append("qr %d %d %s" % (l, mode, hx(b"12")))
    # each byte value alone and inside a valid context, all modes
    byte_values = range(256) if not quick else sorted(set(
        list(range(0x20, 0x60, 3)) + [0, 0x2f, 0x30, 0x39, 0x3a, 0x40, 0x41, 0x5a, 0x5b, 0x7f, 0x80, 0xbf, 0xc2, 0xf0, 0xf4, 0xf5, 0xff]))
    for b in byte_values:
        for mode in (1, 2) if quick else (0, 1, 2, 3):
            lines.append("qr %d %d %02x" % (rng.randrange(4), mode, b))
            lines.append("qr %d %d 3132%02x41" % (rng.randrange(4), mode, b))
    lines += boundary_cases(tier, rng)
    # beyond every capacity
    for (m, n) in [(1, 7090), (2, 4297), (3, 2954), (1, 9000), (3, 3000)]:
        lines.append("qr 0 %d %s" % (m, hx(content_for(m, n, rng))))
        lines.append("qr 0 0 %s" % hx(content_for(m, n, rng)))
    # random contents of random lengths, mixing alphabets
    for _ in range(60 if quick else 6000):
        mode = rng.randrange(4)
        kind = rng.choice([1, 1, 2, 2, 3])
        n = rng.choice([rng.randrange(0, 30), rng.randrange(0, 300), rng.randrange(0, 3200 if not quick else 900)])
        c = bytearray(content_for(kind, n, rng))
        if n > 0 and rng.random() < 0.25:
            c[rng.randrange(n)] = rng.choice([0x2b, 0x2d, 0x61, 0x80, 0xc3, 0x20, 0x3a, 0x30])
        lines.append("qr %d %d %s" % (rng.randrange(4), mode, hx(bytes(c))))
    # colour schemes (C11)
    for s in range(6):
        for c in (b"12345", b"HELLO", b"\xe2\x82\xac uro"):
            lines.append("qrc %d %d %d %s" % (s, rng.randrange(4), rng.randrange(4), hx(c)))
    return lines


# ---------------------------------------------------------------------------
def compare(impl_out, model_out):
    """equal lines; for renders the model lists the 8 candidates results[0..7] and the
    implementation may have selected any of them (the mask choice is not constrained)"""
    if impl_out is None or model_out is None:
        return False
    if "|" not in model_out:
        return impl_out == model_out
    tail = ""
    if " scheme=" in model_out:
        model_out, tail = model_out.rsplit(" scheme=", 1)
        tail = " scheme=" + tail
    cut = model_out.rfind(" ")
    head, cands = model_out[:cut + 1], model_out[cut + 1:].split("|")
    if not impl_out.startswith(head) or not impl_out.endswith(tail):
        return False
    rows = impl_out[len(head):len(impl_out) - len(tail)]
    digest = "md5:" + hashlib.md5(rows.encode()).hexdigest()   # large candidates are printed as MD5
    return any(c == rows or c == digest for c in cands)


def _rows(impl_out):
    t = impl_out.split(" ")
    return t[6] if len(t) >= 7 else None


def oracle_lines(lines, impl_outs):
    res = []
    for l, o in zip(lines, impl_outs):
        t = l.split(" ")
        tag = t[0]
        if tag in ("qr", "qrc") and o and o.startswith("OK "):
            a = t[1:] if tag == "qr" else t[2:]
            res.append("qrdec %s %s %s %s" % (_rows(o), a[0], a[1], a[2]))
        elif tag == "qr" and o == "ERR" and 0 <= int(t[2]) < 4:
            res.append("qrrep %s %s %s" % (t[1], t[2], t[3]))
        elif tag == "qrrender" and o and "/" in o:
            res.append("qrdec " + o)
        elif tag == "qrfmt" and o and "/" in o:
            res.append("qrfmtdec " + o)
        elif tag == "qrfun" and o and "/" in o:
            res.append("qrfundec %s %s" % (t[1], o))
        elif tag == "qrorder" and o:
            res.append("qrorderspec " + t[1])
        elif tag == "qrmask" and o and 0 <= int(t[1]) < 8:
            res.append("qrmaskspec %s %s" % (t[1], t[2]))
        elif tag == "qralign" and o:
            res.append("qralignspec " + t[1])
        elif tag == "qrccb" and o and t[2] in ("1", "2", "4"):
            res.append("qrccbspec %s %s" % (t[1], t[2]))
        elif tag == "qrtdb" and o:
            res.append("qrtdbspec %s %s" % (t[1], t[2]))
        else:
            res.append(None)
    return res


LEVELS = "LMQH"


def oracle_verdict(line, impl_out, oracle_out):
    t = line.split(" ")
    if t[0] == "qrrender":
        # random codewords: the symbol must be readable up to the block level or not at all;
        # what is asked is format/version/pattern structure, checked through qrfmt/qrfun
        return None
    if t[0] == "qrfmt":
        want = "OK %s %s" % (LEVELS[int(t[2])], t[3])
        return None if oracle_out == want else "format information reads %s, drawn for %s" % (oracle_out, want)
    if t[0] == "qrfun":
        return None if oracle_out == "OK" else "function modules: " + oracle_out
    if t[0] == "qrorder":
        return None if oracle_out == impl_out else "placement order differs from the ISO column-pair order"
    if t[0] == "qrmask":
        return None if oracle_out == impl_out else "mask predicate differs from ISO Table 10"
    if t[0] == "qralign":
        return None if oracle_out == impl_out else "alignment positions differ from ISO Annex E " + oracle_out
    if t[0] == "qrccb":
        return None if oracle_out == impl_out else "character count width differs from ISO Table 3 (%s)" % oracle_out
    if t[0] == "qrtdb":
        return None if oracle_out == impl_out else "data codewords differ from ISO Table 9 (%s)" % oracle_out
    if t[0] == "qr" and impl_out == "ERR":
        return None if oracle_out == "0" else "content is representable (level, alphabet, capacity) but was refused"
    if t[0] == "qrc":
        t = t[:1] + t[2:]
    level, content = int(t[1]), t[3]
    if not oracle_out.startswith("OK "):
        return "reference reader cannot read the symbol: " + oracle_out[:80]
    f = dict(x.split("=", 1) for x in oracle_out.split(" ")[1:-1])
    got = oracle_out.split(" ")[-1]
    if got != content:
        return "reference reader decodes different content %s" % got[:80]
    if f["valid"] != "1":
        return "symbol is not structurally valid (pad=%s rem=%s)" % (f["pad"], f["rem"])
    if not (0 <= level < 4) or f["l"] != LEVELS[level]:
        return "format information names level %s, requested %d" % (f["l"], level)
    if f.get("minv") != f["v"]:
        return "version %s although version %s holds the content in the mode used" % (f["v"], f.get("minv"))
    return None


def nontrivial(line, impl_out):
    t = line.split(" ")
    if t[0] in ("qr", "qrc", "qrbits"):
        return bool(impl_out) and (impl_out.startswith("OK") or impl_out == "ERR")
    return True


def _mask_of(rows):
    r8 = rows.split("/")[8]
    return (int(r8[2]) << 2 | int(r8[3]) << 1 | int(r8[4])) ^ 5


def distribution(lines, impl_outs):
    d = {"version": {}, "level": {}, "mode": {}, "mask": {}, "result": {}, "tags": {}}

    def inc(k, v):
        d[k][str(v)] = d[k].get(str(v), 0) + 1
    for l, o in zip(lines, impl_outs):
        t = l.split(" ")
        inc("tags", t[0])
        if t[0] != "qr" or o is None:
            continue
        inc("level", t[1])
        inc("mode", t[2])
        inc("result", o.split(" ")[0][:12])
        if o.startswith("OK "):
            w = int(o.split(" ")[3].split("-")[1].split("x")[0])
            inc("version", (w - 17) // 4)
            inc("mask", _mask_of(_rows(o)))
    return d


RULE = ("hooks, exhaustive on finite sub-domains: function-module matrix and placement order per version (all 40 in thorough; "
        "1,2,6,7,14,40 + 2 seeded in quick), alignment positions x40, charCountBits 40x6, totalDataBytes 160, the 8 mask "
        "predicates over 177x177, format drawing (1280 in thorough), block split/interleave on a random payload per table row, "
        "render of random codewords. Contents: special strings (empty, signs, invalid UTF-8, mixed alphabets) x modes x levels, "
        "every byte value alone and in context, cap-1/cap/cap+1 characters of version x level x mode (all 1440 in thorough, "
        "seeded subset in quick; explicit mode and Auto), beyond-capacity, random lengths, unknown level/mode constants, 6 colour "
        "schemes. Each render is compared with the model's 8 mask candidates (any valid mask accepted) and read back by the "
        "extracted reference reader; non-trivial = an encode that returned OK or ERR; distinct = distinct case line. "
        "Informational (never a violation, the mask is free): coverage.mask_choice compares Encode with the model "
        "including the penalty-based mask selection (qr_encode_auto) on accepted contents of all levels / modes / Auto, "
        "versions 1..10 + large ones (quick ~150, thorough ~3000); coverage.penalty_rules compares calcPenaltyRule1..4 "
        "with the model on structured / random matrices and real symbols")


# ---------------------------------------------------------------------------
# kernel-side sample: the model evaluated by vm_compute inside Coq on the very cases
# the implementation ran (ties the extracted OCaml to the kernel's reading of the model)
KERNEL_HEADER = """From Verif Require Import Prelude Barcode BitListM TabQr QRMBits QRMBlocks QRMRender QRM.
Inductive kcase :=
| KCcb (v m e : Z)
| KTdb (v l e : Z)
| KAlign (v : Z) (e : list Z)
| KBits (content : list Z) (level mode : Z) (e : option (Z * Z * list bool))
| KQr (content : list Z) (level mode mask : Z) (e : option (list (list bool)))
| KSkip.
Fixpoint zs_eqb (a b : list Z) : bool :=
  match a, b with [], [] => true | x :: a', y :: b' => (x =? y) && zs_eqb a' b' | _, _ => false end.
Fixpoint bs_eqb (a b : list bool) : bool :=
  match a, b with [], [] => true | x :: a', y :: b' => Bool.eqb x y && bs_eqb a' b' | _, _ => false end.
Fixpoint rows_eqb (a b : list (list bool)) : bool :=
  match a, b with [], [] => true | x :: a', y :: b' => bs_eqb x y && rows_eqb a' b' | _, _ => false end.
Definition case_ok (c : kcase) : bool :=
  match c with
  | KCcb v m e => char_count_bits v m =? e
  | KTdb v l e =>
    match find (fun vi => (vi_version vi =? v) && (vi_level vi =? l)) version_infos with
    | Some vi => total_data_bytes vi =? e
    | None => e =? -1
    end
  | KAlign v e => match alignment_placements v with Ok l => zs_eqb l e | _ => false end
  | KBits c l m e =>
    match encode_bits c l m, e with
    | Ok (bits, vi), Some (v, lv, eb) => (vi_version vi =? v) && (vi_level vi =? lv) && bs_eqb bits eb
    | Err, None => true
    | _, _ => false
    end
  | KQr c l m k e =>
    match qr_encode c l m k, e with
    | Ok bc, Some rows => rows_eqb (bc_rows bc) rows && zs_eqb (bc_content bc) c
    | Err, None => true
    | _, _ => false
    end
  | KSkip => true
  end.
"""


def _zs(hexs):
    if hexs == "-":
        return "[]"
    return "[" + "; ".join(str(int(hexs[i:i + 2], 16)) for i in range(0, len(hexs), 2)) + "]"


def _bs(s):
    return "[" + "; ".join("true" if c == "1" else "false" for c in s) + "]"


def coq_case(line, impl_out):
    t = line.split(" ")
    try:
        if t[0] == "qrccb":
            return "KCcb %s %s %s" % (t[1], t[2], impl_out)
        if t[0] == "qrtdb":
            return "KTdb %s %s (%s)" % (t[1], t[2], impl_out)
        if t[0] == "qralign":
            body = impl_out.strip("[]")
            return "KAlign %s [%s]" % (t[1], "; ".join(body.split(",")) if body else "")
        if t[0] == "qrbits" and int(t[2]) in (0, 1, 2, 3) and len(t[3]) < 200:
            if impl_out == "ERR":
                return "KBits %s %s %s None" % (_zs(t[3]), t[1], t[2])
            o = impl_out.split(" ")
            if o[0] == "OK" and len(o[3]) < 1200:
                return "KBits %s %s %s (Some (%s, %s, %s))" % (_zs(t[3]), t[1], t[2], o[1], o[2], _bs(o[3]))
        if t[0] == "qr" and int(t[2]) in (0, 1, 2, 3) and len(t[3]) < 120:
            if impl_out == "ERR":
                return "KQr %s %s %s 0 None" % (_zs(t[3]), t[1], t[2])
            if impl_out.startswith("OK "):
                rows = _rows(impl_out)
                if len(rows) < 1400:
                    return "KQr %s %s %s %d (Some [%s])" % (_zs(t[3]), t[1], t[2], _mask_of(rows),
                                                          "; ".join(_bs(r) for r in rows.split("/")))
    except (ValueError, IndexError):
        pass
    return "KSkip"


# ---------------------------------------------------------------------------
# informational phases: the mask render() selects.  C01 leaves the mask free (every candidate of the
# model is accepted by `compare` above), so nothing here is ever a violation; the phases only record
# whether the implementation's penalty rules / selection still agree with model/QRMPenalty.v.
def mask_choice_cases(tier, rng):
    """accepted contents "<level> <mode> <content hex>": all 4 levels, Numeric / AlphaNumeric / Unicode and
    Auto, versions 1..10 (quick) resp. 1..40 (thorough), special strings, two (thorough: 24) large ones"""
    quick = tier == "quick"
    out = []

    def one(v, l, m, auto):
        cap, prev = capacity(m, l, v), (capacity(m, l, v - 1) if v > 1 else -1)
        n = rng.randrange(max(prev + 1, 0), cap + 1)       # a length that needs exactly version v
        out.append("%d %d %s" % (l, 0 if auto else m, hx(content_for(m, n, rng))))
    k = 0
    for v in range(1, 11):
        for l in range(4):
            for m in (1, 2, 3):
                one(v, l, m, k % 3 == 2)                    # every third case through Auto
                k += 1
    for c in SPECIAL[:26]:
        out.append("%d %d %s" % (rng.randrange(4), rng.choice([0, 3]), hx(c)))
    big = [(40, 0, 3, False), (27, 2, 2, True)] if quick else \
        [(rng.randrange(28, 41), rng.randrange(4), rng.choice([1, 2, 3]), rng.random() < 0.5) for _ in range(24)]
    for (v, l, m, a) in big:
        one(v, l, m, a)
    if not quick:
        while len(out) < 3000:
            v = rng.choice([rng.randrange(1, 8), rng.randrange(1, 16), rng.randrange(1, 28)])
            one(v, rng.randrange(4), rng.choice([1, 2, 3]), rng.random() < 0.4)
    return out


def _sq(n, f):
    return "/".join("".join("1" if f(x, y) else "0" for x in range(n)) for y in range(n))


def penalty_matrices(tier, rng, symbols):
    """square matrices for the direct comparison of calcPenaltyRule1..4: uniform / striped / checkered / blocks,
    the two 1011101-with-quiet-zone patterns tiled along x and along y, random fills of several densities
    (rule 4 steps), long runs, plus real symbols the implementation produced"""
    quick = tier == "quick"
    p1, p2 = "10111010000", "00001011101"
    mats = []
    for n in ([1, 2, 5, 10, 11, 12, 21, 33] if quick else [1, 2, 3, 4, 5, 6, 10, 11, 12, 13, 21, 22, 25, 29, 45, 57, 101, 177]):
        mats += [_sq(n, lambda x, y: False), _sq(n, lambda x, y: True), _sq(n, lambda x, y: (x + y) % 2 == 0),
                 _sq(n, lambda x, y: x % 2 == 0), _sq(n, lambda x, y: y % 3 == 0), _sq(n, lambda x, y: (x // 5 + y // 6) % 2 == 0),
                 _sq(n, lambda x, y: (p1 * 17)[x] == "1"), _sq(n, lambda x, y: (p2 * 17)[y] == "1"),
                 _sq(n, lambda x, y: ((p1 + p2) * 17)[(x + 3 * y) % 22] == "1"), _sq(n, lambda x, y: x < y)]
    for _ in range(30 if quick else 500):
        n = rng.choice([rng.randrange(1, 14), rng.randrange(11, 40), rng.randrange(21, 60 if quick else 178)])
        d = rng.choice([0.02, 0.1, 0.2, 0.3, 0.4, 0.45, 0.5, 0.55, 0.6, 0.7, 0.8, 0.9, 0.98])
        if rng.random() < 0.3:      # long runs: each line repeats its previous cell with high probability
            keep = rng.choice([0.7, 0.9])
            rows = []
            for y in range(n):
                r, c = [], rng.random() < d
                for x in range(n):
                    if rng.random() > keep:
                        c = rng.random() < d
                    r.append("1" if c else "0")
                rows.append("".join(r))
            m = "/".join(rows)
            if rng.random() < 0.5:  # the same along the other axis
                m = "/".join("".join(rows[x][y] for x in range(n)) for y in range(n))
            mats.append(m)
        else:
            mats.append(_sq(n, lambda x, y: rng.random() < d))
    symbols = [s for s in symbols if s]
    rng.shuffle(symbols)
    return mats + symbols[:20 if quick else 300]


def mask_phases(rep, impl_exe, model_exe, tier):
    rng = rng_for(rep.seed, "C01-mask-choice")           # own stream: the other phases keep their cases
    shards = NCPU if tier == "thorough" else min(NCPU, 8)
    args = mask_choice_cases(tier, rng)
    io = run_lines(impl_exe, ["qr " + a for a in args], shards)
    mo = run_lines(model_exe, ["qrauto " + a for a in args], shards)
    n = k = 0
    diffs, symbols = [], []
    for a, i, m in zip(args, io, mo):
        if not (i or "").startswith("OK "):
            continue                                        # refused / crashed: the main phases deal with it
        n += 1
        symbols.append(_rows(i))
        if i == m:
            k += 1
        elif len(diffs) < 5:
            ex = {"case": "qr " + a[:200]}
            try:
                ex["implementation_mask"] = _mask_of(_rows(i))
                ex["model_mask"] = _mask_of(_rows(m)) if (m or "").startswith("OK ") else (m or "")[:40]
            except (IndexError, ValueError, AttributeError):
                pass
            diffs.append(ex)
    rep.cov["mask_choice"] = {"compared": n, "same_symbol": k, "different_mask": n - k, "examples_of_difference": diffs,
                              "note": "informational only: C01 accepts any of the 8 masks"}
    mats = penalty_matrices(tier, rng, symbols)
    # the penalty hook lives in its own file with its own extra build tag (qr/verif_penalty.go, verif_penalty), so
    # that a renamed penalty function can only switch this informational comparison off, never break a check
    pen_exe = os.path.join(BUILD, "impl_C01pen")
    with Lock("impl_C01pen"):
        rc, out = sh(["go", "build", "-tags", "verif verif_penalty", "-o", pen_exe, "main.go", "util.go", "qrpen.go"],
                     cwd=os.path.join(VERIF, "go", "impl"), env=GOENV, timeout=900)
    if rc != 0:
        rep.cov["penalty_rules"] = {"compared": 0, "note": "penalty hook no longer compiles: " + first_error(out)[:200]}
        return
    po = run_lines(pen_exe, ["qrpen " + m for m in mats], shards)
    qo = run_lines(model_exe, ["qrpen " + m for m in mats], shards)
    pn = pk = 0
    pdiff = []
    for mt, a, b in zip(mats, po, qo):
        if not re.fullmatch(r"\d+( \d+){4}", a or ""):
            continue                                        # hook not available (public-API fallback)
        pn += 1
        if a == b:
            pk += 1
        elif len(pdiff) < 3:
            pdiff.append({"matrix": mt[:400], "implementation_rules_1_2_3_4_total": a, "model_rules_1_2_3_4_total": (b or "")[:60]})
    rep.cov["penalty_rules"] = {"compared": pn, "equal": pk, "examples_of_difference": pdiff}


def extra(rep, impl_exe, model_exe, rng, tier):
    # returned symbols stay what they were; results do not depend on what was encoded before
    import held
    v = held.held_phase(rep, impl_exe, rng, ["qr 0 0", "qr 1 1", "qr 2 2", "qr 3 3"], n=8 if tier == "quick" else 60)
    v = v + held.qr_adversarial_phase(rep, impl_exe, rng, tier, held.run_fresh_each)
    # which mask is selected: recorded, never a violation
    try:
        if model_exe:
            mask_phases(rep, impl_exe, model_exe, tier)
    except Exception as e:       # an informational phase must not change the verdict
        rep.cov["mask_choice"] = {"error": repr(e)[:300]}
    return v


def public_line(line):
    t = line.split(" ")
    return "encfull " + line if t[0] == "qr" and len(t) == 4 else None
