"""C11 — Rendering contract: bounds, two colours, colour scheme, metadata, content."""
from common import *
import jobs as J
import c10

PID = "C11"
PROPS = "props/C11.v"
GOTAB = c10.GOTAB
GOFILES = ["all.go"]
EXTRACT = c10.EXTRACT
HANDLERS = c10.HANDLERS
SCHEMES = ["8", "16", "24", "32", "rgba", "nrgba", "cmyk", "gray", "inv", "mix1", "mix2", "mix3", "mix4", "pal"]
MODEL_IS_SPEC = True   # theorems C11_*: the model's accessors are the prescribed kind / bounds / content

RULE = ("model-compared: accessors (kind, dimensionality, bounds, Content, CheckSum) of every encoder family for contents of every symbol "
        "size class; extra phase on the implementation: for every WithColor entry point x 9 colour schemes (Gray, Gray16, RGBA, NRGBA, CMYK "
        "models, arbitrary fore/background, inverted, equal to the default): every pixel is exactly the scheme's foreground or background, "
        "ColorModel()/ColorScheme() report the scheme, module pattern and accessors equal those of the plain call, plain call reports "
        "ColorScheme16, bounds start at (0,0); non-trivial = accepted encode; distinct = distinct case line")


def size_jobs(rng, tier):
    """contents reaching every symbol size class of every encoder"""
    L = []
    for n in [7, 8, 12, 13]:
        d = "".join(rng.choice("0123456789") for _ in range(n if n in (7, 12) else n - 1))
        if n in (8, 13):
            d += str(J.ean_check(d))
        L.append("ean %s" % J.hx(d))
    for n in [0, 1, 5, 30, 200]:
        L.append("codabar %s" % J.hx("A" + "".join(rng.choice("0123456789-$:/.+") for _ in range(n)) + "D"))
        L.append("tof 0 %s" % J.hx("".join(rng.choice("0123456789") for _ in range(n + 1))))
        L.append("tof 1 %s" % J.hx("".join(rng.choice("0123456789") for _ in range(2 * n + 2))))
        for o in ("0 0", "1 0", "0 1", "1 1"):
            L.append("c39 %s %s" % (o, J.hx("".join(rng.choice("ABC123-. $/+%") for _ in range(n)))))
            L.append("c93 %s %s" % (o, J.hx("".join(rng.choice("ABC123-. $/+%") for _ in range(n)))))
        L.append("c39 1 1 %s" % J.hx(bytes(rng.randrange(128) for _ in range(min(n, 40)))))
        L.append("c93 1 1 %s" % J.hx(bytes(rng.randrange(128) for _ in range(min(n, 40)))))
    for ch in "/+$%!a\x00\x7f:@[`{":
        L.append("c39 %d 1 %s" % (rng.randrange(2), J.hx("A" + ch + "B" + ch)))
        L.append("c93 %d 1 %s" % (rng.randrange(2), J.hx("A" + ch + "B" + ch)))
    for n in [1, 2, 10, 40, 80]:
        L.append("c128 %s" % J.hx("".join(rng.choice("ab12\rñXYZ") for _ in range(n))))
        L.append("c128n %s" % J.hx("".join(rng.choice("ab12\rñXYZ") for _ in range(n))))
    caps = [3, 5, 8, 12, 18, 22, 30, 36, 44, 62, 86, 114, 144, 174, 204, 280, 368, 456, 576, 696, 816, 1050, 1304, 1558]
    for c in (caps if tier == "thorough" else caps[::4] + [1558]):
        L.append("dm %s" % J.hx("a" * c))
    vers = range(1, 41) if tier == "thorough" else [1, 2, 6, 7, 14, 25, 40]
    # byte capacity at level L grows with the version; hit each version roughly by length
    for v in vers:
        n = max(1, int(0.9 * (17 * v + 2 * v * v) / 1.0)) if v > 1 else 10
        n = min(n, 2953)
        L.append("qr %d 3 %s" % (rng.randrange(4) if v < 30 else 0, J.hx("x" * max(1, n // (2 if v >= 30 else 3)))))
    L.append("qr 0 1 %s" % J.hx("7" * 7089))
    L.append("qr 3 2 %s" % J.hx("A" * 1852))
    return L + EXTRA_SIZE_JOBS(rng, tier)


def EXTRA_SIZE_JOBS(rng, tier):
    L = []
    # Aztec: every compact and full-range size (explicit layers) + automatic sizes
    for req in (list(range(-4, 0)) + list(range(1, 33)) if tier == "thorough" else [-4, -1, 1, 4, 12, 27, 32]):
        L.append("az 23 %d %s" % (req, J.hx("AZTEC %d" % req)))
    for n in (0, 1, 20, 100, 500, 1500):
        L.append("az %d 0 %s" % (rng.choice([0, 23, 33, 90]), J.hx("".join(rng.choice("AbC 12.,") for _ in range(n)))))
    # PDF417: every level, several lengths (different row/column shapes)
    for lvl in range(9):
        for n in ((0, 30, 400) if tier == "quick" else (0, 1, 10, 30, 100, 400, 900, 1500)):
            L.append("pdf %d %s" % (lvl, J.hx("".join(rng.choice("Pdf 417,;") for _ in range(n)))))
    return L


def cases(tier, rng):
    L = ["acc " + j for j in size_jobs(rng, tier)]
    # sizes decided after bit stuffing (Aztec), wrapped lengths, low-byte runes ... (lib/gaps.py)
    import gaps
    L += ["acc az " + a for a in gaps.aztec_stuffing(rng, tier)]
    L += ["acc " + g for g in gaps.acc_cases(rng, "quick") if not g.startswith("az ") and len(g) < 3000]
    for j in J.jobs(rng, 200 if tier == "quick" else 5000, scale_frac=0.0):
        if j.split()[1] in c10.ENCODERS:
            L.append("acc " + j[4:])
    return L


def compare(impl_out, model_out):
    return c10.compare(impl_out, model_out)


def oracle_lines(lines, outs):
    # Content() against the specification's spelling rules (independent of the generated tables)
    res = []
    for l, o in zip(lines, outs):
        if o and o.startswith("OK") and l.split()[1] != "pdf":
            res.append("contentspec %s %s" % (l[4:], o.split(" ")[4]))
        else:
            res.append(None)
    return res


def oracle_verdict(line, out, oracle_out):
    return None if oracle_out == "OK" else "Content() is not the text that was encoded (EAN: completed number; Code 39/93 full ASCII: standard spelling): " + oracle_out[:100]


def nontrivial(line, out):
    return out.startswith("OK")


def extra(rep, impl_exe, model_exe, rng, tier):
    js = size_jobs(rng, tier)
    import held
    js += held.qr_tie_jobs() * (2 if tier == "quick" else 6)      # mask ties: plain and WithColor must pick the same mask
    for j in J.jobs(rng, 100 if tier == "quick" else 3000, scale_frac=0.0):
        if j.split()[1] in c10.ENCODERS:
            js.append(j[4:])
    lines = []
    for j in js:
        for s in (SCHEMES if tier == "thorough" else rng.sample(SCHEMES[:9], 3) + rng.sample(SCHEMES[9:], 2)):
            lines.append("accf %s %s" % (s, j))
    outs = run_lines(impl_exe, lines, shards=NCPU)
    rep.cov["withcolor_calls"] = len(lines)
    rep.cov["withcolor_accepted"] = sum(1 for o in outs if o.startswith("OK"))
    viol = []
    want = "OK px=1 model=1 scheme=1 same=1 plain16=1 acc=1 min0=1"
    for l, o in zip(lines, outs):
        if o.startswith("OK") and o != want or not (o.startswith("OK") or o == "ERR"):
            viol.append({"kind": "rendering contract of a WithColor variant violated (px: pixel not fg/bg; model/scheme: ColorModel/ColorScheme do not "
                                 "report the scheme; same: module pattern depends on the scheme; plain16: plain Encode is not ColorScheme16; acc: accessors differ)",
                         "case": l, "impl_output": o[:300], "replay": "echo '%s' | %s" % (l, impl_exe)})
            break
    return viol


def distribution(lines, outs):
    d = {}
    for l, o in zip(lines, outs):
        k = l.split()[1] + ":" + ("ok" if o.startswith("OK") else "err")
        d[k] = d.get(k, 0) + 1
    return d
