"""C03 — Aztec: every accepted payload decodes back to exactly that payload
(plus the Aztec parts of C10-C13: same runs, explicit layer requests, ecc sweep)."""
from common import *

PID = "C03"
PROPS = "props/C03.v"
GOTAB = ["aztec.go"]
GOFILES = ["aztec.go", "all.go"]
EXTRACT = ["base", "aztec"]
HANDLERS = ["h_aztec.ml"]

PCTS = [0, 1, 23, 33, 50, 100, 200]
WORD_SIZE = [4, 6, 6, 8, 8, 8, 8, 8, 8] + [10] * 14 + [12] * 10

# class-representative alphabet: one or two bytes per mode, every byte that is
# in two tables, the bytes of the special pairs, controls, bytes only binary
# shift can carry (incl. the double quote, which punctTable omits)
ALPHA = [0x41, 0x5a, 0x61, 0x7a, 0x30, 0x39, 0x20, 0x2c, 0x2e, 0x3a, 0x21, 0x27, 0x22, 0x7d, 0x5b,
         0x0d, 0x0a, 0x01, 0x09, 0x1b, 0x1f, 0x40, 0x5c, 0x5e, 0x5f, 0x60, 0x7c, 0x7e, 0x7f,
         0x00, 0x80, 0xff, 0x0e, 0x1a, 0x23, 0x2f, 0x3f, 0x3b, 0x28, 0x4d]

MODE_CHARS = {
    "U": list(range(0x41, 0x5b)) + [0x20],
    "L": list(range(0x61, 0x7b)) + [0x20],
    "D": list(range(0x30, 0x3a)) + [0x20, 0x2c, 0x2e],
    "M": list(range(1, 14)) + [27, 28, 29, 30, 31, 0x40, 0x5c, 0x5e, 0x5f, 0x60, 0x7c, 0x7e, 0x7f, 0x20],
    "P": [0x0d, 0x21, 0x27, 0x23, 0x24, 0x25, 0x26, 0x28, 0x29, 0x2a, 0x2b, 0x2c, 0x2d, 0x2e, 0x2f, 0x3a, 0x3b,
          0x3c, 0x3d, 0x3e, 0x3f, 0x5b, 0x5d, 0x7b, 0x7d],
    "B": [0x00, 0x22, 0x0e, 0x80, 0xa9, 0xff, 0xc3, 0x1a],
    "X": None,   # the four special pairs
}
PAIRS = [b"\r\n", b". ", b", ", b": "]


def hx(b):
    return bytes(b).hex() if len(b) else "-"


def markov(rng, n):
    """mode-switch-heavy text: a Markov chain over the five modes, binary and the special pairs"""
    modes = list(MODE_CHARS)
    m = rng.choice(modes)
    stay = rng.choice([0.2, 0.5, 0.8, 0.95])
    out = bytearray()
    while len(out) < n:
        if rng.random() > stay:
            m = rng.choice(modes)
        if m == "X":
            out += rng.choice(PAIRS)
        else:
            out.append(rng.choice(MODE_CHARS[m]))
    return bytes(out[:n])


# ---- python replica of the fit test, only used to AIM cases at size boundaries
def stuff_len(bits, w):
    n = len(bits)
    i = 0
    out = 0
    while i < n or out == 0:
        word = [bits[i + j] if i + j < n else 1 for j in range(w)]
        head = word[:w - 1]
        if all(head) or not any(head):
            i -= 1
        out += w
        i += w
    return out


def upper_bits(n):
    bits = []
    for i in range(n):
        v = (i % 26) + 2
        bits += [(v >> k) & 1 for k in (4, 3, 2, 1, 0)]
    return bits


def total_bits(layers, compact):
    return ((88 if compact else 112) + 16 * layers) * layers


def fits(n, layers, compact, pct, _cache={}):
    bits = upper_bits(n)
    ecc = len(bits) * pct // 100 + 11
    w = WORD_SIZE[layers]
    tb = total_bits(layers, compact)
    usable = tb - tb % w
    key = (n, w)
    if key not in _cache:
        _cache[key] = stuff_len(bits, w)
    st = _cache[key]
    return st + ecc <= usable and (not compact or st <= 64 * w)


def boundary(layers, compact, pct):
    """largest n (letters A..Z cyclic) that fits, -1 if none"""
    if not fits(0, layers, compact, pct):
        return -1
    lo, hi = 0, 4500
    while lo < hi:
        mid = (lo + hi + 1) // 2
        if fits(mid, layers, compact, pct):
            lo = mid
        else:
            hi = mid - 1
    return lo


def letters(n):
    return bytes(0x41 + i % 26 for i in range(n))


def _cases0(tier, rng):
    quick = tier == "quick"
    L = []
    # empty payload, every ecc percentage, every request
    for pct in PCTS:
        L.append("az %d 0 -" % pct)
    for req in range(-5, 34):
        L.append("az 33 %d -" % req)
    L.append("azhl -")
    # every colour scheme (C11): same modules, pixels only the scheme's two colours
    for sc in (8, 16, 24, 32):
        for d in ("-", "41", "48656c6c6f2c20776f726c6421", "80ff00227e"):
            for req in (0, -3, 7):
                L.append("azcol %d 33 %d %s" % (sc, req, d))
    # all 256 single bytes
    for b in range(256):
        L.append("azhl %02x" % b)
        L.append("az %d 0 %02x" % (PCTS[b % len(PCTS)], b))
    # all pairs over the alphabet
    k = 0
    for a in ALPHA:
        for b in ALPHA:
            L.append("azhl %02x%02x" % (a, b))
            L.append("az %d %d %02x%02x" % (PCTS[k % len(PCTS)], [0, 0, 0, -1, -2, 1, 4][(k // 7) % 7], a, b))
            k += 1
    # triples around the special pairs (pair detection looks one byte ahead)
    for p in PAIRS:
        for a in ALPHA:
            L.append("azhl %02x%s" % (a, p.hex()))
            L.append("azhl %s%02x" % (p.hex(), a))
            L.append("azhl %02x%s%02x" % (a, p.hex(), a))
    # Markov text
    nm = 250 if quick else 6000
    for i in range(nm):
        n = rng.choice([3, 5, 8, 13, 21, 34, 55, 89, 144]) if quick or i % 20 else rng.randrange(200, 1500)
        d = markov(rng, n)
        L.append("azhl " + hx(d))
        L.append("az %d %d %s" % (rng.choice(PCTS), rng.choice([0, 0, 0, 0, rng.randrange(-4, 33)]), hx(d)))
    # binary runs, alone and embedded in text of every mode
    runs = [1, 30, 31, 32, 61, 62, 63, 64, 2077, 2078, 2079]
    for n in runs:
        d = bytes(rng.choice([0x80, 0xff, 0x00, 0xa5, 0x22]) for _ in range(n))
        L.append("azhl " + hx(d))
        L.append("az 23 0 " + hx(d))
        for pre in ([b"AB", b"ab", b"12", b"\x01@", b"!#"] if (n < 100 or not quick) else [b"ab"]):
            L.append("azhl " + hx(pre + d + pre))
            if n < 100:
                L.append("az 33 0 " + hx(pre + d + pre))
    # the special two-byte pairs inside / at the end of binary runs whose length is at a field-width boundary
    # (5-bit count up to 31, 11-bit count up to 2047+31): the pair path and the single-character path must agree
    for pair in (b". ", b", ", b": ", b"\r\n"):
        for n in ([29, 30, 31, 61, 62] + list(range(2074, 2080)) if quick else list(range(27, 34)) + list(range(59, 66)) + list(range(2040, 2050)) + list(range(2070, 2084))):
            d = bytes(rng.choice([0x80, 0xff, 0xa5, 0xe9]) for _ in range(n))
            tail = bytes(rng.choice([0x80, 0xff, 0xa5]) for _ in range(rng.choice([0, 1, 5])))
            L.append("azhl " + hx(d + pair + tail))
            if n > 2000 and (not quick or n % 2 == 0):
                L.append("az 5 0 " + hx(d + pair + tail))
            elif n < 100:
                L.append("az 23 0 " + hx(d + pair + tail + b"(+)-[*]"))
    # every layer request at its boundary payload length
    pcts = [33] if quick else PCTS
    reqs = list(range(-4, 0)) + list(range(1, 33))
    if quick:
        big = [r for r in reqs if r > 8]
        rng.shuffle(big)
        reqs = [r for r in reqs if r <= 8] + big[:6]
    for pct in pcts:
        for req in reqs:
            n = boundary(abs(req), req < 0, pct)
            if n >= 0:
                L.append("az %d %d %s" % (pct, req, hx(letters(n))))
            L.append("az %d %d %s" % (pct, req, hx(letters(n + 1))))
            L.append("azcfg %d %d %s" % (pct, req, hx(letters(max(n, 0)))))
    # out-of-range requests
    for req in (-5, 33, -100, 1000, -(1 << 62), (1 << 62), -(1 << 63) + 1, -(1 << 63), (1 << 63) - 1):
        L.append("az 33 %d 4142" % req)
    # automatic sizing at the boundary of each configuration (C13: also request every smaller size)
    order = [(True, l) for l in range(1, 5)] + [(False, l) for l in range(4, 33)]
    sel = order if not quick else order[:6] + [order[i] for i in sorted(rng.sample(range(6, len(order)), 4))] + [order[-1]]
    for (compact, layers) in sel:
        for pct in ([33] if quick else [0, 33, 100]):
            n = boundary(layers, compact, pct)
            if n < 0:
                continue
            for m in (n, n + 1):
                L.append("az %d 0 %s" % (pct, hx(letters(m))))
                L.append("azcfg %d 0 %s" % (pct, hx(letters(m))))
            # explicit requests for smaller symbols must be refused
            smaller = [(-l if c else l) for (c, l) in order[:order.index((compact, layers))]][-3:]
            smaller += [l for l in (1, 2, 3) if 11 + 4 * (l + 1) < (11 + 4 * layers if compact else 15 + 4 * layers)]
            for req in smaller:
                L.append("az %d %d %s" % (pct, req, hx(letters(n + 1))))
    # beyond the largest symbol
    L.append("az 0 0 " + hx(letters(3900)))
    # stuffing
    for w in (6, 8, 10, 12):
        L.append("azstuff %d -" % w)
        for pat in ("0", "1", "01", "10", "0" * (w - 1) + "1", "1" * (w - 1) + "0"):
            for n in ([1, w - 2, w - 1, w, w + 1, 2 * w - 2, 2 * w - 1, 2 * w, 5 * w - 3]):
                s = (pat * (n // len(pat) + 1))[:n]
                L.append("azstuff %d %s" % (w, s))
        for _ in range(60 if quick else 3000):
            n = rng.randrange(1, 200)
            p1 = rng.choice([0.5, 0.1, 0.9, 0.02, 0.98])
            L.append("azstuff %d %s" % (w, "".join("1" if rng.random() < p1 else "0" for _ in range(n))))
    # mode messages: every (layers, words) for compact; a sweep for full
    for layers in range(1, 5):
        for words in (range(1, 65) if not quick else (1, 2, 17, 63, 64)):
            L.append("azmode 1 %d %d" % (layers, words))
    for layers in range(1, 33):
        ws = [1, 2, total_bits(layers, False) // WORD_SIZE[layers] - 3] if quick else \
            sorted(set([1, 2, 3, 1000, 1664] + [rng.randrange(1, 2049) for _ in range(40)]))
        for words in ws:
            L.append("azmode 0 %d %d" % (layers, words))
    # check words
    for w in (4, 6, 8, 10, 12):
        for _ in range(6 if quick else 200):
            nd = rng.randrange(1, 12)
            ne = rng.randrange(1, 12)
            pad = rng.randrange(0, w)
            L.append("azcw %d %d %s" % (w, (nd + ne) * w + pad,
                                        "".join(rng.choice("01") for _ in range(nd * w))))
    # total bits, placement
    cfgs = [(1, l) for l in range(1, 5)] + [(0, l) for l in range(1, 33)]
    for c, l in cfgs:
        L.append("aztb %d %d" % (c, l))
    pl = cfgs if not quick else cfgs[:6] + [cfgs[i] for i in sorted(rng.sample(range(6, len(cfgs)), 3))]
    for c, l in pl:
        L.append("azplace %d %d" % (c, l))
    return L


def compare(a, b):
    if a == b:
        return True
    if a is None or b is None:
        return False
    ta, tb = a.split(" "), b.split(" ")
    # placement probe: "?" = the probe could not determine the module of that bit
    if len(ta) == len(tb) and len(ta) > 100 and all(x == y or x == "?" or y == "?" for x, y in zip(ta, tb)):
        return sum(1 for x in ta if x == "?") < 40
    return False


def nontrivial(line, impl_out):
    t = line.split(" ")
    if impl_out is None or impl_out.startswith(("PANIC", "UNKNOWN", "CRASH")):
        return False
    if t[0] in ("az", "azhl", "azcol"):
        return t[-1] != "-" or t[0] != "azhl"
    return True


def oracle_lines(lines, impl_outs):
    res = []
    for l, o in zip(lines, impl_outs):
        t = l.split(" ")
        if o is None:
            res.append(None)
        elif o.split(" ")[0] in ("HANG", "HANG-SKIPPED", "PANIC", "BOTHNIL", "BOTHSET"):
            res.append("azspechl -")      # dummy oracle call; the verdict is about the implementation
        elif t[0] in ("az", "azcol") and o.startswith("OK "):
            res.append("azspec " + o.split(" ")[-1])
        elif t[0] == "azhl":
            res.append("azspechl " + o)
        elif t[0] == "azstuff":
            res.append("azspecunstuff %s %s" % (t[1], o))
        else:
            res.append(None)
    return res


def oracle_verdict(line, impl_out, oracle_out):
    try:
        return _oracle_verdict(line, impl_out, oracle_out)
    except Exception as e:      # malformed output of a broken implementation / oracle
        return "unparsable result (%s): %s" % (type(e).__name__, str(oracle_out)[:80])


def _oracle_verdict(line, impl_out, oracle_out):
    t = line.split(" ")
    head = impl_out.split(" ")[0]
    if head in ("HANG", "HANG-SKIPPED"):
        return "the implementation did not return within the time limit (C10: never hangs)"
    if head in ("PANIC", "BOTHNIL", "BOTHSET"):
        return "the implementation panicked / broke the (barcode, error) contract: " + head
    if t[0] == "azcol":
        t = ["az"] + t[2:]
    if t[0] == "az":
        f = impl_out.split(" ")
        o = oracle_out.split(" ")
        if o[0] != "VALID":
            return "the specification reader rejects the symbol: " + oracle_out
        if o[5] != t[3]:
            return "the symbol decodes to a different payload"
        if f[4] != t[3]:
            return "Content() differs from the payload"
        req = int(t[2])
        if req != 0 and (o[1] != ("1" if req < 0 else "0") or int(o[2]) != abs(req)):
            return "explicit layer request not honoured"
        rows = f[-1].split("/")
        size = len(rows)
        if f[1] != "Aztec" or f[2] != "2" or f[3] != "0,0-%dx%d" % (size, size) or f[5] != "-" \
                or any(len(r) != size or set(r) - {"0", "1"} for r in rows):
            return "rendering contract (kind, dimensions, bounds, colours)"
        return None
    if t[0] == "azhl":
        if oracle_out != "OK " + t[1]:
            return "high-level bit stream does not decode to the payload"
        return None
    if t[0] == "azstuff":
        bits = "" if t[2] == "-" else t[2]
        w = int(t[1])
        if not oracle_out.startswith("OK "):
            return "stuffed bits contain an illegal codeword or a partial word"
        got = oracle_out[3:]
        got = "" if got == "-" else got
        if not (got.startswith(bits) and set(got[len(bits):]) <= {"1"} and len(got) - len(bits) < w):
            return "un-stuffing does not give back the bits plus fewer than w padding ones"
        return None
    return None


def distribution(lines, impl_outs):
    d = {}

    def inc(k):
        d[k] = d.get(k, 0) + 1
    for l, o in zip(lines, impl_outs):
        t = l.split(" ")
        if o is None:
            continue
        if o.split(" ")[0] in ("HANG", "HANG-SKIPPED", "PANIC", "BOTHNIL", "BOTHSET") or o.startswith(("CRASH", "UNKNOWN")):
            inc(t[0] + " " + o.split(" ")[0].split("(")[0])
            continue
        if t[0] == "az":
            if o.startswith("OK "):
                inc("az ok size " + o.split(" ")[3].split("x")[1])
                inc("az ok pct " + t[1])
                inc("az ok request " + ("auto" if t[2] == "0" else "compact" if t[2].startswith("-") else "full"))
            else:
                inc("az " + o.split(" ")[0] + (" auto" if t[2] == "0" else " explicit"))
        elif t[0] == "azcfg":
            f = o.split(" ")
            inc("azcfg " + (o if len(f) != 3 else "c%s w%s" % (f[0], f[2])))
        else:
            inc(t[0])
    return d


RULE = ("empty payload x 7 ecc percentages and x layer requests -5..33; all 256 single bytes; all ordered pairs over a "
        "40-byte class-representative alphabet (each mode, doubly-mapped bytes, pair halves, controls, binary-only bytes) "
        "and triples around the four special pairs; Markov text over the five modes + binary + special pairs; binary runs "
        "of 1,30,31,32,61,62,63,64,2077,2078,2079 bytes alone and embedded; every explicit layer request at its boundary "
        "payload length (n fits, n+1 refused) and the automatic choice at the boundary of each configuration together with "
        "explicit requests for the smaller sizes (quick: seeded subset of the large ones); out-of-range requests; "
        "stuffBits on patterns/random bits for the 4 word sizes; mode messages; check words over the 5 fields; "
        "totalBitsInLayer for the 36 configurations; placement probe. Compared with the model: result lines incl. all "
        "pixels, high-level bit strings (tie-breaks), stuffed bits, mode messages, check words, chosen configuration. "
        "Oracle: the extracted ISO reader aztec_read on the implementation's pixels must return the payload and the "
        "requested configuration; the extracted high-level decoder / un-stuffer on the implementation's bit strings. "
        "non-trivial = an encode call (accepted or refused) or a non-empty sub-function input; distinct = distinct case line")


# ---- kernel-side sample: the model and the reader evaluated by vm_compute inside Coq
def _zl(hexs):
    return "[" + "; ".join(str(b) for b in (bytes.fromhex(hexs) if hexs != "-" else b"")) + "]"


def _bl(bits):
    return "[" + "; ".join("true" if c == "1" else "false" for c in (bits if bits != "-" else "")) + "]"


def coq_case(line, impl_out):
    t = line.split(" ")
    if impl_out is None or len(impl_out) > 4000:
        return "KSkip"
    if t[0] == "az":
        if abs(int(t[2])) > 40:
            return "KSkip"
        if impl_out.startswith("OK "):
            rows = impl_out.split(" ")[-1].split("/")
            return "KAz (%s) (%s) %s true (%d) [%s]" % (t[1], t[2], _zl(t[3]), len(rows), "; ".join(_bl(r) for r in rows))
        if impl_out == "ERR":
            return "KAz (%s) (%s) %s false 0 []" % (t[1], t[2], _zl(t[3]))
        return "KSkip"
    if t[0] == "azhl" and set(impl_out) <= set("01-"):
        return "KHl %s %s" % (_zl(t[1]), _bl(impl_out))
    if t[0] == "azstuff" and set(impl_out) <= set("01-"):
        return "KStuff (%s) %s %s" % (t[1], _bl(t[2]), _bl(impl_out))
    return "KSkip"


KERNEL_HEADER = """From Verif Require Import Prelude Barcode BitListM GFM TabAztec AztecM AztecSpec.
Inductive kcase :=
| KAz (pct req : Z) (data : list Z) (ok : bool) (size : Z) (rows : list (list bool))
| KHl (data : list Z) (bits : list bool)
| KStuff (w : Z) (bits out : list bool)
| KSkip.
Fixpoint bools_eqb (a b : list bool) : bool :=
  match a, b with
  | [], [] => true
  | x :: a', y :: b' => Bool.eqb x y && bools_eqb a' b'
  | _, _ => false
  end.
Fixpoint rows_eqb (a b : list (list bool)) : bool :=
  match a, b with
  | [], [] => true
  | x :: a', y :: b' => bools_eqb x y && rows_eqb a' b'
  | _, _ => false
  end.
Fixpoint zs_eqb (a b : list Z) : bool :=
  match a, b with
  | [], [] => true
  | x :: a', y :: b' => (x =? y) && zs_eqb a' b'
  | _, _ => false
  end.
(* the model reproduces the implementation's result, and the ISO reader decodes the image *)
Definition case_ok (c : kcase) : bool :=
  match c with
  | KAz pct req data ok size rows =>
    match az_encode data pct req with
    | Ok bc => ok && (bc_width bc =? size) && (bc_height bc =? size) && rows_eqb (bc_rows bc) rows
               && match aztec_decode rows with Some d => zs_eqb d data | None => false end
    | Err => negb ok
    | _ => false
    end
  | KHl data bits =>
    match az_highlevel data with
    | Ok b => bools_eqb b bits && match aztec_decode_hl bits with Some d => zs_eqb d data | None => false end
    | _ => false
    end
  | KStuff w bits out =>
    match az_stuff_bits bits w with Ok o => bools_eqb o out | _ => false end
  | KSkip => true
  end.
"""


def cases(tier, rng):
    L = _cases0(tier, rng)
    # stuffing-heavy payloads against explicit layer requests and on the automatic path (lib/gaps.py)
    import gaps
    for a in gaps.aztec_stuffing(rng, tier):
        L.append("az " + a)
    L += [g for g in gaps.family(rng, tier, ("az",)) if g not in L]
    return L


def public_line(line):
    t = line.split(" ")
    return "encfull " + line if t[0] == "az" and len(t) == 4 else None


def extra(rep, impl_exe, model_exe, rng, tier):
    # returned barcodes must remain what they were when other symbols are encoded afterwards
    import held
    return held.held_phase(rep, impl_exe, rng, ['az 33 0', 'az 23 -2', 'az 0 5', 'az 90 0'], n=8 if tier == "quick" else 60)
