"""C04 — PDF417: every accepted text decodes back to exactly that text
(also carries the PDF417 cases of C10-C13: accept/reject, rendering contract,
declared security level, padding and shape limits)."""
import os

from common import *

PID = "C04"
PROPS = "props/C04.v"
GOTAB = ["pdf417.go"]
GOFILES = ["pdf417.go", "all.go"]
EXTRACT = ["base", "pdf417"]
HANDLERS = ["h_pdf417.ml"]

RULE = ("pdf <level> <data> <cols> <scheme>: full symbols; the column count is read from the implementation's own "
        "output (probe) and handed to the model as its oracle, so any legal column choice is accepted; data families: "
        "all strings of length <=3 (and a 4-letter sample) over one representative per text class (upper, lower, digit, "
        "mixed-only, punct-only, shared mixed/punct, space, LF, CR), i.e. every sub-mode transition pair incl. shifts and "
        "the mixed->punct look-ahead; digit runs 1..15,43,44,45,87,88,89,132 alone and inside text/bytes; byte runs of "
        "length 1..13 alone, after text, between text (913 shift) and after digits; the pad-in-punctuation family "
        "(odd value count in Punct, then a shifted byte, then punctuation); valid multi-byte and invalid UTF-8; random "
        "mixtures; lengths up to and beyond the capacity of every level; levels 0..8 and illegal levels 9..255; colour "
        "schemes over Gray, Gray16, RGBA, NRGBA, CMYK.  pdfhl: highlevelEncode codewords for every data string; "
        "pdftext: encodeText from each of the 4 sub-modes; pdfrow: both row indicators of every row for rows,cols "
        "(quick 2..30, thorough 1..90 x 1..30) x levels 0..8, exhaustive; pdfnrows: calculateNumberOfRows; pdfec / "
        "pdfdata: Compute and encodeData on random codewords for every level.  Informational (shape_choice, never a "
        "violation, the shape is free): calcDimensions vs its model on dataWords 0..930 x eccWords 2,4,..,512, the float64-vs-exact "
        "enumeration of its comparison, ~100 full symbols of pdf_encode_auto vs Encode.  Oracle: the extracted reference reader "
        "(pdf_valid / pdf_decode of spec/Pdf417Spec.v) on the implementation's pixels must be valid, name the requested "
        "level, show fewer pad codewords than columns and return the input bytes; the reference high-level decoder on "
        "VerifHighLevel's codewords must return the input; RS syndromes of Compute's output must vanish.  "
        "non-trivial = a rendered symbol, a non-empty codeword stream, or an indicator/RS evaluation; distinct = distinct case line")

UP, LO, DG, MX, PU, SH, SP, LF, CR = "A", "q", "7", "&", ";", ",", " ", "\n", "\r"
CLASSES = [UP, LO, DG, MX, PU, SH, SP, LF, CR]


def hx(b):
    if isinstance(b, str):
        b = b.encode("latin-1")
    return b.hex() if b else "-"


def rand_text(rng, n, alphabet=None):
    pools = ["ABCXYZ ", "abcxyz ", "0123456789", "&#+%=^", ";<>@[\\]_`~!\"|()?{}'", "\r\t,:-.$/*", "\n"]
    out = []
    pool = rng.choice(pools)
    while len(out) < n:
        if rng.random() < 0.3:
            pool = rng.choice(pools)
        out.append(rng.choice(pool))
    return "".join(out).encode("latin-1")


def rand_mix(rng, n):
    """segments of text / digits / bytes"""
    out = b""
    while len(out) < n:
        k = rng.random()
        if k < 0.45:
            out += rand_text(rng, rng.choice([1, 2, 3, 4, 5, 6, 7, 12]))
        elif k < 0.7:
            out += bytes(rng.choice(b"0123456789") for _ in range(rng.choice([1, 2, 5, 12, 13, 14, 20, 44, 45])))
        elif k < 0.9:
            out += bytes(rng.randrange(128, 256) for _ in range(rng.choice([1, 1, 2, 5, 6, 7, 12])))
        else:
            out += bytes(rng.randrange(0, 32) for _ in range(rng.choice([1, 2, 6])))
    return out[:n]


def data_family(tier, rng):
    """list of (tag, bytes)"""
    import itertools
    fam = []
    # every sub-mode transition: all strings up to length 3 over the class representatives
    for k in range(0, 4):
        for combo in itertools.product(CLASSES, repeat=k):
            fam.append(("trans", "".join(combo).encode("latin-1")))
    reps4 = [UP, LO, DG, PU, SH, LF]
    for combo in itertools.product(reps4, repeat=4):
        if tier == "thorough" or rng.random() < 0.25:
            fam.append(("trans4", "".join(combo).encode("latin-1")))
    # every text character on its own and after each sub-mode
    for ch in [9, 10, 13] + list(range(32, 127)):
        fam.append(("char", bytes([ch])))
        fam.append(("char", b"ab" + bytes([ch]) + b"cd"))
        fam.append(("char", b";;" + bytes([ch]) + bytes([ch]) + b"1"))
    # every single byte alone and inside text (alphabet boundaries, C10)
    for b in range(256):
        fam.append(("byte1", bytes([b])))
        if tier == "thorough" or b % 7 == 0 or b >= 0x7e and b <= 0x82 or b >= 0xf0 and b <= 0xf5:
            fam.append(("byte1ctx", b"Hello" + bytes([b]) + b"World"))
    # digit runs around the thresholds
    for n in list(range(1, 16)) + [43, 44, 45, 46, 87, 88, 89, 132, 133]:
        d = bytes(rng.choice(b"0123456789") for _ in range(n))
        fam.append(("digits", d))
        fam.append(("digits", b"0" * n))
        fam.append(("digits", b"abcde" + d))
        fam.append(("digits", d + b"abcde"))
        fam.append(("digits", b"ab" + d + b"\x80"))
        fam.append(("digits", b"\x80\x81" + d + b"xy"))
        fam.append(("digits", b"AB;" + d + b";;x"))
    # byte runs of every length mod 6, alone / after text / between text / after digits
    for n in range(1, 14):
        bs = bytes(rng.randrange(128, 256) for _ in range(n))
        fam.append(("bytes", bs))
        fam.append(("bytes", b"\x00" * n))
        fam.append(("bytes", b"\xff" * n))
        fam.append(("bytes", b"Hello" + bs))
        fam.append(("bytes", b"Hello" + bs + b"world!"))
        fam.append(("bytes", b"hello, " + bs + b";;;;;;"))
        fam.append(("bytes", b"1234567890123" + bs))
        fam.append(("bytes", b"1234567890123" + bs + b"abcdef"))
        fam.append(("bytes", bs + b"ab" + bs))          # fewer than 5 text characters stay in the byte run
        fam.append(("bytes", bs + b"abcde" + bs))
        fam.append(("bytes", bs + b"abcdef" + bs))
    # single shifted bytes between text in every sub-mode, with even and odd value counts
    for pre in [b"AAAAA", b"AAAAAA", b"aaaaa", b"aaaaaa", b"AAAA1", b"AAAA11", b"AAAA1;;", b"AAAA1;;;", b"aaaa;", b"aaaaA",
                b"11111&", b"1111&&", b";;;;;", b"A;;;;;;", b"1;;;;;;", b"1;;;;;;;"]:
        for post in [b"", b"AAAAA", b"aaaaa", b"&&&&&&", b";;;;;;", b";;;;;", b"\n\n\n\n\n", b"A", b";", b"1234567890123", b"12345"]:
            for mid in [b"\x80", b"\x00", b"\xc3"]:
                fam.append(("shift913", pre + mid + post))
    # the pad-in-punctuation family
    for a in range(0, 4):
        for b in range(1, 5):
            for c in range(1, 8):
                fam.append(("padpunct", b"AAAA" + b"1" * a + b";" * b + b"\x80" + b";" * c))
                if tier == "thorough" or (a + b + c) % 3 == 0:
                    fam.append(("padpunct", b"aaaa" + b"&" * a + b"!" * b + b"\x9f" + b"?" * c + b"A"))
                    fam.append(("padpunct", b"AAAA" + b"1" * a + b";" * b + b"\x80" + b";" * c + b"\x81" + b"{}" * c))
    fam.append(("padpunct", b"AAAA1;;\x80;;;;;;"))
    # UTF-8: valid multi-byte, invalid sequences
    for s in ["é", "€", "😀", "Grüße aus Köln", "日本語テキスト", "aé1€;😀A", "ééééééé", "12345678901234é"]:
        fam.append(("utf8", s.encode("utf-8")))
        fam.append(("utf8", b"Text " + s.encode("utf-8") + b" more text"))
    for bad in [b"\x80", b"\xc3", b"\xc3\x28", b"\xe2\x82", b"\xe2\x28\xa1", b"\xf0\x9f\x98", b"\xc0\xaf", b"\xed\xa0\x80",
                b"\xf4\x90\x80\x80", b"\xf5\x80\x80\x80", b"\xff\xfe", b"\xef\xbf\xbd", b"\xe2\x82\xac"[1:]]:
        fam.append(("utf8bad", bad))
        fam.append(("utf8bad", b"Hello" + bad + b"World"))
        fam.append(("utf8bad", b"12345" + bad + b"1234567890123"))
    # random mixtures
    nrand = 300 if tier == "quick" else 6000
    for _ in range(nrand):
        n = rng.choice([1, 2, 3, 5, 8, 13, 21, 34, 55, 89, rng.randrange(1, 200)])
        k = rng.random()
        if k < 0.4:
            fam.append(("rand", rand_text(rng, n)))
        elif k < 0.8:
            fam.append(("rand", rand_mix(rng, n)))
        else:
            fam.append(("rand", bytes(rng.randrange(256) for _ in range(n))))
    return fam


def capacity_family(tier, rng):
    """(level, bytes): lengths up to and beyond capacity (data codewords + 1 + 2^(l+1) <= 900)"""
    res = []
    for level in range(9):
        free = 900 - 1 - (2 << level)          # data codewords available
        if free <= 0:
            continue
        # text: 2 characters per codeword; digits: 44 per 15 codewords (+902); bytes: 6 per 5 (+924/901)
        if tier == "quick" and level not in (0, 5, 8):
            continue
        for delta in ([-1, 0, 1] if tier == "quick" else [-3, -2, -1, 0, 1, 2, 3]):
            res.append((level, b"A" * max(0, 2 * free + 2 * delta)))
            nd = ((free - 1) // 15) * 44 + max(0, ((free - 1) % 15) * 3 - 1) + delta
            res.append((level, bytes(rng.choice(b"0123456789") for _ in range(max(0, nd)))))
            nb = ((free - 1) // 5) * 6 + (free - 1) % 5 + delta
            res.append((level, bytes(rng.randrange(128, 256) for _ in range(max(0, nb)))))
    if tier == "thorough":
        for _ in range(60):
            level = rng.randrange(9)
            free = 900 - 1 - (2 << level)
            res.append((level, rand_mix(rng, rng.randrange(max(1, free // 2), 2 * max(1, free) + 50))))
    else:
        for level in (0, 3, 8):
            free = 900 - 1 - (2 << level)
            res.append((level, rand_mix(rng, max(1, free))))
            res.append((level, rand_mix(rng, 2 * max(1, free) + 40)))
    return res


def probe_cols(items):
    """column count the implementation chooses for (level, data): read from the width of its output"""
    exe = os.path.join(BUILD, "impl_" + PID)
    if not os.path.exists(exe):
        return ["0"] * len(items)
    lines = ["pdfdims %d %s" % (lv, hx(d)) for lv, d in items]
    outs = run_lines(exe, lines, shards=min(NCPU, 8))
    return [o if o is not None and o.isdigit() else "0" for o in outs]


def cases(tier, rng):
    fam = data_family(tier, rng)
    items = []     # (level, data, scheme)
    seen = set()
    for i, (tag, d) in enumerate(fam):
        if d in seen:
            continue
        seen.add(d)
        if tier == "thorough":
            levels = [rng.randrange(9), rng.randrange(9)]
        else:
            levels = [rng.randrange(9)] if (tag in ("padpunct", "shift913", "digits", "bytes", "utf8", "utf8bad") or rng.random() < 0.35) else []
        for lv in levels:
            items.append((lv, d, rng.choice([0, 0, 1, 2, 3, 4, 5, 6])))
    # all levels (legal and illegal) on a few strings
    for d in [b"", b"A", b"PDF417 test 1234567890123456 \x80\x81", b"AAAA1;;\x80;;;;;;"]:
        for lv in list(range(9)) + [9, 10, 127, 128, 255]:
            items.append((lv, d, 0))
    # level 8 symbols carry 512 check words: cover the pattern tables
    for _ in range(12 if tier == "quick" else 120):
        items.append((8, rand_mix(rng, rng.randrange(1, 300)), 0))
    for _ in range(12 if tier == "quick" else 200):
        items.append((rng.choice([5, 6, 7]), rand_mix(rng, rng.randrange(1, 400)), 0))
    for lv, d in capacity_family(tier, rng):
        items.append((lv, d, 0))
    import gaps
    for g in gaps.family(rng, tier, ("pdf",)):
        t = g.split(" ")
        items.append((int(t[1]), b"" if t[2] == "-" else bytes.fromhex(t[2]), 0))
    cols = probe_cols([(lv, d) for lv, d, _ in items])
    lines = ["pdf %d %s %s %d" % (lv, hx(d), c, sch) for (lv, d, sch), c in zip(items, cols)]
    # high-level codewords for every data string
    for d in sorted(seen):
        lines.append("pdfhl " + hx(d))
    for lv, d in capacity_family(tier, rng)[:12]:
        lines.append("pdfhl " + hx(d))
    # encodeText from each sub-mode
    texts = [d for tag, d in fam if tag in ("trans", "trans4", "char") and all(c in (9, 10, 13) or 32 <= c <= 126 for c in d)]
    for d in texts:
        for sub in range(4):
            if tier == "thorough" or len(d) <= 2 or rng.random() < 0.2:
                lines.append("pdftext %d %s" % (sub, hx(d)))
    # row indicators
    rmax, cmin = (30, 2) if tier == "quick" else (90, 1)
    for r in range(1 if tier != "quick" else 2, rmax + 1):
        for c in range(cmin, 31):
            for lv in range(9):
                lines.append("pdfrow %d %d %d" % (r, c, lv))
    # calculateNumberOfRows
    ks = [2 << l for l in range(9)]
    if tier == "thorough":
        for m in range(0, 931):
            for k in ks:
                for c in range(1, 31):
                    lines.append("pdfnrows %d %d %d" % (m, k, c))
    else:
        for _ in range(4000):
            lines.append("pdfnrows %d %d %d" % (rng.randrange(0, 931), rng.choice(ks), rng.randrange(1, 31)))
    # Compute / encodeData
    for lv in range(9):
        for _ in range(6 if tier == "quick" else 60):
            n = rng.choice([1, 2, 3, 10, 50, rng.randrange(1, 400)])
            cw = [rng.randrange(0, 929) for _ in range(n)]
            lines.append("pdfec %d %s" % (lv, ",".join(map(str, cw))))
            cw = [rng.randrange(0, 900) for _ in range(rng.randrange(0, 300))]
            lines.append("pdfdata %d %d %s" % (lv, rng.randrange(2, 31), ",".join(map(str, cw)) or "-"))
    return lines


def nontrivial(line, impl_out):
    t = line.split(" ")
    if impl_out is None:
        return False
    if t[0] == "pdf":
        return impl_out.startswith("OK ") or impl_out == "ERR"
    if t[0] in ("pdfhl", "pdftext"):
        return t[-1] != "-"
    return True


def oracle_lines(lines, impl_outs):
    res = []
    for l, o in zip(lines, impl_outs):
        t = l.split(" ")
        if o is None:
            res.append(None)
        elif t[0] == "pdf" and o.startswith("OK "):
            res.append("pdfdec " + o.split(" ")[-1])
        elif t[0] == "pdfhl" and o not in ("ERR", "PANIC"):
            res.append("pdfdechl " + o)
        elif t[0] == "pdfec" and o != "PANIC":
            res.append("pdfsyn %s %s" % (t[1], t[2] + "," + o))
        elif t[0] == "pdfdata" and o not in ("ERR", "PANIC"):
            res.append("pdfsyn %s %s" % (t[1], o))
        else:
            res.append(None)
    return res


def oracle_verdict(line, impl_out, oracle_out):
    t = line.split(" ")
    if t[0] == "pdf":
        f = impl_out.split(" ")
        if oracle_out == "UNREADABLE":
            return "reference reader cannot read the symbol (start/stop pattern, a pattern not of the row's cluster, or inconsistent row indicators)"
        o = oracle_out.split(" ")
        if len(o) != 6:
            return "oracle output malformed: " + oracle_out[:80]
        valid, rows, cols, level, iso3, dec = o
        if valid != "T":
            return "pdf_valid false: shape limits, length descriptor or Reed-Solomon syndromes"
        if int(level) != int(t[1]):
            return "row indicators name level %s, requested %s" % (level, t[1])
        if dec != t[2]:
            return "reference reader decodes %s" % dec[:120]
        if f[1] != "PDF417" or f[2] != "2":
            return "metadata is not PDF417/2"
        if f[4] != t[2]:
            return "Content() differs from the input"
        if f[5] != "-":
            return "unexpected checksum"
        wh = f[3].split("-")[1].split("x")
        if int(wh[0]) != 17 * (int(cols) + 4) + 1 or int(wh[1]) % int(rows) != 0 or int(wh[1]) < int(rows):
            return "bounds %s do not match %s rows x %s columns" % (f[3], rows, cols)
        if not (1 <= int(cols) <= 30 and int(rows) <= 90 and int(rows) * int(cols) <= 928):
            return "shape outside the limits"
        if "?" in f[6]:
            return "a pixel is neither foreground nor background of the scheme"
        return None
    if t[0] == "pdfhl":
        if oracle_out != t[1]:
            return "reference high-level decoder returns %s" % oracle_out[:120]
        return None
    if t[0] in ("pdfec", "pdfdata"):
        if oracle_out != "T":
            return "Reed-Solomon syndromes at 3^1..3^k do not vanish"
        return None
    return None


def distribution(lines, impl_outs):
    from collections import Counter
    kinds, shapes, levels, res = Counter(), Counter(), Counter(), Counter()
    two_rows = 0
    for l, o in zip(lines, impl_outs):
        t = l.split(" ")
        kinds[t[0]] += 1
        if t[0] == "pdf" and o:
            res[o.split(" ")[0][:12]] += 1
            levels[t[1]] += 1
            if o.startswith("OK "):
                w, h = o.split(" ")[3].split("-")[1].split("x")
                c, r = (int(w) - 1) // 17 - 4, int(h) // 2
                shapes["rows %02d-%02d" % (r // 10 * 10, r // 10 * 10 + 9)] += 1
                shapes["cols %02d-%02d" % (c // 10 * 10, c // 10 * 10 + 9)] += 1
                if r == 2:
                    two_rows += 1
    return {"case_kinds": dict(kinds), "pdf_results": dict(res), "pdf_levels": dict(levels), "pdf_shapes": dict(shapes),
            "symbols_with_2_rows_below_iso_minimum_3": two_rows}


# ---- kernel-side sample: the model evaluated by vm_compute inside Coq on cases the implementation ran ----
KERNEL_HEADER = """From Verif Require Import Prelude Barcode Utf8M TabPdf417 Pdf417M Pdf417Spec.
Inductive kcase :=
| KSkip
| KHl (data expected : list Z)
| KEc (level : Z) (data expected : list Z)
| KPix (level cols : Z) (data : list Z) (w h : Z) (rows : list Z)
| KRow (rows cols level : Z) (lefts rights : list Z)
| KNRows (m k c expected : Z).
Fixpoint zl_eqb (a b : list Z) : bool :=
  match a, b with
  | [], [] => true
  | x :: a', y :: b' => (x =? y) && zl_eqb a' b'
  | _, _ => false
  end.
Definition case_ok (c : kcase) : bool :=
  match c with
  | KSkip => true
  | KHl d e => match pdf_highlevel d with Ok r => zl_eqb r e | _ => false end
  | KEc l d e => match pdf_compute l d with Ok r => zl_eqb r e | _ => false end
  | KRow r c l ls rs =>
    let idx := pdf_range 0 (Z.to_nat r) in
    zl_eqb (map (fun i => pdf_left_codeword i r c l) idx) ls &&
    zl_eqb (map (fun i => pdf_right_codeword i r c l) idx) rs &&
    zl_eqb (map (fun i => pdfs_left_indicator i r c l) idx) ls &&
    zl_eqb (map (fun i => pdfs_right_indicator i r c l) idx) rs
  | KNRows m k c e => match pdf_number_of_rows m k c with Ok r => r =? e | _ => false end
  | KPix l c d w h rows =>
    match pdf_encode d l c with
    | Ok bc => (bc_width bc =? w) && (bc_height bc =? h) && zl_eqb (map pdfs_bits_value (bc_rows bc)) rows
               && pdf_valid (bc_rows bc)
               && match pdf_decode (bc_rows bc) with Some r => zl_eqb r d | None => false end
    | _ => false
    end
  end.
"""


def _zl(xs):
    return "[%s]" % "; ".join(str(x) for x in xs)


def _hexbytes(h):
    return [] if h == "-" else list(bytes.fromhex(h))


def coq_case(line, impl_out):
    t = line.split(" ")
    try:
        if t[0] == "pdfhl" and impl_out not in ("ERR", "PANIC") and len(line) < 400:
            exp = [] if impl_out == "-" else [int(x) for x in impl_out.split(",")]
            return "KHl %s %s" % (_zl(_hexbytes(t[1])), _zl(exp))
        if t[0] == "pdfec" and impl_out != "PANIC" and int(t[1]) <= 5 and len(line) < 600:
            return "KEc %s %s %s" % (t[1], _zl(t[2].split(",")), _zl(impl_out.split(",")))
        if t[0] == "pdf" and impl_out.startswith("OK ") and len(impl_out) < 4000 and int(t[1]) <= 3:
            f = impl_out.split(" ")
            w, h = f[3].split("-")[1].split("x")
            rows = [int(r, 2) for r in f[6].split("/")]
            return "KPix %s %s %s %s %s %s" % (t[1], t[3], _zl(_hexbytes(t[2])), w, h, _zl(rows))
        if t[0] == "pdfrow":
            pairs = [p.split(":") for p in impl_out.split(" ")]
            return "KRow %s %s %s %s %s" % (t[1], t[2], t[3], _zl(p[0] for p in pairs), _zl(p[1] for p in pairs))
        if t[0] == "pdfnrows":
            return "KNRows %s %s %s %s" % (t[1], t[2], t[3], impl_out)
    except Exception:
        pass
    return "KSkip"


def public_line(line):
    # pdf <level> <hex> <cols probed from the implementation> <scheme>: plain encodes only
    t = line.split(" ")
    if t[0] == "pdf" and len(t) >= 3 and (len(t) < 5 or t[4] == "0"):
        return "encfull pdf %s %s" % (t[1], t[2])
    return None


ECC_COUNTS = [2 << l for l in range(9)]      # ErrorCorrectionWordCount of the levels 0..8: 2,4,...,512


def _shape_of(out):
    """(cols, rows) of a describe line, None for anything else"""
    if not out or not out.startswith("OK "):
        return None
    try:
        w, h = out.split(" ")[3].split("-")[1].split("x")
        return ((int(w) - 1) // 17 - 4, int(h) // 2)
    except Exception:
        return None


def shape_phase(rep, impl_exe, model_exe, rng, tier):
    """INFORMATIONAL, never a violation: the properties leave the shape free within 2..30 rows/columns, and
    every shape the implementation uses is checked by the `pdf` cases (oracle column count) and the reference
    reader.  Here calcDimensions itself (hook VerifCalcDimensions) is compared with its model
    (model/Pdf417DimM.v pdf_calc_dimensions_auto, floats as exact ratios) on the WHOLE domain
    dataWords 0..930 x eccWords 2,4,...,512; the float64-vs-exact enumeration of the comparison
    (harness tag pdfdimfloat) is re-run; and ~100 full symbols of pdf_encode_auto are compared with Encode."""
    info = {"informational": True,
            "domain": "dataWords 0..930 x eccWords in %s (calcDimensions via VerifCalcDimensions vs pdf_calc_dimensions_auto)" % ECC_COUNTS}
    try:
        # 1. float64 vs exact rationals on every pair of values the loop can compare
        fl = (run_lines(impl_exe, ["pdfdimfloat"], shards=1)[0] or "")
        fv = dict(kv.split("=", 1) for kv in fl.split(" ") if "=" in kv)
        info["float_vs_exact"] = {
            "what": "math.Abs(newRatio-3.0) > math.Abs(ratio-3.0) in float64 vs |n1-3d1|*d2 > |n2-3d2|*d1 in integers; newRatio over "
                    "shapes 2..30 x 2..30, ratio over the same shapes, +Inf (rows = 0) and the initial 0.0",
            "pairs": int(fv.get("pairs", -1)), "agree": int(fv.get("agree", -1)),
            "exact_ties_between_different_ratios": int(fv.get("ties", -1)),
            "division_by_zero_rows_is_plus_inf": fv.get("inf") == "T",
            "always_agree": fv.get("pairs") == fv.get("agree") and fv.get("inf") == "T" and "pairs" in fv,
            "disagreements": [] if fv.get("diff", "-") == "-" else fv.get("diff").split(";"),
        } if fv else {"error": fl[:200]}
        # 2. the whole domain of calcDimensions
        lines = ["pdfdim %d %d" % (m, k) for m in range(0, 931) for k in ECC_COUNTS]
        io = run_lines(impl_exe, lines, shards=min(NCPU, 4))
        mo = run_lines(model_exe, lines, shards=min(NCPU, 4))
        same = sum(1 for a, b in zip(io, mo) if a == b)
        diff = [{"case": l, "impl": (a or "")[:40], "model": (b or "")[:40]} for l, a, b in zip(lines, io, mo) if a != b]
        from collections import Counter
        info.update({"compared": len(lines), "same": same, "examples_of_difference": diff[:12],
                     "implementation_choices": dict(Counter(
                         "none (0 0)" if a == "0 0" else "shape" if a and a[0].isdigit() else "other" for a in io))})
        # 3. full symbols: pdf_encode_auto (= pdf_encode at the modelled choice) vs Encode
        items = []
        for lv in range(9):
            free = 900 - 1 - (2 << lv)
            for _ in range(11 if tier == "quick" else 60):
                n = rng.choice([0, 1, 2, 5, 12, 30, 60, 120, 250, rng.randrange(1, 2 * free + 20)])
                items.append((lv, rand_mix(rng, n) if n else b""))
        items += [(9, b"A"), (255, b"A"), (0, b"A" * 1794), (0, b"A" * 1796)]
        sl = ["pdfauto %d %s" % (lv, hx(d)) for lv, d in items]
        si = run_lines(impl_exe, sl, shards=min(NCPU, 8))
        sm = run_lines(model_exe, sl, shards=min(NCPU, 8))
        sg = run_lines(model_exe, [l + " go" for l in sl[:40]], shards=min(NCPU, 8))
        cat = Counter()
        sdiff = []
        for l, a, b in zip(sl, si, sm):
            if a == b:
                cat["same"] += 1
            else:
                sa, sb = _shape_of(a), _shape_of(b)
                k = "different shape, both symbols" if sa and sb and sa != sb else "other difference"
                cat[k] += 1
                if len(sdiff) < 6:
                    sdiff.append({"case": l[:120], "impl_shape": sa, "model_shape": sb, "impl": (a or "")[:60], "model": (b or "")[:60]})
        info["full_symbols"] = {"compared": len(sl), "same": cat["same"], "categories": dict(cat),
                                "symbols": sum(1 for a in si if a and a.startswith("OK ")),
                                "examples_of_difference": sdiff,
                                "model_encode_go_equals_encode_auto": "%d/%d" % (sum(1 for a, b in zip(sg, sm) if a == b), len(sg))}
    except Exception as e:      # informational: never fails the check
        info["error"] = ("%s: %s" % (type(e).__name__, e))[:300]
    rep.cov["shape_choice"] = info
    return []


def extra(rep, impl_exe, model_exe, rng, tier):
    # returned barcodes must remain what they were when other symbols are encoded afterwards
    import held
    viol = held.held_phase(rep, impl_exe, rng, ['pdf 0', 'pdf 2', 'pdf 5'], n=8 if tier == "quick" else 60)
    shape_phase(rep, impl_exe, model_exe, rng, tier)     # informational, returns no violation
    return viol
