"""C05 — Code 128: every accepted text decodes back to exactly that text."""
import itertools

from common import *

PID = "C05"
PROPS = "props/C05.v"
GOTAB = ["code128.go"]
GOFILES = ["code128.go", "all.go"]
EXTRACT = ["base", "code128"]
HANDLERS = ["h_code128.ml"]

FNC1, FNC2, FNC3, FNC4 = 0xF1, 0xF2, 0xF3, 0xF4

# class alphabet: digits '0' '5' '9', FNC1, upper, lower, control, FNC2-4, DEL, space
ALPHA12 = [0x30, 0x35, 0x39, FNC1, 0x41, 0x61, 0x01, FNC2, FNC3, FNC4, 0x7F, 0x20]
ALPHA4 = [0x37, FNC1, 0x7A, 0x1D]          # digit, FNC1, lower, control (GS)
ALPHA3 = [0x34, FNC1, 0x62]                # digit, FNC1, lower


def enc(runes):
    """UTF-8 bytes of a rune list as lowercase hex, '-' for empty"""
    b = "".join(chr(r) for r in runes).encode("utf-8", "surrogatepass")
    return b.hex() if b else "-"


def hexs(b):
    return b.hex() if b else "-"


def all_strings(alpha, maxlen, minlen=1):
    for k in range(minlen, maxlen + 1):
        for combo in itertools.product(alpha, repeat=k):
            yield list(combo)


def markov(rng, n):
    """n runes with digit-run / control / lower / upper / FNC structure"""
    res = []
    state = rng.choice("dclufx")
    while len(res) < n:
        if state == "d":
            run = rng.choice([1, 2, 3, 4, 5, 6, 7, 8, rng.randrange(1, 20)])
            for _ in range(run):
                res.append(rng.randrange(0x30, 0x3A))
                if rng.random() < 0.08:
                    res.append(FNC1)
        elif state == "c":
            for _ in range(rng.randrange(1, 4)):
                res.append(rng.randrange(0, 0x20))
        elif state == "l":
            for _ in range(rng.randrange(1, 5)):
                res.append(rng.choice([rng.randrange(0x60, 0x80), 0x7F, 0x60]))
        elif state == "u":
            for _ in range(rng.randrange(1, 5)):
                res.append(rng.randrange(0x20, 0x60))
        elif state == "f":
            res.append(rng.choice([FNC1, FNC1, FNC2, FNC3, FNC4]))
        else:
            res.append(rng.randrange(0, 0x80))
        state = rng.choice("ddddcclluufx")
    return res[:n]


SPECIAL_BYTES = [
    b"", b"\xff", b"\xf1", b"\xc3", b"\xc3\xb1", b"\xc3\xb4", b"\xc3\xb5", b"\xc3\xb0", b"\xc3\xa4",
    b"\xc0\x80", b"\xc1\xbf", b"\xc2\x80", b"\xc2", b"\xe0\x80\x80", b"\xe0\xa0\x80", b"\xed\xa0\x80", b"\xed\x9f\xbf",
    b"\xef\xbf\xbd", b"\xef\xbf", b"\xf0\x90\x80\x80", b"\xf0\x8f\xbf\xbf", b"\xf4\x8f\xbf\xbf", b"\xf4\x90\x80\x80",
    b"\xf5\x80\x80\x80", b"\xf0\x9f\x98\x80", b"\xf0\x9f\x98", b"A\xffB", b"12\xc3\xb11234", b"\x80", b"\xbf12",
    b"\xe2\x82\xac", b"\xe2\x82", b"1234\xe2\x82\xac", b"\xc4\x80", b"ab\xc3", b"\x00", b"\x7f", b"\x00\x7f\x1f ",
]


def cases(tier, rng):
    quick = tier == "quick"
    strings = []                                   # rune lists
    strings += list(all_strings(ALPHA12, 3 if quick else 4))
    strings += list(all_strings(ALPHA4, 5 if quick else 8, 4 if quick else 5))
    strings += list(all_strings(ALPHA3, 7 if quick else 10, 6 if quick else 9))
    # boundaries of the length rule
    for n in (79, 80, 81, 82, 160, 200):
        strings.append([0x41] * n)
        strings.append([0x31] * n)
        strings.append(markov(rng, n))
    strings.append([FNC1] * 80)
    strings.append([0x31, 0x61] * 40)
    strings.append([0x01, 0x61] * 40)
    strings.append([0x31, 0x31, 0x01, 0x61] * 20)
    # lengths that wrap around 8/16-bit counters onto 1..80, runes whose low byte is a table character
    import gaps
    for n in (1, 2, 40, 79, 80):
        for w in (256, 512, 65536):
            strings.append([0x61] * (n + w))
            strings.append([0x37] * (n + w))
    for good in ("ab12", "AB\r1", "1234"):
        for i in range(len(good)):
            for r in gaps.low_byte_runes(good[i]):
                strings.append([ord(c) for c in good[:i]] + [ord(r)] + [ord(c) for c in good[i + 1:]])
    # near-maximal weighted sums (80 runes, a code-set change at every rune, high symbol values) with EVERY residue
    # modulo 103: the last control character and the last lower-case character each range over 32 values
    for a in range(0x00, 0x20, 1 if not quick else 2):
        for b in range(0x60, 0x80, 1 if not quick else 2):
            strings.append([0x11, 0x7F] + [0x1F, 0x7F] * 38 + [a, b])
    nrand = 1500 if quick else 100000
    for _ in range(nrand):
        n = rng.choice([1, 2, 3, 4, 5, 6, 7, 8, 9, 10, 12, 16, 20, 40, 79, 80, rng.randrange(1, 81), rng.randrange(1, 81)])
        strings.append(markov(rng, n))
    # one non-alphabet rune somewhere in an otherwise fine text
    for _ in range(60 if quick else 2000):
        s = markov(rng, rng.randrange(1, 30))
        s[rng.randrange(len(s))] = rng.choice([0x80, 0xE4, 0xF0, 0xF5, 0xFF, 0x100, 0x20AC, 0xFFFD, 0x1F600, 0x10FFFF])
        strings.append(s)
    lines = []
    seen = set()
    for s in strings:
        h = enc(s)
        if h in seen:
            continue
        seen.add(h)
        lines.append("c128 1 " + h)
        lines.append("c128 0 " + h)
        if len(s) <= 400:           # the index-list hook has no length limit (and its model is quadratic)
            lines.append("c128idx " + h)
    # raw byte strings: invalid / non-ASCII UTF-8
    raws = list(SPECIAL_BYTES)
    import gaps as _g
    for g in _g.family(rng, tier, ("c128", "c128n"), maxlen=1500):
        raws.append(b"" if g.split(" ")[1] == "-" else bytes.fromhex(g.split(" ")[1]))
    for _ in range(150 if quick else 5000):
        n = rng.randrange(1, 12)
        raws.append(bytes(rng.choice([rng.randrange(256), rng.randrange(0x80, 0x100), rng.randrange(0x30, 0x3A),
                                      0xC3, 0xB1, 0xE2, 0xF0, 0x9F]) for _ in range(n)))
    for b in raws:
        h = hexs(b)
        lines.append("c128runes " + h)
        if h not in seen:
            seen.add(h)
            lines.append("c128 1 " + h)
            lines.append("c128 0 " + h)
            lines.append("c128idx " + h)
    # the two look-ahead predicates directly, every current-set value
    preds = [[]] + list(all_strings(ALPHA12, 2)) + list(all_strings(ALPHA4, 5 if quick else 6, 3)) \
        + list(all_strings(ALPHA3, 7 if quick else 9, 6))
    for s in preds:
        h = enc(s)
        for cur in (0, 103, 104, 105):
            lines.append("c128c %d %s" % (cur, h))
            lines.append("c128a %d %s" % (cur, h))
    return lines


def nontrivial(line, impl_out):
    # an accepted text (a symbol was produced), or a look-ahead decision on a non-empty suffix
    t = line.split()
    if t[0] == "c128":
        return impl_out is not None and impl_out.startswith("OK ")
    if t[0] == "c128idx":
        return impl_out not in (None, "NIL", "-")
    return False


def go_runes(h):
    """rune list Go's range-over-string yields for the byte string (hex); each
    invalid byte is one U+FFFD"""
    b = b"" if h == "-" else bytes.fromhex(h)
    res = []
    i = 0
    while i < len(b):
        ok = False
        for k in (1, 2, 3, 4):
            try:
                ch = b[i:i + k].decode("utf-8")
            except UnicodeDecodeError:
                continue
            if len(ch) == 1:
                res.append(ord(ch))
                i += k
                ok = True
                break
        if not ok:
            res.append(0xFFFD)
            i += 1
    return res


def oracle_lines(lines, impl_outs):
    res = []
    for l, o in zip(lines, impl_outs):
        t = l.split()
        if t[0] == "c128" and o is not None and o.startswith("OK "):
            f = o.split(" ")
            rows = f[-1]
            if "/" in rows or rows == "" or set(rows) - set("01"):
                res.append("c128dec %s 0" % t[1])      # malformed row: the decoder will say NONE
            else:
                res.append("c128dec %s %s" % (t[1], rows))
        else:
            res.append(None)
    return res


def _fields(impl_out):
    f = impl_out.split(" ")
    # OK <kind> <dims> <bounds> <content> <cs> <rows>
    return f if len(f) == 7 else None


def oracle_verdict(line, impl_out, oracle_out):
    t = line.split()
    f = _fields(impl_out)
    if f is None:
        return "malformed result line"
    _, kind, dims, bounds, content, cs, rows = f
    if kind != "Code_128" or dims != "1":
        return "wrong kind/dimensions"
    if bounds != "0,0-%dx1" % len(rows):
        return "bounds are not 0,0-<modules>x1"
    if content != t[2]:
        return "Content() differs from the input"
    want = go_runes(t[2])
    if not (1 <= len(want) <= 80):
        return "accepted a text of %d runes" % len(want)
    if any(not (0 <= r <= 127 or FNC1 <= r <= FNC4) for r in want):
        return "accepted a text with a rune outside ASCII 0..127 + FNC1..4"
    if oracle_out is None or oracle_out == "NONE" or oracle_out.startswith("CRASH"):
        return "reference decoder rejects the symbol (%s)" % oracle_out
    o = oracle_out.split(" ")
    if len(o) != 3:
        return "reference decoder output malformed"
    got = [] if o[0] == "-" else [int(x) for x in o[0].split(",")]
    if got != want:
        return "reference decoder reads a different text"
    if t[1] == "1":
        if o[1] != o[2]:
            return "check character is not the modulo-103 value"
        if cs != o[2]:
            return "CheckSum() is not the modulo-103 value"
    elif cs != "-":
        return "no-checksum variant reports a checksum"
    return None


def _switches(idx_hex):
    """number of code-set changes in an index list (hex)"""
    b = bytes.fromhex(idx_hex)
    if not b or b[0] not in (103, 104, 105):
        return -1
    cur = "ABC"[b[0] - 103]
    n = 0
    for v in b[1:]:
        nxt = None
        if cur == "A":
            nxt = {99: "C", 100: "B"}.get(v)
        elif cur == "B":
            nxt = {99: "C", 101: "A"}.get(v)
        else:
            nxt = {100: "B", 101: "A"}.get(v)
        if nxt:
            cur = nxt
            n += 1
    return n


def distribution(lines, impl_outs):
    d = {}

    def inc(k):
        d[k] = d.get(k, 0) + 1
    for l, o in zip(lines, impl_outs):
        t = l.split()
        o = o or "NONE"
        if t[0] == "c128":
            st = o.split(" ")[0]
            inc("c128 cs=%s %s" % (t[1], st))
            if st == "OK" and t[1] == "1":
                n = len(go_runes(t[2]))
                inc("accepted runes %s" % ("1" if n == 1 else "2-5" if n <= 5 else "6-20" if n <= 20 else "21-79" if n < 80 else "80"))
        elif t[0] == "c128idx":
            if o == "NIL":
                inc("c128idx NIL")
            elif o == "-":
                inc("c128idx empty")
            else:
                s = _switches(o)
                inc("c128idx start %s" % {103: "A", 104: "B", 105: "C"}.get(bytes.fromhex(o)[0], "?"))
                inc("c128idx code-set changes %s" % (str(s) if s < 4 else "4-9" if s < 10 else ">=10"))
        elif t[0] in ("c128c", "c128a"):
            inc("%s cur=%s %s" % (t[0], t[1], o))
        else:
            inc(t[0])
    return d


RULE = ("exhaustive: all rune strings of length <=3 over a 12-symbol class alphabet (digits 0/5/9, FNC1, upper, lower, "
        "control, FNC2-4, DEL, space), length 4..5 over {digit, FNC1, lower, control} and 6..7 over {digit, FNC1, lower}; "
        "random: lengths 1..80 with digit-run (incl. embedded FNC1) / control / lower / upper / FNC Markov structure; "
        "0, 79..82, 160, 200 runes; texts with one rune outside the alphabet; invalid and non-ASCII UTF-8 byte strings; "
        "each text through Encode, EncodeWithoutChecksum (describe format) and VerifIndexList (symbol value list, so the "
        "code-set decisions are compared directly); shouldUseCTable/shouldUseATable on all short suffixes for every "
        "current-set value; strToRunes on the raw byte strings. Oracle: extracted reference decoder of "
        "spec/Code128Spec.v on the implementation's module row vs the input runes, check character vs modulo-103 value. "
        "non-trivial = accepted text / non-empty symbol value list; distinct = distinct case line")


def coq_case(line, impl_out):
    """(with checksum?, content bytes, expected: None = ERR | Some (modules, checksum option))"""
    t = line.split()
    if t[0] != "c128":
        return "(true, [], None)"
    b = [] if t[2] == "-" else list(bytes.fromhex(t[2]))
    content = "[%s]" % "; ".join(str(x) for x in b)
    if impl_out.startswith("OK "):
        f = impl_out.split(" ")
        bits = "[%s]" % "; ".join("true" if c == "1" else "false" for c in f[6])
        cs = "None" if f[5] == "-" else "Some %s" % f[5]
        exp = "Some (%s, %s)" % (bits, cs)
    else:
        exp = "None"
    return "(%s, %s, %s)" % ("true" if t[1] == "1" else "false", content, exp)


KERNEL_HEADER = """From Verif Require Import Prelude Barcode TabCode128 Code128M.
Fixpoint bits_eqb (a b : list bool) : bool :=
  match a, b with
  | [], [] => true
  | x :: a', y :: b' => Bool.eqb x y && bits_eqb a' b'
  | _, _ => false
  end.
Definition case_ok (c : bool * list Z * option (list bool * option Z)) : bool :=
  let '(cs, content, exp) := c in
  match (if cs then c128_encode content else c128_encode_nocs content), exp with
  | Err, None => true
  | Ok bc, Some (bits, sum) =>
    match bc_rows bc with
    | [row] => bits_eqb row bits
    | _ => false
    end
    && match bc_checksum bc, sum with
       | Some a, Some b => a =? b
       | None, None => true
       | _, _ => false
       end
  | _, _ => false
  end.
"""


def extra(rep, impl_exe, model_exe, rng, tier):
    # returned barcodes must remain what they were when other symbols are encoded afterwards
    import held
    return held.held_phase(rep, impl_exe, rng, ['c128', 'c128n'], n=10 if tier == "quick" else 80)


def public_line(line):
    t = line.split(" ")
    if t[0] == "c128" and len(t) == 3:
        return "encfull %s %s" % ("c128" if t[1] == "1" else "c128n", t[2])
    return None
