"""C07 — Code 39 and Code 93: symbols decode to the given text in every option mix."""
import itertools

from common import *

PID = "C07"
PROPS = "props/C07.v"
GOTAB = ["code39.go", "code93.go"]
GOFILES = ["code39.go", "code93.go", "all.go"]
EXTRACT = ["base", "utf8", "code39", "code93"]
HANDLERS = ["h_code39.ml", "h_code93.ml"]

BASIC43 = b"0123456789ABCDEFGHIJKLMNOPQRSTUVWXYZ-. $/+%"
FNC = [b"\xc3\xb1", b"\xc3\xb2", b"\xc3\xb3", b"\xc3\xb4"]
# one or more representatives of every class of the full-ASCII table (control $A..$Z, %A..%E, %U, space,
# /A../O, the four Code 39 shift characters, '*', digits, /Z, %F..%J, %V, letters, %K..%O, %W, +A..+Z, %P..%T)
ASCII_REPS = bytes([0, 1, 13, 26, 27, 31, 32, 33, 35, 36, 37, 42, 43, 44, 45, 46, 47, 48, 57, 58, 59, 63, 64,
                    65, 74, 90, 91, 95, 96, 97, 122, 123, 127])
# non-ASCII and ill-formed UTF-8: continuation alone, truncated, FNC1..4 and neighbours, overlong forms of '*'
# and of U+00F1, 3- and 4-byte runes, surrogate, above U+10FFFF, U+FFFD itself, bad lead bytes
WEIRD = [b"\x80", b"\xbf", b"\xc3", b"\xc3\xb0", b"\xc3\xb1", b"\xc3\xb4", b"\xc3\xb5", b"\xc3\x28", b"\xc2\xaa",
         b"\xc0\xaa", b"\xc1\xbf", b"\xe0\x80\xaa", b"\xe0\x83\xb1", b"\xe2\x82\xac", b"\xe2\x82", b"\xed\xa0\x80",
         b"\xed\x9f\xbf", b"\xf0\x9f\x98\x80", b"\xf0\x9f\x98", b"\xf0\x8f\xbf\xbf", b"\xf4\x8f\xbf\xbf",
         b"\xf4\x90\x80\x80", b"\xf5\x80\x80\x80", b"\xff", b"\xfe", b"\xef\xbf\xbd", b"\xc3\xc3\xb1", b"\xb1\xc3",
         b"\xc3\xb1\xb1", b"\xf1", b"\xf4"]


def hx(b):
    return b.hex() if b else "-"


def enc_cases(content, mixes=((0, 0), (0, 1), (1, 0), (1, 1)), syms=("c39", "c93")):
    return ["%s %d %d %s" % (s, cs, full, hx(content)) for s in syms for (cs, full) in mixes]


def rand_bytes(rng, alphabet, n):
    return b"".join(alphabet[rng.randrange(len(alphabet))] for _ in range(n))


def cases(tier, rng):
    lines = []
    one = lambda bs: [bytes([b]) for b in bs]
    basic39 = one(BASIC43) + [b"*"]
    basic93 = one(BASIC43) + [b"*"] + FNC
    basic_mix = ((0, 0), (1, 0))
    # basic mode: exhaustive lengths 0..2 over the symbology's alphabet (+ '*')
    for n in range(3):
        for t in itertools.product(basic39, repeat=n):
            lines += enc_cases(b"".join(t), basic_mix, ("c39",))
        for t in itertools.product(basic93, repeat=n):
            lines += enc_cases(b"".join(t), basic_mix, ("c93",))
    full_mix = ((0, 1), (1, 1))
    if tier == "quick":
        reps = one(ASCII_REPS)
        for n in range(3):
            for t in itertools.product(reps, repeat=n):
                lines += enc_cases(b"".join(t), full_mix)
        for b in range(128):
            lines += enc_cases(bytes([b]))
        nrand, nlong, nu8 = 600, 12, 1500
    else:
        allascii = one(range(128))
        for n in range(3):
            for t in itertools.product(allascii, repeat=n):
                lines += enc_cases(b"".join(t))
        nrand, nlong, nu8 = 100000 // 8, 200, 40000
    # non-ASCII / ill-formed UTF-8, alone and embedded, every option mix
    for w in WEIRD:
        for pre, post in ((b"", b""), (b"A", b""), (b"", b"B"), (b"A", b"*"), (b"\xc3", b""), (b"", b"\xb1")):
            lines += enc_cases(pre + w + post)
    for b in range(128, 256):
        lines += enc_cases(bytes([b]))
        lines += enc_cases(bytes([0xc3, b]), basic_mix)
    # '*' inside
    for s in (b"*", b"A*", b"*A", b"A*B", b"**", b"1*2*3"):
        lines += enc_cases(s)
    # lengths around the Code 93 weight wraps (K: 15, C: 20) with one repeated character, so that a
    # broken weight rule shows on a small input
    for n in (13, 14, 15, 16, 17, 19, 20, 21, 22, 30, 31, 40, 41):
        for ch in (b"1", b"A", b"%"):
            lines += enc_cases(ch * n, basic_mix)
        lines += enc_cases(b"\xc3\xb1" * n, basic_mix, ("c93",))
        lines += enc_cases(b"a" * ((n + 1) // 2), full_mix)
    # random: basic alphabet, full ASCII, arbitrary bytes
    allb = one(range(256))
    for _ in range(nrand):
        n = rng.choice([1, 2, 3, 5, 8, 13, 19, 20, 21, 22, 30, 31, 40, 41, 45, 60, rng.randrange(1, 80)])
        lines += enc_cases(rand_bytes(rng, one(BASIC43), n), basic_mix, ("c39",))
        lines += enc_cases(rand_bytes(rng, one(BASIC43) + FNC, n), basic_mix, ("c93",))
        lines += enc_cases(rand_bytes(rng, one(range(128)), n), full_mix)
        if rng.random() < 0.15:
            lines += enc_cases(rand_bytes(rng, one(BASIC43) + FNC + [b"\xc3", b"\xb1", b"*", b"a"], n))
        if rng.random() < 0.1:
            lines += enc_cases(rand_bytes(rng, allb, rng.randrange(1, 8)))
    for _ in range(nlong):
        n = rng.randrange(300, 2500)
        lines += enc_cases(rand_bytes(rng, one(BASIC43), n), basic_mix, ("c39",))
        lines += enc_cases(rand_bytes(rng, one(BASIC43) + FNC, n), basic_mix, ("c93",))
        lines += enc_cases(rand_bytes(rng, one(range(128)), n // 2), full_mix)
    # full-ASCII spellings straddling power-of-two offsets of the spelled-out text (chunked / buffered builders):
    # a run of single-symbol characters, then a shifted character starting 5..0 symbols before the boundary
    for P in ((256, 4096) if tier == "quick" else (64, 128, 256, 512, 1024, 2048, 4096, 8192, 16384)):
        for d in range(-5, 2):
            for lead, tail in ((b"A", b"aB"), (b"A", b"\x01Z"), (b"a", b"Bc")):
                unit = 1 if lead == b"A" else 2
                n = (P + d) // unit
                if n > 0:
                    lines += enc_cases(lead * n + tail, ((rng.randrange(2), 1),))
    # very long basic texts (position counters / sums in narrow integers), with check characters
    for n in ((255, 256, 257, 300, 1600, 5200) if tier == "quick" else (255, 256, 257, 300, 511, 512, 1561, 1600, 5200, 9000, 20000)):
        for ch in (b"%", b"Z", b"1"):
            lines += enc_cases(ch * n, ((1, 0),))
        lines += enc_cases(rand_bytes(rng, one(BASIC43), n), ((1, 0),))
    import gaps
    lines += gaps.family(rng, tier, ("c39", "c93"))
    # long runs of the zero-valued symbol '0' between other characters (the check weights must keep their phase)
    for t in gaps.zero_value_runs("0", "Z") + gaps.zero_value_runs("0", "%", (15, 20, 25, 47)):
        lines += enc_cases(t.encode(), ((1, 0),))
    # the helper functions on their own (also on text the encoders reject)
    for s in [b"", b"A", b"*", b"a", b"\xc3\xb1", b"AB\xc3\xb4", b"\xff", b"0123456789", b"%%%%%%%%%%%%%%%%%%%%%%%%"] + WEIRD[:6]:
        lines += ["c39ck " + hx(s), "c39prep " + hx(s), "c93ck 20 " + hx(s), "c93ck 15 " + hx(s), "c93prep " + hx(s)]
    # the UTF-8 model against Go's decoder / encoder
    lead = [0x00, 0x2a, 0x41, 0x7f, 0x80, 0x8f, 0x90, 0x9f, 0xa0, 0xbf, 0xc0, 0xc1, 0xc2, 0xc3, 0xdf, 0xe0, 0xe1, 0xec,
            0xed, 0xee, 0xef, 0xf0, 0xf1, 0xf3, 0xf4, 0xf5, 0xf7, 0xf8, 0xff, 0xb1, 0xb4, 0xbd]
    for b in range(256):
        lines += ["u8d %02x" % b, "u8r %02x41" % b]
    for t in itertools.product(lead, repeat=2):
        lines.append("u8d " + bytes(t).hex())
    for _ in range(nu8):
        n = rng.randrange(1, 9)
        s = bytes(rng.choice(lead) if rng.random() < 0.8 else rng.randrange(256) for _ in range(n))
        lines.append(rng.choice(["u8d ", "u8r "]) + s.hex())
    for r in [0, 42, 127, 128, 241, 244, 2047, 2048, 55295, 55296, 57343, 57344, 65533, 65535, 65536, 1114111, 1114112,
              -1, 2147483647] + [rng.randrange(0, 1200000) for _ in range(200)]:
        lines.append("u8e %d" % r)
    return lines


def nontrivial(line, impl_out):
    # an accepted text for which a symbol was produced
    return line[:3] in ("c39", "c93") and line[3] == " " and (impl_out or "").startswith("OK ")


def oracle_lines(lines, impl_outs):
    res = []
    for l, o in zip(lines, impl_outs):
        t = l.split(" ")
        if t[0] in ("c39", "c93") and o and o.startswith("OK "):
            res.append("%sdec %s %s %s" % (t[0], t[1], t[2], o.split(" ")[-1]))
        else:
            res.append(None)
    return res


def oracle_verdict(line, impl_out, oracle_out):
    t = line.split(" ")
    f = impl_out.split(" ")
    # OK <kind> <dims> 0,0-<w>x<h> <content> <checksum|-> <row>
    kind = "Code_39" if t[0] == "c39" else "Code_93"
    if f[1] != kind or f[2] != "1" or f[3] != "0,0-%dx1" % len(f[6]) or "/" in f[6] or "?" in f[6]:
        return "kind/dimensions/bounds are not those of a one-row %s symbol: %s" % (kind, " ".join(f[1:4]))
    o = oracle_out.split(" ")
    if o[0] != "SOME" or len(o) != 4:
        return "reference decoder rejects the symbol (%s), the text was %s" % (oracle_out, t[3])
    if o[1] != t[3]:
        return "reference decoder reads %s from the symbol, the text was %s" % (o[1], t[3])
    if o[2] != f[4]:
        return "Content() is %s, the data characters of the symbol print as %s" % (f[4], o[2])
    if o[3] != f[5]:
        return "CheckSum() is %s, the data characters of the symbol give %s" % (f[5], o[3])
    return None


def distribution(lines, impl_outs):
    d = {}

    def inc(k):
        d[k] = d.get(k, 0) + 1
    for l, o in zip(lines, impl_outs):
        t = l.split(" ")
        if t[0] not in ("c39", "c93"):
            inc("helper:" + t[0])
            continue
        n = 0 if t[3] == "-" else len(t[3]) // 2
        size = "len0" if n == 0 else "len1" if n == 1 else "len2" if n == 2 else "len3-80" if n <= 80 else "len>80"
        res = (o or "CRASH").split(" ")[0]
        inc("%s cs=%s full=%s %s" % (t[0], t[1], t[2], res))
        inc("%s %s" % (t[0], size))
    return d


def coq_case(line, impl_out):
    t = line.split(" ")
    if t[0] not in ("c39", "c93"):
        return "(true, false, false, [42], None)"   # helper-function case: not an encoder call; a fixed true case
    bs = [] if t[3] == "-" else [str(int(t[3][i:i + 2], 16)) for i in range(0, len(t[3]), 2)]
    if impl_out.startswith("OK "):
        f = impl_out.split(" ")
        content = [] if f[4] == "-" else [str(int(f[4][i:i + 2], 16)) for i in range(0, len(f[4]), 2)]
        cs = "None" if f[5] == "-" else "Some (%s)" % f[5]
        exp = "Some ([%s], [%s], %s)" % ("; ".join("true" if c == "1" else "false" for c in f[6]),
                                         "; ".join(content), cs)
    else:
        exp = "None"
    return "(%s, %s, %s, [%s], %s)" % ("true" if t[0] == "c39" else "false", "true" if t[1] == "1" else "false",
                                       "true" if t[2] == "1" else "false", "; ".join(bs), exp)


KERNEL_HEADER = """From Verif Require Import Prelude Barcode Utf8M Code39M Code93M Code39Spec Code93Spec.
Definition oz_eqb (a b : option Z) : bool :=
  match a, b with Some x, Some y => x =? y | None, None => true | _, _ => false end.
Definition case_ok (c : bool * bool * bool * list Z * option (list bool * list Z * option Z)) : bool :=
  let '(is39, cs, full, s, expect) := c in
  match (if is39 then c39_encode s cs full else c93_encode s cs full), expect with
  | Ok bc, Some (bits, content, ck) =>
    match bc_rows bc with
    | [row] => bools_eqb row bits && zlist_eqb (bc_content bc) content && oz_eqb (bc_checksum bc) ck
    | _ => false
    end
  | Err, None => true
  | _, _ => false
  end.
"""

RULE = ("basic mode: exhaustive over all texts of length 0..2 over the 43 characters + '*' (Code 39) and + FNC1..4 "
        "(Code 93), with and without check characters; full ASCII: quick = all texts of length 0..2 over 33 class "
        "representatives of the full-ASCII table + every single ASCII code, thorough = all texts of length 0..2 over "
        "all 128 ASCII codes x 4 option mixes; plus non-ASCII / ill-formed UTF-8 (alone, embedded, every byte 80..FF), "
        "'*' inside, random texts (lengths around the weight wraps 15/20 and up to 2500) over the basic alphabet, "
        "ASCII and arbitrary bytes; helper functions (getChecksum, prepare) and the UTF-8 model against Go's "
        "decoder/encoder.  Oracle: the extracted reference decoder applied to the implementation's pixel row must "
        "return the input text; Content() must be the printed data characters and CheckSum() the sum mod 43 read "
        "from the row; kind/bounds those of a one-row symbol.  non-trivial = an accepted text (symbol produced); distinct = distinct case line")


def extra(rep, impl_exe, model_exe, rng, tier):
    # returned barcodes must remain what they were when other symbols are encoded afterwards
    import held
    return held.held_phase(rep, impl_exe, rng, ['c39 0 0', 'c39 1 1', 'c93 0 0', 'c93 1 0', 'c93 1 1'], n=10 if tier == "quick" else 80)


def public_line(line):
    t = line.split(" ")
    return "encfull " + line if t[0] in ("c39", "c93") and len(t) == 4 else None
