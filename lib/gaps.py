"""Inputs that neither random sampling nor capacity-boundary sweeps produce (third round of seeded changes):
lengths that wrap around 8/16-bit counters onto valid lengths, runes whose low byte is a valid character,
sign characters inside numeric groups, very long inputs for narrow accumulators, tokens straddling power-of-two
offsets, contents whose Reed-Solomon check words start with zeros.  Returned as encoder-argument strings for
go/impl/all.go's encodeAny ("<enc> <options...> <content hex>")."""
import jobs as J

EAN_LENGTHS = (7, 8, 12, 13)


def ean_check(d):
    s = sum(int(c) * (3 if (len(d) - 1 - i) % 2 == 0 else 1) for i, c in enumerate(d))
    return str((10 - s % 10) % 10)


def digits(rng, n):
    return "".join(rng.choice("0123456789") for _ in range(n))


def low_byte_runes(ch):
    """runes whose code point ends in the byte of the ASCII character ch (a rune -> byte truncation maps them to ch)"""
    b = ord(ch)
    return [chr(0x100 + b), chr(0x200 + b), chr(0x3000 + b), chr(0xFF00 + b), chr(0x10000 + b)]


def ean_wrap(rng, tier):
    out = []
    for add in ((256, 512, 65536) if tier == "quick" else (256, 512, 768, 1024, 65536, 131072)):
        for L in EAN_LENGTHS:
            d = digits(rng, L + add)
            out.append(d)
            out.append(d[:-1] + ean_check(d[:-1]))           # with the check digit a wrapped length would ask for
            out.append("0" * (L + add))
    return out


def ean_low_byte(rng):
    out = []
    for L in EAN_LENGTHS:
        for pos in (0, L // 2, L - 2, L - 1):
            for r in low_byte_runes(rng.choice("0123456789")):
                nb = len(r.encode("utf-8"))
                # (a) byte length = L, (b) rune count = L
                for total_digits in (L - nb, L - 1):
                    if total_digits < 0:
                        continue
                    d = digits(rng, total_digits)
                    p = min(pos, total_digits)
                    out.append(d[:p] + r + d[p:])
    return out


def acc_cases(rng, tier):
    """for the acceptance / representability checks (C10) and the per-symbology checks"""
    L = []
    add = lambda enc, content: L.append("%s %s" % (enc, J.hx(content)))
    for s in ean_wrap(rng, tier) + ean_low_byte(rng):
        add("ean", s)
    # Code 128: 1..80 symbols
    for n in (1, 40, 80):
        for w in (256, 65536):
            add("c128", "a" * (n + w))
            add("c128n", "7" * (n + w))
    # DataMatrix: more codewords than any symbol holds, incl. counts that wrap onto a valid count
    for n in (1559, 5000, 65535, 65536, 65539, 65536 + 1558, 65536 + 1559, 131072):
        add("dm", "a" * n)
    add("dm", "7" * (2 * 65536 + 6))
    # QR: beyond the largest symbol, incl. wrapped character counts
    for mode, ch, cap in ((1, "7", 7089), (2, "A", 4296), (3, "a", 2953)):
        for n in (cap + 256, 65536, 65536 + 5, 65536 + cap):
            add("qr 0 %d" % mode, ch * n)
            add("qr 0 0", ch * n)
    # PDF417 (<= 900 codewords incl. check words), Aztec (<= 32 layers)
    for n in (2 * 65536 + 40,):
        add("pdf 0", "A" * n)
    for n in (65536, 65536 + 10):
        add("az 23 0", "A" * n)
        add("az 23 0", b"\xe9" * n)
    # runes whose low byte is a valid character of the symbology
    for enc, good in (("codabar", "A1B"), ("tof 0", "1234"), ("tof 1", "1234"), ("c39 0 0", "AB12"), ("c39 1 1", "ab12"),
                      ("c93 1 0", "AB12"), ("c93 0 1", "ab12"), ("c128", "ab12"), ("qr 0 1", "123456"), ("qr 1 2", "AB12"),
                      ("qr 2 0", "123456"), ("pdf 1", "1234567890123456"), ("dm", "12ab")):
        for i in (0, len(good) // 2, len(good) - 1):
            for r in low_byte_runes(good[i]):
                add(enc, good[:i] + r + good[i + 1:])
    # sign characters inside / at the start of the 3-digit groups of QR numeric mode
    for sign in "+-":
        for pos in range(0, 7):
            for z in (0, 1, 2, 3):
                base = digits(rng, 9)
                t = base[:pos] + sign + "0" * z + base[pos:]
                for mode in (0, 1):
                    add("qr %d %d" % (rng.randrange(4), mode), t)
                add("qr 0 1", base[:pos] + sign + "0" * z)
    return L
