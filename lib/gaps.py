"""Inputs that neither random sampling nor capacity-boundary sweeps produce (third round of seeded changes):
lengths that wrap around 8/16-bit counters onto valid lengths, runes whose low byte is a valid character,
sign characters inside numeric groups, very long inputs for narrow accumulators, tokens straddling power-of-two
offsets, contents whose Reed-Solomon check words start with zeros.  Returned as encoder-argument strings for
go/impl/all.go's encodeAny ("<enc> <options...> <content hex>")."""
import jobs as J

EAN_LENGTHS = (7, 8, 12, 13)


def ean_check(d):
    s = sum(int(c) * (3 if (len(d) - 1 - i) % 2 == 0 else 1) for i, c in enumerate(d))
    return str((10 - s % 10) % 10)


def digits(rng, n):
    return "".join(rng.choice("0123456789") for _ in range(n))


def low_byte_runes(ch):
    """runes whose code point ends in the byte of the ASCII character ch (a rune -> byte truncation maps them to ch)"""
    b = ord(ch)
    return [chr(0x100 + b), chr(0x200 + b), chr(0x3000 + b), chr(0xFF00 + b), chr(0x10000 + b)]


def ean_wrap(rng, tier):
    out = []
    for add in ((256, 512, 65536) if tier == "quick" else (256, 512, 768, 1024, 65536, 131072)):
        for L in EAN_LENGTHS:
            d = digits(rng, L + add)
            out.append(d)
            out.append(d[:-1] + ean_check(d[:-1]))           # with the check digit a wrapped length would ask for
            out.append("0" * (L + add))
    return out


def ean_low_byte(rng):
    out = []
    for L in EAN_LENGTHS:
        for pos in (0, L // 2, L - 2, L - 1):
            for r in low_byte_runes(rng.choice("0123456789")):
                nb = len(r.encode("utf-8"))
                # (a) byte length = L, (b) rune count = L
                for total_digits in (L - nb, L - 1):
                    if total_digits < 0:
                        continue
                    d = digits(rng, total_digits)
                    p = min(pos, total_digits)
                    out.append(d[:p] + r + d[p:])
    return out


def acc_cases(rng, tier):
    """for the acceptance / representability checks (C10) and the per-symbology checks"""
    L = []
    add = lambda enc, content: L.append("%s %s" % (enc, J.hx(content)))
    for s in ean_wrap(rng, tier) + ean_low_byte(rng):
        add("ean", s)
    # Code 128: 1..80 symbols
    for n in (1, 40, 80):
        for w in (256, 65536):
            add("c128", "a" * (n + w))
            add("c128n", "7" * (n + w))
    # DataMatrix: more codewords than any symbol holds, incl. counts that wrap onto a valid count
    for n in (1559, 5000, 65535, 65536, 65539, 65536 + 1558, 65536 + 1559, 131072):
        add("dm", "a" * n)
    add("dm", "7" * (2 * 65536 + 6))
    # QR: beyond the largest symbol, incl. wrapped character counts
    for mode, ch, cap in ((1, "7", 7089), (2, "A", 4296), (3, "a", 2953)):
        for n in (cap + 256, 65536, 65536 + 5, 65536 + cap):
            add("qr 0 %d" % mode, ch * n)
            add("qr 0 0", ch * n)
    # PDF417 (<= 900 codewords incl. check words), Aztec (<= 32 layers)
    for n in (2 * 65536 + 40,):
        add("pdf 0", "A" * n)
    for n in (65536, 65536 + 10):
        add("az 23 0", "A" * n)
        add("az 23 0", b"\xe9" * n)
    # runes whose low byte is a valid character of the symbology
    for enc, good in (("codabar", "A1B"), ("tof 0", "1234"), ("tof 1", "1234"), ("c39 0 0", "AB12"), ("c39 1 1", "ab12"),
                      ("c93 1 0", "AB12"), ("c93 0 1", "ab12"), ("c128", "ab12"), ("qr 0 1", "123456"), ("qr 1 2", "AB12"),
                      ("qr 2 0", "123456"), ("pdf 1", "1234567890123456"), ("dm", "12ab")):
        for i in (0, len(good) // 2, len(good) - 1):
            for r in low_byte_runes(good[i]):
                add(enc, good[:i] + r + good[i + 1:])
    for t in pdf_numeric_runs(rng, tier):
        add("pdf %d" % rng.randrange(0, 4), t)
    for a in aztec_stuffing(rng, tier):
        L.append("az " + a)
    for t in c128_many_switches():
        add("c128", t)
        add("c128n", t)
    # sign characters inside / at the start of the 3-digit groups of QR numeric mode
    for sign in "+-":
        for pos in range(0, 7):
            for z in (0, 1, 2, 3):
                base = digits(rng, 9)
                t = base[:pos] + sign + "0" * z + base[pos:]
                for mode in (0, 1):
                    add("qr %d %d" % (rng.randrange(4), mode), t)
                add("qr 0 1", base[:pos] + sign + "0" * z)
    return L


def aztec_stuffing(rng, tier):
    """"<pct> <layers> <payload hex>": payloads that grow under bit stuffing (runs of 0xFF / 0x00), at low and
    normal percentages, against explicit layer requests near their capacity (compact: the 64-data-word limit must
    be judged on the STUFFED length; every size: data + requested check bits must fit after stuffing) and on the
    automatic path up to the largest symbol (where the search may run out of candidates)."""
    quick = tier == "quick"
    out = []
    for req in ([-4, -3, -2, -1, 1, 2, 4] if quick else list(range(-4, 0)) + list(range(1, 12))):
        for pct in ((0, 5, 14, 33) if quick else (0, 1, 2, 5, 8, 10, 14, 15, 23, 33)):
            for b in (0x00, 0xFF):
                for n in ((33, 50, 56, 58, 61, 64) if quick else list(range(30, 70, 2)) + [55, 57, 59, 61]):
                    out.append("%d %d %s" % (pct, req, (bytes([b]) * n).hex()))
            for n in ((88, 95, 102) if quick else range(84, 106)):
                out.append("%d %d %s" % (pct, req, ("A !" * 40)[:n].encode().hex()))
    # exactly 62..66 data words of plain letters at low percentages, automatic and explicit compact-4
    for pct in ((1, 10, 16) if quick else (0, 1, 5, 10, 14, 16, 17, 20)):
        for n in (range(99, 106) if quick else range(94, 110)):
            t = "".join(rng.choice("ABCDEFGHIJKLMNOPQRSTUVWXYZ") for _ in range(n)).encode().hex()
            out.append("%d 0 %s" % (pct, t))
            out.append("%d -4 %s" % (pct, t))
    # automatic path: stuffing-heavy payloads of every magnitude up to what only the largest symbol holds
    for pct in ((5, 23, 33) if quick else (0, 5, 10, 23, 33, 50)):
        for n in ((20, 58, 60, 300, 1500, 1800, 2000, 2200) if quick else (10, 20, 40, 58, 60, 85, 150, 300, 600, 1000, 1500, 1700, 1800, 1900, 2000, 2100, 2200, 2400)):
            for b in (0x00, 0xFF):
                out.append("%d 0 %s" % (pct, (bytes([b]) * n).hex()))
    return out


def pdf_numeric_runs(rng, tier):
    """digit runs of every length (numeric compaction groups 44 digits; the last group has 1..44) with large values"""
    out = []
    for n in (range(1, 100) if tier == "quick" else range(1, 200)):
        out.append("9" * n)
        out.append(rng.choice("89") + digits(rng, n - 1))
    for n in (13, 19, 44, 63):
        out.append("A" + "9" * n + "B")
    return out


def dm_misaligned_digits(caps):
    """one to three letters, then digits up to exactly the capacity of each size (digit pairs are one codeword): the
    pairing must not be lost at any internal chunk boundary"""
    out = []
    for c in caps:
        for lead in (1, 2, 3):
            if c - lead >= 1:
                out.append("A" * lead + "7" * (2 * (c - lead)))
                out.append("A" * lead + "7" * (2 * (c - lead) + 1))     # one digit more: next size
    return out


def c128_many_switches():
    """<= 80 runes that need a code-set change at almost every rune (more than 128 symbol characters)"""
    out = []
    for n in (33, 40):
        out.append("\\x01a" * n)
        out.append("a\\x01" * n)
    out.append(("\\x01a" * 39 + "\\x02")[:80])
    out.append("12" + "\\x01a" * 38 + "12")
    return [t.encode().decode("unicode_escape") for t in out]
