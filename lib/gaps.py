"""Inputs that neither random sampling nor capacity-boundary sweeps produce (third round of seeded changes):
lengths that wrap around 8/16-bit counters onto valid lengths, runes whose low byte is a valid character,
sign characters inside numeric groups, very long inputs for narrow accumulators, tokens straddling power-of-two
offsets, contents whose Reed-Solomon check words start with zeros.  Returned as encoder-argument strings for
go/impl/all.go's encodeAny ("<enc> <options...> <content hex>")."""
import jobs as J

EAN_LENGTHS = (7, 8, 12, 13)


def ean_check(d):
    s = sum(int(c) * (3 if (len(d) - 1 - i) % 2 == 0 else 1) for i, c in enumerate(d))
    return str((10 - s % 10) % 10)


def digits(rng, n):
    return "".join(rng.choice("0123456789") for _ in range(n))


def low_byte_runes(ch):
    """runes whose code point ends in the byte of the ASCII character ch (a rune -> byte truncation maps them to ch)"""
    b = ord(ch)
    return [chr(0x100 + b), chr(0x200 + b), chr(0x3000 + b), chr(0xFF00 + b), chr(0x10000 + b)]


def ean_wrap(rng, tier):
    out = []
    for add in ((256, 512, 65536) if tier == "quick" else (256, 512, 768, 1024, 65536, 131072)):
        for L in EAN_LENGTHS:
            d = digits(rng, L + add)
            out.append(d)
            out.append(d[:-1] + ean_check(d[:-1]))           # with the check digit a wrapped length would ask for
            out.append("0" * (L + add))
    return out


def ean_low_byte(rng):
    out = []
    for L in EAN_LENGTHS:
        for pos in (0, L // 2, L - 2, L - 1):
            for r in low_byte_runes(rng.choice("0123456789")):
                nb = len(r.encode("utf-8"))
                # (a) byte length = L, (b) rune count = L
                for total_digits in (L - nb, L - 1):
                    if total_digits < 0:
                        continue
                    d = digits(rng, total_digits)
                    p = min(pos, total_digits)
                    out.append(d[:p] + r + d[p:])
    return out


def acc_cases(rng, tier):
    """for the acceptance / representability checks (C10) and the per-symbology checks"""
    L = []
    add = lambda enc, content: L.append("%s %s" % (enc, J.hx(content)))
    for s in ean_wrap(rng, tier) + ean_low_byte(rng):
        add("ean", s)
    # Code 128: 1..80 symbols
    for n in (1, 40, 80):
        for w in (256, 65536):
            add("c128", "a" * (n + w))
            add("c128n", "7" * (n + w))
    # DataMatrix: more codewords than any symbol holds, incl. counts that wrap onto a valid count
    for n in (1559, 5000, 65535, 65536, 65539, 65536 + 1558, 65536 + 1559, 131072):
        add("dm", "a" * n)
    add("dm", "7" * (2 * 65536 + 6))
    # QR: beyond the largest symbol, incl. wrapped character counts
    for mode, ch, cap in ((1, "7", 7089), (2, "A", 4296), (3, "a", 2953)):
        for n in (cap + 256, 65536, 65536 + 5, 65536 + cap):
            add("qr 0 %d" % mode, ch * n)
            add("qr 0 0", ch * n)
    # PDF417 (<= 900 codewords incl. check words), Aztec (<= 32 layers)
    for n in (2 * 65536 + 40,):
        add("pdf 0", "A" * n)
    for n in (65536, 65536 + 10):
        add("az 23 0", "A" * n)
        add("az 23 0", b"\xe9" * n)
    # runes whose low byte is a valid character of the symbology
    for enc, good in (("codabar", "A1B"), ("tof 0", "1234"), ("tof 1", "1234"), ("c39 0 0", "AB12"), ("c39 1 1", "ab12"),
                      ("c93 1 0", "AB12"), ("c93 0 1", "ab12"), ("c128", "ab12"), ("qr 0 1", "123456"), ("qr 1 2", "AB12"),
                      ("qr 2 0", "123456"), ("pdf 1", "1234567890123456"), ("dm", "12ab")):
        for i in (0, len(good) // 2, len(good) - 1):
            for r in low_byte_runes(good[i]):
                add(enc, good[:i] + r + good[i + 1:])
    for t in pdf_numeric_runs(rng, tier):
        add("pdf %d" % rng.randrange(0, 4), t)
    for a in aztec_stuffing(rng, tier):
        L.append("az " + a)
    for t in c128_many_switches():
        add("c128", t)
        add("c128n", t)
    # normalisation probes, UTF-8 oddities, magic sequences for every encoder (round 4)
    valid = {"ean": b"1234567", "codabar": b"A1234B", "tof 0": b"123456", "tof 1": b"123456", "c39 1 0": b"CODE39", "c39 0 1": b"Code39",
             "c93 1 0": b"CODE93", "c93 1 1": b"Code93", "c128": b"Code128", "c128n": b"12345678", "qr 0 0": b"hello", "qr 1 0": b"12345",
             "qr 2 0": b"HELLO 123", "qr 3 3": b"hello", "qr 0 1": b"123456", "qr 1 2": b"AB12", "dm": b"Hello12", "az 23 0": b"Hello12",
             "pdf 1": b"Hello12", "pdf 0": b"1234567890123456"}
    odd = utf8_oddities()
    magic = magic_sequences()
    for enc, v in valid.items():
        for t in normalisation_probes(v):
            add(enc, t)
        for o in odd:
            add(enc, o + v)
            add(enc, v + o)
        if enc.split()[0] in ("qr", "dm", "az", "pdf", "c128", "c93", "c39"):
            for m in magic:
                add(enc, m)
                add(enc, v + m)
    for t in big_value_digit_runs(rng):
        add("tof 0", t)
        add("tof 1", t if len(t) % 2 == 0 else "0" + t)
        add("pdf 0", t)
        add("qr 0 1", t)
        add("dm", t)
    for t in ean_sums(rng)[:: (4 if tier == "quick" else 1)]:
        add("ean", t)
    # sign characters inside / at the start of the 3-digit groups of QR numeric mode
    for sign in "+-":
        for pos in range(0, 7):
            for z in (0, 1, 2, 3):
                base = digits(rng, 9)
                t = base[:pos] + sign + "0" * z + base[pos:]
                for mode in (0, 1):
                    add("qr %d %d" % (rng.randrange(4), mode), t)
                add("qr 0 1", base[:pos] + sign + "0" * z)
    return L


def aztec_stuffing(rng, tier):
    """"<pct> <layers> <payload hex>": payloads that grow under bit stuffing (runs of 0xFF / 0x00), at low and
    normal percentages, against explicit layer requests near their capacity (compact: the 64-data-word limit must
    be judged on the STUFFED length; every size: data + requested check bits must fit after stuffing) and on the
    automatic path up to the largest symbol (where the search may run out of candidates)."""
    quick = tier == "quick"
    out = []
    for req in ([-4, -3, -2, -1, 1, 2, 4] if quick else list(range(-4, 0)) + list(range(1, 12))):
        for pct in ((0, 5, 14, 33) if quick else (0, 1, 2, 5, 8, 10, 14, 15, 23, 33)):
            for b in (0x00, 0xFF):
                for n in ((33, 50, 56, 58, 61, 64) if quick else list(range(30, 70, 2)) + [55, 57, 59, 61]):
                    out.append("%d %d %s" % (pct, req, (bytes([b]) * n).hex()))
            for n in ((88, 95, 102) if quick else range(84, 106)):
                out.append("%d %d %s" % (pct, req, ("A !" * 40)[:n].encode().hex()))
    # exactly 62..66 data words of plain letters at low percentages, automatic and explicit compact-4
    for pct in ((1, 10, 16) if quick else (0, 1, 5, 10, 14, 16, 17, 20)):
        for n in (range(99, 106) if quick else range(94, 110)):
            t = "".join(rng.choice("ABCDEFGHIJKLMNOPQRSTUVWXYZ") for _ in range(n)).encode().hex()
            out.append("%d 0 %s" % (pct, t))
            out.append("%d -4 %s" % (pct, t))
    # automatic path: stuffing-heavy payloads of every magnitude up to what only the largest symbol holds
    for pct in ((5, 23, 33) if quick else (0, 5, 10, 23, 33, 50)):
        for n in ((20, 58, 60, 300, 1500, 1800, 2000, 2200) if quick else (10, 20, 40, 58, 60, 85, 150, 300, 600, 1000, 1500, 1700, 1800, 1900, 2000, 2100, 2200, 2400)):
            for b in (0x00, 0xFF):
                out.append("%d 0 %s" % (pct, (bytes([b]) * n).hex()))
    # letter payloads around the lengths at which the automatic search moves to the next WORD SIZE (full-range layers
    # 2->3: 6->8 bits, 8->9: 8->10, 22->23: 10->12): the bit stream is stuffed once per word size, on the same input
    def total(L):
        return (112 + 16 * L) * L
    for (L, w) in (((22, 10),) if quick else ((2, 6), (8, 8), (22, 10))):
        usable = total(L) - total(L) % w
        for pct in ((23, 50) if quick else (0, 10, 23, 33, 50, 90)):
            n0 = int((usable - 11) * 100 / (100 + pct)) // 5
            for n in range(n0 - (6 if quick else 14), n0 + (7 if quick else 15)):
                if n > 0:
                    out.append("%d 0 %s" % (pct, "".join(rng.choice("ABCDEFGHIJKLMNOPQRSTUVWXYZ") for _ in range(n)).encode().hex()))
    # the densest encodations at the size only the largest symbols hold (a size pre-check must not assume a
    # minimum cost per byte): the two-byte pairs cost 5 bits per 2 bytes in PUNCT, digits 4 bits each
    for pct in ((0, 33) if quick else (0, 10, 23, 33)):
        for pair in (b"\r\n", b". ", b", ", b": "):
            for n in ((2600,) if quick else (1500, 2400, 2600, 3000, 3900)):
                out.append("%d 0 %s" % (pct, (pair * n).hex()))
        for n in ((3000,) if quick else (2500, 3000, 3600, 3800)):
            out.append("%d 0 %s" % (pct, (b"7" * n).hex()))
    return out


def pdf_numeric_runs(rng, tier):
    """digit runs of every length (numeric compaction groups 44 digits; the last group has 1..44) with large values"""
    out = []
    for n in (range(1, 100) if tier == "quick" else range(1, 200)):
        out.append("9" * n)
        out.append(rng.choice("89") + digits(rng, n - 1))
    for n in (13, 19, 44, 63):
        out.append("A" + "9" * n + "B")
    return out


def dm_misaligned_digits(caps):
    """one to three letters, then digits up to exactly the capacity of each size (digit pairs are one codeword): the
    pairing must not be lost at any internal chunk boundary"""
    out = []
    for c in caps:
        for lead in (1, 2, 3):
            if c - lead >= 1:
                out.append("A" * lead + "7" * (2 * (c - lead)))
                out.append("A" * lead + "7" * (2 * (c - lead) + 1))     # one digit more: next size
    return out


def c128_many_switches():
    """<= 80 runes that need a code-set change at almost every rune (more than 128 symbol characters)"""
    out = []
    for n in (33, 40):
        out.append("\\x01a" * n)
        out.append("a\\x01" * n)
    out.append(("\\x01a" * 39 + "\\x02")[:80])
    out.append("12" + "\\x01a" * 38 + "12")
    return [t.encode().decode("unicode_escape") for t in out]


# ---- round 4: normalisation, magic sequences, value-dependent arithmetic -------------------------------------
BOM = b"\xef\xbb\xbf"


def utf8_oddities():
    """byte strings a 'helpful' normalisation step might rewrite"""
    return [BOM, b"\xff\xfe", b"\xfe\xff", b"\xef\xbb", b"\xe2\x80\x8b", b"\xc2\xa0", b"\xe2\x80\x8f",
            b"\xed\xa0\xbd\xed\xb8\x80",            # CESU-8 surrogate pair (U+1F600 as two 3-byte sequences)
            b"\xed\xa0\xbd", b"\xed\xb8\x80", b"\xed\xb8\x80\xed\xa0\xbd", b"\xed\xa0\xbdA\xed\xb8\x80",
            b"\xf0\x9f\x98\x80", b"\xc0\x80", b"\xe0\x80\x80", b"\xc0\xaf", b"\xf4\x8f\xbf\xbf", b"\xf4\x90\x80\x80",
            b"\xef\xbf\xbe", b"\xef\xbf\xbd", b"e\xcc\x81", b"\xc3\xa9", b"A\xcc\x8a", b"\xe2\x84\xab", b"\xef\xac\x81",
            b"\xf8\x88\x80\x80\x80", b"\xfc\x84\x80\x80\x80\x80"]


def magic_sequences():
    """sequences that barcode standards give a special meaning (macros, symbology identifiers, separators, escapes)"""
    RS, GS, EOT, FS, US = b"\x1e", b"\x1d", b"\x04", b"\x1c", b"\x1f"
    out = []
    for fmt in (b"05", b"06", b"07", b"12"):
        for body in (b"DATA", b"A" + GS + b"B", b"X" + RS, b"X" + EOT, b"X" + RS + EOT, b""):
            out.append(b"[)>" + RS + fmt + GS + body + RS + EOT)
            out.append(b"[)>" + RS + fmt + GS + body)
    out += [b"]C1", b"]d2", b"]Q3", b"]E0", b"]L2", b"\\000026", b"\\000003AB", b"\\\\", b"\\F", b"{FNC1}", b"^FNC1",
            b"(01)09501101530003", b"010950110153000317140704", GS + b"01", b"A" + GS, RS + EOT, FS + b"A" + US,
            b"~d029", b"~1", b"%O", b"$P", b"/A", b"+A", b"%U"]
    return out


def normalisation_probes(valid):
    """a valid content (bytes) surrounded / interleaved with bytes a normalisation step might drop or rewrite"""
    v = valid
    out = []
    for pre in (BOM, b" ", b"\t", b"\n", b"\x00", b"\xe2\x80\x8b", b"\xc2\xa0", b"+", b"-", b"0"):
        out.append(pre + v)
    for suf in (BOM, b" ", b"\t", b"\n", b"\r\n", b"\x00", b"\x00\x00", b"\xe2\x80\x8b", b"\x1a", b"\x04"):
        out.append(v + suf)
    # NUL (a natural "nothing pending" sentinel) and pairs of NULs at every position; the BOM inside
    for i in range(0, len(v) + 1):
        out.append(v[:i] + b"\x00" + v[i:])
        if i % 2 == 0:
            out.append(v[:i] + b"\x00\x00" + v[i:])
    out.append(v[: len(v) // 2] + BOM + v[len(v) // 2:])
    # case changes
    if v.lower() != v:
        out.append(v.lower())
    if v.upper() != v:
        out.append(v.upper())
    return out


def ean_sums(rng):
    """EAN bodies covering EVERY weighted check sum (12 digits: 0..216, 7 digits: 0..135): arithmetic tricks for
    the modulo are exact only on part of the range"""
    out = []
    for n, wts in ((12, [1, 3] * 6), (7, [3, 1, 3, 1, 3, 1, 3])):
        top = 9 * sum(wts)
        for target in range(0, top + 1):
            for attempt in range(30):
                d = [rng.randrange(10) for _ in range(n)]
                s = sum(a * b for a, b in zip(d, wts))
                # repair greedily towards the target
                for i in rng.sample(range(n), n):
                    diff = target - s
                    if diff == 0:
                        break
                    step = max(-d[i], min(9 - d[i], int(diff / wts[i])))
                    d[i] += step
                    s += step * wts[i]
                if s == target:
                    out.append("".join(map(str, d)))
                    break
    return out


def big_value_digit_runs(rng, lo=1, hi=45):
    """digit strings of every length with maximal / high leading digits (fast paths through fixed-width integers)"""
    out = []
    for n in range(lo, hi + 1):
        out.append("9" * n)
        out.append(rng.choice("89") + digits(rng, n - 1))
        out.append("1" + "0" * (n - 1))
    # a leading marker digit 1 is put in front of a k-digit group by several encodations ("1" + group): the group
    # values where 10^k + group crosses 2^31, 2^32, 2^53, 2^63, 2^64 (and the plain crossings below)
    for P in (1 << 31, 1 << 32, 1 << 53, 1 << 63, 1 << 64):
        k = len(str(P)) - 1
        for dlt in (-2, -1, 0, 1, 2, 10 ** (k - 2), 5 * 10 ** (k - 2)):
            v = P - 10 ** k + dlt
            if 0 <= v < 10 ** k:
                out.append(str(v).rjust(k, "0"))
    out += ["9223372036854775807", "9223372036854775808", "18446744073709551615", "18446744073709551616", "4294967295", "4294967296",
            "2147483647", "2147483648", "65535", "65536", "99999999999999999999"]
    return out


def zero_value_runs(zero, other, lengths=(10, 16, 20, 29, 30, 31, 40, 45, 60, 103)):
    """long runs of the symbol whose check value is 0, with non-zero neighbours (weights must keep their phase)"""
    out = []
    for L in lengths:
        out.append(other + zero * L + other)
        out.append(zero * L + other)
        out.append(other + zero * L)
        out.append(other * 3 + zero * L + other * 2 + zero * (L // 2) + other)
    return out


def family(rng, tier, prefixes, maxlen=20000):
    """the acc_cases of the given encoder families (encodeAny argument strings), without the very long ones"""
    return [g for g in acc_cases(rng, tier) if g.split(" ")[0] in prefixes and len(g) < maxlen]
