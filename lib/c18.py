"""C18 — BitList behaves as an append-only bit sequence."""
from common import *

PID = "C18"
PROPS = "props/C18.v"
GOTAB = []            # no tables
GOFILES = ["bitlist.go"]
EXTRACT = ["base"]
HANDLERS = ["h_c18.ml"]


def gen_history(rng, big=False):
    n = rng.choice([0, 0, 1, 7, 8, 31, 32, 33, 63, 64, 65, rng.randrange(0, 200)])
    if big:
        n = rng.choice([0, 4000, 4070, 4090, 4095, 4096, 4097, 8170, 8191, 8192, 16384, 32767, 32768, 32769, 65535, 65536, 65537])
    length = n
    ops = []
    nops = rng.randrange(1, 40)
    for _ in range(nops):
        k = rng.random()
        if k < 0.2:
            ops.append("a%d" % rng.randrange(2)); length += 1
        elif k < 0.35:
            ops.append("y%d" % rng.choice([0, 255, 128, 1, rng.randrange(256)])); length += 8
        elif k < 0.6:
            cnt = rng.choice([0, 1, 4, 8, 10, 11, 13, 16, 31, 32, 33, 63, 64, 65, 100, 255, rng.randrange(256)])
            v = rng.choice([0, -1, 1, (1 << 63) - 1, -(1 << 63), rng.randrange(-(1 << 63), 1 << 63),
                            rng.randrange(0, 1 << 16), rng.randrange(0, 1 << 32)])
            ops.append("s%d:%d" % (v, cnt)); length += cnt
        elif k < 0.7 and length > 0:
            ops.append("S%d:%d" % (rng.randrange(length), rng.randrange(2)))
        elif k < 0.8 and length > 0:
            ops.append("g%d" % rng.choice([0, length - 1, rng.randrange(length)]))
        elif k < 0.85:
            ops.append("l")
        elif k < 0.93:
            ops.append("b")
        else:
            ops.append("i")
    if big and rng.random() < 0.6:
        # ONE variadic AddBit call whose batch is larger than one growth step of the word array
        # (128 words below 128, doubling up to 1024, then 1024): as first operation or after the others
        first = rng.random() < 0.5
        nb = rng.choice([4097, 4200]) if (first and n == 0) else 8300
        if THOROUGH[0] and rng.random() < 0.3:
            nb = rng.choice([16500, 33000, 40000])
        batch = ["A%d:%d" % (nb, rng.randrange(1, 1000))]
        if first:
            ops = batch + ops
        else:
            ops = ops + batch
        length += nb
        ops += ["l", "g%d" % (length - 1), "b"]
    if big and rng.random() < 0.5:
        # many short variadic AddBit calls (3..31 bits) straddling word and growth boundaries
        for _ in range(rng.choice([8, 30, 60])):
            nb = rng.randrange(2, 32)
            ops.append("A%d:%d" % (nb, rng.randrange(1, 1000)))
            length += nb
        ops += ["l", "b"]
    if big:
        # cross the 128-word and 1024-word growth boundaries
        reps = rng.choice([3, 18, 40])
        for _ in range(reps):
            ops.append("s%d:%d" % (rng.randrange(-(1 << 63), 1 << 63), rng.choice([255, 200, 64, 33])))
        ops += ["l", "b", "i", "I", "J"]
    return "bl %d %s" % (n, " ".join(ops))


def exhaustive_small():
    """all histories of <= 3 ops over a small op alphabet, from lengths 0, 31, 32"""
    import itertools
    res = []
    for n in (0, 31, 32):
        alpha = ["a0", "a1", "A3:7", "y165", "s5:3", "s-1:33", "S0:1", "g0", "l", "b", "i"]
        for k in range(1, 4):
            for combo in itertools.product(alpha, repeat=k):
                length = n
                ok = True
                for op in combo:
                    if op[0] in "Sg" and length == 0:
                        ok = False
                        break
                    length += {"a": 1, "y": 8, "A": 3}.get(op[0], 0)
                    if op[0] == "s":
                        length += int(op.split(":")[1])
                if ok:
                    res.append("bl %d %s" % (n, " ".join(combo)))
    return res


THOROUGH = [False]


def cases(tier, rng):
    THOROUGH[0] = tier == "thorough"
    lines = exhaustive_small()
    nrand = 400 if tier == "quick" else 20000
    nbig = 14 if tier == "quick" else 400
    lines += [gen_history(rng) for _ in range(nrand)]
    lines += [gen_history(rng, big=True) for _ in range(nbig)]
    return lines


def nontrivial(line):
    # a history is non-trivial when it appends bits and reads a byte view or a bit
    t = line.split()
    return any(o[0] in "aAys" for o in t[2:]) and any(o[0] in "gbi" for o in t[2:])


def coq_case(line, impl_out):
    """Coq term: (n, ops, expected outs, expected final bits)"""
    t = line.split()
    def z(x):
        return "(%s)" % x
    ops = []
    for o in t[2:]:
        c, r = o[0], o[1:]
        if c == "a": ops.append("OpAddBit %s" % ("true" if r == "1" else "false"))
        elif c == "A":
            nb, sd = map(int, r.split(":"))
            for i in range(nb):
                x = (i * sd + (i >> 3) + sd) & 0xFFFF
                ops.append("OpAddBit %s" % ("true" if bin(x).count("1") % 2 == 1 else "false"))
        elif c == "y": ops.append("OpAddByte %s" % z(r))
        elif c == "s":
            v, k = r.split(":"); ops.append("OpAddBits %s %s" % (z(v), z(k)))
        elif c == "S":
            i, b = r.split(":"); ops.append("OpSetBit %s %s" % (z(i), "true" if b == "1" else "false"))
        elif c == "g": ops.append("OpGetBit %s" % z(r))
        elif c == "l": ops.append("OpLen")
        elif c == "b": ops.append("OpGetBytes")
        elif c in ("i", "I", "J"): ops.append("OpIterBytes")
    outs_s, bits = impl_out.split(" | ") if " | " in impl_out else (impl_out.rstrip(" |"), "")
    outs = []
    for o, tok in zip(t[2:], outs_s.split()):
        c = o[0]
        if c in "aysS": outs.append("OutNone")
        elif c == "A": outs.extend(["OutNone"] * int(o[1:].split(":")[0]))
        elif c == "g": outs.append("OutBool %s" % ("true" if tok == "T" else "false"))
        elif c == "l": outs.append("OutInt %s" % z(tok))
        else:
            bs = [] if tok == "-" else [str(int(tok[i:i + 2], 16)) for i in range(0, len(tok), 2)]
            outs.append("OutBytes [%s]" % "; ".join(bs))
    bl = "; ".join("true" if b == "1" else "false" for b in bits.strip())
    return "(%s, [%s], [%s], [%s])" % (z(t[1]), "; ".join(ops), "; ".join(outs), bl)


KERNEL_HEADER = """From Verif Require Import Prelude BitListM.
Definition blout_eqb (a b : blout) : bool :=
  match a, b with
  | OutNone, OutNone => true
  | OutBool x, OutBool y => Bool.eqb x y
  | OutInt x, OutInt y => x =? y
  | OutBytes x, OutBytes y => (length x =? length y)%nat && forallb (fun p => fst p =? snd p) (combine x y)
  | _, _ => false
  end.
Definition case_ok (c : Z * list blop * list blout * list bool) : bool :=
  let '(n, ops, outs, bits) := c in
  match bl_history n ops with
  | Ok (bl, o) => (length o =? length outs)%nat && forallb (fun p => blout_eqb (fst p) (snd p)) (combine o outs)
                  && (length (bl_abs bl) =? length bits)%nat
                  && forallb (fun p => Bool.eqb (fst p) (snd p)) (combine (bl_abs bl) bits)
  | _ => false
  end.
"""

RULE = ("exhaustive: all histories of <=3 ops over a 10-op alphabet from initial lengths 0/31/32; "
        "random: histories of 1..40 ops (AddBit/AddByte/AddBits with counts 0..255 and 64-bit values incl. negatives, "
        "SetBit/GetBit below the length, Len, GetBytes, IterateBytes), plus long histories crossing the 128- and 1024-word "
        "growth boundaries; non-trivial = appends bits and reads a bit or byte view; distinct = distinct case line")

MODEL_IS_SPEC = True  # proved: model output = boolean-sequence spec on every valid history


def oracle_lines(lines, impl_outs):
    # the spec is written for clarity (unary indices); it is run on the short histories only.
    # for the long ones the model, proved equal to the spec, is the reference.
    def bits(l):
        t = l.split()
        n = max(0, int(t[1]))
        for op in t[2:]:
            c = op[0]
            if c == "a":
                n += 1
            elif c == "A":
                n += int(op[1:].split(":")[0])
            elif c == "y":
                n += 8
            elif c == "s":
                n += int(op.split(":")[1])
            elif c == "S":
                n = max(n, int(op[1:].split(":")[0]) + 1)
        return n
    return ["blspec" + l[2:] if len(l) < 1500 and bits(l) < 4000 else None for l in lines]


def oracle_verdict(line, impl_out, oracle_out):
    if impl_out != oracle_out:
        return "boolean-sequence specification gives a different output"
    return None


def kernel_ok(line):
    return not any(t[0] == "A" and int(t[1:].split(":")[0]) > 50 for t in line.split()[2:])
