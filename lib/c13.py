"""C13 — The smallest symbol that fits is chosen."""
from common import *
import jobs as J
import twod
import c01
import c10

PID = "C13"
PROPS = "props/C13.v"
GOTAB = twod.GOTAB
GOFILES = twod.GOFILES
EXTRACT = twod.EXTRACT
HANDLERS = twod.HANDLERS

RULE = ("model-compared: symbol sizes (accessors) of QR / DataMatrix / Aztec / PDF417 for contents swept across every capacity boundary "
        "(QR version x level x mode incl. Auto, every DataMatrix size with different codeword/byte ratios, Aztec lengths x percentages, "
        "PDF417 codeword counts x levels); oracle phase on the implementation's output: QR version = the specification's minimal version "
        "(computed by the extracted spec from the ISO capacity tables), DataMatrix size = smallest ISO size for the ASCII encodation, "
        "PDF417: pad codewords < columns and 2..30 rows/columns (from the reader), Aztec: every explicit request for a smaller compact or "
        "full-range size for the same payload and percentage is refused; non-trivial = accepted symbol; distinct = distinct case line")


def cases(tier, rng):
    return ["acc " + j for j in twod.jobs2d(rng, tier)]


def compare(impl_out, model_out):
    return c10.compare(impl_out, model_out)


def nontrivial(line, out):
    return out.startswith("OK")


def extra(rep, impl_exe, model_exe, rng, tier):
    js, outs, readings = twod.run_readers(rep, impl_exe, model_exe, rng, tier)
    viol = []
    stats = {}

    def bad(j, why, extra=""):
        viol.append({"kind": "a larger symbol than needed was produced (or the size rule is violated)", "case": ("ecx " + j)[:300],
                     "why": why, "detail": extra[:200], "replay": "echo 'ecx %s' | %s" % (j[:300], impl_exe)})
    for i, (j, o) in enumerate(zip(js, outs)):
        if i not in readings or viol:
            continue
        r = readings[i].split()
        t = j.split()
        if t[0] == "qr" and r[0] == "OK":
            kv = dict(x.split("=", 1) for x in r[1:] if "=" in x)
            if kv.get("minv") not in (kv.get("v"),):
                bad(j, "version %s although the specification's minimal version is %s" % (kv.get("v"), kv.get("minv")), readings[i])
            stats["qr"] = stats.get("qr", 0) + 1
        elif t[0] == "dm" and len(r) >= 7:
            # T <decoded> <size> <data> <ecc> <blocks> <expected size>
            if r[2] != r[6]:
                bad(j, "size %s although the smallest ISO size for this encodation is %s" % (r[2], r[6]), readings[i])
            stats["dm"] = stats.get("dm", 0) + 1
        elif t[0] == "pdf" and r[0] in ("T", "F"):
            rows, cols = int(r[1]), int(r[2])
            dw = o.split(" | dw=")[1]
            k = 2 ** (int(t[1]) + 1)
            if dw != "ERR":
                pads = rows * cols - (int(dw) + 1 + k)
                if not (0 <= pads < cols):
                    bad(j, "%d pad codewords in a symbol with %d columns (a whole row or more of padding)" % (pads, cols), readings[i])
            if not (2 <= rows <= 30 and 2 <= cols <= 30):
                bad(j, "shape %dx%d outside the row/column limits" % (rows, cols), readings[i])
            stats["pdf"] = stats.get("pdf", 0) + 1
    rep.cov["checked_by_reader"] = stats
    # Aztec: explicit requests for every smaller size must be refused
    if not viol:
        probes = []
        for pct in ((0, 23, 33, 100) if tier == "quick" else (0, 1, 10, 23, 33, 50, 90, 100, 200)):
            for n in ((0, 1, 5, 12, 25, 40, 80, 150, 300, 600) if tier == "quick" else list(range(0, 60, 3)) + [80, 100, 150, 220, 300, 450, 600, 900, 1300, 1800]):
                probes.append("c13az %d %s" % (pct, J.hx("".join(rng.choice("ABCDEFGH IJKLMNOP") for _ in range(n)))))
                probes.append("c13az %d %s" % (pct, J.hx(J.rand_text(rng, n))))
                probes.append("c13az %d %s" % (pct, J.hx(bytes([rng.choice([0, 255])]) * n)))
        # stuffing-heavy payloads around the compact limit: the explicit compact-4 request must be refused whenever the
        # STUFFED message exceeds 64 words (the automatic path then picks the full-range symbol)
        for pct in ((1, 5, 14) if tier == "quick" else (0, 1, 3, 5, 8, 10, 14, 16)):
            for n in (range(52, 64) if tier == "quick" else range(44, 70)):
                for b in (0, 255):
                    probes.append("c13az %d %s" % (pct, J.hx(bytes([b]) * n)))
        # every percentage 1..100 x every payload length (letters; with one special pair in front so that the bit count
        # is not a multiple of 5): the check-bit arithmetic (bits*pct/100, an integer division) must be the same on the
        # explicit and the automatic path for every operand, not only for the usual 23 / 33 %
        harder = tier == "thorough" or os.environ.get("VERIF_SEARCH_HARDER")
        for pct in (range(1, 101) if harder else rng.sample(range(1, 101), 12)):
            for n in (range(1, 260) if harder else rng.sample(range(1, 260), 25)):
                t = "".join(rng.choice("KLMNOPQRS") for _ in range(n))
                probes.append("c13az %d %s" % (pct, J.hx(t)))
                if harder or n % 5 == 0:
                    probes.append("c13az %d %s" % (pct, J.hx("KKK" + "O " + t)))
        # exactly 64 data words (the compact limit) at low percentages: every length around it
        for pct in ((0, 5, 15) if tier == "quick" else (0, 1, 3, 5, 10, 15, 16, 17)):
            for n in (range(96, 108) if tier == "quick" else range(60, 130)):
                probes.append("c13az %d %s" % (pct, J.hx("".join(rng.choice("ABCDEFGHIJKLMNOPQRSTUVWXYZ") for _ in range(n)))))
        pouts = run_lines(impl_exe, probes, shards=NCPU)
        rep.cov["aztec_smaller_size_probes"] = len(probes)
        nreq = 0
        for l, o in zip(probes, pouts):
            if not o.startswith("auto="):
                continue
            f = o.split()
            auto = int(f[0][5:])
            for x in f[1:]:
                req, res = x.split(":")
                req = int(req)
                size = twod.aztec_size(req < 0, abs(req))
                nreq += 1
                if res != "E" and int(res) != size:
                    bad(l[6:], "explicit layer request %d produced size %s, not %d" % (req, res, size), o)
                    break
                if size < auto and res != "E":
                    bad(l[6:], "automatic size is %d although the explicit request %d (size %d) for the same payload and percentage is accepted" % (auto, req, size), o)
                    break
            if viol:
                viol[-1]["replay"] = "echo '%s' | %s" % (l[:300], impl_exe)
                break
        rep.cov["aztec_explicit_requests_judged"] = nreq
    if not viol:
        # the version must not depend on what was encoded before (same payload bit count in another mode)
        import held
        viol += held.qr_adversarial_phase(rep, impl_exe, rng, tier, held.run_fresh_each)
    return viol


def distribution(lines, outs):
    d = {}
    for l, o in zip(lines, outs):
        k = l.split()[1] + ":" + ("ok" if o.startswith("OK") else "err")
        d[k] = d.get(k, 0) + 1
    return d
