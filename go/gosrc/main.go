// Command gosrc is the SOURCE-LEVEL part of the /verif translator: it parses and type-checks /repo's current
// source and translates a fixed list of small, loop-free integer functions statement by statement into Gallina
// (coq/gen/TabSrc.v).  The Coq side (props/SrcFns.v) then re-proves, on every run, that each translated function
// equals the corresponding function of the hand-written model for ALL arguments (inside the stated guards) - a
// regenerate-and-re-prove tie for these functions, in addition to the behavioural correspondence runs.
//
// Supported Go: parameters / struct fields of integer, rune, byte, bool and named integer types; := = op= ++ --;
// if / else-if / else; switch (tagged or tagless, no fallthrough); return of one expression; integer and boolean
// operators; conversions between integer types (identity: the guards exclude overflow); named constants; calls of
// other listed functions and of methods on the same receiver.  Anything else: the function is reported as not
// translatable (src_ok_<name> = false) and nothing is claimed about it.
//
// Usage (cwd = library root): gosrc <output .v file>
package main

import (
	"fmt"
	"go/ast"
	"go/constant"
	"go/importer"
	"go/parser"
	"go/token"
	"go/types"
	"os"
	"path/filepath"
	"sort"
	"strings"
)

const modPath = "github.com/boombuler/barcode"

type target struct{ pkg, recv, name string }

var targets = []target{
	{"pdf417", "", "calculateNumberOfRows"},
	{"pdf417", "", "getLeftCodeWord"},
	{"pdf417", "", "getRightCodeWord"},
	{"pdf417", "securitylevel", "ErrorCorrectionWordCount"},
	{"aztec", "", "totalBitsInLayer"},
	{"datamatrix", "dmCodeSize", "RegionRows"},
	{"datamatrix", "dmCodeSize", "RegionColumns"},
	{"datamatrix", "dmCodeSize", "MatrixRows"},
	{"datamatrix", "dmCodeSize", "MatrixColumns"},
	{"datamatrix", "dmCodeSize", "DataCodewords"},
	{"datamatrix", "dmCodeSize", "ErrorCorrectionCodewordsPerBlock"},
	{"datamatrix", "dmCodeSize", "DataCodewordsForBlock"},
	{"qr", "versionInfo", "totalDataBytes"},
	{"qr", "versionInfo", "modulWidth"},
	{"qr", "versionInfo", "charCountBits"},
	{"utils", "", "RuneToInt"},
	{"utils", "", "IntToRune"},
}

type unsupported struct{ why string }

type tr struct {
	info   *types.Info
	recv   string   // receiver identifier name ("" if none)
	fields []string // receiver struct fields, declaration order
	pkg    string
	known  map[string]bool // translatable targets of this package: "recv.name" / ".name"
}

func fail(format string, a ...interface{}) { panic(unsupported{fmt.Sprintf(format, a...)}) }

func coqName(pkg, name string) string { return "src_" + pkg + "_" + name }

func (t *tr) expr(e ast.Expr) string {
	if tv, ok := t.info.Types[e]; ok && tv.Value != nil {
		switch tv.Value.Kind() {
		case constant.Int:
			s := tv.Value.ExactString()
			if strings.HasPrefix(s, "-") {
				return "(" + s + ")"
			}
			return s
		case constant.Bool:
			if constant.BoolVal(tv.Value) {
				return "true"
			}
			return "false"
		}
	}
	switch x := e.(type) {
	case *ast.ParenExpr:
		return t.expr(x.X)
	case *ast.Ident:
		if x.Name == "true" || x.Name == "false" {
			return x.Name
		}
		return "v_" + x.Name
	case *ast.SelectorExpr:
		if id, ok := x.X.(*ast.Ident); ok && id.Name == t.recv && t.recv != "" {
			return "f_" + x.Sel.Name
		}
		fail("selector %s", x.Sel.Name)
	case *ast.UnaryExpr:
		switch x.Op {
		case token.SUB:
			return "(- " + t.expr(x.X) + ")"
		case token.NOT:
			return "(negb " + t.expr(x.X) + ")"
		case token.ADD:
			return t.expr(x.X)
		}
		fail("unary %s", x.Op)
	case *ast.BinaryExpr:
		a, b := t.expr(x.X), t.expr(x.Y)
		isBool := false
		if bt, ok := t.info.TypeOf(x.X).Underlying().(*types.Basic); ok && bt.Info()&types.IsBoolean != 0 {
			isBool = true
		}
		switch x.Op {
		case token.ADD:
			return "(" + a + " + " + b + ")"
		case token.SUB:
			return "(" + a + " - " + b + ")"
		case token.MUL:
			return "(" + a + " * " + b + ")"
		case token.QUO:
			return "(go_div " + a + " " + b + ")"
		case token.REM:
			return "(go_mod " + a + " " + b + ")"
		case token.SHL:
			return "(Z.shiftl " + a + " " + b + ")"
		case token.SHR:
			return "(Z.shiftr " + a + " " + b + ")"
		case token.AND:
			return "(Z.land " + a + " " + b + ")"
		case token.OR:
			return "(Z.lor " + a + " " + b + ")"
		case token.XOR:
			return "(Z.lxor " + a + " " + b + ")"
		case token.LAND:
			return "(" + a + " && " + b + ")"
		case token.LOR:
			return "(" + a + " || " + b + ")"
		case token.EQL:
			if isBool {
				return "(Bool.eqb " + a + " " + b + ")"
			}
			return "(" + a + " =? " + b + ")"
		case token.NEQ:
			if isBool {
				return "(negb (Bool.eqb " + a + " " + b + "))"
			}
			return "(negb (" + a + " =? " + b + "))"
		case token.LSS:
			return "(" + a + " <? " + b + ")"
		case token.LEQ:
			return "(" + a + " <=? " + b + ")"
		case token.GTR:
			return "(" + a + " >? " + b + ")"
		case token.GEQ:
			return "(" + a + " >=? " + b + ")"
		}
		fail("binary %s", x.Op)
	case *ast.CallExpr:
		// conversion between integer types: identity (guards exclude overflow)
		if tv, ok := t.info.Types[x.Fun]; ok && tv.IsType() && len(x.Args) == 1 {
			if bt, ok := tv.Type.Underlying().(*types.Basic); ok && bt.Info()&types.IsInteger != 0 {
				return t.expr(x.Args[0])
			}
			fail("conversion to %s", tv.Type)
		}
		switch f := x.Fun.(type) {
		case *ast.Ident:
			if t.known["."+f.Name] {
				s := "(" + coqName(t.pkg, f.Name)
				for _, a := range x.Args {
					s += " " + t.expr(a)
				}
				return s + ")"
			}
			fail("call of %s", f.Name)
		case *ast.SelectorExpr:
			if id, ok := f.X.(*ast.Ident); ok && id.Name == t.recv && t.recv != "" && t.known["m."+f.Sel.Name] {
				s := "(" + coqName(t.pkg, f.Sel.Name)
				for _, fl := range t.fields {
					s += " f_" + fl
				}
				for _, a := range x.Args {
					s += " " + t.expr(a)
				}
				return s + ")"
			}
			fail("call of method %s", f.Sel.Name)
		}
		fail("call")
	}
	fail("expression %T", e)
	return ""
}

// stmts translates a statement list followed by `rest` into one Gallina expression (the function's result)
func (t *tr) stmts(list []ast.Stmt, rest []ast.Stmt) string {
	if len(list) == 0 {
		if len(rest) == 0 {
			fail("control reaches the end of the function without return")
		}
		return t.stmts(rest, nil)
	}
	s, tail := list[0], list[1:]
	cont := func() string { return t.stmts(tail, rest) }
	switch x := s.(type) {
	case *ast.ReturnStmt:
		if len(x.Results) != 1 {
			fail("return with %d results", len(x.Results))
		}
		return t.expr(x.Results[0])
	case *ast.BlockStmt:
		return t.stmts(append(append([]ast.Stmt{}, x.List...), tail...), rest)
	case *ast.AssignStmt:
		if len(x.Lhs) != 1 || len(x.Rhs) != 1 {
			fail("multiple assignment")
		}
		id, ok := x.Lhs[0].(*ast.Ident)
		if !ok {
			fail("assignment to a non-variable")
		}
		rhs := t.expr(x.Rhs[0])
		v := "v_" + id.Name
		ops := map[token.Token]string{token.ADD_ASSIGN: "+", token.SUB_ASSIGN: "-", token.MUL_ASSIGN: "*"}
		switch x.Tok {
		case token.DEFINE, token.ASSIGN:
		case token.QUO_ASSIGN:
			rhs = "(go_div " + v + " " + rhs + ")"
		case token.REM_ASSIGN:
			rhs = "(go_mod " + v + " " + rhs + ")"
		default:
			op, ok := ops[x.Tok]
			if !ok {
				fail("assignment operator %s", x.Tok)
			}
			rhs = "(" + v + " " + op + " " + rhs + ")"
		}
		return "(let " + v + " := " + rhs + " in " + cont() + ")"
	case *ast.IncDecStmt:
		id, ok := x.X.(*ast.Ident)
		if !ok {
			fail("++ on a non-variable")
		}
		v := "v_" + id.Name
		op := "+"
		if x.Tok == token.DEC {
			op = "-"
		}
		return "(let " + v + " := (" + v + " " + op + " 1) in " + cont() + ")"
	case *ast.IfStmt:
		if x.Init != nil {
			fail("if with init statement")
		}
		c := t.expr(x.Cond)
		thenE := t.stmts(x.Body.List, append(append([]ast.Stmt{}, tail...), rest...))
		var elseE string
		if x.Else != nil {
			elseE = t.stmts([]ast.Stmt{x.Else}, append(append([]ast.Stmt{}, tail...), rest...))
		} else {
			elseE = cont()
		}
		return "(if " + c + " then " + thenE + " else " + elseE + ")"
	case *ast.SwitchStmt:
		if x.Init != nil {
			fail("switch with init statement")
		}
		after := append(append([]ast.Stmt{}, tail...), rest...)
		var def []ast.Stmt
		hasDef := false
		type arm struct {
			cond string
			body []ast.Stmt
		}
		var arms []arm
		for _, cs := range x.Body.List {
			cc := cs.(*ast.CaseClause)
			for _, b := range cc.Body {
				if br, ok := b.(*ast.BranchStmt); ok && br.Tok == token.FALLTHROUGH {
					fail("fallthrough")
				}
			}
			if cc.List == nil {
				def, hasDef = cc.Body, true
				continue
			}
			var cs []string
			for _, e := range cc.List {
				if x.Tag != nil {
					cs = append(cs, "("+t.expr(x.Tag)+" =? "+t.expr(e)+")")
				} else {
					cs = append(cs, t.expr(e))
				}
			}
			arms = append(arms, arm{"(" + strings.Join(cs, " || ") + ")", cc.Body})
		}
		var out string
		if hasDef {
			out = t.stmts(def, after)
		} else {
			out = t.stmts(after, nil)
		}
		for i := len(arms) - 1; i >= 0; i-- {
			out = "(if " + arms[i].cond + " then " + t.stmts(arms[i].body, after) + " else " + out + ")"
		}
		return out
	case *ast.EmptyStmt:
		return cont()
	case *ast.DeclStmt:
		gd, ok := x.Decl.(*ast.GenDecl)
		if !ok || gd.Tok != token.VAR {
			fail("declaration")
		}
		out := cont()
		for i := len(gd.Specs) - 1; i >= 0; i-- {
			vs := gd.Specs[i].(*ast.ValueSpec)
			for j := len(vs.Names) - 1; j >= 0; j-- {
				init := ""
				if len(vs.Values) > j {
					init = t.expr(vs.Values[j])
				} else if coqType(t.info.Defs[vs.Names[j]].Type()) == "bool" {
					init = "false"
				} else {
					init = "0"
				}
				out = "(let v_" + vs.Names[j].Name + " := " + init + " in " + out + ")"
			}
		}
		return out
	}
	fail("statement %T", s)
	return ""
}

func coqType(ty types.Type) string {
	if bt, ok := ty.Underlying().(*types.Basic); ok {
		if bt.Info()&types.IsBoolean != 0 {
			return "bool"
		}
		if bt.Info()&types.IsInteger != 0 {
			return "Z"
		}
	}
	fail("type %s", ty)
	return ""
}

func main() {
	if len(os.Args) != 2 {
		fmt.Fprintln(os.Stderr, "usage: gosrc <output file>")
		os.Exit(2)
	}
	root, _ := os.Getwd()
	fset := token.NewFileSet()
	imp := importer.ForCompiler(fset, "source", nil)
	var sb strings.Builder
	sb.WriteString("(* GENERATED by /verif/go/gosrc from /repo's current source (go/parser + go/types): a statement-by-statement\n   translation of small loop-free integer functions -- do not edit. *)\nFrom Verif Require Import Prelude.\nLocal Open Scope Z_scope.\nLocal Open Scope bool_scope.\n\n")
	byPkg := map[string][]target{}
	var pkgOrder []string
	for _, tg := range targets {
		if _, ok := byPkg[tg.pkg]; !ok {
			pkgOrder = append(pkgOrder, tg.pkg)
		}
		byPkg[tg.pkg] = append(byPkg[tg.pkg], tg)
	}
	var okNames, badNames []string
	for _, pk := range pkgOrder {
		dir := filepath.Join(root, pk)
		matches, _ := filepath.Glob(filepath.Join(dir, "*.go"))
		sort.Strings(matches)
		var files []*ast.File
		for _, m := range matches {
			if strings.HasSuffix(m, "_test.go") || strings.HasPrefix(filepath.Base(m), "verif_") {
				continue
			}
			af, err := parser.ParseFile(fset, m, nil, 0)
			if err != nil {
				fmt.Fprintln(os.Stderr, err)
				os.Exit(1)
			}
			files = append(files, af)
		}
		info := &types.Info{Types: map[ast.Expr]types.TypeAndValue{}, Uses: map[*ast.Ident]types.Object{}, Defs: map[*ast.Ident]types.Object{}}
		conf := types.Config{Importer: imp, Error: func(error) {}}
		conf.Check(modPath+"/"+pk, fset, files, info)
		decls := map[string]*ast.FuncDecl{}
		for _, f := range files {
			for _, d := range f.Decls {
				if fd, ok := d.(*ast.FuncDecl); ok && fd.Body != nil {
					key := "." + fd.Name.Name
					if fd.Recv != nil {
						key = "m." + fd.Name.Name
					}
					decls[key] = fd
				}
			}
		}
		known := map[string]bool{}
		// translate in the listed order; a function may only call functions translated before it
		for _, tg := range byPkg[pk] {
			key := "." + tg.name
			if tg.recv != "" {
				key = "m." + tg.name
			}
			name := coqName(pk, tg.name)
			fd := decls[key]
			res := func() (out string) {
				defer func() {
					if r := recover(); r != nil {
						if u, ok := r.(unsupported); ok {
							out = "(* " + pk + "." + tg.name + " is not translatable: " + u.why + " *)\nDefinition " + name + "_ok : bool := false.\n\n"
							badNames = append(badNames, pk+"."+tg.name)
							return
						}
						panic(r)
					}
				}()
				if fd == nil {
					fail("function not found in the current source")
				}
				t := &tr{info: info, pkg: pk, known: known}
				var params []string
				if fd.Recv != nil {
					if len(fd.Recv.List) != 1 || len(fd.Recv.List[0].Names) != 1 {
						fail("receiver")
					}
					t.recv = fd.Recv.List[0].Names[0].Name
					rt := info.Defs[fd.Recv.List[0].Names[0]].Type()
					if p, ok := rt.(*types.Pointer); ok {
						rt = p.Elem()
					}
					st, ok := rt.Underlying().(*types.Struct)
					if !ok {
						// a named integer type: the receiver is an ordinary value parameter
						params = append(params, "(v_"+t.recv+" : "+coqType(rt)+")")
						t.recv = ""
						st = types.NewStruct(nil, nil)
					}
					for i := 0; i < st.NumFields(); i++ {
						f := st.Field(i)
						if bt, ok := f.Type().Underlying().(*types.Basic); ok && bt.Info()&(types.IsInteger|types.IsBoolean) != 0 {
							t.fields = append(t.fields, f.Name())
							params = append(params, "(f_"+f.Name()+" : "+coqType(f.Type())+")")
						}
					}
				}
				for _, fl := range fd.Type.Params.List {
					for _, nm := range fl.Names {
						params = append(params, "(v_"+nm.Name+" : "+coqType(info.Defs[nm].Type())+")")
					}
				}
				if fd.Type.Results == nil || len(fd.Type.Results.List) != 1 || len(fd.Type.Results.List[0].Names) > 0 {
					fail("needs exactly one unnamed result")
				}
				rty := coqType(info.TypeOf(fd.Type.Results.List[0].Type))
				body := t.stmts(fd.Body.List, nil)
				known[key] = true
				okNames = append(okNames, pk+"."+tg.name)
				pos := fset.Position(fd.Pos())
				rel, _ := filepath.Rel(root, pos.Filename)
				return fmt.Sprintf("(* %s:%d  func %s *)\nDefinition %s %s : %s :=\n  %s.\nDefinition %s_ok : bool := true.\n\n", rel, pos.Line, tg.name, name, strings.Join(params, " "), rty, body, name)
			}()
			sb.WriteString(res)
		}
	}
	q := func(l []string) string {
		for i := range l {
			l[i] = "\"" + l[i] + "\""
		}
		return "[" + strings.Join(l, "; ") + "]"
	}
	sb.WriteString("From Coq Require Import String List.\nImport ListNotations.\n")
	sb.WriteString("Definition src_translated : list string := " + q(okNames) + "%string.\n")
	sb.WriteString("Definition src_not_translatable : list string := " + q(badNames) + "%string.\n")
	txt := sb.String()
	if old, err := os.ReadFile(os.Args[1]); err == nil && string(old) == txt {
		fmt.Println("TabSrc unchanged")
		return
	}
	if err := os.WriteFile(os.Args[1], []byte(txt), 0o644); err != nil {
		fmt.Fprintln(os.Stderr, err)
		os.Exit(1)
	}
	fmt.Printf("TabSrc written: %d translated, %d not translatable\n", len(okNames), len(badNames))
}
