module verif/gosrc

go 1.23
