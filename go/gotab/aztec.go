package main

import (
	"sort"

	"github.com/boombuler/barcode/aztec"
)

// aztec/state.go: charMap (as built by init()), latchTable, shiftTable,
// encodingMode.BitCount; aztec/encoder.go: word_size, max_nb_bits(_compact).
func init() {
	register("TabAztec", func(w *W) {
		sortedInts := func(m map[int]map[int]int) []int {
			ks := make([]int, 0, len(m))
			for k := range m {
				ks = append(ks, k)
			}
			sort.Ints(ks)
			return ks
		}
		nested := func(m map[int]map[int]int) []string {
			var items []string
			for _, a := range sortedInts(m) {
				bs := make([]int, 0, len(m[a]))
				for b := range m[a] {
					bs = append(bs, b)
				}
				sort.Ints(bs)
				for _, b := range bs {
					items = append(items, "(("+Z(a)+", "+Z(b)+"), "+Z(m[a][b])+")")
				}
			}
			return items
		}

		cm := aztec.VerifCharMap()
		modes := make([]int, 0, len(cm))
		for m := range cm {
			modes = append(modes, m)
		}
		sort.Ints(modes)
		var items []string
		for _, m := range modes {
			items = append(items, "("+Z(m)+", "+Zs(cm[m])+")")
		}
		w.P("(* charMap: mode (0 upper, 1 lower, 2 digit, 3 mixed, 4 punct) -> code of each byte 0..255, 0 = absent *)")
		w.P("Definition az_char_map : list (Z * list Z) :=\n  %s.", List(items))
		w.P("")
		w.P("(* latchTable[from][to] = bitcount<<16 | bits *)")
		w.P("Definition az_latch_table : list ((Z * Z) * Z) :=\n  %s.", List(nested(aztec.VerifLatchTable())))
		w.P("")
		w.P("(* shiftTable[from][to] = shift code *)")
		w.P("Definition az_shift_table : list ((Z * Z) * Z) :=\n  %s.", List(nested(aztec.VerifShiftTable())))
		w.P("")
		w.P("(* encodingMode.BitCount() for modes 0..4 *)")
		w.P("Definition az_mode_bits : list Z := %s.", Zs(aztec.VerifModeBitCount()))
		w.P("")
		w.P("(* word_size, indexed by layer count *)")
		w.P("Definition az_word_size : list Z := %s.", Zs(aztec.VerifWordSize()))
		a, b := aztec.VerifConsts()
		w.P("Definition az_max_nb_bits : Z := %s.", Z(a))
		w.P("Definition az_max_nb_bits_compact : Z := %s.", Z(b))
	})
}
