module verif/gotab

go 1.23.5

require github.com/boombuler/barcode v0.0.0

replace github.com/boombuler/barcode => /repo
