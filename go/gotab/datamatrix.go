package main

import "github.com/boombuler/barcode/datamatrix"

// datamatrix/codesize.go: codeSizes; datamatrix/errorcorrection.go: the Galois
// field of the package's Reed-Solomon encoder (size, base, antilog/log tables).
func init() {
	register("TabDataMatrix", func(w *W) {
		var items []string
		for _, s := range datamatrix.VerifCodeSizes() {
			items = append(items, "("+Z(s[0])+", "+Z(s[1])+", "+Z(s[2])+", "+Z(s[3])+", "+Z(s[4])+", "+Z(s[5])+")")
		}
		w.P("(* codeSizes: (Rows, Columns, RegionCountHorizontal, RegionCountVertical, ECCCount, BlockCount) *)")
		w.P("Definition dm_code_sizes : list (Z * Z * Z * Z * Z * Z) :=\n  %s.", List(items))
		size, base, alog, log := datamatrix.VerifGF()
		w.P("")
		w.P("(* the field of errorcorrection.go's ReedSolomonEncoder: Size, Base, ALogTbl, LogTbl *)")
		w.P("Definition dm_gf_size : Z := %s.", Z(size))
		w.P("Definition dm_gf_base : Z := %s.", Z(base))
		w.P("Definition dm_gf_alog : list Z :=\n  %s.", Zs(alog))
		w.P("Definition dm_gf_log : list Z :=\n  %s.", Zs(log))
	})
}
