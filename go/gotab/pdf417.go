package main

import (
	"sort"

	"github.com/boombuler/barcode/pdf417"
)

// pdf417: codewords.go (3 cluster tables, start/stop), errorcorrection.go
// (correctionFactors), highlevel.go (mixedMap, punctMap as built by init(),
// the latch/shift constants, min_numeric_count), encoder.go (padding_codeword),
// dimensions.go (min/max rows/cols, moduleHeight)
func init() {
	register("TabPdf417", func(w *W) {
		cw := pdf417.VerifCodewords()
		var tabs []string
		for _, t := range cw {
			tabs = append(tabs, Zs(t))
		}
		w.P("(* codewords[tableId][word]: 17-module bar/space patterns as integers *)")
		w.P("Definition pdf_codewords : list (list Z) :=\n  %s.", List(tabs))
		w.P("Definition pdf_start_word : Z := %s.", Z(pdf417.VerifStartWord()))
		w.P("Definition pdf_stop_word : Z := %s.", Z(pdf417.VerifStopWord()))
		var fs []string
		for _, f := range pdf417.VerifCorrectionFactors() {
			fs = append(fs, Zs(f))
		}
		w.P("(* correctionFactors[level] *)")
		w.P("Definition pdf_correction_factors : list (list Z) :=\n  %s.", List(fs))
		dumpMap := func(name string, m map[rune]int) {
			var items []string
			for _, r := range sortedRunes(m) {
				items = append(items, "("+Z(int(r))+", "+Z(m[r])+")")
			}
			w.P("(* %s: rune -> value, as built by init() *)", name)
			w.P("Definition %s : list (Z * Z) :=\n  %s.", name, List(items))
		}
		dumpMap("pdf_mixed_map", pdf417.VerifMixedMap())
		dumpMap("pdf_punct_map", pdf417.VerifPunctMap())
		c := pdf417.VerifConsts()
		names := make([]string, 0, len(c))
		for n := range c {
			names = append(names, n)
		}
		sort.Strings(names)
		w.P("(* named constants *)")
		for _, n := range names {
			w.P("Definition pdf_%s : Z := %s.", n, Z(c[n]))
		}
	})
}
