package main

import "github.com/boombuler/barcode/code39"

// code39/encoder.go: encodeTable (map rune -> {value, data}), extendedTable (map rune -> string)
func init() {
	register("TabCode39", func(w *W) {
		t := code39.VerifEncodeTable()
		var items []string
		for _, r := range sortedRunes(t) {
			e := t[r]
			items = append(items, "("+Z(int(r))+", ("+Z(e.Value)+", "+Bools(e.Data)+"))")
		}
		w.P("(* encodeTable: rune -> (value, data), listed by ascending rune *)")
		w.P("Definition code39_encode_table : list (Z * (Z * list bool)) :=\n  %s.", List(items))
		w.P("")
		x := code39.VerifExtendedTable()
		items = nil
		for _, r := range sortedRunes(x) {
			items = append(items, "("+Z(int(r))+", "+Str(x[r])+")")
		}
		w.P("(* extendedTable: rune -> bytes of the spelled-out string, listed by ascending rune *)")
		w.P("Definition code39_extended_table : list (Z * list Z) :=\n  %s.", List(items))
	})
}
