package main

import (
	"github.com/boombuler/barcode/aztec"
	"github.com/boombuler/barcode/datamatrix"
	"github.com/boombuler/barcode/qr"
	"github.com/boombuler/barcode/utils"
)

// Every Galois field the library constructs, as the tables NewGaloisField built
// at run time: (size, base, ALogTbl, LogTbl).
func init() {
	register("TabGF", func(w *W) {
		type nf struct {
			name string
			f    *utils.GaloisField
		}
		fields := []nf{
			{"qr", qr.VerifC17Encoder().VerifGF()},
			{"datamatrix", datamatrix.VerifC17Encoder().VerifGF()},
		}
		for _, ws := range []int{4, 6, 8, 10, 12} {
			fields = append(fields, nf{"aztec" + itoa(ws), aztec.VerifC17Field(ws)})
		}
		var names []string
		for _, x := range fields {
			w.P("Definition gfdump_%s : Z * Z * list Z * list Z :=\n  (%s, %s,\n   %s,\n   %s).", x.name, Z(x.f.Size), Z(x.f.Base), Zs(x.f.ALogTbl), Zs(x.f.LogTbl))
			names = append(names, "gfdump_"+x.name)
		}
		w.P("Definition gfdump_all : list (Z * Z * list Z * list Z) :=\n  %s.", List(names))
		// word sizes for which aztec.getGF returns no field (nil): recorded as a fact
		var nilWS []int
		for ws := 0; ws <= 16; ws++ {
			if aztec.VerifC17Field(ws) == nil {
				nilWS = append(nilWS, ws)
			}
		}
		w.P("Definition aztec_wordsizes_without_field : list Z := %s.", Zs(nilWS))
	})
}

func itoa(i int) string { return Z(i) }
