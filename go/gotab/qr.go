package main

import (
	"sort"

	"github.com/boombuler/barcode/qr"
)

// qr/versioninfo.go: versionInfos; qr/encoder.go: formatInfos, versionInfoBitsByVersion;
// qr/alphanumeric.go: charSet; the mode / level / encoding constants.
func init() {
	register("TabQr", func(w *W) {
		w.P("(* versionInfos in source order: (Version, Level, ErrorCorrectionCodewordsPerBlock,")
		w.P("   NumberOfBlocksInGroup1, DataCodeWordsPerBlockInGroup1, NumberOfBlocksInGroup2,")
		w.P("   DataCodeWordsPerBlockInGroup2) *)")
		var items []string
		for _, r := range qr.VerifVersionInfos() {
			items = append(items, "("+Z(r[0])+", "+Z(r[1])+", "+Z(r[2])+", "+Z(r[3])+", "+Z(r[4])+", "+Z(r[5])+", "+Z(r[6])+")")
		}
		w.P("Definition qr_version_infos : list (Z * Z * Z * Z * Z * Z * Z) :=\n  %s.", List(items))
		w.P("")

		w.P("(* formatInfos: level -> mask -> bits, ascending keys *)")
		fi := qr.VerifFormatInfos()
		var lv []int
		for l := range fi {
			lv = append(lv, l)
		}
		sort.Ints(lv)
		items = nil
		for _, l := range lv {
			var ms []int
			for m := range fi[l] {
				ms = append(ms, m)
			}
			sort.Ints(ms)
			var inner []string
			for _, m := range ms {
				inner = append(inner, "("+Z(m)+", "+Bools(fi[l][m])+")")
			}
			items = append(items, "("+Z(l)+", "+List(inner)+")")
		}
		w.P("Definition qr_format_infos : list (Z * list (Z * list bool)) :=\n  %s.", List(items))
		w.P("")

		w.P("(* versionInfoBitsByVersion: version -> bits, ascending keys *)")
		vb := qr.VerifVersionBits()
		var vs []int
		for v := range vb {
			vs = append(vs, v)
		}
		sort.Ints(vs)
		items = nil
		for _, v := range vs {
			items = append(items, "("+Z(v)+", "+Bools(vb[v])+")")
		}
		w.P("Definition qr_version_bits : list (Z * list bool) :=\n  %s.", List(items))
		w.P("")

		w.P("(* charSet (bytes) *)")
		w.P("Definition qr_charset : list Z := %s.", Str(qr.VerifCharSet()))
		w.P("")
		modes, levels, encs := qr.VerifConsts()
		w.P("(* encodingMode constants (mode indicators) *)")
		w.P("Definition qr_numeric_mode : Z := %s.", Z(modes[0]))
		w.P("Definition qr_alphanumeric_mode : Z := %s.", Z(modes[1]))
		w.P("Definition qr_byte_mode : Z := %s.", Z(modes[2]))
		w.P("(* ErrorCorrectionLevel constants L, M, Q, H *)")
		w.P("Definition qr_level_L : Z := %s.", Z(levels[0]))
		w.P("Definition qr_level_M : Z := %s.", Z(levels[1]))
		w.P("Definition qr_level_Q : Z := %s.", Z(levels[2]))
		w.P("Definition qr_level_H : Z := %s.", Z(levels[3]))
		w.P("(* Encoding constants Auto, Numeric, AlphaNumeric, Unicode *)")
		w.P("Definition qr_enc_auto : Z := %s.", Z(encs[0]))
		w.P("Definition qr_enc_numeric : Z := %s.", Z(encs[1]))
		w.P("Definition qr_enc_alphanumeric : Z := %s.", Z(encs[2]))
		w.P("Definition qr_enc_unicode : Z := %s.", Z(encs[3]))
	})
}
