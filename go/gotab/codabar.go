package main

import "github.com/boombuler/barcode/codabar"

// codabar/encoder.go: encodingTable (map rune -> module pattern)
func init() {
	register("TabCodabar", func(w *W) {
		t := codabar.VerifEncodingTable()
		var items []string
		for _, r := range sortedRunes(t) {
			items = append(items, "("+Z(int(r))+", "+Bools(t[r])+")")
		}
		w.P("(* rune -> modules (true = bar) *)")
		w.P("Definition codabar_encoding_table : list (Z * list bool) :=\n  %s.", List(items))
	})
}
