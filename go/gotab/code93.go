package main

import "github.com/boombuler/barcode/code93"

// code93/encoder.go: encodeTable (map rune -> {value, data}), extendedTable ([]string)
func init() {
	register("TabCode93", func(w *W) {
		t := code93.VerifEncodeTable()
		var items []string
		for _, r := range sortedRunes(t) {
			e := t[r]
			items = append(items, "("+Z(int(r))+", ("+Z(e[0])+", "+Z(e[1])+"))")
		}
		w.P("(* encodeTable: rune -> (value, data), listed by ascending rune *)")
		w.P("Definition code93_encode_table : list (Z * (Z * Z)) :=\n  %s.", List(items))
		w.P("")
		items = nil
		for _, s := range code93.VerifExtendedTable() {
			items = append(items, Str(s))
		}
		w.P("(* extendedTable: slice index (ASCII code) -> bytes of the spelled-out string *)")
		w.P("Definition code93_extended_table : list (list Z) :=\n  %s.", List(items))
	})
}
