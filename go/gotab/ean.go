package main

import "github.com/boombuler/barcode/ean"

// ean/encoder.go: encoderTable (map rune -> LeftOdd, LeftEven, Right, CheckSum)
func init() {
	register("TabEan", func(w *W) {
		t := ean.VerifEncoderTable()
		var items []string
		for _, r := range sortedRunes(t) {
			e := t[r]
			items = append(items, "("+Z(int(r))+", ("+Bools(e[0])+", "+Bools(e[1])+", "+Bools(e[2])+", "+Bools(e[3])+"))")
		}
		w.P("(* rune -> (LeftOdd, LeftEven, Right, CheckSum) *)")
		w.P("Definition ean_encoder_table : list (Z * (list bool * list bool * list bool * list bool)) :=\n  %s.", List(items))
	})
}
