package main

import "github.com/boombuler/barcode/code128"

// code128/encodingtable.go: encodingTable (107 module patterns), the code set
// strings aTable/bTable/abTable/aOnlyTable (as BYTES of the Go string), the
// start/code/stop symbol values and the FNC1..4 placeholder runes.
func init() {
	register("TabCode128", func(w *W) {
		t := code128.VerifEncodingTable()
		items := make([]string, len(t))
		for i, p := range t {
			items[i] = Bools(p)
		}
		w.P("(* encodingTable[v] = module pattern of symbol value v *)")
		w.P("Definition c128_encoding_table : list (list bool) :=\n  %s.", List(items))
		w.P("")
		w.P("(* the table strings, as the bytes of the Go string constants *)")
		w.P("Definition c128_abTable : list Z := %s.", Str(code128.VerifABTable))
		w.P("Definition c128_aOnlyTable : list Z := %s.", Str(code128.VerifAOnlyTable))
		w.P("Definition c128_aTable : list Z := %s.", Str(code128.VerifATable))
		w.P("Definition c128_bTable : list Z := %s.", Str(code128.VerifBTable))
		w.P("")
		w.P("Definition c128_startA : Z := %s.", Z(int(code128.VerifStartA)))
		w.P("Definition c128_startB : Z := %s.", Z(int(code128.VerifStartB)))
		w.P("Definition c128_startC : Z := %s.", Z(int(code128.VerifStartC)))
		w.P("Definition c128_codeA : Z := %s.", Z(int(code128.VerifCodeA)))
		w.P("Definition c128_codeB : Z := %s.", Z(int(code128.VerifCodeB)))
		w.P("Definition c128_codeC : Z := %s.", Z(int(code128.VerifCodeC)))
		w.P("Definition c128_stop : Z := %s.", Z(int(code128.VerifStop)))
		w.P("")
		w.P("Definition c128_FNC1 : Z := %s.", Z(int(code128.FNC1)))
		w.P("Definition c128_FNC2 : Z := %s.", Z(int(code128.FNC2)))
		w.P("Definition c128_FNC3 : Z := %s.", Z(int(code128.FNC3)))
		w.P("Definition c128_FNC4 : Z := %s.", Z(int(code128.FNC4)))
	})
}
