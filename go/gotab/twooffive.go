package main

import (
	"sort"

	"github.com/boombuler/barcode/twooffive"
)

// twooffive/encoder.go: patternWidth, encodingTable, modes, nonInterleavedSpace
func init() {
	register("TabTwoOfFive", func(w *W) {
		w.P("Definition tof_pattern_width : Z := %s.", Z(twooffive.VerifPatternWidth))
		w.P("")
		t := twooffive.VerifEncodingTable()
		var items []string
		for _, r := range sortedRunes(t) {
			items = append(items, "("+Z(int(r))+", "+Bools(t[r])+")")
		}
		w.P("(* rune -> pattern (true = wide) *)")
		w.P("Definition tof_encoding_table : list (Z * list bool) :=\n  %s.", List(items))
		w.P("")
		ms := twooffive.VerifModes()
		var mitems []string
		for _, k := range []bool{false, true} {
			m, ok := ms[k]
			if !ok {
				continue
			}
			var ws []string
			bs := make([]bool, 0, len(m.Widths))
			for b := range m.Widths {
				bs = append(bs, b)
			}
			sort.Slice(bs, func(i, j int) bool { return !bs[i] && bs[j] })
			for _, b := range bs {
				ws = append(ws, "("+Bool(b)+", "+Z(m.Widths[b])+")")
			}
			mitems = append(mitems, "("+Bool(k)+", ("+Bools(m.Start)+", "+Bools(m.End)+", ["+joinSemi(ws)+"]))")
		}
		w.P("(* interleaved -> (start, end, widths: wide? -> modules) *)")
		w.P("Definition tof_modes : list (bool * (list bool * list bool * list (bool * Z))) :=\n  %s.", List(mitems))
		w.P("")
		w.P("Definition tof_non_interleaved_space : list bool := %s.", Bools(twooffive.VerifNonInterleavedSpace()))
	})
}

func joinSemi(items []string) string {
	s := ""
	for i, it := range items {
		if i > 0 {
			s += "; "
		}
		s += it
	}
	return s
}
