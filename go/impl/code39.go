package main

import (
	"strings"

	"github.com/boombuler/barcode/code39"
)

// c39 <cs 0|1> <full 0|1> <hex content>     -> describe(code39.Encode(...))
// c39ck <hex content>                       -> hex of getChecksum(content)
// c39prep <hex content>                     -> OK <hex of prepare(content)> | ERR
// u8d <hex>                                 -> runes of []rune(string) (decimal, comma separated)
// u8r <hex>                                 -> runes a `for range` visits (same format)
// u8e <rune>                                -> hex of string(rune(r))
func init() {
	register("c39", func(args []string) string {
		return describe(code39.Encode(string(unhex(args[2])), args[0] == "1", args[1] == "1"))
	})
	register("c39ck", func(args []string) string {
		return tohex([]byte(code39.VerifGetChecksum(string(unhex(args[0])))))
	})
	register("c39prep", func(args []string) string {
		s, err := code39.VerifPrepare(string(unhex(args[0])))
		if err != nil {
			return "ERR"
		}
		return "OK " + tohex([]byte(s))
	})
	showRunes := func(rs []rune) string {
		if len(rs) == 0 {
			return "-"
		}
		p := make([]string, len(rs))
		for i, r := range rs {
			p[i] = itoa(int(r))
		}
		return strings.Join(p, ",")
	}
	register("u8d", func(args []string) string {
		return showRunes([]rune(string(unhex(args[0]))))
	})
	register("u8r", func(args []string) string {
		var rs []rune
		for _, r := range string(unhex(args[0])) {
			rs = append(rs, r)
		}
		return showRunes(rs)
	})
	register("u8e", func(args []string) string {
		return tohex([]byte(string(rune(atoi(args[0])))))
	})
}
