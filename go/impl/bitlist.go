package main

import (
	"strings"
	"time"

	"github.com/boombuler/barcode/utils"
)

// bl <n> <op>... ; ops: a0 a1 (AddBit) y<byte> (AddByte) s<v>:<k> (AddBits)
// S<i>:<0|1> (SetBit) g<i> (GetBit) l (Len) b (GetBytes) i (IterateBytes) I (IterateBytes overlapping another iteration)
// output: one token per op ("-" none, T/F, int, hex) then "|" then the final
// sequence as 0/1 string read through GetBit.
func init() {
	register("bl", func(args []string) string {
		bl := utils.NewBitList(atoi(args[0]))
		var out []string
		for _, op := range args[1:] {
			switch op[0] {
			case 'a':
				bl.AddBit(op[1] == '1')
				out = append(out, "-")
			case 'A': // one variadic AddBit call with many bits: A<n>:<seed> (bit i = parity of popcount(i*seed+i>>3))
				p := strings.Split(op[1:], ":")
				n, seed := atoi(p[0]), atoi(p[1])
				bits := make([]bool, n)
				for i := range bits {
					bits[i] = batchBit(i, seed)
				}
				bl.AddBit(bits...)
				out = append(out, "-")
			case 'y':
				bl.AddByte(byte(atoi(op[1:])))
				out = append(out, "-")
			case 's':
				p := strings.Split(op[1:], ":")
				bl.AddBits(atoi(p[0]), byte(atoi(p[1])))
				out = append(out, "-")
			case 'S':
				p := strings.Split(op[1:], ":")
				bl.SetBit(atoi(p[0]), p[1] == "1")
				out = append(out, "-")
			case 'g':
				if bl.GetBit(atoi(op[1:])) {
					out = append(out, "T")
				} else {
					out = append(out, "F")
				}
			case 'l':
				out = append(out, itoa(bl.Len()))
			case 'b':
				out = append(out, tohex(bl.GetBytes()))
			case 'i':
				var bs []byte
				for b := range bl.IterateBytes() {
					bs = append(bs, b)
				}
				out = append(out, tohex(bs))
			case 'J': // IterateBytes drained only after a pause (the producer runs before the consumer is waiting)
				ch := bl.IterateBytes()
				time.Sleep(3 * time.Millisecond)
				var bs []byte
				for b := range ch {
					bs = append(bs, b)
				}
				out = append(out, tohex(bs))
			case 'I': // IterateBytes in lock step with the iteration of a second list of the same length
				other := utils.NewBitList(0)
				for _, b := range bl.GetBytes() {
					other.AddByte(^b)
				}
				ca, cb := bl.IterateBytes(), other.IterateBytes()
				var bs []byte
				for {
					x, ok1 := <-ca
					_, ok2 := <-cb
					if ok1 {
						bs = append(bs, x)
					}
					if !ok1 && !ok2 {
						break
					}
				}
				out = append(out, tohex(bs))
			default:
				panic("bad op")
			}
		}
		var sb strings.Builder
		for i := 0; i < bl.Len(); i++ {
			if bl.GetBit(i) {
				sb.WriteByte('1')
			} else {
				sb.WriteByte('0')
			}
		}
		return strings.Join(out, " ") + " | " + sb.String()
	})
}

// deterministic pseudo-random bit pattern shared with the OCaml driver
func batchBit(i, seed int) bool {
	x := (i*seed + (i >> 3) + seed) & 0xFFFF
	c := 0
	for x != 0 {
		c += x & 1
		x >>= 1
	}
	return c%2 == 1
}
