package main

import (
	"strconv"
	"strings"

	"github.com/boombuler/barcode/aztec"
	"github.com/boombuler/barcode/pdf417"
)

// ecx <encoder args...> : full describe() line of a 2-D encoder plus what the C12/C13 oracles need
// from the implementation's internals:  " | hl=<aztec high-level bit count>"  or
// " | dw=<pdf417 data codeword count>"
func init() {
	register("ecx", func(a []string) string {
		bc, err := encodeAny(a, nil)
		d := describe(bc, err)
		switch a[0] {
		case "az":
			return d + " | hl=" + strconv.Itoa(len(aztec.VerifHighLevel(unhex(a[3]))))
		case "pdf":
			w, e := pdf417.VerifHighLevel(string(unhex(a[2])))
			if e != nil {
				return d + " | dw=ERR"
			}
			return d + " | dw=" + strconv.Itoa(len(w))
		}
		return d + " | -"
	})
	// c13az <pct> <hex> : encode with automatic size, then request every compact (-4..-1) and
	// full-range (1..32) size explicitly; print the automatic size and, for every request, whether
	// it was accepted and the size it produced:  auto=<size> <req>:<size|E> ...
	register("c13az", func(a []string) string {
		data := unhex(a[1])
		pct := atoi(a[0])
		bc, err := aztec.Encode(data, pct, 0)
		if err != nil {
			return "ERR"
		}
		var sb strings.Builder
		sb.WriteString("auto=" + strconv.Itoa(bc.Bounds().Max.X))
		for req := -4; req <= 32; req++ {
			if req == 0 {
				continue
			}
			b2, e2 := aztec.Encode(data, pct, req)
			if e2 != nil {
				sb.WriteString(" " + strconv.Itoa(req) + ":E")
			} else {
				sb.WriteString(" " + strconv.Itoa(req) + ":" + strconv.Itoa(b2.Bounds().Max.X))
			}
		}
		return sb.String()
	})
}
