package main

import (
	"crypto/md5"
	"encoding/hex"
	"strconv"
	"strings"

	"github.com/boombuler/barcode/aztec"
	"github.com/boombuler/barcode/datamatrix"
	"github.com/boombuler/barcode/qr"
	"github.com/boombuler/barcode/utils"
)

var gfCache = map[string]*utils.GaloisField{}

func getField(pp, size, base string) *utils.GaloisField {
	k := pp + "," + size + "," + base
	if f, ok := gfCache[k]; ok {
		return f
	}
	f := utils.NewGaloisField(atoi(pp), atoi(size), atoi(base))
	gfCache[k] = f
	return f
}

func ints(s string) []int {
	if s == "-" {
		return []int{}
	}
	p := strings.Split(s, ",")
	r := make([]int, len(p))
	for i, x := range p {
		r[i] = atoi(x)
	}
	return r
}

func showInts(l []int) string {
	if len(l) == 0 {
		return "-"
	}
	p := make([]string, len(l))
	for i, x := range l {
		p[i] = strconv.Itoa(x)
	}
	return strings.Join(p, ",")
}

func md5hex(s string) string {
	h := md5.Sum([]byte(s))
	return hex.EncodeToString(h[:])
}

func safeDiv(f *utils.GaloisField, a, b int) (res string) {
	defer func() {
		if r := recover(); r != nil {
			res = "P"
		}
	}()
	return strconv.Itoa(f.Divide(a, b))
}

// window copies d into the front of a larger array whose tail holds a sentinel and returns the slice WITH spare
// capacity plus a check that neither the spare part nor the data itself was written (inputs of the polynomial
// and Reed-Solomon functions belong to the caller; append on them must not reach the caller's array)
func window(d []int) ([]int, func() bool) {
	const sentinel = 0x5A5A5A
	back := make([]int, len(d)+24)
	copy(back, d)
	for i := len(d); i < len(back); i++ {
		back[i] = sentinel
	}
	orig := append([]int(nil), d...)
	return back[:len(d)], func() bool {
		for i := range orig {
			if back[i] != orig[i] {
				return false
			}
		}
		for i := len(d); i < len(back); i++ {
			if back[i] != sentinel {
				return false
			}
		}
		return true
	}
}

func aliasMark(oks ...func() bool) string {
	for _, ok := range oks {
		if !ok() {
			return " CALLER-MEMORY-WRITTEN"
		}
	}
	return ""
}

func init() {
	// gfrow pp size base a : md5 of the Multiply row, md5 of the Divide row (b = 0 prints P), Invers(a)
	register("gfrow", func(a []string) string {
		f := getField(a[0], a[1], a[2])
		x := atoi(a[3])
		var m, d strings.Builder
		for b := 0; b < f.Size; b++ {
			m.WriteString(strconv.Itoa(f.Multiply(x, b)))
			m.WriteByte(',')
			d.WriteString(safeDiv(f, x, b))
			d.WriteByte(',')
		}
		return md5hex(m.String()) + " " + md5hex(d.String()) + " " + strconv.Itoa(f.Invers(x))
	})
	// gfop pp size base a b : Multiply Divide Invers(a) AddOrSub
	register("gfop", func(a []string) string {
		f := getField(a[0], a[1], a[2])
		x, y := atoi(a[3]), atoi(a[4])
		return strconv.Itoa(f.Multiply(x, y)) + " " + safeDiv(f, x, y) + " " + strconv.Itoa(f.Invers(x)) + " " + strconv.Itoa(f.AddOrSub(x, y))
	})
	// gfoplib <qr|dm|az4|az6|az8|az10|az12> a b : the field object the LIBRARY itself constructs
	register("gfoplib", func(a []string) string {
		var f *utils.GaloisField
		switch a[0] {
		case "qr":
			f = qr.VerifC17Encoder().VerifGF()
		case "dm":
			f = datamatrix.VerifC17Encoder().VerifGF()
		default:
			f = aztec.VerifC17Field(atoi(a[0][2:]))
		}
		x, y := atoi(a[1]), atoi(a[2])
		return strconv.Itoa(f.Multiply(x, y)) + " " + safeDiv(f, x, y) + " " + strconv.Itoa(f.Invers(x)) + " " + strconv.Itoa(f.AddOrSub(x, y))
	})
	// poly pp size base op p q
	register("poly", func(a []string) string {
		f := getField(a[0], a[1], a[2])
		pc, pok := window(ints(a[4]))
		qc, qok := window(ints(a[5]))
		p := utils.NewGFPoly(f, pc)
		q := utils.NewGFPoly(f, qc)
		switch a[3] {
		case "add":
			return showInts(p.AddOrSubstract(q).Coefficients) + aliasMark(pok, qok)
		case "mul":
			return showInts(p.Multiply(q).Coefficients) + aliasMark(pok, qok)
		case "div":
			qu, re := p.Divide(q)
			return showInts(qu.Coefficients) + " " + showInts(re.Coefficients) + aliasMark(pok, qok)
		case "mono":
			return showInts(p.MultByMonominal(q.Coefficients[0], q.Coefficients[len(q.Coefficients)-1]).Coefficients) + aliasMark(pok, qok)
		}
		return "BADOP"
	})
	// rs pp size base k1;k2;.. d1;d2;.. : a history of Encode calls on ONE fresh encoder
	register("rs", func(a []string) string {
		f := getField(a[0], a[1], a[2])
		rs := utils.NewReedSolomonEncoder(f)
		ks := strings.Split(a[3], ";")
		ds := strings.Split(a[4], ";")
		var out []string
		mark := ""
		for i := range ks {
			d, ok := window(ints(ds[i]))
			out = append(out, showInts(rs.Encode(d, atoi(ks[i]))))
			mark += aliasMark(ok)
		}
		return strings.Join(out, " ") + mark
	})
	// rslib qr|dm k1;.. d1;.. : the package-level encoder (its cache carries over between case lines)
	register("rslib", func(a []string) string {
		var rs *utils.ReedSolomonEncoder
		if a[0] == "qr" {
			rs = qr.VerifC17Encoder()
		} else {
			rs = datamatrix.VerifC17Encoder()
		}
		ks := strings.Split(a[1], ";")
		ds := strings.Split(a[2], ";")
		var out []string
		mark := ""
		for i := range ks {
			d, ok := window(ints(ds[i]))
			out = append(out, showInts(rs.Encode(d, atoi(ks[i]))))
			mark += aliasMark(ok)
		}
		return strings.Join(out, " ") + mark
	})
}
