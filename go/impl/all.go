package main

import (
	"crypto/md5"
	"encoding/hex"
	"image/color"
	"reflect"
	"strings"
	"sync"

	"github.com/boombuler/barcode"
	"github.com/boombuler/barcode/aztec"
	"github.com/boombuler/barcode/codabar"
	"github.com/boombuler/barcode/code128"
	"github.com/boombuler/barcode/code39"
	"github.com/boombuler/barcode/code93"
	"github.com/boombuler/barcode/datamatrix"
	"github.com/boombuler/barcode/ean"
	"github.com/boombuler/barcode/pdf417"
	"github.com/boombuler/barcode/qr"
	"github.com/boombuler/barcode/twooffive"
)

// encodeAny runs any public encoder entry point:
//
//	ean <hex> | codabar <hex> | c128 <hex> | c128n <hex> | c39 <cs> <full> <hex> | c93 <cs> <full> <hex>
//	tof <interleaved> <hex> | qr <level 0-3> <mode 0-3> <hex> | dm <hex> | az <pct> <layers> <hex> | pdf <level> <hex>
//
// scheme: nil = plain Encode, else the WithColor variant.
func encodeAny(a []string, scheme *barcode.ColorScheme) (barcode.Barcode, error) {
	b := func(s string) bool { return s == "1" }
	str := func(s string) string { return string(unhex(s)) }
	switch a[0] {
	case "ean":
		if scheme != nil {
			return ean.EncodeWithColor(str(a[1]), *scheme)
		}
		return ean.Encode(str(a[1]))
	case "codabar":
		if scheme != nil {
			return codabar.EncodeWithColor(str(a[1]), *scheme)
		}
		return codabar.Encode(str(a[1]))
	case "c128":
		if scheme != nil {
			return code128.EncodeWithColor(str(a[1]), *scheme)
		}
		return code128.Encode(str(a[1]))
	case "c128n":
		if scheme != nil {
			return code128.EncodeWithoutChecksumWithColor(str(a[1]), *scheme)
		}
		return code128.EncodeWithoutChecksum(str(a[1]))
	case "c39":
		if scheme != nil {
			return code39.EncodeWithColor(str(a[3]), b(a[1]), b(a[2]), *scheme)
		}
		return code39.Encode(str(a[3]), b(a[1]), b(a[2]))
	case "c93":
		if scheme != nil {
			return code93.EncodeWithColor(str(a[3]), b(a[1]), b(a[2]), *scheme)
		}
		return code93.Encode(str(a[3]), b(a[1]), b(a[2]))
	case "tof":
		if scheme != nil {
			return twooffive.EncodeWithColor(str(a[2]), b(a[1]), *scheme)
		}
		return twooffive.Encode(str(a[2]), b(a[1]))
	case "qr":
		if scheme != nil {
			return qr.EncodeWithColor(str(a[3]), qr.ErrorCorrectionLevel(atoi(a[1])), qr.Encoding(atoi(a[2])), *scheme)
		}
		return qr.Encode(str(a[3]), qr.ErrorCorrectionLevel(atoi(a[1])), qr.Encoding(atoi(a[2])))
	case "dm":
		if scheme != nil {
			return datamatrix.EncodeWithColor(str(a[1]), *scheme)
		}
		return datamatrix.Encode(str(a[1]))
	case "az":
		if scheme != nil {
			return aztec.EncodeWithColor(unhex(a[3]), atoi(a[1]), atoi(a[2]), *scheme)
		}
		return aztec.Encode(unhex(a[3]), atoi(a[1]), atoi(a[2]))
	case "pdf":
		if scheme != nil {
			return pdf417.EncodeWithColor(str(a[2]), byte(atoi(a[1])), *scheme)
		}
		return pdf417.Encode(str(a[2]), byte(atoi(a[1])))
	}
	panic("unknown encoder " + a[0])
}

func md5s(s string) string {
	h := md5.Sum([]byte(s))
	return hex.EncodeToString(h[:])
}

// short form of a describe() line: everything but the pixels, then md5 of the pixels
func shortDesc(d string) string {
	i := strings.LastIndex(d, " ")
	if !strings.HasPrefix(d, "OK") || i < 0 {
		return d
	}
	return d[:i] + " " + md5s(d[i+1:])
}

var testSchemes = map[string]barcode.ColorScheme{
	"8":     barcode.ColorScheme8,
	"16":    barcode.ColorScheme16,
	"24":    barcode.ColorScheme24,
	"32":    barcode.ColorScheme32,
	"rgba":  {Model: color.RGBAModel, Background: color.RGBA{10, 200, 30, 255}, Foreground: color.RGBA{250, 0, 90, 128}},
	"nrgba": {Model: color.NRGBAModel, Background: color.NRGBA{1, 2, 3, 4}, Foreground: color.NRGBA{200, 100, 50, 255}},
	"cmyk":  {Model: color.CMYKModel, Background: color.CMYK{0, 10, 20, 30}, Foreground: color.CMYK{255, 0, 0, 0}},
	"gray":  {Model: color.GrayModel, Background: color.Gray{40}, Foreground: color.Gray{200}},
	"inv":   {Model: color.Gray16Model, Background: color.Black, Foreground: color.White},
	// schemes whose colours are NOT values of their model (the contract says: pixels are exactly the scheme's colours)
	"mix1": {Model: color.RGBAModel, Background: color.White, Foreground: color.Black},
	"mix2": {Model: color.GrayModel, Background: color.RGBA{250, 240, 230, 255}, Foreground: color.RGBA{200, 0, 0, 255}},
	"mix3": {Model: color.CMYKModel, Background: color.RGBA{255, 255, 255, 255}, Foreground: color.NRGBA{0, 0, 255, 128}},
	"mix4": {Model: color.NRGBAModel, Background: color.Gray16{0xffff}, Foreground: color.RGBA{10, 20, 30, 40}},
	// a model that is not comparable / hashable (color.Palette is a slice): the usual choice for paletted (GIF) output
	"pal": {Model: color.Palette{color.RGBA{255, 255, 255, 255}, color.RGBA{200, 0, 0, 255}, color.RGBA{0, 0, 0, 255}},
		Background: color.RGBA{255, 255, 255, 255}, Foreground: color.RGBA{200, 0, 0, 255}},
}

// barcodes kept alive across case lines (hold / recheck): a returned barcode must be a snapshot,
// whatever is encoded afterwards
var held []barcode.Barcode
var heldMu sync.Mutex

func init() {
	// hold <encoder args...> : encode, keep the barcode, print its short description
	register("hold", func(a []string) string {
		bc, err := encodeAny(a, nil)
		if err == nil && bc != nil {
			heldMu.Lock()
			held = append(held, bc)
			heldMu.Unlock()
		}
		return shortDesc(describe(bc, err))
	})
	// recheck : short descriptions of all held barcodes, in order, joined by ';'
	register("recheck", func(a []string) string {
		heldMu.Lock()
		defer heldMu.Unlock()
		var out []string
		for _, bc := range held {
			out = append(out, shortDesc(describeBC(bc)))
		}
		return strings.Join(out, ";")
	})
	// rep <n> <encoder args...> : encode n times; SAME <short description> if all n results are
	// identical, else DIFF <first> <other>
	register("rep", func(a []string) string {
		n := atoi(a[0])
		first := ""
		for i := 0; i < n; i++ {
			bc, err := encodeAny(a[1:], nil)
			d := shortDesc(describe(bc, err))
			if i == 0 {
				first = d
			} else if d != first {
				return "DIFF call#1=" + first + " call#" + itoa(i+1) + "=" + d
			}
		}
		return "SAME " + first
	})
	// acc <encoder args...> : accessors only (kind, dims, bounds, content, checksum), no pixels
	register("acc", func(a []string) string {
		bc, err := encodeAny(a, nil)
		d := describe(bc, err)
		if i := strings.LastIndex(d, " "); strings.HasPrefix(d, "OK") && i > 0 {
			return d[:i]
		}
		return d
	})
	// accf <scheme> <encoder args...> : the rendering contract of the WithColor variant, judged in Go:
	//   px   every pixel is exactly the scheme's foreground or background
	//   model ColorModel() is the scheme's model;  scheme ColorScheme() is the scheme that was passed
	//   same the module pattern equals that of the plain Encode call;  plain16 plain Encode reports ColorScheme16
	//   acc  kind/dims/bounds/content/checksum equal those of the plain call
	register("accf", func(a []string) string {
		sch, ok := testSchemes[a[0]]
		if !ok {
			panic("unknown scheme")
		}
		pbc, perr := encodeAny(a[1:], nil)
		cbc, cerr := encodeAny(a[1:], &sch)
		pd, cd := describe(pbc, perr), describe(cbc, cerr)
		if !strings.HasPrefix(pd, "OK") || !strings.HasPrefix(cd, "OK") {
			if pd == cd {
				return pd
			}
			return "PLAIN=" + pd + " COLOR=" + cd
		}
		b2 := func(b bool) string {
			if b {
				return "1"
			}
			return "0"
		}
		pi, ci := strings.LastIndex(pd, " "), strings.LastIndex(cd, " ")
		cc, okc := cbc.(barcode.BarcodeColor)
		pc, okp := pbc.(barcode.BarcodeColor)
		return "OK px=" + b2(!strings.Contains(cd[ci:], "?") && !strings.Contains(pd[pi:], "?")) +
			" model=" + b2(reflect.DeepEqual(cbc.ColorModel(), sch.Model)) +
			" scheme=" + b2(okc && reflect.DeepEqual(cc.ColorScheme(), sch)) +
			" same=" + b2(pd[pi:] == cd[ci:]) +
			" plain16=" + b2(okp && pc.ColorScheme() == barcode.ColorScheme16 && pbc.ColorModel() == barcode.ColorScheme16.Model) +
			" acc=" + b2(pd[:pi] == cd[:ci]) +
			" min0=" + b2(cbc.Bounds().Min.X == 0 && cbc.Bounds().Min.Y == 0)
	})
	// enc <encoder args...> : short description (accessors + md5 of the module pattern)
	register("enc", func(a []string) string {
		bc, err := encodeAny(a, nil)
		return shortDesc(describe(bc, err))
	})
	// encfull <encoder args...> : full describe() line
	register("encfull", func(a []string) string {
		bc, err := encodeAny(a, nil)
		return describe(bc, err)
	})
	// encs <w> <h> <encoder args...> : encode then Scale
	register("encs", func(a []string) string {
		bc, err := encodeAny(a[2:], nil)
		if err != nil {
			return "ERR"
		}
		sc, err := barcode.Scale(bc, atoi(a[0]), atoi(a[1]))
		return shortDesc(describe(sc, err))
	})
}
