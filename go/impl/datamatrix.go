package main

import (
	"image/color"
	"strings"

	"github.com/boombuler/barcode"
	"github.com/boombuler/barcode/datamatrix"
)

func intList(is []int) string {
	if len(is) == 0 {
		return "-"
	}
	p := make([]string, len(is))
	for i, v := range is {
		p[i] = itoa(v)
	}
	return strings.Join(p, ",")
}

// colour schemes for the dmc tag: the four predefined ones and schemes over
// other colour models with non-default foreground / background
var dmSchemes = []barcode.ColorScheme{
	barcode.ColorScheme8,
	barcode.ColorScheme16,
	barcode.ColorScheme24,
	barcode.ColorScheme32,
	{Model: color.RGBAModel, Background: color.RGBA{10, 200, 30, 255}, Foreground: color.RGBA{250, 3, 77, 128}},
	{Model: color.NRGBAModel, Background: color.NRGBA{0, 0, 0, 255}, Foreground: color.NRGBA{255, 255, 255, 255}},
	{Model: color.CMYKModel, Background: color.CMYK{1, 2, 3, 4}, Foreground: color.CMYK{200, 100, 50, 25}},
	{Model: color.GrayModel, Background: color.Gray{Y: 0}, Foreground: color.Gray{Y: 255}},
	{Model: color.Gray16Model, Background: color.Gray16{Y: 12345}, Foreground: color.Gray16{Y: 54321}},
}

// dm <hex content>             : datamatrix.Encode, describe format
// dmc <scheme> <hex content>   : datamatrix.EncodeWithColor with dmSchemes[scheme], describe format
//                                (1/0 = the scheme's foreground/background, ? = any other colour)
// dmtext <hex content>         : encodeText codewords
// dmpad <n> <hex codewords>    : addPadding(codewords, n)
// dmecc <sizeIdx> <hex data>   : calcECC(data, codeSizes[sizeIdx])
// dmplace <sizeIdx>            : placement probe of SetValues (see VerifPlacement)
// dmsize <sizeIdx>             : codeSizes row and its region arithmetic
// dmrender <sizeIdx> <hex cws> : render(codewords, codeSizes[sizeIdx]), describe format
// dmnsizes                     : len(codeSizes)
func init() {
	register("dm", func(args []string) string {
		return describe(datamatrix.Encode(string(unhex(args[0]))))
	})
	register("dmc", func(args []string) string {
		sc := dmSchemes[atoi(args[0])]
		bc, err := datamatrix.EncodeWithColor(string(unhex(args[1])), sc)
		res := describe(bc, err)
		if bc != nil && err == nil {
			// ColorModel and ColorScheme must be the ones passed in
			if bc.ColorModel() != sc.Model {
				return res + " WRONGMODEL"
			}
			if c, ok := bc.(barcode.BarcodeColor); !ok || c.ColorScheme() != sc {
				return res + " WRONGSCHEME"
			}
		}
		return res
	})
	register("dmtext", func(args []string) string {
		return tohex(datamatrix.VerifEncodeText(string(unhex(args[0]))))
	})
	register("dmpad", func(args []string) string {
		return tohex(datamatrix.VerifAddPadding(unhex(args[1]), atoi(args[0])))
	})
	register("dmecc", func(args []string) string {
		return tohex(datamatrix.VerifCalcECC(unhex(args[1]), atoi(args[0])))
	})
	register("dmplace", func(args []string) string {
		return intList(datamatrix.VerifPlacement(atoi(args[0])))
	})
	register("dmsize", func(args []string) string {
		i := atoi(args[0])
		row := datamatrix.VerifCodeSizes()[i]
		d, pb := datamatrix.VerifSizeDerived(i)
		return intList(row[:]) + " " + intList(d[:]) + " " + intList(pb)
	})
	register("dmrender", func(args []string) string {
		return describeBC(datamatrix.VerifRender(unhex(args[1]), atoi(args[0])))
	})
	register("dmnsizes", func(args []string) string {
		return itoa(len(datamatrix.VerifCodeSizes()))
	})
}
