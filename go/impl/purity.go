package main

import (
	"bytes"

	"github.com/boombuler/barcode/aztec"
)

// alias <withcolor 0|1> <pct> <layers> <hex> : aztec is the only encoder that receives caller
// memory ([]byte).  Encode, check the input buffer is untouched, then overwrite every byte of
// the buffer and check that Content() and all pixels of the returned barcode are unchanged.
func init() {
	register("alias", func(a []string) string {
		data := unhex(a[3])
		orig := append([]byte(nil), data...)
		var d1 string
		bc, err := aztec.Encode(data, atoi(a[1]), atoi(a[2]))
		if a[0] == "1" {
			s := testSchemes["rgba"]
			bc, err = aztec.EncodeWithColor(data, atoi(a[1]), atoi(a[2]), s)
		}
		if !bytes.Equal(data, orig) {
			return "INPUT-MODIFIED"
		}
		if err != nil {
			return "ERR"
		}
		d1 = describe(bc, err)
		for i := range data {
			data[i] ^= 0xFF
		}
		d2 := describe(bc, err)
		if d1 != d2 {
			return "CHANGED-AFTER-MUTATION " + shortDesc(d1) + " -> " + shortDesc(d2)
		}
		if bc.Content() != string(orig) {
			return "CONTENT-NOT-SNAPSHOT"
		}
		return "SNAPSHOT " + shortDesc(d1)
	})
}
