package main

import (
	"bytes"

	"github.com/boombuler/barcode/aztec"
)

// alias <withcolor 0|1> <pct> <layers> <hex> : aztec is the only encoder that receives caller
// memory ([]byte).  Encode, check the input buffer is untouched, then overwrite every byte of
// the buffer and check that Content() and all pixels of the returned barcode are unchanged.
func init() {
	register("alias", func(a []string) string {
		payload := unhex(a[3])
		// the payload is a sub-slice of a larger live buffer: guard bytes before and after it,
		// and spare capacity behind it, as when several messages are packed into one []byte
		buf := make([]byte, 0, len(payload)+24)
		buf = append(buf, 0xA5, 0x5A, 0xA5, 0x5A)
		buf = append(buf, payload...)
		buf = append(buf, 0xC3, 0x3C, 0xC3, 0x3C, 0xC3, 0x3C, 0xC3, 0x3C)
		whole := buf[:cap(buf)]
		for i := len(buf); i < cap(buf); i++ {
			whole[i] = 0x77
		}
		orig := append([]byte(nil), whole...)
		data := buf[4 : 4+len(payload)] // len = payload, cap reaches to the end of the buffer
		var d1 string
		bc, err := aztec.Encode(data, atoi(a[1]), atoi(a[2]))
		if a[0] == "1" {
			s := testSchemes["rgba"]
			bc, err = aztec.EncodeWithColor(data, atoi(a[1]), atoi(a[2]), s)
		}
		if !bytes.Equal(whole, orig) {
			return "INPUT-MODIFIED (caller's backing array changed, inside or beyond the argument)"
		}
		if err != nil {
			return "ERR"
		}
		d1 = describe(bc, err)
		for i := range whole {
			whole[i] ^= 0xFF
		}
		d2 := describe(bc, err)
		if d1 != d2 {
			return "CHANGED-AFTER-MUTATION " + shortDesc(d1) + " -> " + shortDesc(d2)
		}
		if bc.Content() != string(payload) {
			return "CONTENT-NOT-SNAPSHOT"
		}
		return "SNAPSHOT " + shortDesc(d1)
	})
}
